"""Generators for the engineering envelope E (see DESIGN.md section 2).

Every random choice derives from the `random.Random` instance handed in, so a run replays
exactly from VERIF_SEED.
"""
import math
import random

EPS = 4.5e-5
FRESH = None  # filled lazily: (nu, rhol) of the slurry object's 'fresh' water
SALT = (1.0508e-6, 1.0248103)


def fluids():
    global FRESH
    if FRESH is None:
        from DHLLDV import DHLLDV_constants as K
        FRESH = (K.water_viscosity[20], K.water_density[20])
    return {'fresh': FRESH, 'salt': SALT}


def dlim(Dp, nu, rhol, rhos):
    return (0.03 * 9. * rhol * nu * Dp / (rhos * 7.5 * Dp ** 0.4)) ** 0.5


def loguniform(rng, lo, hi):
    return math.exp(rng.uniform(math.log(lo), math.log(hi)))


def pick_fluid(rng):
    r = rng.random()
    if r < 0.2:
        return fluids()['fresh']
    if r < 0.4:
        return SALT
    if r < 0.5:
        return (rng.choice([0.8e-6, 1.4e-6]), rng.choice([0.99, 1.03]))
    return (rng.uniform(0.8e-6, 1.4e-6), rng.uniform(0.99, 1.03))


TAB_SPEEDS = [(i + 1) / 10. for i in range(100)]


def pick_vls(rng, lo=0.1, hi=10.0):
    r = rng.random()
    if r < 0.45:
        v = rng.choice(TAB_SPEEDS)
        if lo <= v <= hi:
            return v
    if r < 0.55:
        return rng.choice([lo, hi])
    if r < 0.8:
        return loguniform(rng, lo, hi)
    return rng.uniform(lo, hi)


def pick_Dp(rng):
    r = rng.random()
    if r < 0.1:
        return rng.choice([0.1, 1.2])
    if r < 0.3:
        return rng.choice([0.1524, 0.2032, 0.3, 0.4, 0.5, 0.6, 0.65, 0.7, 0.762, 0.8636, 0.9, 1.0])
    return rng.uniform(0.1, 1.2)


def pick_d(rng, Dp, nu, rhol, rhos, dmax_ratio=0.25):
    lo = max(dlim(Dp, nu, rhol, rhos), 5e-5)
    hi = dmax_ratio * Dp
    r = rng.random()
    if r < 0.06:
        return lo
    if r < 0.12:
        return hi
    if r < 0.24:
        # the sliding-flow onset d/Dp = 0.015: exactly, and one ulp / 1e-7 either side
        t = 0.015 * Dp
        return min(hi, max(lo, rng.choice([t, math.nextafter(t, 0), math.nextafter(t, 1), t * (1 - 1e-7), t * (1 + 1e-7)])))
    if r < 0.30:
        t = 0.002   # drough in LDV
        return min(hi, max(lo, rng.choice([t, math.nextafter(t, 0), math.nextafter(t, 1)])))
    return loguniform(rng, lo, hi)


def pick_Cv(rng, lo=0.02, hi=0.45):
    r = rng.random()
    if r < 0.1:
        return rng.choice([lo, hi])
    if r < 0.3:
        return rng.choice([0.05, 0.1, 0.15, 0.175, 0.2, 0.25, 0.3, 0.35, 0.4])
    return rng.uniform(lo, hi)


def pick_rhos(rng):
    r = rng.random()
    if r < 0.1:
        return rng.choice([2.0, 4.0])
    if r < 0.35:
        return 2.65
    return rng.uniform(2.0, 4.0)


def point(rng, vls_lo=0.1, vls_hi=10.0, dmax_ratio=0.25, cv_hi=0.45):
    """One uniform-sand tuple (vls, Dp, d, epsilon, nu, rhol, rhos, Cv) in E."""
    nu, rhol = pick_fluid(rng)
    Dp = pick_Dp(rng)
    rhos = pick_rhos(rng)
    d = pick_d(rng, Dp, nu, rhol, rhos, dmax_ratio)
    Cv = pick_Cv(rng, hi=cv_hi)
    vls = pick_vls(rng, vls_lo, vls_hi)
    return (vls, Dp, d, EPS, nu, rhol, rhos, Cv)


def slurry_params(rng):
    """(Dp, fluid, rhos, Cv, D50, r15, r85) for a slurry object in E:
    D15<D50<D85 with ratios in (1.02, 6], D85 <= 0.5 Dp, D50 above the limit and <= 0.25 Dp."""
    while True:
        fluid = rng.choice(['fresh', 'salt'])
        nu, rhol = fluids()[fluid]
        Dp = pick_Dp(rng)
        rhos = pick_rhos(rng)
        Cv = pick_Cv(rng)
        lo = max(dlim(Dp, nu, rhol, rhos), 5e-5) * 1.0001
        hi = 0.25 * Dp
        D50 = loguniform(rng, lo, hi) if rng.random() > 0.1 else rng.choice([lo, hi])
        r15 = loguniform(rng, 1.02, 6.0) if rng.random() > 0.1 else rng.choice([1.0201, 6.0])
        r85 = loguniform(rng, 1.02, 6.0) if rng.random() > 0.1 else rng.choice([1.0201, 6.0])
        if D50 * r85 <= 0.5 * Dp:
            return dict(Dp=Dp, fluid=fluid, rhos=rhos, Cv=Cv, D50=D50, r15=r15, r85=r85)


def make_slurry(p, max_index=100):
    from DHLLDV.SlurryObj import Slurry
    s = Slurry(Dp=p['Dp'], D50=p['D50'], fluid=p['fluid'], Cv=p['Cv'], max_index=max_index)
    s.rhos = p['rhos']
    s.generate_GSD(d15_ratio=p['r15'], d85_ratio=p['r85'])
    return s


def edit_to(s, p, rng, read=True):
    """Bring an existing slurry object to parameter set `p` through its setters (random order), optionally reading
    derived data in between.  Intermediate states stay in E as long as D50 of both ends is above the limit of
    both pipes (the caller picks compatible ends); returns the list of operations applied."""
    ops = [('Dp', p['Dp']), ('fluid', p['fluid']), ('rhos', p['rhos']), ('Cv', p['Cv']), ('D50', p['D50']),
           ('generate_GSD', (p['r15'], p['r85']))]
    rng.shuffle(ops)
    # the grading shape must be set after the last D50 / before reads: generate_GSD with explicit ratios goes last
    ops.sort(key=lambda o: o[0] == 'generate_GSD')
    log = []
    for name, val in ops:
        if read and rng.random() < 0.5:
            _ = s.im_curves
            log.append('read im_curves')
        if name == 'generate_GSD':
            s.generate_GSD(d15_ratio=val[0], d85_ratio=val[1])
        else:
            setattr(s, name, val)
        log.append(f'{name}={val}')
    return log
