"""MANIFEST.setup_cmd: regenerate the model from /repo and build every proof module once (offline)."""
import glob
import os
import sys

from common import regenerate, lake_build, LEAN_DIR

ok, msg = regenerate()
print(msg)
if not ok:
    print('setup: translator failed (checks will report it)')
mods = ['Dhlldv'] + sorted('Dhlldv.Props.' + os.path.basename(p)[:-5] for p in glob.glob(os.path.join(LEAN_DIR, 'Dhlldv', 'Props', '*.lean')))
ok, log = lake_build(mods)
print(log[-3000:])
# a failing proof here is reported by the check of that property, not by setup
sys.exit(0)
