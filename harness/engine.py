"""Check engine: runs the six steps of DESIGN.md §3.4 for one property and applies the verdict rules of §3.5."""
import contextlib
import importlib
import io
import json
import os
import re
import sys
import time
import traceback

from common import (VERIF, LEAN_DIR, Ctx, regenerate, lake_build, audit, load_known, write_json, TRUSTED_BASE,
                    ModelError)


def first_error(log):
    for l in log.splitlines():
        if l.startswith('error:') and ('Dhlldv/' in l or 'Driver' in l):
            return l[:400]
    for l in log.splitlines():
        if 'error' in l.lower():
            return l[:400]
    return log[-400:]


def is_obligation_failure(log):
    """a Lean error located in our sources (a definition or proof no longer checks) as opposed to a tool failure"""
    return bool(re.search(r'error: (\./)?Dhlldv/|error: (\./)?Driver\.lean|py2lean: cannot translate|effects: cannot', log))


def match_known(pid, v, known):
    for f in known.get('findings', []):
        if f['property'] == pid and f['key'] == v.get('key'):
            return f
    return None


def run_check(pid, tier, seed, replay=None):
    mod = importlib.import_module('props.' + pid.lower())
    ctx = Ctx(pid, tier, seed)
    ev_path = os.path.join(VERIF, 'evidence', f'{pid}.json')
    if os.path.exists(ev_path):
        os.remove(ev_path)
    old_rp = os.path.join(VERIF, 'replays', f'{pid}-{tier}-{seed}.json')
    if os.path.exists(old_rp):
        os.remove(old_rp)
    broken = []          # names of ties/theorems that no longer check
    tool_failure = None
    report = {}

    # ---- step 1: regenerate the model from the working tree
    ok_regen, msg = regenerate()
    ctx.notes.append(msg.strip().splitlines()[-1] if msg.strip() else '')
    gen_ok = ok_regen
    if not ok_regen:
        if is_obligation_failure(msg):
            broken.append({'tie': 'T', 'what': 'translator rejects the source', 'detail': msg.strip()[-400:]})
        else:
            tool_failure = 'py2lean failed: ' + msg[-400:]

    # ---- step 2: build model + proofs
    proofs_ok = False
    model_ok = False
    if gen_ok and not tool_failure:
        ok, log = lake_build(['Dhlldv'])
        model_ok = ok
        if not ok:
            if is_obligation_failure(log):
                broken.append({'tie': 'T', 'what': 'generated model does not compile', 'detail': first_error(log)})
            else:
                tool_failure = 'lake build Dhlldv failed: ' + log[-400:]
    if model_ok:
        ok, log = lake_build(mod.LEAN_MODULES)
        proofs_ok = ok
        if not ok:
            if is_obligation_failure(log):
                broken.append({'tie': 'T', 'what': 'proof obligation no longer checks', 'detail': first_error(log)})
            else:
                tool_failure = 'lake build failed: ' + log[-400:]

    # ---- step 3: audit
    audit_rep = {'theorems': [], 'axioms': {}}
    if proofs_ok:
        ok, audit_rep = audit(mod.PROP_MODULES, pid)
        if not ok:
            if audit_rep.get('forbidden') or any(set(a) - {'propext', 'Classical.choice', 'Quot.sound'}
                                                 for a in audit_rep.get('axioms', {}).values()):
                broken.append({'tie': 'audit', 'what': 'forbidden construct or axiom', 'detail': json.dumps(audit_rep)[:400]})
            else:
                tool_failure = 'axiom audit failed to run: ' + str(audit_rep.get('raw', ''))[-400:]
            proofs_ok = False

    # ---- step 3b (thorough): independent re-check of the compiled proof modules by leanchecker
    if proofs_ok and tier == 'thorough':
        from common import LakeLock, sh
        with LakeLock():
            rc_lc, out_lc = sh('lake env leanchecker ' + ' '.join(mod.PROP_MODULES), cwd=LEAN_DIR, timeout=3000)
        report['leanchecker'] = 'ok' if rc_lc == 0 else out_lc[-400:]
        if rc_lc != 0:
            broken.append({'tie': 'audit', 'what': 'leanchecker rejects a compiled proof module', 'detail': out_lc[-400:]})
            proofs_ok = False

    # ---- step 4: correspondence (implementation vs executable model)
    corr_ok = True
    if model_ok and not tool_failure:
        try:
            with contextlib.redirect_stdout(io.StringIO()):     # the implementation prints warnings; keep our stdout for verdict lines
                mod.correspondence(ctx)
        except ModelError as e:
            if 'bad-op' in str(e):
                # the regenerated model no longer accepts the protocol line of this check: the signature of a generated function changed with the
                # source. That is a broken tie (the correspondence cannot be established), not a failure of the tooling.
                corr_ok = False
                broken.append({'tie': 'X', 'what': 'the regenerated model rejects the protocol line of the correspondence (signature of a modelled function changed)',
                               'detail': str(e)[-400:]})
            else:
                tool_failure = 'model driver failed: ' + str(e)[-400:]
        except Exception:
            ctx.mismatch('correspondence harness raised', None, None, traceback.format_exc()[-800:])
        if ctx.mismatches:
            corr_ok = False
            broken.append({'tie': 'X', 'what': 'implementation and executable model disagree',
                           'detail': json.dumps(ctx.mismatches[0], default=str)[:600]})

    # ---- step 5: property oracle on the real code (always)
    try:
        with contextlib.redirect_stdout(io.StringIO()):
            mod.monitor(ctx, extended=bool(broken))
    except Exception:
        ctx.violation('monitor raised: ' + traceback.format_exc()[-800:], None, key='monitor-raised')

    # ---- step 6: verdict
    known = load_known()
    out_lines = []
    rc = 0
    os.makedirs(os.path.join(VERIF, 'replays'), exist_ok=True)
    new_violations = []
    seen_known = set()
    # replay the witness of every listed finding on every run
    for kf in known.get('findings', []):
        if kf['property'] == pid and hasattr(mod, 'replay_known'):
            try:
                with contextlib.redirect_stdout(io.StringIO()):
                    still = mod.replay_known(kf)
            except Exception:
                still = True
            if still:
                out_lines.append(f"KNOWN-FINDING: property={pid} {kf['what']}")
                seen_known.add(kf['key'])
            else:
                ctx.notes.append(f"listed finding {kf['key']} no longer reproduces on its witness")
    for v in ctx.violations:
        kf = match_known(pid, v, known)
        if kf:
            if kf['key'] not in seen_known:
                out_lines.append(f"KNOWN-FINDING: property={pid} {kf['what']}")
                seen_known.add(kf['key'])
        else:
            new_violations.append(v)
    if new_violations:
        rp = os.path.join(VERIF, 'replays', f'{pid}-{tier}-{seed}.json')
        write_json(rp, {'property': pid, 'seed': seed, 'tier': tier, 'violations': new_violations, 'broken': broken})
        out_lines.append(f'VIOLATION property={pid} replay={os.path.relpath(rp, VERIF)}')
        rc = 1
    elif broken and not tool_failure:
        # no failing input found. Second tie?
        second = False
        if hasattr(mod, 'second_tie'):
            try:
                second = mod.second_tie(ctx, broken)
            except Exception:
                ctx.notes.append('second tie raised: ' + traceback.format_exc()[-300:])
        if second:
            ctx.notes.append('property still shown by the second tie; broken: ' + '; '.join(b['what'] for b in broken))
        else:
            rp = os.path.join(VERIF, 'replays', f'{pid}-{tier}-{seed}.json')
            write_json(rp, {'property': pid, 'seed': seed, 'tier': tier, 'violations': [], 'broken': broken,
                            'note': 'no failing input found; the named theorem / correspondence no longer checks'})
            out_lines.append(f'VIOLATION property={pid} replay={os.path.relpath(rp, VERIF)} no-failing-input-found')
            rc = 1
    if tool_failure and rc == 0:
        out_lines.append(f'TOOL-FAILURE property={pid}: {tool_failure}')
        rc = 2

    thms = audit_rep.get('theorems', [])
    obligations = len(thms) if thms else len(getattr(mod, 'EXPECTED_THEOREMS', [])) or 1
    discharged = len(thms) if proofs_ok else 0
    cov = {
        'obligations': obligations,
        'discharged': discharged,
        'checker_cmd': f'cd lean && lake build {" ".join(mod.LEAN_MODULES)} && lake env lean .audit/Audit_{pid}.lean  (#print axioms)',
        'trusted_base': TRUSTED_BASE + getattr(mod, 'TRUSTED_EXTRA', []),
        'theorems': thms,
        'axioms_used': sorted({a for ax in audit_rep.get('axioms', {}).values() for a in ax}),
        'evaluations': int(ctx.stats.get('evaluations', 0)),
        'distinct_nontrivial': int(ctx.stats.get('distinct_nontrivial', 0)),
        'rule': getattr(mod, 'RULE', ''),
        'samples': ctx.samples or [None],
        'traces_validated_against_impl': int(ctx.stats.get('corr_compared', 0)),
        'stats': ctx.stats,
        'ties_broken': broken,
        'notes': ctx.notes,
        'leanchecker': report.get('leanchecker', 'not run (quick tier)'),
        'clauses_proved': getattr(mod, 'PROVED', []),
        'clauses_hypothesis': getattr(mod, 'HYPOTHESES', []),
        'clauses_monitored_only': getattr(mod, 'MONITORED', []),
        'known_findings_reported': sorted(seen_known),
    }
    if discharged == 0:
        # schema: a proof-level coverage block needs discharged >= 1; report the broken state with the generic keys instead
        cov['discharged_count'] = cov.pop('discharged')
        cov['evaluations'] = max(cov['evaluations'], 1)
        cov['distinct_nontrivial'] = max(cov['distinct_nontrivial'], 2)
    ev = {'property_id': pid, 'tier': tier, 'seed': seed, 'level': 'proof', 'coverage': cov,
          'assumptions': TRUSTED_BASE + getattr(mod, 'TRUSTED_EXTRA', []) + getattr(mod, 'ASSUMPTIONS', []),
          'wall_s': round(time.time() - ctx.t0, 2), 'violations': len(new_violations) + (1 if rc == 1 and not new_violations else 0)}
    write_json(ev_path, ev)
    for l in out_lines:
        print(l)
    print(f'{pid} {tier} seed={seed}: proofs {"ok" if proofs_ok else "NOT ok"} ({discharged}/{obligations}), '
          f'correspondence compared={ctx.stats.get("corr_compared", 0)} mismatches={len(ctx.mismatches)}, '
          f'monitor evaluations={ctx.stats.get("evaluations", 0)} violations={len(ctx.violations)}, '
          f'{ev["wall_s"]} s -> exit {rc}')
    return rc


def main(argv):
    import argparse
    ap = argparse.ArgumentParser()
    ap.add_argument('pid')
    ap.add_argument('--tier', default=os.environ.get('VERIF_TIER', 'quick'))
    ap.add_argument('--replay')
    a = ap.parse_args(argv)
    seed = int(os.environ.get('VERIF_SEED', '0') or 0)
    if a.replay:
        mod = importlib.import_module('props.' + a.pid.lower())
        data = json.load(open(a.replay))
        bad = 0
        for v in data.get('violations', []):
            r = mod.replay(v) if hasattr(mod, 'replay') else None
            print('replay', v.get('what'), '->', r)
            bad += 1 if r else 0
        return 1 if bad else 0
    return run_check(a.pid, a.tier, seed)


if __name__ == '__main__':
    sys.exit(main(sys.argv[1:]))
