"""C16 — malformed workbooks are rejected with InvalidExcelError and nothing else."""
import shutil
import tempfile

import xlgen as X
from common import run_model

ID = 'C16'
LEAN_MODULES = ['Dhlldv.Props.C16']
PROP_MODULES = ['Dhlldv.Props.C16']
TIE = ('tie A: the excel_requireds table, the exception classes the validator converts and the two load-time checks are extracted from load_pump_excel.py on every run; '
       'tie X: the outcome class (loads / InvalidExcelError / other exception) of the real loader is compared with the Lean workbook model on every single fault '
       'of every workbook (exhaustive per workbook)')
TECHNIQUE = 'Lean 4 proof over an abstract workbook model parametrised by tables extracted from the source + exhaustive single-fault correspondence'
PROVED = ['the loader model returns a pipeline or InvalidExcelError, never another exception (for every workbook whose table names are ranges)',
          'it loads iff every check passes; each listed fault (missing tab, missing defined name, blank / non-numeric numeric field, missing or duplicated column, '
          'curve-limited pump without driver tab, pump reference without tab) makes one check fail, hence is rejected with InvalidExcelError',
          'the conversions the theorems assume are present in the current source (extracted flags, by evaluation)']
HYPOTHESES = []
MONITORED = ['openpyxl itself (how a missing key / odd cell surfaces); faults outside the listed kinds (e.g. a non-numeric cell inside a table)']
RULE = ('every single structural fault (delete each sheet / defined name / required column; duplicate each required column; blank / stringify each numeric field; dangling pump '
        'reference in 5 spellings) applied to the shipped example workbook and to workbooks written by store_to_excel for generated pipelines; exhaustive per workbook; '
        'non-trivial = faults applied')
ASSUMPTIONS = ['deleting a column = removing it from the named range; a driver tab is required exactly for curve-limited pumps']


def books(ctx):
    X.requireds()       # the documented format, read before anything is stored or loaded
    tmp = tempfile.mkdtemp(prefix='c16_')
    out = [('shipped example', X.load_example())]
    try:
        # the first stored workbooks have fixed pump trains: one curve-limited pump (own driver tab), two of them, a torque-limited pump between two of them,
        # a pump without a driver limit ('None', the fourth documented value of Pump.limited) before a power-limited one, a curve-limited pump followed by a copy
        # of itself on an equal drive
        trains = [('curve',), ('curve', 'curve'), ('curve', 'torque', 'curve'), ('None', 'power'), ('curve', 'twin')]
        for i in range(ctx.n(1, 60) + len(trains)):
            try:
                pl, path, wb = X.stored_workbook(ctx.rng, tmp, modes=trains[i] if i < len(trains) else None)
                # (the trains added later carry ', ' in their label: like the variants below they get the unfaulted load plus a sample of 30 faults in the quick tier)
                out.append((f'stored #{i}' + (f' (pumps: {"+".join(trains[i])})' if i < len(trains) else '') + (', later train' if 3 <= i < len(trains) else ''), wb))
            except Exception:   # noqa
                continue
    finally:
        shutil.rmtree(tmp, ignore_errors=True)
    # the same workbooks with a pump tab whose title has the word 'pump' in the middle (the loader takes every tab with 'pump' in its title)
    for (label, wb), style in zip(list(out)[:ctx.n(3, 12)], ['Pump 1', 'Booster pump (spare)', 'pump no 2', 'Pump 1']):
        try:
            v = X.retitled(wb, style)
        except Exception:   # noqa
            v = None
        if v is not None:
            out.append((f'{label}, a pump tab retitled {style!r}', v))
    for label, wb in list(out)[:ctx.n(3, 12)]:
        try:
            v = X.upper_titles(wb)
        except Exception:   # noqa
            v = None
        if v is not None:
            out.append((f'{label}, pump / driver tab titles in upper case', v))
    # tab order carries no meaning: the same workbooks with a pump tab / a driver tab first, and with all tabs reversed
    for label, wb in list(out)[:ctx.n(3, 12)]:
        for what, mk in (('a pump tab moved to the front', lambda w: X.tab_first(w, 'pump')), ('a driver tab moved to the front', lambda w: X.tab_first(w, 'driver')),
                         ('tabs in reverse order', X.tabs_reversed)):
            try:
                v = mk(wb)
            except Exception:   # noqa
                v = None
            if v is not None:
                out.append((f'{label}, {what}', v))
    return out


def run(ctx, compare_model):
    lines, metas = [], []
    for label, wb in books(ctx):
        fl_ = X.faults(wb)
        if not ctx.thorough and ', ' in label and len(fl_) > 30:
            # variants of a workbook (retitled tabs, tab order): every fault in the thorough tier, a sample of 30 in the quick tier (the base workbooks get all)
            fl_ = ctx.rng.sample(fl_, 30)
        cases = [('no fault', (lambda w: None), 'load')] + fl_
        for flabel, mut, expect in cases:
            w = X.clone_wb(wb)
            try:
                mut(w)
            except Exception as e:   # noqa
                continue
            got, _ = X.outcome(w)
            metas.append((label, flabel, expect, got))
            if compare_model:
                lines.append('spec.wbload ' + ' '.join(X.abstract(w)))
    return lines, metas


def correspondence(ctx):
    lines, metas = run(ctx, True)
    outs = run_model(lines)
    for (label, flabel, expect, got), o in zip(metas, outs):
        ctx.count('corr_compared')
        if o != got:
            ctx.mismatch('loader outcome differs from the workbook model', {'workbook': label, 'fault': flabel}, o, got)
    ctx.sample({'workbook': metas[1][0], 'fault': metas[1][1], 'outcome': metas[1][3]})
    ctx.stats['c16_cases'] = [m[:4] for m in metas]


def monitor(ctx, extended=False):
    metas = ctx.stats.pop('c16_cases', None)
    if metas is None:
        _, metas = run(ctx, False)
    n = 0
    for label, flabel, expect, got in metas:
        ctx.count('evaluations')
        n += 1
        if expect == 'reject' and got != 'InvalidExcelError':
            ctx.violation(f'{flabel}: loader outcome {got}, expected InvalidExcelError', {'workbook': label, 'fault': flabel}, key='not-rejected')
        if expect == 'load' and got != 'ok':
            ctx.violation(f'{flabel}: well-formed workbook not loaded ({got})', {'workbook': label, 'fault': flabel}, key='not-loaded')
    ctx.stats['distinct_nontrivial'] = n
