"""C11 — pump points obey the affinity laws and never exceed the driver or the set speed."""
import copy
import math
import signal

import envelope as E
import pipegen as G
from common import run_model, enc, unbits, same_float, rel_close, is_real_finite, tie_equal

ID = 'C11'
LEAN_MODULES = ['Dhlldv.Props.C11']
PROP_MODULES = ['Dhlldv.Props.C11']
TIE = ('hand-written executable Lean model of Pump.power_required / power_available / point and the torque and power speed searches (Spec.Pump), compared '
       'bit-for-bit with the implementation; the bracketed scipy solve of the curve mode is not modelled - its result is handed to the model')
TECHNIQUE = 'Lean 4 proof over an executable model of the pump point + bit-exact correspondence; independent affinity-law / power-balance oracle on the real code'
PROVED = ['returned flow = requested flow; head and power are the affinity scalings of the design curves at the RETURNED speed and pumped density (all four limit modes)',
          'speed = set speed whenever the driver can supply the required power there, or the pump is not limited',
          'torque and power modes: on exit of the search |available - required power| < 0.1 kW at the returned speed (induction over the iteration budget)']
HYPOTHESES = []
MONITORED = ['termination of the speed searches (the model returns "none" on budget exhaustion; the implementation is run under a timeout)',
             'returned speed <= set speed; curve-mode power balance (bracketed scipy solve); behaviour at the driver minimum speed',
             'querying a point leaves the pump unchanged (attribute snapshot before/after on the real object)']
RULE = ('4 shipped pumps x 4 limit modes x flows 0.02-1.0 of the curve range x set speeds 0.6-1.0 of design x trims 0.8-1.0 x available power 0.3-1.5 of nameplate x '
        'gear ratios {1,2,4.5} x three driver-curve shapes x water / slurry densities, incl. density changes between queries at the same flow; '
        'non-trivial = distinct (pump, mode, limited-or-not, water) classes')
ASSUMPTIONS = ['scipy.optimize.root_scalar with a bracket is not modelled (its result is an input of the model)']

MODES = {'None': 0, 'none': 0, 'torque': 1, 'power': 2, 'curve': 3}


class Timeout(Exception):
    pass


def _alarm(signum, frame):
    raise Timeout()


def gen_pump(rng):
    pumps = G.example_pumps()
    name = rng.choice(sorted(pumps))
    base = pumps[name]
    mode = rng.choice(['torque', 'power', 'curve', 'None'])
    stratum = rng.random() < 0.2      # curve mode at a clearly reduced set speed (the driver curve is then entered from below its top node)
    if stratum:
        mode = 'curve'
    over = {'limited': mode, 'avail_power': base.avail_power * rng.uniform(0.3, 1.5)}
    if mode == 'curve':
        gr = rng.choice([1.0, 2.0, 4.5])
        over['gear_ratio'] = gr
        over['driver'] = G.make_driver(rng, base, gr, nameplate=over['avail_power'])
        over['driver_name'] = over['driver'].name
    p = G.clone_pump(base, **over)
    p._example = name
    sp = E.slurry_params(rng)
    p.slurry = E.make_slurry(sp)
    p._sp = sp
    p.current_speed = p.design_speed * (rng.uniform(0.6, 0.75) if stratum else rng.choice([1.0, 1.0, rng.uniform(0.6, 1.0)]))
    p.current_impeller = p.design_impeller * rng.choice([1.0, 1.0, rng.uniform(0.8, 1.0)])
    return p


def gen_Q(rng, p):
    qmax = max(p.design_QH_curve.keys())
    return qmax * (rng.uniform(0.5, 1.0) if rng.random() < 0.3 else rng.uniform(0.02, 1.0))


def table_tokens(t, lo=None, hi=None):
    ks = sorted(t.keys())
    lo = t.extrapolate_low if lo is None else lo
    hi = t.extrapolate_high if hi is None else hi
    return [enc(bool(lo)), enc(bool(hi)), str(len(ks))] + [enc(float(x)) for k in ks for x in (k, dict.__getitem__(t, k))]


def describe(p, Q, water):
    return {'pump': p._example, 'limited': p.limited, 'avail_power': p.avail_power, 'gear_ratio': p.gear_ratio, 'set_speed': p.current_speed,
            'design_speed': p.design_speed, 'impeller': p.current_impeller, 'design_impeller': p.design_impeller, 'Q': Q, 'water': water,
            'slurry': p._sp, 'driver': (sorted(p.driver.design_power_curve.items()) if p.driver else None)}


def correspondence(ctx):
    from DHLLDV.DHLLDV_Utils import interpDict
    lines, metas = [], []
    signal.signal(signal.SIGALRM, _alarm)
    for _ in range(ctx.n(400, 20000)):
        p = gen_pump(ctx.rng)
        Q = gen_Q(ctx.rng, p)
        water = ctx.rng.random() < 0.3
        try:
            signal.alarm(10)
            try:
                r = p.point(Q, water=water)
            finally:
                signal.alarm(0)
        except Timeout:
            # a query that does not return: the monitor reports it; do not spend the run waiting for more of them
            ctx.count('corr_impl_timeouts')
            if ctx.stats.get('corr_impl_timeouts', 0) >= 3:
                ctx.mismatch('Pump.point did not return within 10 s for three generated queries; the pump model always returns', describe(p, Q, water), 'returns', 'no return')
                break
            continue
        except Exception:   # noqa: searched by the monitor
            ctx.count('corr_impl_nonreal')
            continue
        if not all(is_real_finite(x) for x in r):
            ctx.count('corr_impl_nonreal')
            continue
        drv = p.driver.design_power_curve if p.driver else interpDict({0.0: 0.0, 1.0: 0.0})
        toks = [enc(float(x)) for x in (p.design_speed, p.design_impeller, p.current_speed, p.current_impeller, p.max_driver_speed, p.avail_power,
                                        p.gear_ratio, max(p.design_QP_curve.values()), p.slurry.rhom, p.slurry.rhol)]
        toks += [str(MODES[p.limited]), '400', enc(float(r[3])), enc(float(Q)), enc(water)]
        toks += table_tokens(p.design_QH_curve) + table_tokens(p.design_QP_curve) + table_tokens(drv)
        lines.append('spec.pump ' + ' '.join(toks))
        metas.append((p, Q, water, r))
    outs = run_model(lines)
    for (p, Q, water, r), o in zip(metas, outs):
        ctx.count('corr_compared')
        if o == 'none':
            ctx.mismatch('model ran out of iteration budget where the implementation returned', describe(p, Q, water), o, list(r))
            continue
        got = [unbits(x) for x in o.split(' ')]
        if not all(tie_equal(ctx, a, float(b)) for a, b in zip(got, r)):
            ctx.mismatch('Spec.Pump.point differs from Pump.point', describe(p, Q, water), got, list(r))
    if metas:
        ctx.sample(describe(*metas[0][:3]))


def snapshot(p):
    return (p.design_speed, p.design_impeller, p.current_speed, p.current_impeller, p.max_driver_speed, p.avail_power, p.limited, p.gear_ratio,
            tuple(sorted(p.design_QH_curve.items())), tuple(sorted(p.design_QP_curve.items())), p.design_QH_curve.extrapolate_high,
            p.design_QP_curve.extrapolate_high, id(p.driver), id(p.slurry), p.slurry.Cv, p.slurry.Dp, p.driver_name,
            tuple(sorted(k for k in vars(p).keys())))


def lookup(t, x):
    """piecewise-linear lookup with extension at both ends (independent of interpDict)"""
    ks = sorted(t.keys())
    vs = [dict.__getitem__(t, k) for k in ks]
    if x in ks:
        return vs[ks.index(x)]
    i = max(1, min(len(ks) - 1, sum(1 for k in ks if k < x)))
    return vs[i - 1] + (vs[i] - vs[i - 1]) / (ks[i] - ks[i - 1]) * (x - ks[i - 1])


def oracle(p, Q, water, r):
    """the property for one query; returns (violation text | None, class)"""
    Qr, H, Pw, n = r
    rho = p.slurry.rhol if water else p.slurry.rhom
    if not all(is_real_finite(x) for x in r):
        return f'non-finite point {r}', None, 'point'
    if Qr != Q:
        return f'returned flow {Qr!r} != requested {Q!r}', None, 'point'
    sr, ir = n / p.design_speed, p.current_impeller / p.design_impeller
    Q0 = Q / (sr * ir ** 2)
    Hw = lookup(p.design_QH_curve, Q0) * sr ** 2 * ir ** 2 * rho
    Pwant = lookup(p.design_QP_curve, Q0) * sr ** 3 * ir ** 5 * rho
    if not rel_close(H, Hw, 1e-9):
        return f'head {H!r} is not the affinity scaling {Hw!r} at the returned speed {n!r}', None, 'affinity'
    if not rel_close(Pw, Pwant, 1e-9):
        return f'power {Pw!r} is not the affinity scaling {Pwant!r} at the returned speed {n!r}', None, 'affinity'
    nset = p.current_speed
    if n > nset * (1 + 1e-12):
        return f'returned speed {n!r} exceeds the set speed {nset!r}', None, 'speed-above-set'

    def avail(x):
        if p.limited == 'torque':
            return p.avail_power * x / p.max_driver_speed
        if p.limited == 'power':
            return p.avail_power
        if p.limited == 'curve':
            return lookup(p.driver.design_power_curve, x * p.gear_ratio)
        return math.inf

    def req(x):
        s = x / p.design_speed
        return lookup(p.design_QP_curve, Q / (s * ir ** 2)) * s ** 3 * ir ** 5 * rho
    can = req(nset) <= avail(nset)
    if can and n != nset:
        return f'driver can supply {avail(nset):.1f} kW >= required {req(nset):.1f} kW at the set speed {nset!r}, yet speed {n!r} was returned', None, 'speed'
    if not can:
        min_speed = (min(p.driver.design_power_curve.keys()) / p.gear_ratio) if p.limited == 'curve' else 0.0
        at_min = p.limited == 'curve' and n <= min_speed * (1 + 1e-9)
        if not at_min and not abs(avail(n) - req(n)) < 0.1:
            return f'limited by the driver but required {req(n):.3f} kW != available {avail(n):.3f} kW at the returned speed {n!r}', None, 'balance'
    return None, (p._example, p.limited, can, water), None


def monitor(ctx, extended=False):
    signal.signal(signal.SIGALRM, _alarm)
    classes = set()
    n = ctx.n(3000, 80000) * (3 if extended else 1)
    for i in range(n):
        if ctx.stats.get('timeouts', 0) >= 3:
            break       # three queries that do not return are reported; more waiting adds nothing
        p = gen_pump(ctx.rng)
        Q = gen_Q(ctx.rng, p)
        hist = []
        for step in range(ctx.rng.choice([1, 1, 3])):
            water = ctx.rng.random() < 0.3
            if step:
                # between queries at the same flow on the same pump object: the pumped density, the driver rating or the kind of driver limit is changed
                what = ctx.rng.choice(['Cv', 'Cv', 'avail_power', 'limited'])
                if what == 'Cv':
                    p.slurry.Cv = E.pick_Cv(ctx.rng)
                    hist.append(f'Cv={p.slurry.Cv}')
                elif what == 'avail_power' and p.limited != 'curve':
                    p.avail_power = p.avail_power * ctx.rng.choice([0.4, 0.6, 1.5, 2.5])
                    hist.append(f'avail_power={p.avail_power}')
                elif what == 'limited':
                    modes_ = ['torque', 'power', 'None'] + (['curve'] if p.driver is not None else [])
                    p.limited = ctx.rng.choice([m_ for m_ in modes_ if m_ != p.limited])
                    hist.append(f'limited={p.limited!r}')
            inp = dict(describe(p, Q, water), history=list(hist))
            ctx.count('evaluations')
            before = snapshot(p)
            try:
                signal.alarm(10)
                try:
                    r = p.point(Q, water=water)
                finally:
                    signal.alarm(0)
            except Timeout:
                ctx.violation('point() did not terminate within 10 s', inp, key='termination')
                ctx.count('timeouts')
                break
            except Exception as e:   # noqa
                ctx.violation(f'point() raised {type(e).__name__}: {e}', inp, key='raised')
                break
            if snapshot(p) != before:
                ctx.violation('querying a point changed the pump', inp, key='pump-changed')
            bad, cls, key = oracle(p, Q, water, r)
            if bad:
                ctx.violation(bad, inp, key=key)
            else:
                classes.add(cls)
            hist.append(f'point({Q}, water={water})')
    # the corners of the documented box, exactly: set speed 0.6 / 1.0 x design, trim 0.8 / 1.0, flow 0.02 / 1.0 x curve range (and just inside them), every
    # example pump, without a driver limit and with each of the others
    for name_ in sorted(G.example_pumps()):
        for mode_ in ('None', 'torque', 'power', 'curve'):
            for sr_ in (0.6, 0.62, 1.0):
                for ir_ in (0.8, 0.81, 1.0):
                    for qf_ in (0.02, 0.97, 1.0):
                        if ctx.stats.get('timeouts', 0) >= 3:
                            break
                        base_ = G.example_pumps()[name_]
                        over_ = {'limited': mode_, 'avail_power': base_.avail_power * ctx.rng.choice([0.3, 1.0, 1.5])}
                        if mode_ == 'curve':
                            over_['gear_ratio'] = 1.0
                            over_['driver'] = G.make_driver(ctx.rng, base_, 1.0, nameplate=over_['avail_power'])
                            over_['driver_name'] = over_['driver'].name
                        q_ = G.clone_pump(base_, **over_)
                        q_._example = name_
                        q_._sp = E.slurry_params(ctx.rng)
                        q_.slurry = E.make_slurry(q_._sp, max_index=10)
                        q_.current_speed = q_.design_speed * sr_
                        q_.current_impeller = q_.design_impeller * ir_
                        Q = max(q_.design_QH_curve.keys()) * qf_
                        water = ctx.rng.random() < 0.5
                        inp = dict(describe(q_, Q, water), history=['corner of the documented box'])
                        ctx.count('evaluations')
                        try:
                            signal.alarm(10)
                            try:
                                r = q_.point(Q, water=water)
                            finally:
                                signal.alarm(0)
                        except Timeout:
                            ctx.violation('point() did not terminate within 10 s', inp, key='termination')
                            ctx.count('timeouts')
                            continue
                        except Exception as e:   # noqa
                            ctx.violation(f'point() raised {type(e).__name__}: {e}', inp, key='raised')
                            continue
                        bad, cls, key = oracle(q_, Q, water, r)
                        if bad:
                            ctx.violation(bad, inp, key=key)
                        else:
                            classes.add(cls)
    # two DIFFERENT pumps set to the same speed and impeller diameter, pumping the same slurry, asked at the same flow in turn: each answer is that
    # pump's own (nothing may be shared between pump objects)
    for _ in range(ctx.n(40, 1500)):
        if ctx.stats.get('timeouts', 0) >= 3:
            break
        pa, pb = gen_pump(ctx.rng), gen_pump(ctx.rng)
        if pa._example == pb._example:
            continue
        pb.slurry = pa.slurry
        pb._sp = pa._sp
        n_common = min(pa.design_speed, pb.design_speed) * ctx.rng.uniform(0.7, 0.9)
        d_common = min(pa.design_impeller, pb.design_impeller) * 0.98
        for q_ in (pa, pb):
            q_.current_speed = n_common
            q_.current_impeller = d_common
        Q = min(max(pa.design_QH_curve.keys()), max(pb.design_QH_curve.keys())) * ctx.rng.uniform(0.2, 0.7)
        water = ctx.rng.random() < 0.3
        for which, q_ in (('first', pa), ('second', pb), ('first again', pa)):
            inp = dict(describe(q_, Q, water), history=[f'two pumps ({pa._example}, {pb._example}) at the same speed {n_common!r} and impeller {d_common!r}; this is the {which} one'])
            ctx.count('evaluations')
            try:
                signal.alarm(10)
                try:
                    r = q_.point(Q, water=water)
                finally:
                    signal.alarm(0)
            except Timeout:
                ctx.violation('point() did not terminate within 10 s', inp, key='termination')
                ctx.count('timeouts')
                break
            except Exception as e:   # noqa
                ctx.violation(f'point() raised {type(e).__name__}: {e}', inp, key='raised')
                break
            bad, cls, key = oracle(q_, Q, water, r)
            if bad:
                ctx.violation(bad, inp, key=key)
                break
            classes.add(('pair', cls))
    ctx.stats['distinct_nontrivial'] = len(classes)
