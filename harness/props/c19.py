"""C19 — stratified-flow cross-section geometry is consistent with a circular pipe."""
import math

import envelope as E
from common import compare_gen, rel_close

ID = 'C19'
LEAN_MODULES = ['Dhlldv.Props.C19', 'Dhlldv.Props.C18']
PROP_MODULES = ['Dhlldv.Props.C19']
PROVED = ['A1 + A2 = Ap, A2 = Ap*Cvs/Cvb, Ap = pi (Dp/2)^2; O1 + O2 = Op = pi Dp; O12 = Dp sin(beta); beta is the table lookup at Cvs/Cvb (all Dp, Cvs)',
          'the regenerated 33-row table runs from (0,0) to (1,3.1415927) with strictly increasing keys and values (so, with C18, the lookup is monotone from 0 to 3.1415927); |3.1415927 - pi| < 1e-7',
          'the half-angle the code uses is STRICTLY increasing in the bed concentration for every pair 0 <= c1 < c2 <= Cvb (not only at nodes) and stays within [0, 3.1415927] (monotone-table lemma for the interpolant)',
          'exact segment fraction (beta - sin beta cos beta)/pi is 0 at 0 and 1 at pi',
          'node clause as a theorem about the regenerated table: every one of its rows (A, beta) satisfies |A - (beta - sin beta cos beta)/pi| < 1e-5 '
          '(C19_node_accuracy: sin 2beta enclosed by 14 terms of its series with Mathlib\'s exponential-series bound, pi by 3.141592 < pi < 3.141593, '
          'then four inequalities between rationals per row)',
          'between-nodes clause for EVERY real area fraction in [0, 1], not only the 1e-5 grid: the lookup is defined and the returned half-angle reproduces '
          'the fraction within 0.0075 (C19_between_nodes, C19_beta_reproduces_area: chord error of the segment function <= (delta beta)^2/(4 pi) by convexity of '
          'segF +- beta^2/pi, neighbouring rows at most 0.2792527 rad apart)']
HYPOTHESES = []
MONITORED = ['the same two accuracy clauses in doubles on the implementation (the theorems are over R): all 33 nodes every run; 1e-4 grid quick / full 1e-5 grid '
             'thorough - this is also the search for a failing node or grid point when a theorem about the table no longer checks']
RULE = ('33 table nodes (exhaustive) + grid of Cvs/Cvb in [0,1] (step 1e-4 quick, 1e-5 thorough, exhaustive for that grid) + Dp over E; '
        'non-trivial = distinct grid points strictly between nodes plus the nodes')
ASSUMPTIONS = ['identities in R; sums of doubles re-associate, measured against 1e-12 relative']


def correspondence(ctx):
    from DHLLDV import stratified as St
    n = ctx.n(1500, 60000)
    cases = []
    for _ in range(n):
        Dp = E.pick_Dp(ctx.rng)
        r = ctx.rng.random()
        Cvs = 0.6 * (ctx.rng.choice(NODES()) if r < 0.3 else ctx.rng.random())
        cases.append(([Dp, Cvs], (Dp, Cvs), {}))
    compare_gen(ctx, 'stratified.areas', St.areas, cases)
    compare_gen(ctx, 'stratified.perimeters', St.perimeters, cases)
    compare_gen(ctx, 'stratified.beta', St.beta, [([c[0][1]], (c[0][1],), {}) for c in cases])
    ctx.sample({'op': 'stratified.perimeters', 'args': cases[0][0]})


def NODES():
    from DHLLDV.DHLLDV_constants import Arel_to_beta
    return sorted(Arel_to_beta.keys())


def seg(b):
    return (b - math.sin(b) * math.cos(b)) / math.pi


def monitor(ctx, extended=False):
    from DHLLDV import stratified as St
    from DHLLDV.DHLLDV_constants import Arel_to_beta, Cvb
    nodes = NODES()
    if len(nodes) != 33:
        ctx.violation(f'table has {len(nodes)} nodes', {'nodes': len(nodes)}, key='table')
    worst_node = 0.0
    for a in nodes:
        ctx.count('evaluations')
        b = Arel_to_beta[a]
        err = abs(seg(b) - a)
        worst_node = max(worst_node, err)
        if not err < 1e-5:
            ctx.violation(f'node {a}: beta={b} reproduces area fraction {seg(b)} (error {err:.3g} >= 1e-5)', {'Arel': a}, key='node-accuracy')
    step = 1e-5 if ctx.thorough else 1e-4
    N = round(1 / step)
    prev = -1.0
    worst = 0.0
    for i in range(N + 1):
        a = i / N
        ctx.count('evaluations')
        b = Arel_to_beta[a]
        err = abs(seg(b) - a)
        worst = max(worst, err)
        if not err < 0.0075:
            ctx.violation(f'Arel {a}: area fraction error {err:.3g} >= 0.0075', {'Arel': a}, key='grid-accuracy')
        if not b >= prev or (i > 0 and not b > prev):
            ctx.violation(f'beta not increasing at Arel {a}', {'Arel': a}, key='monotone')
        prev = b
    # the half-angle the geometry functions actually use: equal to the table lookup and increasing, also in the thin slivers next to both ends
    # (log-spaced: the outermost table segments are 7e-5 wide)
    sweep = sorted({i / N for i in range(0, N + 1, 10)} | {10 ** (-8 + 6 * j / 600) for j in range(601)} | {1 - 10 ** (-8 + 6 * j / 600) for j in range(601)} | {0.0, 1.0})
    prevb = None
    for a in sweep:
        ctx.count('evaluations')
        try:
            b = St.beta(Cvb * a)
        except Exception as e:   # noqa
            ctx.violation(f'beta(Cvs = Cvb * {a!r}) raised {type(e).__name__}: {e}', {'Arel': a}, key='beta-function')
            continue
        want = Arel_to_beta[Cvb * a / Cvb]
        if b != want:
            ctx.violation(f'beta(Cvs = Cvb * {a!r}) = {b!r} is not the tabulated half-angle {want!r}', {'Arel': a}, key='beta-function')
        if prevb is not None and not b >= prevb[1]:
            ctx.violation(f'half-angle falls from {prevb[1]!r} at Arel {prevb[0]!r} to {b!r} at Arel {a!r}', {'Arel': [prevb[0], a]}, key='monotone')
        prevb = (a, b)
    if not (Arel_to_beta[0.0] == 0.0 and abs(Arel_to_beta[1.0] - math.pi) < 1e-7):
        ctx.violation('table does not run from 0 to pi', {}, key='table')
    ctx.stats['worst_node_error'] = worst_node
    ctx.stats['worst_grid_error'] = worst
    ctx.stats['grid_exhaustive_step'] = step
    # identities on the implementation
    for _ in range(ctx.n(2000, 50000)):
        Dp = E.pick_Dp(ctx.rng)
        Cvs = Cvb * ctx.rng.random() if ctx.rng.random() < 0.8 else Cvb * ctx.rng.choice(nodes)
        ctx.count('evaluations')
        try:
            Ap, A1, A2 = St.areas(Dp, Cvs)
            Op, O1, O12, O2 = St.perimeters(Dp, Cvs)
            B = St.beta(Cvs)
        except Exception as e:   # noqa
            ctx.violation(f'raised {type(e).__name__}: {e}', {'Dp': Dp, 'Cvs': Cvs}, key='identities')
            continue
        ok = (rel_close(A1 + A2, Ap, 1e-12) and rel_close(Ap, math.pi * Dp * Dp / 4, 1e-12) and rel_close(A2, Ap * Cvs / Cvb, 1e-12)
              and rel_close(O1 + O2, Op, 1e-12) and rel_close(Op, math.pi * Dp, 1e-12) and rel_close(O12, Dp * math.sin(B), 1e-12)
              and B == Arel_to_beta[Cvs / Cvb])
        if not ok:
            ctx.violation('area/perimeter identity fails', {'Dp': Dp, 'Cvs': Cvs, 'areas': (Ap, A1, A2), 'perimeters': (Op, O1, O12, O2)}, key='identities')
    # the bed packing is a module setting (`stratified.Cvb`, read at call time by the geometry functions and by the framework): with another packing the same
    # clauses hold over Cvs in [0, packing] - the half-angle, the areas and the perimeters all use the packing that is set NOW
    saved = St.Cvb
    try:
        for cvb2 in (0.55, 0.5, 0.65):
            St.Cvb = cvb2
            prevb = None
            for k_ in range(0, 201):
                a = k_ / 200
                Cvs = cvb2 * a
                Dp = E.pick_Dp(ctx.rng)
                ctx.count('evaluations')
                try:
                    B = St.beta(Cvs)
                    Ap, A1, A2 = St.areas(Dp, Cvs)
                    Op, O1, O12, O2 = St.perimeters(Dp, Cvs)
                except Exception as e:   # noqa
                    ctx.violation(f'with bed packing {cvb2}: raised {type(e).__name__}: {e}', {'Dp': Dp, 'Cvs': Cvs, 'Cvb': cvb2}, key='identities')
                    break
                ok = (abs(seg(B) - a) < 0.0075 and rel_close(A2, Ap * a, 1e-9) and rel_close(A1 + A2, Ap, 1e-12) and rel_close(O1 + O2, Op, 1e-12)
                      and rel_close(O12, Dp * math.sin(B), 1e-12) and rel_close(O2, Dp * B, 1e-9) and (prevb is None or B > prevb))
                if not ok or (k_ == 200 and abs(B - math.pi) > 1e-7):
                    ctx.violation(f'with bed packing {cvb2} set: at Cvs = {Cvs!r} (area fraction {a}) the half-angle {B!r} reproduces {seg(B)!r}, areas {(Ap, A1, A2)}, perimeters {(Op, O1, O12, O2)}',
                                  {'Dp': Dp, 'Cvs': Cvs, 'Cvb': cvb2}, key='identities')
                    break
                prevb = B
    finally:
        St.Cvb = saved
    ctx.stats['distinct_nontrivial'] = N + 1 + len(nodes)
