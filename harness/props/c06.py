"""C06 — limit deposit velocity is positive, converged and ignores its dummy argument."""
import math

import envelope as E
from common import compare_gen, is_real_finite, same_float, time_limit, CallTimeout

ID = 'C06'
LEAN_MODULES = ['Dhlldv.Props.C06']
PROP_MODULES = ['Dhlldv.Props.C06']
PROVED = ['LDV(v1, ...) = LDV(v2, ...) for all real arguments and every iteration budget (the generated definition never reads the parameter)',
          'LDV > 0 on E for every line-speed argument, every step budget of the code and every model budget covering it: induction through the four damped loops '
          '(no loop exhausts the budget, the friction factor is positive at every iterate, result >= lower-limit velocity (B + sqrt(B^2+4C))/2 > 0)']
HYPOTHESES = []
MONITORED = ['finiteness on doubles', 'default budget within 0.1 % of the converged solution: compared on the real code with '
             'an independent fixed-point solve of the four implicit friction-factor equations (Eqns 8.11-1..13) to 1e-13']
RULE = ('E points incl. small pipes / heavy solids / d either side of 0.015 Dp and of 2 mm, the fines corner (Dp <= 0.15, d at its lower bound, rhos >= 3, Cvs <= 0.04); '
        'each with several vls arguments incl. 0.1, 1, 4.3, 10; non-trivial = distinct governing-limit classes (very small / small / rough / lower limit / blend)')
ASSUMPTIONS = ['the generated LDV is the code (bit-exact correspondence incl. the four damped loops with the default budget)']


def converged_LDV(Dp, d, eps, nu, rhol, rhos, Cvs):
    """independent oracle: Eqns 8.11-1 .. 8.11-13 with each implicit equation iterated to a fixed point"""
    from DHLLDV import homogeneous as Ho, heterogeneous as He, stratified as St
    g = 9.80665
    Rsd = (rhos - rhol) / rhol
    fbot = (2 * g * Rsd * Dp) ** 0.5
    lam = lambda v: Ho.swamee_jain_ff(v * Dp / nu, Dp, eps)   # noqa

    def fix(fn, v0):
        v = v0
        for _ in range(400):
            vn = fn(v)
            if abs(vn - v) <= 1e-13 * abs(vn):
                return vn
            v = (v + vn) / 2
        return v
    FL_vs = fix(lambda v: 1.4 * (nu * Rsd * g) ** (1. / 3.) * (8 / lam(v)) ** 0.5, 1.0) / fbot
    alphap = 3.4 * (1.65 / Rsd) ** (2. / 9)
    vt = He.vt_ruby(d, Rsd, nu)
    Rep = vt * d / nu
    beta = (4.7 + 0.41 * Rep ** 0.75) / (1. + 0.175 * Rep ** 0.75)
    KC = 0.175 * (1 + beta)
    FL_ss = fix(lambda v: alphap * (vt * Cvs * (1 - Cvs / KC) ** beta / (lam(v) * fbot)) ** (1. / 3) * fbot, 4.0) / fbot
    FL_s = max(FL_vs, FL_ss)
    if d <= 0.015 * Dp:
        Cvr_ldv = 0.0065 / (2 * g * Rsd * Dp)
    else:
        Cvr_ldv = 0.053 * (d / Dp) ** 0.5 / (2 * g * Rsd * Dp)
    FL_r = fix(lambda v: alphap * ((1 - Cvs / KC) ** beta * Cvs * (St.musf * St.Cvb * math.pi / 8) ** 0.5 * Cvr_ldv ** 0.5 / lam(v)) ** (1. / 3) * fbot, 4.3) / fbot
    d0 = 0.0005 * (1.65 / Rsd) ** 0.5
    if d > 2. / 1000:
        FL_ul, which = FL_r, 'rough'
    elif FL_s <= FL_r:
        FL_ul, which = FL_s, ('very small' if FL_vs >= FL_ss else 'small')
    else:
        FL_ul, which = FL_s * math.exp(-d / d0) + FL_r * (1 - math.exp(-d / d0)), 'blend'
    B = vt * (1 - Cvs / KC) ** beta / St.musf

    def low(v):
        C = ((8.5 ** 2 / lam(v)) * (vt / (g * d) ** 0.5) ** (10. / 3) * (nu * g) ** (2. / 3)) / St.musf
        return (B + (B ** 2 + 4 * C) ** 0.5) / 2
    FL_ll = fix(low, 2.0) / fbot
    if FL_ll > FL_ul:
        which = 'lower limit'
    return max(FL_ul, FL_ll) * fbot, which


def ldv_point(rng):
    if rng.random() < 0.15:
        # fines corner: the very-small-particles limit governs
        nu, rhol = E.pick_fluid(rng)
        Dp = rng.uniform(0.1, 0.15)
        rhos = rng.uniform(3.0, 4.0)
        d = max(E.dlim(Dp, nu, rhol, rhos), 5e-5) * rng.uniform(1.0, 1.3)
        return (1.0, Dp, d, E.EPS, nu, rhol, rhos, rng.uniform(0.02, 0.04))
    return E.point(rng)


def correspondence(ctx):
    from DHLLDV import DHLLDV_framework as F
    n = ctx.n(1500, 80000)
    cases = []
    for _ in range(n):
        a = ldv_point(ctx.rng)
        v = ctx.rng.choice([0.1, 1.0, 4.3, 10.0, a[0]])
        steps = 10 if ctx.rng.random() < 0.8 else ctx.rng.choice([0, 1, 3, 25])
        cases.append(([v] + list(a[1:]) + [float(steps)], (v,) + tuple(a[1:]), {'max_steps': steps}))
    compare_gen(ctx, 'framework.LDV', F.LDV, cases)
    ctx.sample({'op': 'framework.LDV', 'args': cases[0][0]})


def monitor(ctx, extended=False):
    from DHLLDV import DHLLDV_framework as F
    n = ctx.n(2000, 100000) * (3 if extended else 1)
    classes = set()
    worst = 0.0
    for _ in range(n):
        a = ldv_point(ctx.rng)
        inp = {'args': list(a)}
        ctx.count('evaluations')
        try:
            if ctx.rng.random() < 0.2:
                # history: a convergence study with small iteration budgets on the same slurry comes first (the project's tests call max_steps=5);
                # the default-budget value asked afterwards is the one the property speaks about
                pre = sorted(ctx.rng.sample(range(1, 10), ctx.rng.randint(1, 4)))
                for ms in pre:
                    F.LDV(a[0], *a[1:], max_steps=ms)
                inp['earlier_calls_max_steps'] = pre
            with time_limit(20):
                vals = [F.LDV(v, *a[1:]) for v in (a[0], 0.1, 1.0, 4.3, 10.0)]
            if not all(is_real_finite(x) and x > 0 for x in vals):
                ctx.violation(f'LDV not finite and positive: {vals}', inp, key='positive')
                continue
            if not all(same_float(x, vals[0]) for x in vals):
                ctx.violation(f'LDV depends on its vls argument: {vals}', inp, key='dummy')
            conv, which = converged_LDV(*a[1:])
            err = abs(vals[0] - conv) / conv
            worst = max(worst, err)
            classes.add(which)
            if not err < 1e-3:
                ctx.violation(f'LDV {vals[0]!r} is {err:.3%} off the converged solution {conv!r} ({which})', inp, key='converged')
        except CallTimeout:
            ctx.violation('LDV did not return within 20 s', inp, key='no-return')
            ctx.count('timeouts')
            if ctx.stats.get('timeouts', 0) >= 3:
                break
        except Exception as e:   # noqa
            ctx.violation(f'raised {type(e).__name__}: {e}', inp, key='raised')
    # the corner where the default budget has the least margin (found with a one-step-smaller budget): light, fine, lean solids in a small smooth pipe
    for Dp in (0.1, 0.1025, 0.105):
        for eps in (1.5e-6, 5e-6):
            for rhos in (2.0, 2.13):
                for nu in (0.92e-6, 0.94e-6):
                    dl = max(E.dlim(Dp, nu, 0.999, rhos), 5e-5)
                    for fd in (1.0, 1.1, 1.2, 1.3):
                        a = (1.0, Dp, dl * fd, eps, nu, 0.999, rhos, 0.02)
                        ctx.count('evaluations')
                        try:
                            v = F.LDV(*a)
                            conv, which = converged_LDV(*a[1:])
                            err = abs(v - conv) / conv
                            worst = max(worst, err)
                            if not (is_real_finite(v) and v > 0 and err < 1e-3):
                                ctx.violation(f'LDV {v!r} is {err:.3%} off the converged solution {conv!r} ({which})', {'args': list(a)}, key='converged')
                        except Exception as e:   # noqa
                            ctx.violation(f'raised {type(e).__name__}: {e}', {'args': list(a)}, key='raised')
    # vls = None / 0 are legal for an argument documented as unused
    import numpy as _np
    for v in (None, 0, 0.0, -1.0, float('nan'), [0.5, 1.0, 2.0], {'unused': 1}, 'unused', _np.linspace(0.1, 10.0, 5), _np.float64(2.5)):
        a = ldv_point(ctx.rng)
        ctx.count('evaluations')
        try:
            r = F.LDV(v, *a[1:])
            if not same_float(r, F.LDV(1.0, *a[1:])):
                ctx.violation(f'LDV(vls={v!r}) differs from LDV(vls=1.0)', {'args': list(a), 'vls': repr(v)}, key='dummy')
        except Exception as e:   # noqa
            ctx.violation(f'LDV(vls={v!r}) raised {type(e).__name__}: {e}', {'args': list(a), 'vls': repr(v)}, key='dummy')
    # the limit deposit velocities a slurry object tabulates (LDV_curves for its D50, LDV85_curves for its D85) are the same quantity: positive, finite and within
    # 0.1 % of the converged solution wherever (grain, concentration) lies in E - small pipes with fine grains and lean mixtures converge slowest
    import envelope as E_
    objs = [dict(Dp=0.1, fluid='fresh', rhos=2.65, Cv=0.05, D50=8e-5, r15=1.5, r85=2.0), dict(Dp=0.15, fluid='salt', rhos=2.0, Cv=0.1, D50=1.2e-4, r15=2.0, r85=2.72)] + \
           [E_.slurry_params(ctx.rng) for _ in range(ctx.n(4, 120))]
    for pp in objs:
        ctx.count('evaluations')
        try:
            nu_, rhol_ = E_.fluids()[pp['fluid']]
            lo_ = max(E_.dlim(pp['Dp'], nu_, rhol_, pp['rhos']), 5e-5)
            if pp['D50'] < lo_ * 1.0001:
                pp['D50'] = lo_ * 1.05
            so = E_.make_slurry(pp, max_index=10)
            for cname, frac in (('LDV_curves', 0.5), ('LDV85_curves', 0.85)):
                d_ = so.get_dx(frac)
                cur = getattr(so, cname)
                if not (lo_ <= d_ <= 0.25 * pp['Dp']):
                    continue
                for cv_, v_ in list(zip(cur['Cv'], cur['vls']))[1:45:4]:
                    if not 0.02 <= cv_ <= 0.45:
                        continue
                    conv, which = converged_LDV(pp['Dp'], d_, so.epsilon, so.nu, so.rhol, so.rhos, cv_)
                    err = abs(v_ - conv) / conv
                    worst = max(worst, err)
                    if not (is_real_finite(v_) and v_ > 0 and err < 1e-3):
                        ctx.violation(f"slurry object {cname}: limit deposit velocity {v_!r} at Cvs={cv_} for the {d_ * 1000:.4f} mm grain is {err:.3%} off the converged solution {conv!r} ({which})",
                                      {'slurry': pp, 'curve': cname, 'Cvs': cv_}, key='converged')
                        break
        except Exception as e:   # noqa
            ctx.violation(f'slurry object LDV curves raised {type(e).__name__}: {e}', {'slurry': pp}, key='raised')
    ctx.stats['worst_relative_distance_to_converged'] = worst
    ctx.stats['governing_limit_classes'] = sorted(classes)
    ctx.stats['distinct_nontrivial'] = len(classes)
