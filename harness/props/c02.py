"""C02 — all public results are finite real numbers on the engineering envelope."""
import math

import envelope as E
from common import compare_gen, is_real_finite, signatures, time_limit, CallTimeout

ID = 'C02'
LEAN_MODULES = ['Dhlldv.Props.C02', 'Dhlldv.Props.C06']
PROP_MODULES = ['Dhlldv.Props.C02']
PROVED = ['on E every primitive of the leaf models is applied inside its real domain: Reynolds number (nu != 0, Re > 0), Swamee-Jain (turbulent branch, log argument in (0,1), '
          'squared log != 0, lambda > 0), liquid gradient (> 0), Ruby-Zanke settling velocity (> 0, sqrt base >= 1), hindered-settling exponent beta in (2.34, 4.7] and '
          'KC > 0.58 > Cvs so the base 1 - Cvs/KC > 0, pseudo-liquid limiting diameter (> 0)',
          'fixed-bed force balance on E (C02_fixed_bed): bed half-angle in (0, 2.5) rad, free area / perimeters above the bed / hydraulic diameter positive, velocity above the bed >= line speed, '
          'its Reynolds number >= 1296, both friction-logarithm arguments in (0, 1), sheet-flow power bases positive, wall / bed / sheet-flow friction factors and the pressure loss positive, '
          'divisors rhol*g and Rsd*Cvs non-zero',
          'limit deposit velocity: every iterate of the four loops stays positive for every step budget (C06_pos, shared with C06)']
HYPOTHESES = ['iterative / derived-concentration paths (Newton loop of the stationary-deposit limit, slip ratio, Cvs_from_Cvt, Cvt_Erhg): in-domain provided every Newton iterate stays '
              'positive, Xi < 1 and the hindered-settling base is clamped at 0 (the repaired heterogeneous.Shr) - searched on the implementation every run']
MONITORED = ['floating-point overflow / NaN (not expressible on R); full curve generation of slurry objects over their 100 tabulated speeds']
RULE = ('every public uniform-sand call (head loss, regime, slip ratio, LDV, stationary-deposit limit, Wilson models) on envelope tuples incl. vls = 0.1, coarse grains (d up to 0.25 Dp), '
        'Cvt up to 0.45, heavy / light solids; slurry objects (Dp, fluid, rhos, Cv, D15<D50<D85 with ratios <= 6, D85 <= 0.5 Dp) through full curve generation; a malformed stream for the '
        'model correspondence; non-trivial = distinct (function, regime / branch) classes')
ASSUMPTIONS = ['"finite real" over R = every primitive applied in its real domain; overflow is monitored on doubles only']

STD8 = ['homogeneous.Erhg', 'homogeneous.homogeneous_head_loss', 'stratified.fb_Erhg', 'stratified.fb_head_loss', 'stratified.fb_pressure_loss',
        'framework.slip_ratio', 'framework.Cvs_from_Cvt']


def correspondence(ctx):
    from DHLLDV import homogeneous as Ho, heterogeneous as He, stratified as St, DHLLDV_framework as F
    n = ctx.n(800, 50000)
    pts = [E.point(ctx.rng) for _ in range(n)]
    # low speeds and coarse grains: the region of the repaired defect
    for i in range(0, n, 5):
        a = list(pts[i])
        a[0] = ctx.rng.choice([0.1, 0.15, 0.2, 0.3])
        a[2] = min(0.25 * a[1], max(a[2], ctx.rng.uniform(2e-3, 2e-2)))
        a[7] = ctx.rng.uniform(0.3, 0.45)
        pts[i] = tuple(a)
    mods = {'homogeneous': Ho, 'heterogeneous': He, 'stratified': St, 'framework': F}
    for op in STD8:
        m, f = op.split('.')
        cases = [([*a, True] if op == 'homogeneous.Erhg' else list(a), a, {}) for a in pts]
        compare_gen(ctx, op, getattr(mods[m], f), cases)
    compare_gen(ctx, 'heterogeneous.Shr', He.Shr, [(list(a), a, {}) for a in pts])
    compare_gen(ctx, 'heterogeneous.Srs', He.Srs, [(list(a[:7]) + [True], a[:7], {}) for a in pts])
    compare_gen(ctx, 'heterogeneous.vt_ruby', He.vt_ruby, [([a[2], (a[6] - a[5]) / a[5], a[4], 0.26], (a[2], (a[6] - a[5]) / a[5], a[4]), {}) for a in pts])
    compare_gen(ctx, 'heterogeneous.vth_RZ', He.vth_RZ, [([a[2], (a[6] - a[5]) / a[5], a[4], a[7], 0.26], (a[2], (a[6] - a[5]) / a[5], a[4], a[7]), {}) for a in pts])
    compare_gen(ctx, 'framework.pseudo_dlim', F.pseudo_dlim, [([a[1], a[4], a[5], a[6]], (a[1], a[4], a[5], a[6]), {}) for a in pts])
    compare_gen(ctx, 'framework.Cvt_Erhg', F.Cvt_Erhg, [(list(a), a, {}) for a in pts])
    # malformed stream: wherever the implementation still returns a finite real, the model must agree bit for bit
    bad = []
    for _ in range(ctx.n(300, 5000)):
        a = list(E.point(ctx.rng))
        i = ctx.rng.randrange(8)
        a[i] = ctx.rng.choice([0.0, -a[i], a[i] * 1e6, a[i] * 1e-6, 1e300, -1e-300])
        bad.append(tuple(a))
    compare_gen(ctx, 'homogeneous.Erhg', Ho.Erhg, [([*a, True], a, {}) for a in bad], label='malformed: homogeneous.Erhg')
    compare_gen(ctx, 'heterogeneous.Erhg', He.Erhg, [([*a, True, True], a, {}) for a in bad], label='malformed: heterogeneous.Erhg')
    ctx.sample({'op': 'framework.Cvt_Erhg', 'args': list(pts[0])})


def finite(x):
    if isinstance(x, dict):
        return all(finite(v) for v in x.values())
    if isinstance(x, (list, tuple)):
        return all(finite(v) for v in x)
    if isinstance(x, str) or isinstance(x, bool):
        return True
    return is_real_finite(x)


def monitor(ctx, extended=False):
    from DHLLDV import homogeneous as Ho, heterogeneous as He, stratified as St, DHLLDV_framework as F
    from Wilson import Wilson_Stratified as WS, Wilson_V50 as WV
    classes = set()
    n = ctx.n(1500, 100000) * (3 if extended else 1)
    for i in range(n):
        a = E.point(ctx.rng)
        if i % 4 == 0:
            b = list(a)
            b[0] = ctx.rng.choice([0.1, 0.1, 0.15, 0.2, 0.3])
            b[2] = min(0.25 * b[1], max(b[2], ctx.rng.uniform(2e-3, 3e-2)))
            b[7] = ctx.rng.uniform(0.3, 0.45)
            a = tuple(b)
        if i % 9 == 4:
            # the same numbers handed over as other numeric types: an integer line speed or solids density (3 m/s, 3 t/m3), numpy doubles
            import numpy as _np
            b = list(a)
            kind_ = ctx.rng.choice(['int-vls', 'int-vls', 'int-rhos', 'numpy'])
            if kind_ == 'int-vls':
                b[0] = ctx.rng.choice([1, 2, 3, 5, 10])
            elif kind_ == 'int-rhos':
                b[6] = ctx.rng.choice([2, 3, 4])
            else:
                b = [_np.float64(x) for x in b]
            a = tuple(b)
        vls, Dp, d, eps, nu, rhol, rhos, Cv = a
        calls = [('Cvs_Erhg', lambda: F.Cvs_Erhg(*a, get_dict=True)), ('Cvs_regime', lambda: F.Cvs_regime(*a)), ('Cvt_Erhg', lambda: F.Cvt_Erhg(*a, get_dict=True)),
                 ('Cvt_regime', lambda: F.Cvt_regime(*a)), ('slip_ratio', lambda: F.slip_ratio(*a)), ('Cvs_from_Cvt', lambda: F.Cvs_from_Cvt(*a)), ('LDV', lambda: F.LDV(*a)),
                 ('vls_FBSB', lambda: St.vls_FBSB(*a[1:])), ('homogeneous', lambda: (Ho.homogeneous_head_loss(*a), Ho.homogeneous_pressure_loss(*a))),
                 ('heterogeneous', lambda: (He.heterogeneous_head_loss(*a), He.heterogeneous_pressure_loss(*a))),
                 ('fixed bed', lambda: (St.fb_head_loss(*a), St.fb_pressure_loss(*a), St.fb_Erhg(*a))),
                 ('sliding bed', lambda: (St.sliding_bed_head_loss(*a), St.sliding_bed_pressure_loss(*a))),
                 ('Wilson stratified', lambda: WS.stratified_head_loss(max(vls, 0.5), Dp, min(d, 0.1 * Dp), eps, nu, rhol, rhos, 0.4, Cv)),
                 ('Wilson V50', lambda: WV.heterogeneous_head_loss(max(vls, 0.5), Dp, min(d, 0.1 * Dp), min(d, 0.1 * Dp) * 2, eps, nu, rhol, rhos, Cv, 0.4))]
        for name, fn in calls:
            ctx.count('evaluations')
            try:
                with time_limit(20):
                    r = fn()
                if not finite(r):
                    ctx.violation(f'{name} returned a non-finite / non-real value {str(r)[:120]}', {'args': list(a)}, key='nonfinite:' + name)
                elif name == 'Cvs_Erhg':
                    classes.add((r['regime'], d >= 0.015 * Dp))
            except CallTimeout:
                ctx.violation(f'{name} did not return within 20 s', {'args': list(a)}, key='no-return:' + name)
                ctx.count('timeouts')
                if ctx.stats.get('timeouts', 0) >= 3:
                    return
            except Exception as e:   # noqa
                ctx.violation(f'{name} raised {type(e).__name__}: {e}', {'args': list(a)}, key='raised:' + name)
    # corners of the envelope for slurry objects first (heaviest / lightest solids, largest / smallest pipe, coarsest admissible grading): quantities derived
    # inside curve generation (limit deposit velocities, their gradients) are extreme there
    corners = []
    for Dp_ in (1.2, 1.0, 0.762, 0.1):
        for rhos_ in (4.0, 3.5, 2.0):
            for fl_ in ('fresh', 'salt'):
                for d50f, r85_ in ((0.25, 2.0), (0.15, 3.0), (0.08, 4.0)):
                    corners.append(dict(Dp=Dp_, fluid=fl_, rhos=rhos_, Cv=ctx.rng.choice([0.02, 0.175, 0.45]), D50=d50f * Dp_, r15=ctx.rng.choice([1.5, 2.0, 6.0]), r85=r85_))
    ctx.rng.shuffle(corners)
    corners = [dict(Dp=1.2, fluid='fresh', rhos=4.0, Cv=0.175, D50=0.25 * 1.2, r15=2.0, r85=2.0),
               dict(Dp=1.0, fluid='salt', rhos=3.5, Cv=0.02, D50=0.15, r15=2.0, r85=3.0)] + corners
    n_rand = ctx.n(25, 1500) * (2 if extended else 1)
    todo = corners[:ctx.n(8, len(corners))] + [None] * n_rand
    for p in todo:
        if p is None:
            p = E.slurry_params(ctx.rng)
        if p not in corners and ctx.rng.random() < 0.4:
            # coarse gravel gradings
            p['D50'] = min(0.25 * p['Dp'], max(p['D50'], E.loguniform(ctx.rng, 3e-3, 4e-2)))
            p['r85'] = min(p['r85'], 0.5 * p['Dp'] / p['D50'])
            if p['r85'] <= 1.02:
                continue
        ctx.count('evaluations')
        try:
            s = E.make_slurry(p)
            s.generate_curves()
            for name in ('Erhg_curves', 'im_curves', 'LDV_curves', 'LDV85_curves'):
                c = dict(getattr(s, name))
                c.pop('Erhg_objects', None)
                if not finite(c):
                    ctx.violation(f'slurry object: {name} contains a non-finite value', {'slurry': p}, key='curves')
            graded = [F.Erhg_graded(s.GSD, v, s.Dp, s.epsilon, s.nu, s.rhol, s.rhos, s.Cv, Cvt_eq_Cvs=c, num_fracs=None) for v in (0.1, 1.0, 5.0) for c in (True, False)]
            if not finite(graded):
                ctx.violation('Erhg_graded returned a non-finite value', {'slurry': p}, key='curves')
            classes.add(('slurry', p['fluid'], p['D50'] > 2e-3))
        except Exception as e:   # noqa
            ctx.violation(f'slurry object raised {type(e).__name__}: {e}', {'slurry': p}, key='curves')
    # the public graded-sand call on raw gradings of 3 to 32 given points (D15/D50/D85, with an extra low point, sieve curves)
    from props.c12 import gen_case
    import math as _m

    def boundary_cases():
        # a given point a few ulp above the limit in a 4-point grading whose lowest point lies below it (the start fraction then lies within rounding of
        # that point's own fraction)
        for _ in range(9):
            p_, _pts, _k, (nu_, rhol_, dl_) = gen_case(ctx.rng)
            d15_ = dl_
            for _u in range(ctx.rng.choice([1, 2, 3])):
                d15_ = _m.nextafter(d15_, 1.0)
            r_ = ctx.rng.choice([1.5, 2.0, 3.0])
            if d15_ * r_ * 2 <= 0.5 * p_['Dp']:
                yield p_, {ctx.rng.choice([0, 0.05]): d15_ / 2.5, 0.15: d15_, 0.5: d15_ * r_, 0.85: d15_ * r_ * 2}, '4pt@boundary', (nu_, rhol_, dl_)
    cases_ = list(boundary_cases()) + [gen_case(ctx.rng) for _ in range(ctx.n(60, 3000) * (2 if extended else 1))]
    for p, pts, kind, (nu, rhol, dl) in cases_:
        if max(pts.values()) > 0.5 * p['Dp']:
            continue        # C12 allows D85 beyond the pipe; the envelope of this property (grain sizes up to 0.25 Dp, D85 up to 0.5 Dp) does not
        inp = {'points': {str(k): v for k, v in pts.items()}, 'Dp': p['Dp'], 'fluid': p['fluid'], 'rhos': p['rhos'], 'Cv': p['Cv']}
        for v in (0.1, ctx.rng.uniform(0.5, 3.0), ctx.rng.uniform(3.0, 10.0)):
            for c in (True, False):
                ctx.count('evaluations')
                try:
                    # the requested number of fractions is part of the public call too (default 10; None / 0 = use the grading as it is; small and large counts)
                    nf = ctx.rng.choice(['default', 'default', None, 0, 1, 2, 3, 5, 20, True])
                    kw_nf = {} if nf == 'default' else {'num_fracs': nf}
                    r = F.Erhg_graded(dict(pts), v, p['Dp'], E.EPS, nu, rhol, p['rhos'], p['Cv'], Cvt_eq_Cvs=c, get_dict=(c and v == 0.1), **kw_nf)
                    if not finite(r):
                        ctx.violation(f'Erhg_graded on a {len(pts)}-point grading returned a non-finite value {str(r)[:120]}', dict(inp, vls=v, Cvt_eq_Cvs=c, num_fracs=repr(nf)), key='graded')
                except Exception as e:   # noqa
                    ctx.violation(f'Erhg_graded on a {len(pts)}-point grading raised {type(e).__name__}: {e}', dict(inp, vls=v, Cvt_eq_Cvs=c, num_fracs=repr(nf)), key='graded')
        classes.add(('graded', kind.split(':')[0]))
    ctx.stats['distinct_nontrivial'] = len(classes)
