"""C05 — slip ratio keeps spatial concentration between delivered and bed concentration."""
import envelope as E
from common import compare_gen, is_real_finite, rel_close, time_limit, CallTimeout

ID = 'C05'
LEAN_MODULES = ['Dhlldv.Props.C05']
PROP_MODULES = ['Dhlldv.Props.C05']
PROVED = ['derived Cvs = Cvt/(1-Xi) with Xi the slip ratio of the same eight arguments',
          'for every regime key r: Cvt-result[r] = Cvs-result(at derived Cvs)[r] * 1/(1-Xi); result["Xi"] = Xi; il unchanged (all reals, both switches)',
          'reported regime is the spatial regime with FB replaced by the smaller of SB/He, hence in {SB, He, Ho}; value = entry under that code; long name follows',
          '0 <= Xi <= 1 - Cvt/Cvb and Cvt > 0 imply Cvt <= Cvs <= Cvb',
          'lower half of the slip bound for ALL arguments: Cvt < Cvb implies Xi >= Xi_3LM = (1-Cvr) exp(...) > 0 (convex combination with weight f in [0,1]); hence Cvs > Cvt whenever Xi < 1']
HYPOTHESES = []
MONITORED = ['upper half Xi <= 1 - Cvt/Cvb on E and on the edges 0.01-0.02 / 0.45-0.5 of the documented concentration range (outside 0.01-0.5 it fails: listed finding) (magnitude facts about the iterative LDV / stationary-deposit sub-models; searched on the real code every run)']
RULE = ('E points incl. vls = 0.1, d/Dp thresholds (f in {0,(0,1),1}: d/Dp <= 0.015, between, >= 0.06), speeds around vls_t, lean (0.02) and rich (0.45) concentrations; '
        'non-trivial = distinct (regime, spatial regime was FB, f class, side of vls_t) classes')
ASSUMPTIONS = ['generated slip_ratio / Cvt_Erhg equal the implementation bit-for-bit (correspondence)']


def pt(rng):
    a = list(E.point(rng))
    r = rng.random()
    if r < 0.15:
        a[0] = rng.choice([0.1, 0.15, 0.2, 0.3])       # the region where Cvs approaches Cvb
    if r > 0.85:
        a[2] = min(0.25 * a[1], max(a[2], rng.uniform(0.06, 0.25) * a[1]))   # f = 0
    return tuple(a)


def correspondence(ctx):
    from DHLLDV import DHLLDV_framework as F
    n = ctx.n(1200, 60000)
    pts = [pt(ctx.rng) for _ in range(n)]
    compare_gen(ctx, 'framework.slip_ratio', F.slip_ratio, [(list(a), a, {}) for a in pts])
    compare_gen(ctx, 'framework.Cvs_from_Cvt', F.Cvs_from_Cvt, [(list(a), a, {}) for a in pts])
    sw = [ctx.rng.choice([(True, True), (True, False), (False, True), (False, False)]) for _ in pts]

    def setter(s):
        def f():
            F.use_sf, F.use_sqrtcx = s
        return f
    try:
        compare_gen(ctx, 'framework.Cvt_Erhg_dict', F.Cvt_Erhg, [({'args': list(a), 'switches': s}, a, {'get_dict': True}, setter(s)) for a, s in zip(pts, sw)])
        compare_gen(ctx, 'framework.Cvt_Erhg', F.Cvt_Erhg, [({'args': list(a), 'switches': s}, a, {}, setter(s)) for a, s in zip(pts, sw)])
        compare_gen(ctx, 'framework.Cvt_regime', F.Cvt_regime, [({'args': list(a), 'switches': s}, a, {}, setter(s)) for a, s in zip(pts, sw)])
    finally:
        F.use_sf, F.use_sqrtcx = True, True
    ctx.sample({'op': 'framework.Cvt_Erhg_dict', 'args': list(pts[0]), 'switches': sw[0]})


NAMES = {'FB': 'fixed bed', 'SB': 'sliding bed', 'He': 'heterogeneous', 'Ho': 'homogeneous'}


def oracle(F, a, sf, sq):
    """returns (violation text | None, class)"""
    F.use_sf, F.use_sqrtcx = sf, sq
    vls, Dp, d, eps, nu, rhol, rhos, Cvt = a
    Cvb = 0.6
    xi = F.slip_ratio(*a)
    cvs = F.Cvs_from_Cvt(*a)
    D = F.Cvt_Erhg(*a, get_dict=True)
    v = F.Cvt_Erhg(*a)
    name = F.Cvt_regime(*a)
    if not all(is_real_finite(x) for x in (xi, cvs, v)):
        return f'non-finite slip/concentration/value {(xi, cvs, v)}', None
    if not (0 <= xi <= (1 - Cvt / Cvb) * (1 + 1e-12)):
        return f'slip ratio {xi!r} outside [0, 1 - Cvt/Cvb = {1 - Cvt / Cvb!r}]', None
    if not (Cvt * (1 - 1e-12) <= cvs <= Cvb * (1 + 1e-12)):
        return f'derived Cvs {cvs!r} outside [Cvt={Cvt!r}, Cvb]', None
    if not rel_close(cvs, Cvt / (1 - xi), 1e-12):
        return f'derived Cvs {cvs!r} != Cvt/(1-Xi) = {Cvt / (1 - xi)!r}', None
    if D.get('Xi') != xi:
        return f'reported slip {D.get("Xi")!r} != slip ratio {xi!r}', None
    S = F.Cvs_Erhg(vls, Dp, d, eps, nu, rhol, rhos, cvs, get_dict=True)
    for r in NAMES:
        if not rel_close(D[r], S[r] / (1 - xi), 1e-12):
            return f'regime {r}: delivered {D[r]!r} != spatial(at derived Cvs) {S[r]!r} / (1 - Xi)', None
    r = D['regime']
    if r not in ('SB', 'He', 'Ho'):
        return f'reported regime {r!r}', None
    if name != NAMES[r]:
        return f'long name {name!r} for regime {r}', None
    if D[r] != v:
        return f'value {v!r} is not the entry of the reported regime {r} ({D[r]!r})', None
    want = S['regime'] if S['regime'] != 'FB' else ('SB' if D['SB'] < D['He'] else 'He')
    if r != want:
        return f'reported regime {r}, expected {want} (spatial regime {S["regime"]})', None
    f = min(max(4. / 3. - (1. / 3.) * (d / Dp) / 0.015, 0), 1)
    return None, (r, S['regime'] == 'FB', 0 if f == 0 else (1 if f == 1 else 0.5))


def monitor(ctx, extended=False):
    from DHLLDV import DHLLDV_framework as F
    n = ctx.n(2500, 150000) * (3 if extended else 1)
    classes = set()
    try:
        for _ in range(n):
            a = pt(ctx.rng)
            sf, sq = ctx.rng.choice([(True, True), (True, False), (False, True), (False, False)])
            ctx.count('evaluations')
            try:
                with time_limit(30):
                    bad, cls = oracle(F, a, sf, sq)
            except Exception as e:   # noqa  (incl. CallTimeout)
                bad, cls = f'raised {type(e).__name__}: {e}', None
            if bad:
                ctx.violation(bad, {'args': list(a), 'use_sf': sf, 'use_sqrtcx': sq}, key='slip')
            else:
                classes.add(cls)
        # the slip bound over the whole range of delivered concentrations ("for any delivered concentration"): the edges of the range the viewer
        # documents (0.01-0.02, 0.45-0.5) must hold; outside 0.01-0.5 the bound fails on the unchanged tree (listed finding), reported under its own key
        bands = [((0.01, 0.02), 'slip'), ((0.45, 0.5), 'slip'), ((0.0005, 0.0099), 'slip-bound-extreme-concentration'), ((0.5001, 0.599), 'slip-bound-extreme-concentration')]
        for _ in range(ctx.n(400, 20000)):
            a = list(E.point(ctx.rng))
            (lo, hi), key = ctx.rng.choice(bands)
            a[7] = ctx.rng.uniform(lo, hi)
            ctx.count('evaluations')
            try:
                Xi = F.slip_ratio(*a)
                ok = isinstance(Xi, float) and 0 <= Xi <= 1 - a[7] / 0.6 + 1e-12
                what = f'slip ratio {Xi!r} outside [0, 1 - Cvt/Cvb = {1 - a[7] / 0.6!r}] at Cvt = {a[7]!r}'
            except Exception as e:   # noqa
                ok, what = False, f'slip_ratio raised {type(e).__name__}: {e} at Cvt = {a[7]!r}'
            if not ok:
                ctx.violation(what, {'args': a, 'use_sf': True, 'use_sqrtcx': True}, key=key)
            else:
                classes.add(('bound-only', key, lo))
        # the documented boundary value vls = 0 (slip_ratio replaces it by 0.01 m/s), as float and as int
        for _ in range(ctx.n(60, 2000)):
            a = list(E.point(ctx.rng))
            a[0] = ctx.rng.choice([0.0, 0])
            ctx.count('evaluations')
            try:
                with time_limit(30):
                    Xi = F.slip_ratio(*a)
                    cvs = F.Cvs_from_Cvt(*a)
                ok = isinstance(Xi, float) and 0 <= Xi <= 1 - a[7] / 0.6 + 1e-12 and a[7] * (1 - 1e-12) <= cvs <= 0.6 * (1 + 1e-12)
                what = f'at vls = {a[0]!r}: slip ratio {Xi!r}, derived Cvs {cvs!r} (Cvt = {a[7]!r})'
            except Exception as e:   # noqa
                ok, what = False, f'slip_ratio / Cvs_from_Cvt raised {type(e).__name__}: {e} at vls = {a[0]!r}'
            if not ok:
                ctx.violation(what, {'args': a, 'use_sf': True, 'use_sqrtcx': True}, key='slip-at-zero-speed')
            else:
                classes.add(('vls0', type(a[0]).__name__))
        # what a slurry object REPORTS for its own delivered concentration, after an edit history with reads in between (carrier toggled and toggled back,
        # concentration entered directly or through the mixture density, reads of the curves at any point): the tabulated derived concentration is not
        # below the object's Cv (Cvt <= Cvs), not above the bed concentration, and it and the delivered-concentration result are the framework's values
        # for the object's present parameters
        for k_ in range(ctx.n(6, 150)):
            pp = E.slurry_params(ctx.rng)
            both = all(pp['D50'] > max(E.dlim(pp['Dp'], *E.fluids()[f_], pp['rhos']), 5e-5) * 1.001 for f_ in ('fresh', 'salt'))
            hist = ['built']
            try:
                so = E.make_slurry(pp, max_index=ctx.rng.choice([12, 30]))
                other = 'salt' if pp['fluid'] == 'fresh' else 'fresh'
                if k_ % 3 == 0 and both:
                    script = ['read', ('fluid', other), ('Cv', E.pick_Cv(ctx.rng)), ('fluid', pp['fluid'])]
                elif k_ % 3 == 1 and both:
                    script = ['read', ('fluid', other), 'read', ('rhom', None), ('fluid', pp['fluid']), 'read', ('Cv', E.pick_Cv(ctx.rng))]
                else:
                    script = []
                    for _ in range(ctx.rng.randint(2, 6)):
                        r_ = ctx.rng.random()
                        script.append('read' if r_ < 0.4 else ('Cv', E.pick_Cv(ctx.rng)) if r_ < 0.7 else ('rhom', None) if r_ < 0.8
                                      else ('fluid', ctx.rng.choice(['fresh', 'salt'])) if both else 'read')
                for op in script:
                    if op == 'read':
                        _ = so.Erhg_curves
                        hist.append('curves read')
                    elif op[0] == 'rhom':
                        cv_ = E.pick_Cv(ctx.rng)
                        so.rhom = so.rhol + cv_ * (so.rhos - so.rhol)
                        hist.append(f'rhom={so.rhom!r}')
                    else:
                        setattr(so, op[0], op[1])
                        hist.append(f'{op[0]}={op[1]!r}')
                ec = so.Erhg_curves
                for i_, v_ in list(enumerate(so.vls_list))[::3]:
                    ctx.count('evaluations')
                    a_ = (v_, so.Dp, so.D50, so.epsilon, so.nu, so.rhol, so.rhos, so.Cv)
                    cvs_, e_ = ec['Cvs_from_Cvt'][i_], ec['Cvt_Erhg'][i_]
                    wc_, we_ = F.Cvs_from_Cvt(*a_), F.Cvt_Erhg(*a_)
                    if not (so.Cv * (1 - 1e-12) <= cvs_ <= 0.6 * (1 + 1e-12)) or not rel_close(cvs_, wc_, 1e-12) or not rel_close(e_, we_, 1e-12):
                        ctx.violation(f'slurry object with Cv={so.Cv!r} reports derived Cvs {cvs_!r} and delivered-concentration Erhg {e_!r} at {v_} m/s; '
                                      f'the framework gives {wc_!r} and {we_!r} for its present parameters (Cvt <= Cvs <= Cvb must hold)',
                                      {'slurry': pp, 'history': hist, 'vls': v_}, key='slip')
                        break
                classes.add(('object', script[1][0] if len(script) > 1 and isinstance(script[1], tuple) else 'random'))
            except Exception as e:   # noqa
                ctx.violation(f'slurry object history raised {type(e).__name__}: {e}', {'slurry': pp, 'history': hist}, key='slip')
    finally:
        F.use_sf, F.use_sqrtcx = True, True
    ctx.stats['distinct_nontrivial'] = len(classes)
    ctx.stats['classes'] = sorted(map(str, classes))


KNOWN_WITNESS = [1.131166571264382, 0.3, 0.005003485627773149, 4.5e-5, 1.0e-6, 1.0, 2.2, 0.55]


def replay_known(kf):
    """witness of the listed finding `slip-bound-extreme-concentration`: True if it still reproduces"""
    if kf['key'] != 'slip-bound-extreme-concentration':
        return False
    from DHLLDV import DHLLDV_framework as F
    a = kf.get('witness', {}).get('args') or KNOWN_WITNESS
    try:
        Xi = F.slip_ratio(*a)
        return not (isinstance(Xi, float) and 0 <= Xi <= 1 - a[7] / 0.6 + 1e-12)
    except Exception:   # noqa
        return True


def replay(v):
    from DHLLDV import DHLLDV_framework as F
    i = v['input']
    try:
        bad, _ = oracle(F, tuple(i['args']), i['use_sf'], i['use_sqrtcx'])
    finally:
        F.use_sf, F.use_sqrtcx = True, True
    return bad
