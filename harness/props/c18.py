"""C18 — interpolating tables return exact piecewise-linear lookups."""
import bisect
import math

from common import run_model, enc, unbits, same_float, signatures, tie_equal

ID = 'C18'
LEAN_MODULES = ['Dhlldv.Props.C18']
PROP_MODULES = ['Dhlldv.Props.C18']
TIE = ('hand-written executable Lean model InterpTable.lookup (Prim.lean) tied to interpDict.__getitem__ by a bit-exact '
       'differential check every run; shipped table literals regenerated from DHLLDV_constants.py by py2lean')
TECHNIQUE = 'Lean 4 proof of functional correctness of the lookup model + bit-exact correspondence with interpDict'
PROVED = ['tabulated key -> stored value; strictly between neighbours -> straight line through the two neighbours; above/below the range -> '
          'end segment iff extrapolation flag or key within tolerance, else IndexError (all sorted tables of length >= 2, any sign/spacing, all queries)',
          'tolerance clause = "within 0.1 %" for positive end keys; segments meet at nodes; monotone on a segment with monotone end values',
          'shipped tables: keys strictly increasing, all water values > 0, dynamic and kinematic viscosity strictly decreasing in temperature at the nodes',
          'a table with increasing keys and decreasing values is strictly decreasing on its whole key range; hence the interpolated water viscosity (dynamic and kinematic) is strictly decreasing for every pair of temperatures in 0-100 C, not only at nodes']
HYPOTHESES = []
MONITORED = ['item assignment is refused (Python-level behaviour of __setitem__, exercised on the implementation every run)']
RULE = ('random tables of 2-12 distinct keys (mixed sign, log/linear spacing, adjacent doubles), both extrapolation flags, queries: every key, '
        'midpoints, one ulp either side of every key, inside/outside the 0.1 % tolerance band at both ends, far outside; every shipped table '
        'at every node and midpoint; non-trivial = distinct (table, query) pairs falling in a branch other than the plain interior one')
ASSUMPTIONS = ['theorems over R; the executable Float model is compared bit-for-bit with the implementation']


def oracle_lookup(keys, vals, exlo, exhi, tol, q):
    """independent piecewise-linear spec, in the operation order the property's definition implies.
    returns ('ok', value) or ('IndexError',)"""
    n = len(keys)
    for k, v in zip(keys, vals):
        if k == q:
            return ('ok', v)
    if q != q:   # NaN: no ordering
        i = n
    else:
        i = sum(1 for k in keys if k < q)
    def line(j):
        return ((vals[j + 1] - vals[j]) / (keys[j + 1] - keys[j])) * (q - keys[j]) + vals[j]
    if 0 < i < n:
        return ('ok', line(i - 1))
    if n < 2:
        return ('IndexError',)
    if i == n:
        if exhi or q <= keys[-1] * (1 + tol):
            return ('ok', line(n - 2))
        return ('IndexError',)
    if exlo or q >= keys[0] * (1 - tol):
        return ('ok', line(0))
    return ('IndexError',)


def gen_table(rng):
    n = rng.randint(2, 12)
    style = rng.random()
    ks = set()
    while len(ks) < n:
        if style < 0.25:
            ks.add(rng.uniform(-100, 100))
        elif style < 0.5:
            ks.add(math.exp(rng.uniform(-12, 8)) * rng.choice([1, 1, -1]))
        elif style < 0.65:
            base = rng.uniform(0.5, 3)
            x = base
            for _ in range(n):
                ks.add(x)
                x = math.nextafter(x, math.inf) if rng.random() < 0.5 else x * (1 + rng.uniform(1e-9, 1e-3))
        elif style < 0.8:
            ks.add(float(rng.randint(-20, 20)))
        else:
            ks.add(rng.uniform(0, 1))
    keys = sorted(ks)[:n]
    vals = [rng.uniform(-50, 50) if rng.random() < 0.8 else float(rng.randint(-3, 3)) for _ in keys]
    return keys, vals, rng.random() < 0.5, rng.random() < 0.5


def queries(rng, keys):
    qs = list(keys)
    for a, b in zip(keys, keys[1:]):
        qs.append((a + b) / 2)
    for k in keys:
        qs += [math.nextafter(k, math.inf), math.nextafter(k, -math.inf)]
    lo, hi = keys[0], keys[-1]
    for f in (0.9995, 1.0005, 0.999, 1.001, 0.9989, 1.0011, 0.99, 1.01):
        qs += [lo * f, hi * f]
    span = (hi - lo) or 1.0
    qs += [lo - 10 * span, hi + 10 * span, rng.uniform(lo - span, hi + span), rng.uniform(lo, hi), 0.0, -0.0]
    return qs


def run_cases(ctx, n_tables, check_model):
    from DHLLDV.DHLLDV_Utils import interpDict
    lines, metas = [], []
    for _ in range(n_tables):
        keys, vals, exlo, exhi = gen_table(ctx.rng)
        # the points are handed over in any order (ascending, descending - a pump curve listed from run-out to shut-off -, shuffled): the
        # table is defined by its (key, value) pairs, not by their insertion order
        pairs = list(zip(keys, vals))
        order = ctx.rng.choice(['ascending', 'ascending', 'descending', 'shuffled'])
        if order == 'descending':
            pairs.reverse()
        elif order == 'shuffled':
            ctx.rng.shuffle(pairs)
        ctx.count('tables_' + order)
        if ctx.rng.random() < 0.3:
            # history: the table is built with other flags and used once, then the flags are set (Pump.__post_init__ and the Excel loader switch
            # extrapolation on after construction): every later lookup follows the flags as they are now
            qs_ = list(queries(ctx.rng, keys))
            if ctx.rng.random() < 0.5:
                t = interpDict(*pairs, extrapolate_low=ctx.rng.random() < 0.5, extrapolate_high=ctx.rng.random() < 0.5)
                try:
                    _ = t[(keys[0] + keys[1]) / 2]
                except IndexError:
                    pass
                note = 'flags set after a first lookup'
            else:
                # the very keys that are asked below were asked before, under the opposite flags (extrapolation on, then switched off - or the other way round)
                t = interpDict(*pairs, extrapolate_low=not exlo, extrapolate_high=not exhi)
                for q_ in qs_:
                    try:
                        _ = t[q_]
                    except IndexError:
                        pass
                note = 'every query was looked up once under the opposite flags, then the flags were set'
            t.extrapolate_low, t.extrapolate_high = exlo, exhi
            ctx.count('tables_flags_set_after_use')
            pairs = pairs + [[note]]
        else:
            # construction forms: a flag that is off may simply be left out (its documented default is off)
            kw = {}
            if exlo or ctx.rng.random() < 0.5:
                kw['extrapolate_low'] = exlo
            if exhi or ctx.rng.random() < 0.5:
                kw['extrapolate_high'] = exhi
            ctx.count('tables_built_with_' + ('+'.join(sorted(kw)) or 'no flags'))
            if ctx.rng.random() < 0.4:
                # the documented dict form, the dict written in the same (any) order
                t = interpDict(dict(pairs), **kw)
                ctx.count('tables_built_from_a_dict')
                pairs = pairs + [['handed over as one dict']]
            else:
                t = interpDict(*pairs, **kw)
            qs_ = None
            if len(kw) < 2:
                pairs = pairs + [['only these flags were given: ' + ', '.join(f'{k_}={v_}' for k_, v_ in sorted(kw.items()))]]
        for q in (qs_ if qs_ is not None else queries(ctx.rng, keys)):
            try:
                r = ('ok', t[q])
            except IndexError:
                r = ('IndexError',)
            except Exception as e:   # noqa
                r = ('exc', type(e).__name__)
            metas.append((keys, vals, exlo, exhi, q, r, [list(x) for x in pairs]))
            if check_model:
                lines.append('spec.lookup ' + ' '.join([enc(exlo), enc(exhi), enc(0.001), str(len(keys))]
                                                        + [enc(x) for kv in zip(keys, vals) for x in kv] + [enc(q)]))
    return lines, metas


def correspondence(ctx):
    from DHLLDV import DHLLDV_constants as K
    lines, metas = run_cases(ctx, ctx.n(150, 8000), True)
    outs = run_model(lines)
    for (keys, vals, exlo, exhi, q, r, ins), o in zip(metas, outs):
        ctx.count('corr_compared')
        m = ('IndexError',) if o == 'IndexError' else ('ok', unbits(o))
        if m[0] != r[0] or (m[0] == 'ok' and not (same_float(m[1], r[1]) if q in keys else tie_equal(ctx, m[1], r[1], max(abs(v) for v in vals)))):
            ctx.mismatch('InterpTable.lookup differs from interpDict.__getitem__',
                         {'keys': keys, 'vals': vals, 'extrapolate_low': exlo, 'extrapolate_high': exhi, 'query': q, 'inserted_as': ins}, m, r)
    ctx.sample({'table_keys': metas[0][0], 'query': metas[0][4], 'impl': metas[0][5]})
    # shipped tables through the regenerated literals (tie T for the data)
    sig = signatures()
    for name in ('water_density', 'water_dynamic_viscosity', 'water_viscosity', 'Arel_to_beta'):
        tbl = getattr(K, name)
        keys = sorted(tbl.keys())
        if [float(k) for k in keys] != [float(k) for k in sig['table.' + name]['keys']]:
            ctx.mismatch('shipped table keys differ from the regenerated literal', name, sig['table.' + name]['keys'], keys)
            continue
        qs = [float(k) for k in keys] + [(a + b) / 2 for a, b in zip(keys, keys[1:])] + \
             [ctx.rng.uniform(keys[0], keys[-1]) for _ in range(50)] + [keys[-1] * 1.0005, keys[-1] * 1.002, keys[0] - 1.0]
        outs = run_model([f'table.{name} {enc(q)}' for q in qs])
        for q, o in zip(qs, outs):
            ctx.count('corr_compared')
            try:
                r = ('ok', tbl[q])
            except IndexError:
                r = ('IndexError',)
            m = ('IndexError',) if o == 'IndexError' else ('ok', unbits(o))
            if m[0] != r[0] or (m[0] == 'ok' and not (same_float(m[1], r[1]) if q in keys else tie_equal(ctx, m[1], r[1], max(abs(float(v)) for v in tbl.values())))):
                ctx.mismatch(f'generated table {name} differs from the implementation', {'query': q}, m, r)


def monitor(ctx, extended=False):
    from DHLLDV.DHLLDV_Utils import interpDict
    from DHLLDV import DHLLDV_constants as K
    _, metas = run_cases(ctx, ctx.n(300, 20000) * (4 if extended else 1), False)
    nontrivial = set()
    for keys, vals, exlo, exhi, q, r, ins in metas:
        ctx.count('evaluations')
        want = oracle_lookup(keys, vals, exlo, exhi, 0.001, q)
        # at a tabulated key the stored value itself (exact); elsewhere the straight line, whose evaluation order the property does not fix (1e-12)
        good = want[0] == r[0] and (want[0] != 'ok' or (same_float(want[1], r[1]) if q in keys else tie_equal(ctx, want[1], r[1], max(abs(v) for v in vals))))
        if not good:
            ctx.violation(f'lookup gives {r}, piecewise-linear specification gives {want}',
                          {'keys': keys, 'vals': vals, 'extrapolate_low': exlo, 'extrapolate_high': exhi, 'query': q, 'inserted_as': ins}, key='lookup-spec')
        if q in keys or q < keys[0] or q > keys[-1]:
            nontrivial.add((tuple(keys), q))
    # item assignment refused - whichever way the table was built (point tuples / a dict / a dict that is itself a table), and for the shipped tables
    def refuses(t, label, keys, probe_keys):
        before = dict(t)
        for k in probe_keys:
            ctx.count('evaluations')
            try:
                t[k] = before.get(k, 1.0)      # an accepted assignment of the stored value leaves a shared table as it was
                ctx.violation(f'item assignment accepted ({label})', {'keys': keys, 'key': k, 'built': label}, key='setitem')
                if k not in before:
                    dict.__delitem__(t, k)
            except KeyError:
                pass
            except Exception as e:   # noqa
                ctx.violation(f'item assignment raised {type(e).__name__} ({label})', {'keys': keys, 'key': k, 'built': label}, key='setitem')
        if dict(t) != before:
            ctx.violation(f'table changed by a refused assignment ({label})', {'keys': keys, 'built': label}, key='setitem')
    for i in range(20):
        keys, vals, exlo, exhi = gen_table(ctx.rng)
        forms = {'points': lambda: interpDict(*zip(keys, vals), extrapolate_low=exlo, extrapolate_high=exhi),
                 'dict': lambda: interpDict(dict(zip(keys, vals)), extrapolate_low=exlo, extrapolate_high=exhi),
                 'dict, no flags': lambda: interpDict(dict(zip(keys, vals))),
                 'another table': lambda: interpDict(interpDict(*zip(keys, vals))) if type(interpDict(*zip(keys, vals))) == dict else interpDict(dict(interpDict(*zip(keys, vals))))}
        for label, build in forms.items():
            t = build()
            refuses(t, label, keys, (keys[0], 12345.678))
            if i < 3:
                # and again after the table has been used
                try:
                    t[keys[0]]
                    t[(keys[0] + keys[-1]) / 2]
                except IndexError:
                    pass
                refuses(t, label + ', after lookups', keys, (keys[-1], -98765.4))
    for name in ('water_density', 'water_dynamic_viscosity', 'water_viscosity', 'Arel_to_beta'):
        tbl = getattr(K, name)
        ks = sorted(tbl.keys())
        refuses(tbl, 'shipped table ' + name, [float(k) for k in ks], (ks[0], ks[len(ks) // 2], 12345.678))
    # shipped tables
    for name in ('water_density', 'water_dynamic_viscosity', 'water_viscosity'):
        tbl = getattr(K, name)
        ks = sorted(tbl.keys())
        grid = [ks[0] + (ks[-1] - ks[0]) * i / 2000 for i in range(2001)]
        vals = [tbl[x] for x in grid]
        ctx.count('evaluations', len(grid))
        if not all(v > 0 for v in vals):
            ctx.violation(f'{name} not positive', {'table': name}, key='shipped-positive')
        if 'viscosity' in name and not all(b < a for a, b in zip(vals, vals[1:])):
            ctx.violation(f'{name} does not decrease with temperature', {'table': name}, key='viscosity-decreasing')
    ctx.stats['distinct_nontrivial'] = len(nontrivial)


def replay(v):
    from DHLLDV.DHLLDV_Utils import interpDict
    i = v['input']
    if 'query' not in i:
        return None
    ins = i.get('inserted_as') or [list(x) for x in zip(i['keys'], i['vals'])]
    if ins and len(ins[-1]) == 1 and str(ins[-1][0]).startswith('only these flags'):
        ins = ins[:-1]
        kw = {}
        if i['extrapolate_low']:
            kw['extrapolate_low'] = True
        if i['extrapolate_high']:
            kw['extrapolate_high'] = True
        t = interpDict(*ins, **kw)
        try:
            r = ('ok', t[i['query']])
        except IndexError:
            r = ('IndexError',)
        want = oracle_lookup(i['keys'], i['vals'], i['extrapolate_low'], i['extrapolate_high'], 0.001, i['query'])
        return None if (want[0] == r[0] and (want[0] != 'ok' or same_float(want[1], r[1]) or abs(want[1] - r[1]) <= 1e-12 * max(abs(v) for v in i['vals']))) else f'lookup gives {r}, specification gives {want}'
    late = bool(ins) and len(ins[-1]) == 1
    if late:
        ins = ins[:-1]
        t = interpDict(*ins, extrapolate_low=not i['extrapolate_low'], extrapolate_high=not i['extrapolate_high'])
        try:
            _ = t[(i['keys'][0] + i['keys'][1]) / 2]
        except IndexError:
            pass
        t.extrapolate_low, t.extrapolate_high = i['extrapolate_low'], i['extrapolate_high']
    else:
        t = interpDict(*ins, extrapolate_low=i['extrapolate_low'], extrapolate_high=i['extrapolate_high'])
    try:
        r = ('ok', t[i['query']])
    except IndexError:
        r = ('IndexError',)
    want = oracle_lookup(i['keys'], i['vals'], i['extrapolate_low'], i['extrapolate_high'], 0.001, i['query'])
    class _C:
        def count(self, k):
            pass
    good = want[0] == r[0] and (want[0] != 'ok' or (same_float(want[1], r[1]) if i['query'] in i['keys'] else tie_equal(_C(), want[1], r[1], max(abs(v) for v in i['vals']))))
    return None if good else f'{r} vs {want}'
