"""C12 — the discretised grain-size distribution is a valid, faithful distribution."""
import math

import envelope as E
from common import run_model, enc, unbits, same_float, rel_close, is_real_finite, tie_equal

ID = 'C12'
LEAN_MODULES = ['Dhlldv.Props.C12']
PROP_MODULES = ['Dhlldv.Props.C12']
TIE = ('hand-written executable Lean model of create_fracs / get_dx (Spec.Fracs, float-keyed dict modelled with overwrite-on-equal-key) compared bit-for-bit '
       'with the implementation; pseudo_dlim is the generated definition (tie T)')
TECHNIQUE = 'Lean 4 proofs of the building blocks over an executable model + bit-exact correspondence + exhaustive-in-structure property oracle'
PROVED = ['the log-linear interpolation behind every inserted node reproduces both end points of its segment, stays strictly between them and is strictly increasing in the fraction',
          'the k-th of n equal subdivisions lies strictly inside its segment; 10**log10 d = d for d > 0',
          'the fractions of the discretised grading are strictly increasing for EVERY input (dict overwrite keeps keys pairwise distinct through all loops; sorted() of distinct keys is strictly increasing)',
          'for every well-formed input (given points strictly increasing in fraction and diameter, fractions in [0, B], the last given diameter not below the limit): every fraction lies in [0, max(B, 0.999)], i.e. inside [0,1) for B < 1',
          'for B < 0.999 and the last given diameter strictly above the limit: the diameters are strictly increasing along the fractions; no node lies below the limiting diameter; if the first remaining segment reaches the limit at a positive fraction X then (X, limit) is a node and no node lies left of it; the grading has AT LEAST THE REQUESTED NUMBER of nodes (any input length, any requested number >= 3: every inserted key is new and points_left x (between + 1) >= num_fracs - 1 with the rounded-up quotient); every given point from the upper end of the first remaining segment onwards is a node, i.e. reproduced exactly (invariants carried through the skip, the segment loop, the subdivision loop and the extrapolated top node)',
          'corollary for the grading the slurry object builds (D15 < D50 < D85 at 0.15 / 0.5 / 0.85, D85 above the limit): at least ten nodes, fractions strictly increasing in [0,1), diameters strictly increasing and never below the limit, D85 itself a node',
          'get_dx rejects every fraction outside (0,1), returns the tabulated diameter at a tabulated fraction, and is the C18 lookup on (fraction, log10 d) in between',
          'reproduction by interpolation, one segment (C12_reproduction_between_nodes_partial, C12_start_node_on_line, C12_log10_pow10): log-linear interpolation between ANY two nodes the '
          'discretiser puts on a segment returns the value of the segment\'s own log-line at every fraction - in particular exactly the given lower point, which is not a node - and the '
          'start node (X, limit) lies on that line',
          'reproduction by interpolation through the lookup over the WHOLE output (C12_reproduces_lower_point): whenever the grading starts at the limit (X > 0) and the lower given '
          'point of the first remaining segment lies above the limit, get_dx at its fraction returns exactly its diameter although it is not a node - every node up to the upper end of '
          'that segment lies on the segment\'s log-line (invariant carried through start node, subdivision loop, segment loop, sorted() and the extrapolated top node: Lemmas/FracsLine), '
          'and the lookup over a sorted table whose nodes up to a key lie on one line returns that line (Lemmas/FracsLookup); corollary for the slurry object (C12_slurry_D15_reproduced): D15 above the limit with the grading starting at the limit => get_dx(0.15) = D15']
HYPOTHESES = []
MONITORED = ['reproduction of the lowest given point when the grading does NOT start at the limit (X <= 0: no start node is stored; with no interpolated node on the first segment the point is lost - the listed finding) and, as a cross-check of the proved ones on doubles, ordering / range / start node - decided by the oracle on the implementation for every generated grading; '
             'floating-point rounding of 10**log10']
RULE = ('(Dp, fluid, rhos) in E x D15<D50<D85 with ratios in (1.02, 6] incl. the band D15 just above the limit and near-uniform gradings (ratios 1.02-1.05), '
        'D50 from just above the limit to 0.25 Dp, through Slurry and through raw create_fracs with 3- and 4-point inputs (extra point at 0 or 0.05, finer or coarser than the limit); '
        'non-trivial = distinct (X>0 | X<=0, number of points skipped, extra point kind) classes x gradings')
ASSUMPTIONS = ['count clause read as: at least ten tabulated fractions (dict entries; the fines below the first node count as a fraction); a given point below the first node counts as reproduced if it lies on the log-linear continuation of the first segment']
KNOWN_4PT = 'fraction-0 input point coarser than the pseudo-liquid limit (X <= 0 branch does not store the fraction-0 node)'


def gen_case(rng):
    p = E.slurry_params(rng)
    nu, rhol = E.fluids()[p['fluid']]
    dl = E.dlim(p['Dp'], nu, rhol, p['rhos'])
    r = rng.random()
    if r < 0.2:
        # D15 slightly above / below the limit
        p['D50'] = dl * rng.uniform(1.05, 3.0)
        p['r15'] = min(6.0, max(1.021, p['D50'] / (dl * rng.uniform(0.8, 1.3))))
    elif r < 0.3:
        p['r15'], p['r85'] = rng.uniform(1.021, 1.05), rng.uniform(1.021, 1.05)
    elif r < 0.4:
        p['D50'] = dl * rng.choice([1.0001, 1.0, 1.0, 1.0 + 1e-12])     # also EXACTLY on the limit (a boundary point of the envelope)
    elif r < 0.5:
        # coarse and broad: the property bounds D50 by 0.25 Dp and each ratio by 6, not D85 by the pipe - D85 (and the node extrapolated above it) may exceed Dp
        p['D50'] = p['Dp'] * rng.uniform(0.1, 0.25)
        p['r85'] = rng.choice([rng.uniform(3.0, 6.0), 6.0, 5.0, 4.0])
    elif r < 0.6:
        # a given point (D15 or D50) within a few ulp / 1e-13 / 1e-11 of the limit, above or below: the start fraction X then lies within rounding of that
        # point's own fraction
        off = rng.choice([1, 2, 3, 8, -1, -2, 'rel13', 'rel11', 'rel9'])
        base_ = dl
        if isinstance(off, int):
            for _ in range(abs(off)):
                base_ = math.nextafter(base_, 1.0 if off > 0 else 0.0)
        else:
            base_ = dl * (1 + {'rel13': 1e-13, 'rel11': 1e-11, 'rel9': 1e-9}[off])
        if rng.random() < 0.6:
            p['r15'] = rng.choice([1.2, 1.5, 2.0, 3.0])
            p['D50'] = base_ * p['r15']          # D15 = D50 / r15 lands on (or an ulp beside) base_
        else:
            p['D50'] = base_
    pts = {0.15: p['D50'] / p['r15'], 0.5: p['D50'], 0.85: p['D50'] * p['r85']}
    kind = '3pt'
    r = rng.random()
    if r < 0.35:
        f0 = rng.choice([0, 0.05])
        finer = rng.random() < 0.5
        d0 = pts[0.15] / rng.uniform(1.1, 4.0)
        if finer:
            d0 = min(d0, dl * rng.uniform(0.3, 0.95))
        else:
            d0 = max(d0, dl * rng.uniform(1.05, 2.0))
            if d0 >= pts[0.15]:
                d0 = (dl * 1.02 + pts[0.15]) / 2 if pts[0.15] > dl * 1.02 else pts[0.15] * 0.9
        pts[f0] = d0
        kind = f'4pt@{f0}:' + ('finer' if d0 < dl else 'coarser')
    elif r < 0.6:
        # a longer tabulated distribution (sieve curve): n points, log-linear-ish between a lowest and a highest diameter, fractions strictly inside (0,1);
        # the lowest points may lie below the limit (they are discarded) and the grading may or may not reach the limit at a positive fraction
        n = rng.choice([5, 6, 7, 8, 9, 10, 11, 12, 16, 20, 24, 32])
        top = min(pts[0.85] * rng.uniform(1.0, 1.5), 0.5 * p['Dp'])
        lowest = rng.choice([dl * rng.uniform(0.2, 0.9), dl * rng.uniform(1.05, 1.5), pts[0.15]])
        lowest = min(lowest, top / 3.0)
        f_lo, f_hi = rng.choice([0.02, 0.05, 0.1, 0.15]), rng.choice([0.85, 0.9, 0.95, 0.98])
        fr = sorted({round(f_lo + (f_hi - f_lo) * (i + (rng.uniform(-0.25, 0.25) if 0 < i < n - 1 else 0.0)) / (n - 1), 6) for i in range(n)})
        n = len(fr)
        lg = [math.log10(lowest) + (math.log10(top) - math.log10(lowest)) * i / (n - 1) for i in range(n)]
        pts = {f: 10 ** (g + (rng.uniform(-0.2, 0.2) * (lg[1] - lg[0]) if 0 < i < n - 1 else 0.0)) for i, (f, g) in enumerate(zip(fr, lg))}
        above = [d for d in pts.values() if d > dl]
        kind = f'{n}pt:' + ('reaches-limit' if lowest < dl else 'above-limit')
        if len(above) < 2:
            return gen_case(rng)
    return p, pts, kind, (nu, rhol, dl)


def model_line(pts, Dp, nu, rhol, rhos):
    it = sorted(pts.items())
    return 'spec.fracs ' + ' '.join([enc(Dp), enc(nu), enc(rhol), enc(rhos), '10', str(len(it))] + [enc(float(x)) for q in it for x in q])


def correspondence(ctx):
    from DHLLDV import DHLLDV_framework as F
    lines, wants, metas = [], [], []
    for _ in range(ctx.n(800, 50000)):
        p, pts, kind, (nu, rhol, dl) = gen_case(ctx.rng)
        try:
            w = F.create_fracs(dict(pts), p['Dp'], nu, rhol, p['rhos'])
        except Exception:   # noqa
            ctx.count('corr_impl_nonreal')
            continue
        lines.append(model_line(pts, p['Dp'], nu, rhol, p['rhos']))
        wants.append(sorted(w.items()))
        metas.append((p, pts, kind))
    outs = run_model(lines)
    glines, gw = [], []
    for o, w, m in zip(outs, wants, metas):
        ctx.count('corr_compared')
        toks = o.split(' ')
        got = [tuple(unbits(x) for x in t.split(':')) for t in toks[3:]]
        if len(got) != len(w) or not all(tie_equal(ctx, a[0], b[0]) and tie_equal(ctx, a[1], b[1]) for a, b in zip(got, w)):
            ctx.mismatch('Spec.Fracs.createFracs differs from create_fracs', {'points': {str(k): v for k, v in m[1].items()}, 'slurry': m[0]}, got[:4], w[:4])
        # get_dx model on this grading
        if len(glines) < ctx.n(600, 20000):
            from DHLLDV.SlurryObj import Slurry
            s = Slurry.__new__(Slurry)
            s._GSD, s.GSD_curves_dirty = dict(w), False
            for fr in [w[0][0], w[3][0], 0.15, 0.5, 0.85, ctx.rng.random(), ctx.rng.uniform(0, w[0][0] + 1e-9), 0.9995, 0.0, 1.0, -0.1, 1.5]:
                try:
                    r = s.get_dx(fr)
                except ValueError:
                    r = 'ValueError'
                except Exception as e:   # noqa
                    r = type(e).__name__
                glines.append('spec.getdx ' + ' '.join([str(len(w))] + [enc(float(x)) for q in w for x in q] + [enc(float(fr))]))
                gw.append((r, fr))
    gouts = run_model(glines)
    for o, (r, fr) in zip(gouts, gw):
        ctx.count('corr_compared')
        ok = (o == r) if isinstance(r, str) else (o != 'ValueError' and tie_equal(ctx, unbits(o), r))
        if not ok:
            ctx.mismatch('Spec.Fracs.getDx differs from Slurry.get_dx', {'frac': fr}, o, r)
    ctx.sample({'points': {str(k): v for k, v in metas[0][1].items()}, 'slurry': metas[0][0], 'kind': metas[0][2]})


def loglin(points, f):
    """log-linear interpolation through sorted (fraction, diameter) points (no extrapolation)"""
    for (f0, d0), (f1, d1) in zip(points, points[1:]):
        if f0 <= f <= f1:
            return 10 ** (math.log10(d0) + (math.log10(d1) - math.log10(d0)) * (f - f0) / (f1 - f0))
    return None


def check_gsd(g, pts, dl, tol=1e-9):
    """the property on one discretised grading; returns a violation text or None"""
    nodes = sorted(g.items())
    fr = [f for f, _ in nodes]
    ds = [d for _, d in nodes]
    if not all(is_real_finite(x) for x in fr + ds):
        return 'non-finite node', None
    if not all(a < b for a, b in zip(fr, fr[1:])) or fr[0] < 0 or fr[-1] >= 1:
        return f'fractions not strictly increasing within [0,1): {fr}', None
    if not all(a < b for a, b in zip(ds, ds[1:])):
        return f'diameters not strictly increasing: {ds}', None
    if len(nodes) < 10:
        return f'only {len(nodes)} fractions', 'count'
    given = sorted(pts.items())
    for f, d in given:
        if d > dl * (1 + 1e-12) or f in (0.5, 0.85):
            if f < fr[0]:
                # below the first node (only possible for a point at fraction 0 / 0.05 when the grading does not reach the limit):
                # reproduced if it lies on the log-linear continuation of the first segment
                (f0, d0), (f1, d1) = nodes[0], nodes[1]
                got = 10 ** (math.log10(d0) + (math.log10(d1) - math.log10(d0)) * (f - f0) / (f1 - f0))
            else:
                got = loglin(nodes, f)
            if got is None or not rel_close(got, d, 1e-9):
                # listed finding: the grading does not reach the limit at a positive fraction (X <= 0 branch, which stores no start node) and no point
                # is interpolated in the first segment (ten or more given points): the LOWEST given point is then neither a node nor on the first segment
                lowest = f == given[0][0] and f < fr[0] and given[0][1] > dl and len([1 for _, dd in given if dd > dl]) >= 10
                return f'given point ({f}, {d}) is not reproduced (interpolant gives {got})', ('lowest-point-dropped' if lowest else 'given-point')
    # where does the log-linear distribution reach the limit?
    x = None
    for (f0, d0), (f1, d1) in zip(given, given[1:]):
        if d0 <= dl <= d1:
            x = f0 + (math.log10(dl) - math.log10(d0)) * (f1 - f0) / (math.log10(d1) - math.log10(d0))
    if x is None and dl < given[0][1]:
        (f0, d0), (f1, d1) = given[0], given[1]
        x = f0 + (math.log10(dl) - math.log10(d0)) * (f1 - f0) / (math.log10(d1) - math.log10(d0))
    if ds[0] < dl * (1 - tol):
        return f'first node {ds[0]} is below the limiting diameter {dl}', 'start'
    if x is not None and x > 1e-12:
        if not (rel_close(ds[0], dl, tol) and abs(fr[0] - x) < 1e-9):
            return f'distribution reaches the limit at fraction {x} but the grading starts at ({fr[0]}, {ds[0]}), limit {dl}', 'start'
    return None, None


def check_lookup(ctx, s, pts, dl, inp):
    """the diameter-at-fraction clauses on a slurry object whose grading was generated from pts"""
    for f, d in pts.items():
        if d > dl and not rel_close(s.get_dx(f), d, 1e-9):
            ctx.violation(f'get_dx({f}) = {s.get_dx(f)!r} does not return the given diameter {d!r}', inp, key='gsd')
    xs = sorted([ctx.rng.random() * 0.998 + 0.001 for _ in range(6)] + list(s.GSD.keys())[:3])
    vals = [s.get_dx(x) for x in xs]
    if not all(a < b for a, b in zip(vals, vals[1:])) and len(set(xs)) == len(xs):
        ctx.violation(f'get_dx not increasing on {xs}: {vals}', inp, key='gsd')
    for x in list(s.GSD.keys())[:4]:
        if 0 < x < 1 and s.get_dx(x) != s.GSD[x]:
            ctx.violation(f'get_dx({x}) differs from the tabulated diameter', inp, key='gsd')
    for x in (0, 0.0, 1.0, -0.2, 1.0000001, 2):
        try:
            s.get_dx(x)
            ctx.violation(f'get_dx({x}) accepted', inp, key='gsd')
        except ValueError:
            pass


def monitor(ctx, extended=False):
    from DHLLDV import DHLLDV_framework as F
    from DHLLDV.SlurryObj import Slurry
    classes = set()
    n = ctx.n(2500, 150000) * (3 if extended else 1)
    for _ in range(n):
        p, pts, kind, (nu, rhol, dl) = gen_case(ctx.rng)
        ctx.count('evaluations')
        inp = {'points': {str(k): v for k, v in pts.items()}, 'Dp': p['Dp'], 'fluid': p['fluid'], 'rhos': p['rhos'], 'dlim': dl}
        try:
            g = F.create_fracs(dict(pts), p['Dp'], nu, rhol, p['rhos'])
            bad, clause = check_gsd(g, pts, dl)
            if bad:
                ctx.violation(bad, inp, key='lowest-point-dropped' if clause == 'lowest-point-dropped' else 'gsd')
            classes.add((kind, min(g) > 0 and rel_close(g[min(g)], dl, 1e-9), len(g)))
            if ctx.rng.random() < 0.25:
                # the caller's own table is passed as it is (not a copy), and passed again for a smaller pipe (lower limit): it must come back
                # untouched, and the second grading must be the one a fresh table gives
                own = dict(pts)
                F.create_fracs(own, p['Dp'], nu, rhol, p['rhos'])
                if own != pts:
                    ctx.violation(f'create_fracs edited the table it was given: {sorted(own.items())[:4]} ... instead of {sorted(pts.items())[:4]} ...', inp, key='gsd')
                Dp2 = max(0.1, p['Dp'] * 0.45)
                dl2 = E.dlim(Dp2, nu, rhol, p['rhos'])
                if max(pts.values()) <= 0.5 * Dp2 and sum(1 for v_ in pts.values() if v_ > dl2) >= 2:
                    g2 = F.create_fracs(own, Dp2, nu, rhol, p['rhos'])
                    g2r = F.create_fracs(dict(pts), Dp2, nu, rhol, p['rhos'])
                    if sorted(g2.items()) != sorted(g2r.items()):
                        ctx.violation(f'the same table passed a second time (pipe {Dp2}) gives another grading than a fresh copy of it: starts at {sorted(g2.items())[0]} instead of {sorted(g2r.items())[0]}',
                                      dict(inp, second_Dp=Dp2), key='gsd')
            if kind == '3pt':
                s = E.make_slurry(p)
                bad, clause = check_gsd(s.GSD, pts, dl)
                if bad:
                    ctx.violation('Slurry: ' + bad, inp, key='gsd')
                check_lookup(ctx, s, pts, dl, inp)
                if ctx.rng.random() < 0.3:
                    # history: the grading of the SAME object is regenerated directly (as the viewer's D15 / D85 boxes and the Excel loader do)
                    # after lookups at non-node fractions; the lookup has to follow the new grading
                    r15n = ctx.rng.uniform(1.05, 6.0)
                    r85n = min(ctx.rng.uniform(1.05, 6.0), 0.5 * p['Dp'] / p['D50'])
                    if r85n > 1.02:
                        s.generate_GSD(d15_ratio=r15n, d85_ratio=r85n)
                        pts2 = {0.15: p['D50'] / r15n, 0.5: p['D50'], 0.85: p['D50'] * r85n}
                        inp2 = dict(inp, history=f'lookups, then generate_GSD(d15_ratio={r15n!r}, d85_ratio={r85n!r}) on the same object', points={str(k): v for k, v in pts2.items()})
                        bad, clause = check_gsd(s.GSD, pts2, dl)
                        if bad:
                            ctx.violation('Slurry after regenerating the grading: ' + bad, inp2, key='gsd')
                        check_lookup(ctx, s, pts2, dl, inp2)
                r_ = ctx.rng.random()
                if r_ < 0.25:
                    # a SECOND slurry object in the same process that differs from the first only in solids density (the limit, hence the start of the grading,
                    # depends on it): its grading is its own
                    p2 = dict(p)
                    p2['rhos'] = ctx.rng.choice([x_ for x_ in (2.0, 2.65, 3.2, 4.0) if abs(x_ - p['rhos']) > 0.3])
                    dl2 = E.dlim(p2['Dp'], nu, rhol, p2['rhos'])
                    if p2['D50'] > max(dl2, 5e-5) * 1.0001:
                        s2 = E.make_slurry(p2)
                        inp2 = dict(inp, rhos=p2['rhos'], dlim=dl2, history=f"a slurry object with solids density {p['rhos']!r} and otherwise the same parameters was built and read first")
                        bad, clause = check_gsd(s2.GSD, pts, dl2)
                        if bad:
                            ctx.violation('second Slurry object: ' + bad, inp2, key='gsd')
                        check_lookup(ctx, s2, pts, dl2, inp2)
                        # ... and a THIRD object with other ratios is graded; then the first one is made to regenerate (its pipe assigned again): it keeps ITS ratios
                        p3 = dict(p, r15=ctx.rng.choice([1.3, 4.0]), r85=min(ctx.rng.choice([1.3, 4.0]), 0.5 * p['Dp'] / p['D50']))
                        if p3['r85'] > 1.02:
                            s1 = E.make_slurry(p)
                            s1.get_dx(0.3)
                            E.make_slurry(p3).GSD
                            s1.Dp = p['Dp']
                            s1.fluid = p['fluid']
                            inp1 = dict(inp, history='another slurry object with other ratios was graded, then this one regenerated its grading (pipe / fluid assigned again)')
                            bad, clause = check_gsd(s1.GSD, pts, dl)
                            if bad:
                                ctx.violation('first Slurry object after another was graded: ' + bad, inp1, key='gsd')
                            check_lookup(ctx, s1, pts, dl, inp1)
                elif r_ < 0.5:
                    # the same object reached along other routes: the two ratios given in two separate calls (as the viewer's D15 and D85 boxes do), the solids
                    # density / pipe / fluid assigned (again) after the grading was given
                    s3 = Slurry(Dp=p['Dp'], D50=p['D50'], fluid=p['fluid'], Cv=p['Cv'])
                    route = ctx.rng.choice(['ratios one by one', 'rhos after the grading', 'same pipe and fluid assigned again', 'D50 fine-tuned'])
                    if route == 'D50 fine-tuned':
                        # the object was first given a D50 a fraction of a micron away (a sweep in sub-micron steps, a value typed with more digits than a
                        # box shows), read, and then set to the D50 in question through the setter: the grading follows the D50 it has now
                        step = ctx.rng.choice([2e-7, 4e-8, 3e-7] if p['D50'] < 1.01 * max(dl, 5e-5) else [2e-7, -2e-7, 4e-8, -3e-7])
                        s3 = Slurry(Dp=p['Dp'], D50=p['D50'] + step, fluid=p['fluid'], Cv=p['Cv'])
                        s3.rhos = p['rhos']
                        s3.generate_GSD(d15_ratio=p['r15'], d85_ratio=p['r85'])
                        s3.get_dx(0.5)
                        s3.D50 = p['D50']
                        route += f' (from D50 {p["D50"] + step!r} through the setter)'
                    elif route == 'ratios one by one':
                        s3.rhos = p['rhos']
                        s3.generate_GSD(d15_ratio=p['r15'])
                        s3.generate_GSD(d85_ratio=p['r85'])
                    elif route == 'rhos after the grading':
                        s3.generate_GSD(d15_ratio=p['r15'], d85_ratio=p['r85'])
                        s3.rhos = p['rhos']
                    else:
                        s3.rhos = p['rhos']
                        s3.generate_GSD(d15_ratio=p['r15'], d85_ratio=p['r85'])
                        s3.get_dx(0.3)
                        s3.Dp = p['Dp']
                        s3.fluid = p['fluid']
                    inp3 = dict(inp, history='slurry object built along another route: ' + route)
                    bad, clause = check_gsd(s3.GSD, pts, dl)
                    if bad:
                        ctx.violation(f'Slurry ({route}): ' + bad, inp3, key='gsd')
                    check_lookup(ctx, s3, pts, dl, inp3)
        except Exception as e:   # noqa
            ctx.violation(f'raised {type(e).__name__}: {e}', inp, key='raised')
    ctx.stats['distinct_nontrivial'] = len(classes)


KNOWN_WITNESS = {'points': {0.02: 8.56445543243892e-05, 0.130533: 0.00013161496211225096, 0.201293: 0.00020633395041375467, 0.303376: 0.00034018359862951996,
                            0.419084: 0.0005229634571474463, 0.521739: 0.0009420852803054486, 0.592497: 0.0012889842617069623, 0.67883: 0.0021580448411863216,
                            0.78313: 0.003336510303589639, 0.907655: 0.005723532222033156, 0.98: 0.00875532529643336},
                 'Dp': 0.1193232287834579, 'fluid': 'salt', 'rhos': 2.684179463237147}


def replay_known(kf):
    """witness of the listed finding `lowest-point-dropped`: True if it still reproduces"""
    if kf['key'] != 'lowest-point-dropped':
        return False
    from DHLLDV import DHLLDV_framework as F
    w = kf.get('witness') or KNOWN_WITNESS
    pts = {float(k): float(v) for k, v in w['points'].items()}
    nu, rhol = E.fluids()[w['fluid']]
    dl = E.dlim(w['Dp'], nu, rhol, w['rhos'])
    g = F.create_fracs(dict(pts), w['Dp'], nu, rhol, w['rhos'])
    bad, clause = check_gsd(g, pts, dl)
    return clause == 'lowest-point-dropped'
