"""C04 — the head-loss surface is physically ordered, monotone and free of jumps."""
import math

import envelope as E
from common import compare_gen, is_real_finite, rel_close

ID = 'C04'
LEAN_MODULES = ['Dhlldv.Props.C04']
PROP_MODULES = ['Dhlldv.Props.C04']
PROVED = ['carrier-liquid gradient positive on E, strictly increasing in line speed (analytic lemma: L(v)/v strictly decreasing for L = -log(c1 + k v^-0.9)) and strictly decreasing in pipe diameter',
          'homogeneous excess gradient in [0, il] on E below the sliding-flow onset or with the correction off, and >= 0 with the blend (uses lambda <= 8/225 on E, proved: Re^0.9 >= 2900, exp(6.105) < 475)',
          'heterogeneous excess gradient strictly decreasing in line speed on E, both settings of both switches',
          'free settling velocity strictly increasing in grain size and in relative density; hindered settling positive, below the free value, strictly decreasing in concentration',
          'selected spatial-concentration excess gradient >= 0 on E',
          'no jump at the branch thresholds: both branches of the homogeneous and heterogeneous models coincide at d = 0.015 Dp; the generated sqrt(Cx) is the two-piece function whose pieces meet at both breakpoints',
          'the selection max(min(min FB SB) He) Ho is 1-Lipschitz in its four inputs, hence (with C01) the reported gradient cannot amplify a change of the regime models']
HYPOTHESES = ['fixed-bed Erhg increasing in line speed; selected Erhg >= 0 for delivered-concentration input (needs 0 <= Xi < 1, C05) - searched on the implementation on every run']
MONITORED = ['the quantitative no-jump clause (1e-7 relative input change => < 1e-3 relative output change) with inputs placed on and +-1e-7 around every threshold of the code']
RULE = ('envelope points with every branch threshold hit exactly and from both sides (d/Dp = 0.015, d = 2 mm, the sqrt(Cx) breakpoints located by bisection, sub-layer cap, regime '
        'transitions located by bisection on vls); each point with 8 single-input perturbations of 1e-7 and monotonicity probes; non-trivial = distinct (regime, threshold kind) classes')
ASSUMPTIONS = ['reading of the homogeneous clause: 0 <= Ho <= il is demanded for d < 0.015 Dp (below the sliding-flow onset); with the documented sliding-flow blend the value lies between Ho and musf']


def sqrtcx_breakpoint(rng, nu, rhos, rhol, which):
    """grain size at which Gibert == 1.8 (which=0) or Gibert == Wilson (which=1), by bisection on an independent formula"""
    g = 9.80665
    Rsd = (rhos - rhol) / rhol

    def fn(d):
        vt = 10 * nu / d * ((1 + Rsd * g * d ** 3 / (100 * nu ** 2)) ** 0.5 - 1)
        gib = 1 / (vt / (g * d) ** 0.5) ** (10 / 9)
        if which == 0:
            return gib - 1.8
        if gib > 1.8:
            gib = 1.8 * (gib / 1.8) ** 0.75
        return gib - 0.226 * (g / d) ** 0.1667
    lo, hi = 5e-5, 5e-2
    if fn(lo) * fn(hi) > 0:
        return None
    for _ in range(200):
        m = (lo + hi) / 2
        if fn(lo) * fn(m) <= 0:
            hi = m
        else:
            lo = m
    return (lo + hi) / 2


def gen_point(rng):
    a = list(E.point(rng))
    r = rng.random()
    kind = 'plain'
    if r < 0.2:
        t = sqrtcx_breakpoint(rng, a[4], a[6], a[5], rng.randrange(2))
        lo = max(E.dlim(a[1], a[4], a[5], a[6]), 5e-5)
        if t and lo <= t <= 0.25 * a[1]:
            a[2] = rng.choice([t, t * (1 - 5e-8), t * (1 + 5e-8)])
            kind = 'sqrtcx'
    elif r < 0.4:
        t = 0.015 * a[1]
        a[2] = rng.choice([t, t * (1 - 5e-8), t * (1 + 5e-8), math.nextafter(t, 0), math.nextafter(t, 1)])
        kind = 'sliding-flow'
    elif r < 0.55:
        # the viscous sub-layer cap of the homogeneous model (11.6 nu / (u* d) = 1), located by bisection on the line speed; half of these points in the corner
        # where the cap meets the sliding-flow blend (gravel in a small pipe at a crawl: d >= 0.015 Dp)
        from DHLLDV import homogeneous as Ho
        if rng.random() < 0.5:
            a[1] = rng.uniform(0.1, 0.15)
            a[2] = rng.uniform(0.015 * a[1], min(0.25 * a[1], 2.4e-3))

        def over(v):
            lam = Ho.swamee_jain_ff(Ho.pipe_reynolds_number(v, a[1], a[4]), a[1], a[3])
            return 11.6 * a[4] / ((lam / 8) ** 0.5 * v * a[2]) - 1
        try:
            if over(0.1) > 0 > over(10.0):
                lo_, hi_ = 0.1, 10.0
                for _ in range(200):
                    m_ = (lo_ + hi_) / 2
                    if over(m_) > 0:
                        lo_ = m_
                    else:
                        hi_ = m_
                t = (lo_ + hi_) / 2
                a[0] = rng.choice([t, t * (1 - 5e-8), t * (1 + 5e-8)])
                kind = 'sublayer-cap' + ('+sliding-flow' if a[2] >= 0.015 * a[1] else '')
        except Exception:   # noqa
            pass
    return tuple(a), kind


def regime_transition(F, a, rng):
    """line speed at which the selected regime changes, by bisection"""
    lo, hi = 0.1, 10.0
    b = list(a)

    def reg(v):
        b[0] = v
        return F.Cvs_Erhg(*b, get_dict=True)['regime']
    rl, rh = reg(lo), reg(hi)
    if rl == rh:
        return None
    for _ in range(60):
        m = (lo + hi) / 2
        if reg(m) == rl:
            lo = m
        else:
            hi = m
    return (lo + hi) / 2


def correspondence(ctx):
    from DHLLDV import homogeneous as Ho, heterogeneous as He, DHLLDV_framework as F
    n = ctx.n(1200, 60000)
    pts = [gen_point(ctx.rng)[0] for _ in range(n)]
    sw = [ctx.rng.choice([(True, True), (True, False), (False, True), (False, False)]) for _ in pts]
    compare_gen(ctx, 'homogeneous.Erhg', Ho.Erhg, [(list(a) + [s[0]], a, {'use_sf': s[0]}) for a, s in zip(pts, sw)])
    compare_gen(ctx, 'heterogeneous.Erhg', He.Erhg, [(list(a) + list(s), a + s, {}) for a, s in zip(pts, sw)])
    compare_gen(ctx, 'heterogeneous.sqrtcx', He.sqrtcx, [([He.vt_ruby(a[2], (a[6] - a[5]) / a[5], a[4]), a[2]], (He.vt_ruby(a[2], (a[6] - a[5]) / a[5], a[4]), a[2]), {}) for a in pts])
    compare_gen(ctx, 'homogeneous.fluid_head_loss', Ho.fluid_head_loss, [([a[0], a[1], a[3], a[4], a[5]], (a[0], a[1], a[3], a[4], a[5]), {}) for a in pts])
    compare_gen(ctx, 'homogeneous.swamee_jain_ff', Ho.swamee_jain_ff, [([a[0] * a[1] / a[4], a[1], a[3]], (a[0] * a[1] / a[4], a[1], a[3]), {}) for a in pts])
    ctx.sample({'op': 'heterogeneous.Erhg', 'args': list(pts[0]), 'switches': sw[0]})


def monitor(ctx, extended=False):
    from DHLLDV import homogeneous as Ho, heterogeneous as He, stratified as St, DHLLDV_framework as F
    classes = set()
    n = ctx.n(1200, 80000) * (3 if extended else 1)
    for i in range(n):
        a, kind = gen_point(ctx.rng)
        if i % 5 == 0:
            v = regime_transition(F, a, ctx.rng)
            if v:
                a = (ctx.rng.choice([v, v * (1 - 5e-8), v * (1 + 5e-8)]),) + a[1:]
                kind = 'regime-transition'
        if i % 7 == 3:
            # history: the delivered-concentration model of the same slurry was evaluated first; the spatial result is then asked at exactly the
            # concentration it derived (and 1e-7 around it, below)
            try:
                F.Cvt_Erhg(*a, get_dict=True)
                cvs_ = F.Cvs_from_Cvt(*a)
                if isinstance(cvs_, float) and 0.02 <= cvs_ <= 0.45:
                    a = tuple(a[:7]) + (cvs_,)
                    kind = 'after-Cvt_Erhg-call'
            except Exception:   # noqa
                pass
        vls, Dp, d, eps, nu, rhol, rhos, Cv = a
        inp = {'args': list(a), 'threshold': kind}
        ctx.count('evaluations')
        try:
            il = Ho.fluid_head_loss(vls, Dp, eps, nu, rhol)
            if not il > 0:
                ctx.violation(f'liquid gradient {il!r} not positive', inp, key='il')
            v2 = min(10.0, vls * ctx.rng.choice([1 + 1e-6, 1.01, 1.5]))
            if v2 > vls and not Ho.fluid_head_loss(v2, Dp, eps, nu, rhol) > il:
                ctx.violation('liquid gradient does not rise with line speed', inp, key='il')
            D2 = min(1.2, Dp * ctx.rng.choice([1 + 1e-6, 1.01, 1.3]))
            if D2 > Dp and not Ho.fluid_head_loss(vls, D2, eps, nu, rhol) < il:
                ctx.violation('liquid gradient does not fall with pipe diameter', inp, key='il')
            ho = Ho.Erhg(*a)
            if d < 0.015 * Dp and not (0 <= ho <= il * (1 + 1e-12)):
                ctx.violation(f'homogeneous Erhg {ho!r} outside [0, il={il!r}]', inp, key='homogeneous-bounds')
            ho_nosf = Ho.Erhg(*a, use_sf=False)
            if not (0 <= ho_nosf <= il * (1 + 1e-12)):
                ctx.violation(f'homogeneous Erhg without sliding-flow correction {ho_nosf!r} outside [0, il={il!r}]', inp, key='homogeneous-bounds')
            for sf, sq in ((True, True), (False, False)):
                he1, he2 = He.Erhg(*a, sf, sq), He.Erhg(v2, *a[1:], sf, sq)
                if v2 > vls and not he2 < he1:
                    ctx.violation(f'heterogeneous Erhg does not fall with line speed ({he1!r} -> {he2!r})', inp, key='heterogeneous-monotone')
            if v2 > vls and not St.fb_Erhg(v2, *a[1:]) > St.fb_Erhg(*a):
                ctx.violation('fixed-bed Erhg does not rise with line speed', inp, key='fixed-bed-monotone')
            Rsd = (rhos - rhol) / rhol
            vt = He.vt_ruby(d, Rsd, nu)
            if not (He.vt_ruby(d * 1.01, Rsd, nu) > vt and He.vt_ruby(d, Rsd * 1.01, nu) > vt):
                ctx.violation('settling velocity does not rise with grain size / density', inp, key='settling')
            vth = He.vth_RZ(d, Rsd, nu, Cv)
            if not (0 < vth < vt and He.vth_RZ(d, Rsd, nu, Cv * 1.01) < vth):
                ctx.violation('hindered settling not in (0, vt) or not falling with concentration', inp, key='settling')
            cs, ct = F.Cvs_Erhg(*a), F.Cvt_Erhg(*a)
            if cs < 0 or ct < 0:
                ctx.violation(f'selected Erhg negative: Cvs {cs!r}, Cvt {ct!r}', inp, key='negative')
            # no jumps: 1e-7 relative change of one input changes the constant-Cvs result by < 1e-3 relative
            for j in (0, 1, 2, 4, 5, 6, 7):
                for sgn in (1, -1):
                    b = list(a)
                    b[j] = a[j] * (1 + sgn * 1e-7)
                    if j == 2 and not (max(E.dlim(Dp, nu, rhol, rhos), 5e-5) <= b[2] <= 0.25 * Dp):
                        continue
                    cb = F.Cvs_Erhg(*b)
                    if abs(cb - cs) > 1e-3 * max(abs(cs), 1e-12):
                        ctx.violation(f'jump: changing input {j} by {sgn}e-7 relative changes Cvs_Erhg from {cs!r} to {cb!r}', inp, key='jump')
            classes.add((F.Cvs_Erhg(*a, get_dict=True)['regime'], kind))
        except Exception as e:   # noqa
            ctx.violation(f'raised {type(e).__name__}: {e}', inp, key='raised')
    # dense sweeps of the settling law: a branch switch inside it shows as a dip only between grain sizes a fraction of a percent apart
    combos = [(1.0068e-6, 0.9982, 2.65), (1.0508e-6, 1.0248, 2.65), (1.3e-6, 1.0, 2.0), (0.85e-6, 1.02, 4.0)] + \
             [(ctx.rng.uniform(0.8e-6, 1.4e-6), ctx.rng.uniform(0.99, 1.03), ctx.rng.uniform(2.0, 4.0)) for _ in range(ctx.n(2, 12))]
    step = 1.0005 if not ctx.thorough else 1.0001
    for nu, rhol, rhos in combos:
        Rsd = (rhos - rhol) / rhol
        d, prev = 5e-5, None
        while d < 0.3:
            ctx.count('evaluations')
            vt = He.vt_ruby(d, Rsd, nu)
            if prev is not None and not vt > prev[1]:
                ctx.violation(f'settling velocity falls from {prev[1]!r} to {vt!r} when the grain size rises from {prev[0]!r} to {d!r}',
                              {'d': [prev[0], d], 'Rsd': Rsd, 'nu': nu}, key='settling')
                break
            prev = (d, vt)
            d *= step
        # ... and of the hindered settling velocity over the concentration: a seam between two fits shows as a step up between neighbouring concentrations
        for dfix in (6e-5, 2e-4, 1e-3, 1e-2):
            c_, prev = 0.02, None
            while c_ <= 0.45:
                ctx.count('evaluations')
                vth = He.vth_RZ(dfix, Rsd, nu, c_)
                if not vth > 0 or (prev is not None and not vth < prev[1]):
                    ctx.violation(f'hindered settling velocity goes from {prev[1] if prev else None!r} to {vth!r} when the concentration rises from {prev[0] if prev else None!r} to {c_!r}',
                                  {'d': dfix, 'Rsd': Rsd, 'nu': nu, 'Cvs': [prev[0] if prev else None, c_]}, key='settling')
                    break
                prev = (c_, vth)
                c_ *= 1.002 if not ctx.thorough else 1.0005
        for dfix in (6e-5, 1e-4, 3e-4, 2e-3):
            r, prev = 0.9, None
            while r < 3.1:
                ctx.count('evaluations')
                vt = He.vt_ruby(dfix, r, nu)
                if prev is not None and not vt > prev[1]:
                    ctx.violation(f'settling velocity falls from {prev[1]!r} to {vt!r} when the relative density rises from {prev[0]!r} to {r!r}',
                                  {'d': dfix, 'Rsd': [prev[0], r], 'nu': nu}, key='settling')
                    break
                prev = (r, vt)
                r *= step
    # dense sweeps of the carrier-liquid gradient over the full ranges of pipe diameter and line speed: a switch of friction formula inside the envelope
    # (at some Reynolds number) shows as a step only between diameters or speeds a fraction of a percent apart - in particular in the low-Reynolds corner
    # (smallest pipe, slowest flow, most viscous water)
    waters = [(1.4e-6, 1.0), (0.8e-6, 1.03), (1.0508e-6, 1.0248103), (1.0068e-6, 0.9982)] + \
             [(ctx.rng.uniform(0.8e-6, 1.4e-6), ctx.rng.uniform(0.99, 1.03)) for _ in range(ctx.n(1, 6))]
    stepil = 1.0005 if not ctx.thorough else 1.0001
    for nu, rhol in waters:
        for vfix in [0.1, 0.1331, 0.2, 1.0, 10.0] + [ctx.rng.uniform(0.1, 10.0)]:
            Dp_, prev = 0.1, None
            while Dp_ <= 1.2:
                ctx.count('evaluations')
                il = Ho.fluid_head_loss(vfix, Dp_, 4.5e-5, nu, rhol)
                if not il > 0 or (prev is not None and not il < prev[1]):
                    ctx.violation(f'liquid gradient goes from {prev[1] if prev else None!r} to {il!r} when the pipe diameter rises from {prev[0] if prev else None!r} to {Dp_!r}',
                                  {'vls': vfix, 'Dp': [prev[0] if prev else None, Dp_], 'nu': nu, 'rhol': rhol}, key='il')
                    break
                prev = (Dp_, il)
                Dp_ *= stepil
        for Dfix in [0.1, 0.12, 0.1524, 0.5, 1.2] + [ctx.rng.uniform(0.1, 1.2)]:
            v_, prev = 0.1, None
            while v_ <= 10.0:
                ctx.count('evaluations')
                il = Ho.fluid_head_loss(v_, Dfix, 4.5e-5, nu, rhol)
                if not il > 0 or (prev is not None and not il > prev[1]):
                    ctx.violation(f'liquid gradient goes from {prev[1] if prev else None!r} to {il!r} when the line speed rises from {prev[0] if prev else None!r} to {v_!r}',
                                  {'vls': [prev[0] if prev else None, v_], 'Dp': Dfix, 'nu': nu, 'rhol': rhol}, key='il')
                    break
                prev = (v_, il)
                v_ *= stepil
    ctx.stats['distinct_nontrivial'] = len(classes)
