"""C10 — the operating point is the stable pump/system intersection right of minimum friction."""
import math
import warnings

import envelope as E
import pipegen as G
from common import run_model, enc, unbits, same_float, rel_close, is_real_finite

ID = 'C10'
LEAN_MODULES = ['Dhlldv.Props.C10']
PROP_MODULES = ['Dhlldv.Props.C10']
TIE = ('hand-written executable Lean model of find_operating_point with scipy\'s scalar secant re-implemented from its source; validated on every generated system '
       'against the tape of head-gap evaluations scipy actually made (same outcome, bit-identical root)')
TECHNIQUE = 'Lean 4 proof over a model of the search (decision logic + secant step algebra) + trace validation against scipy; independent bisection oracle on the real code'
PROVED = ['pump head below system head at the minimum-friction flow => OperatingPointError',
          'the result is OperatingPointError or the root of a converged secant run from (qimin, midpoint)',
          'both update forms equal the secant formula; a step accepted by the stopping test bounds the head gap at the last evaluated flow by tolerance x secant slope']
HYPOTHESES = ['"curves meet" premise + a bound on the secant slope => heads equal within 1e-6 (decided per system by the oracle bisection)']
MONITORED = ['no exception other than OperatingPointError (depends on the hydraulics at whatever flows the secant visits)', 'returned flow has equal heads (1e-6 relative); in the "curves meet" case it is the meeting flow right of qimin with the system curve crossing from below',
             'the reported minimum-friction flow has a system head no higher (0.1 %) than at any tabulated flow (scipy bounded Brent, opaque)']
RULE = ('pipelines as in C09 with 1-3 example pumps under each driver-limit mode, slurries in E with D50 0.1-3 mm, incl. marginal systems (pump 0-2 % short / long at qimin) '
        'and systems whose crossing falls on a driver-limit jump; the "curves meet" premise decided by bisection; non-trivial = distinct (outcome class, limit modes) classes')
ASSUMPTIONS = ['scipy.optimize.minimize_scalar (bounded Brent) is opaque: only its result is used']


def gen_system(rng, limited_stratum=False):
    p = E.slurry_params(rng)
    p['D50'] = E.loguniform(rng, 1e-4, 3e-3)
    p['r85'] = min(p['r85'], 4.0)
    pl = None
    for _ in range(20):
        dias = tuple(rng.sample([0.5, 0.6, 0.65, 0.7, 0.762, 0.85], 2))
        p['Dp'] = dias[0]
        nu, rhol = E.fluids()[p['fluid']]
        if p['D50'] <= max(E.dlim(d, nu, rhol, p['rhos']) for d in dias) * 1.01:
            continue
        s = E.make_slurry(p)
        s._params = dict(p)
        pl = G.random_pipeline(rng, n_pumps=rng.randint(1, 3), slurry=s, dia_choices=dias)
        if limited_stratum:
            # driver limits that bite inside the flow range: torque / power limited pumps with a small driver
            from DHLLDV.PipeObj import Pipe, Pipeline
            secs = []
            for x in pl.pipesections:
                if isinstance(x, Pipe):
                    secs.append(x)
                else:
                    base = G.example_pumps()[x._example]
                    q = G.clone_pump(base, limited=rng.choice(['torque', 'torque', 'power']), avail_power=base.avail_power * rng.uniform(0.35, 0.8))
                    q._example = x._example
                    secs.append(q)
            pl = Pipeline(name='generated', pipe_list=secs, slurry=s)
        break
    return pl


def gen_gravity(rng):
    """a line without pumps that runs downhill (tailings / gravity line): pump head is 0, the system head is negative at low flow and crosses 0"""
    from DHLLDV.PipeObj import Pipe, Pipeline
    p = E.slurry_params(rng)
    p['Cv'] = rng.uniform(0.08, 0.3)
    p['D50'] = E.loguniform(rng, 2e-4, 1.5e-3)
    p['r85'] = min(p['r85'], 4.0)
    for _ in range(20):
        dia = rng.choice([0.4, 0.5, 0.6, 0.7])
        p['Dp'] = dia
        nu, rhol = E.fluids()[p['fluid']]
        if p['D50'] <= E.dlim(dia, nu, rhol, p['rhos']) * 1.01:
            continue
        s = E.make_slurry(p)
        s._params = dict(p)
        L = rng.uniform(800.0, 3000.0)
        # fall chosen so that the line runs at 2 .. 7 m/s: fall * rhom ~ friction at that speed
        v_eq = rng.uniform(2.0, 7.0)
        fall = (s.im(v_eq) * L + 2.0 * v_eq ** 2 / 19.6 * s.rhom) / s.rhom
        secs = [Pipe('intake', dia, 0.0, 0.5, -2.0), Pipe('downhill', dia, L * 0.6, 0.5, -fall * 0.6), Pipe('downhill 2', dia, L * 0.4, 0.5, -fall * 0.4)]
        return Pipeline(name='gravity line', pipe_list=secs, slurry=s)
    return None


def tune_marginal(rng, pl, flow_list):
    """stretch the last pipe so that the pump is -2 .. +2 % off the system head at the minimum-friction flow"""
    from DHLLDV.PipeObj import Pipe
    try:
        q = pl.qimin(flow_list)
        hs, _, _, hp = pl.calc_system_head(q)
        last = pl.pipesections[-1]
        v = last.velocity(q)
        im = pl.slurries[last.diameter].im(v)
        target = hp * rng.uniform(0.98, 1.02)
        dl = (target - hs) / im
        if last.length + dl > 1.0:
            last.length += dl
    except Exception:   # noqa
        pass


def tune_jump(rng, pl, flow_list):
    """if a driver limit makes the total pump head jump somewhere, stretch the last pipe so that the system curve passes through the jump"""
    try:
        qs = [flow_list[0] + (flow_list[-1] - flow_list[0]) * i / 70 for i in range(8, 71)]
        hp = [pl.calc_system_head(q)[3] for q in qs]
        j = max(range(1, len(qs)), key=lambda i: abs(hp[i] - hp[i - 1]) / max(abs(hp[i]), abs(hp[i - 1]), 1.0))
        if abs(hp[j] - hp[j - 1]) < 0.03 * max(abs(hp[j]), abs(hp[j - 1]), 1.0):
            return False
        q = (qs[j] + qs[j - 1]) / 2
        hs = pl.calc_system_head(q)[0]
        last = pl.pipesections[-1]
        im = pl.slurries[last.diameter].im(last.velocity(q))
        target = min(hp[j], hp[j - 1]) + abs(hp[j] - hp[j - 1]) * rng.uniform(0.2, 0.8)
        dl = (target - hs) / im
        if last.length + dl > 1.0:
            last.length += dl
            return True
    except Exception:   # noqa
        pass
    return False


def flow_list_of(pl):
    return [pl.pipesections[-1].flow(v) for v in pl.slurry.vls_list]


def run_system(pl, flow_list):
    """find_operating_point with the tape of head-gap evaluations and the outcome of every scipy root_scalar call recorded"""
    import scipy.optimize
    from DHLLDV.PipeObj import OperatingPointError
    tape = []
    solver_calls = []
    orig = pl.calc_system_head
    orig_rs = scipy.optimize.root_scalar

    def wrapped(Q):
        r = orig(Q)
        tape.append((float(Q), r))
        return r

    def root_scalar(f, *a, **kw):
        if getattr(f, '__name__', '') != '_head_gap':     # the pump's own speed search also uses root_scalar
            return orig_rs(f, *a, **kw)
        rec = {'method': kw.get('method') or ('secant' if 'x1' in kw else None), 'bracket': kw.get('bracket'), 'first_eval': len(tape)}
        solver_calls.append(rec)
        res = orig_rs(f, *a, **kw)
        rec['converged'] = bool(res.converged)
        rec['root'] = float(res.root)
        return res
    pl.calc_system_head = wrapped
    scipy.optimize.root_scalar = root_scalar
    try:
        with warnings.catch_warnings():
            warnings.simplefilter('ignore')
            try:
                out = ('flow', pl.find_operating_point(flow_list))
            except OperatingPointError:
                out = ('OperatingPointError',)
            except Exception as e:   # noqa
                out = ('other', type(e).__name__, str(e)[:100])
    finally:
        del pl.calc_system_head
        scipy.optimize.root_scalar = orig_rs
    run_system.last_calls = solver_calls
    return out, tape


def correspondence(ctx):
    lines, metas = [], []
    todo = [('corpus', d) for d in corpus()] + [('gen', None)] * ctx.n(60, 3000)
    for kind, d in todo:
        if kind == 'corpus':
            with warnings.catch_warnings():
                warnings.simplefilter('ignore')
                pl = G.rebuild(d)
            fl = flow_list_of(pl)
        else:
            pl = gen_system(ctx.rng)
            if pl is None:
                continue
            fl = flow_list_of(pl)
            if ctx.rng.random() < 0.3:
                tune_marginal(ctx.rng, pl, fl)
        try:
            qimin = pl.qimin(fl)
            imins = pl.calc_system_head(qimin)
        except Exception:   # noqa
            ctx.count('corr_impl_nonreal')
            continue
        out, tape = run_system(pl, fl)
        if out[0] == 'other':
            ctx.count('corr_impl_nonreal')
            continue
        # the evaluations made after qimin's own search: those by find_operating_point's secant (head gap = Htot_m - Hpumps_m)
        # locate the evaluation at qimin that find_operating_point makes before the secant starts
        idx = max(i for i, (q, r) in enumerate(tape) if same_float(q, qimin))
        # tape[idx] may be the imins evaluation or already the first secant evaluation (both at qimin): keep all from the first one at qimin
        first = min(i for i, (q, r) in enumerate(tape) if same_float(q, qimin))
        sec = tape[first:]
        # the heads at the largest flow decide whether the bracketing solver has to be consulted: always on the tape
        if not any(same_float(q, fl[-1]) for q, r in sec):
            sec = sec + [(float(fl[-1]), pl.calc_system_head(fl[-1]))]
        # the outcome of the bracketing solver (external: scipy's brentq), if find_operating_point consulted it
        br = [c for c in run_system.last_calls if c.get('bracket') is not None]
        ctx.count('corr_bracket_consulted' if br else 'corr_secant_only')
        btok = (enc(br[-1]['root']) if br[-1].get('converged') else 'none') if br else 'unconsulted'
        toks = [enc(imins[0]), enc(imins[3]), enc(qimin), enc(fl[-1]), btok, str(len(sec))] + [enc(x) for q, r in sec for x in (q, r[0], r[3])]
        lines.append('spec.findop ' + ' '.join(toks))
        metas.append((pl, out, qimin))
    outs = run_model(lines)
    for (pl, out, qimin), o in zip(metas, outs):
        ctx.count('corr_compared')
        ok = (o == 'OperatingPointError' and out[0] == 'OperatingPointError') or \
             (o.startswith('flow ') and out[0] == 'flow' and same_float(unbits(o[5:]), out[1]))
        if not ok:
            ctx.mismatch('Spec.OpPoint.findOp (on scipy\'s own evaluation tape) differs from find_operating_point', {'pipeline': G.describe(pl), 'qimin': qimin}, o, out)
    if metas:
        ctx.sample({'pipeline': G.describe(metas[0][0]), 'outcome': metas[0][1]})


def bisect_meet(pl, a, b, n=80):
    """oracle: do the curves meet between a and b (difference passes through zero rather than jumping)? returns (meets, q)"""
    def gap(q):
        hs, _, _, hp = pl.calc_system_head(q)
        return hs - hp
    ga, gb = gap(a), gap(b)
    if not (ga <= 0 < gb):
        return None, None
    for _ in range(n):
        m = (a + b) / 2
        if gap(m) <= 0:
            a = m
        else:
            b = m
    ga, gb = gap(a), gap(b)
    scale = max(abs(pl.calc_system_head(a)[0]), 1.0)
    return (abs(ga) <= 1e-7 * scale and abs(gb) <= 1e-7 * scale), (a + b) / 2


def check_system(ctx, pl, fl, marginal, classes, history='built, then searched'):
    """every clause of the property on one pump/pipeline system"""
    desc = G.describe(pl)
    ctx.count('evaluations')
    try:
        with warnings.catch_warnings():
            warnings.simplefilter('ignore')
            qimin = pl.qimin(fl)
            hs_min, _, _, hp_min = pl.calc_system_head(qimin)
            tab = [pl.calc_system_head(q)[0] for q in fl if q >= fl[0]]
    except Exception as e:   # noqa
        ctx.violation(f'minimum-friction search raised {type(e).__name__}: {e}', {'pipeline': desc}, key='qimin')
        return
    if hs_min > min(tab) + 0.001 * abs(min(tab)) + 1e-9:
        # a local minimum of a system curve with two valleys (scipy's bounded Brent converged, but not to the global one) is the listed finding;
        # anything else (not even a local minimum) is a different violation
        local = all(pl.calc_system_head(qimin * f)[0] >= hs_min - 1e-9 * abs(hs_min) for f in (0.99, 0.999, 1.001, 1.01))
        ctx.violation(f'system head at the reported minimum-friction flow {qimin!r} is {hs_min!r}; a tabulated flow has {min(tab)!r}', {'pipeline': desc},
                      key='qimin-local-minimum' if local else 'qimin')
    out, _ = run_system(pl, fl)
    modes = tuple(sorted(s.limited for s in pl.pumps))
    # the same system built afresh (own pump and slurry objects, no call history): "the pump is below the system" and "heads are equal" are statements
    # about the system, not about the state this particular object happens to be in
    ref = None
    try:
        with warnings.catch_warnings():
            warnings.simplefilter('ignore')
            ref = G.rebuild(desc)
            rs_min, _, _, rp_min = ref.calc_system_head(qimin)
    except Exception:   # noqa
        ref = None
    if ref is not None and out[0] == 'flow' and rs_min > rp_min * (1 + 1e-6) + 1e-9 and hs_min <= hp_min:
        ctx.violation(f'built afresh, this system has pump head {rp_min!r} below system head {rs_min!r} at the minimum-friction flow {qimin!r}; this pipeline object '
                      f'(after its history: {history}) says {hp_min!r} / {hs_min!r} and returns {out}', {'pipeline': desc, 'history': history}, key='infeasible')
    if out[0] == 'other':
        ctx.violation(f'find_operating_point raised {out[1]}: {out[2]}', {'pipeline': desc, 'qimin': qimin}, key='other-exception:' + out[1])
        return
    if hs_min > hp_min and out[0] != 'OperatingPointError':
        ctx.violation(f'pump head {hp_min!r} is below system head {hs_min!r} at the minimum-friction flow but {out} was returned', {'pipeline': desc}, key='infeasible')
    if out[0] == 'flow':
        q = out[1]
        hs, _, _, hp = pl.calc_system_head(q)
        if not (is_real_finite(q) and abs(hs - hp) <= 1e-6 * max(abs(hs), abs(hp), 1.0)):
            ctx.violation(f'returned flow {q!r} has system head {hs!r} and pump head {hp!r}', {'pipeline': desc}, key='heads-differ')
        elif ref is not None:
            try:
                with warnings.catch_warnings():
                    warnings.simplefilter('ignore')
                    rs, _, _, rp = ref.calc_system_head(q)
                if not abs(rs - rp) <= 1e-6 * max(abs(rs), abs(rp), 1.0):
                    ctx.violation(f'at the returned flow {q!r} the same system built afresh has system head {rs!r} and pump head {rp!r} (this pipeline object, after its '
                                  f'history: {history}, reports {hs!r} / {hp!r})', {'pipeline': desc, 'history': history}, key='heads-differ')
            except Exception as e:   # noqa
                ctx.violation(f'heads of the system built afresh at the returned flow raised {type(e).__name__}: {e}', {'pipeline': desc}, key='heads-differ')
    if hs_min <= hp_min:
        hl, _, _, pl_ = pl.calc_system_head(fl[-1])
        if hl > pl_:
            meets, qm = bisect_meet(pl, qimin, fl[-1])
            if meets:
                # the search must return a flow right of qimin with equal heads (checked above) at which the system curve crosses from below
                ok = out[0] == 'flow' and out[1] >= qimin * (1 - 1e-9)
                if ok:
                    e = 1e-3 * out[1]
                    g1 = pl.calc_system_head(out[1] - e)
                    g2 = pl.calc_system_head(out[1] + e)
                    ok = (g1[0] - g1[3]) < (g2[0] - g2[3])
                if not ok:
                    ctx.violation(f'the curves meet at {qm!r} (right of qimin {qimin!r}) but the search gave {out}', {'pipeline': desc}, key='misses-crossing')
    classes.add((out[0], modes, marginal))


def corpus():
    """minimised past failures (found by earlier thorough runs, before the C10 repair): they run first on every run"""
    import json, os
    path = os.path.join(os.path.dirname(os.path.dirname(os.path.abspath(__file__))), 'corpus', 'C10.json')
    return [v['input']['pipeline'] for v in json.load(open(path))]


def monitor(ctx, extended=False):
    classes = set()
    for desc in corpus():
        with warnings.catch_warnings():
            warnings.simplefilter('ignore')
            pl = G.rebuild(desc)
        ctx.count('corpus_systems')
        check_system(ctx, pl, flow_list_of(pl), 'corpus', classes)
    n = ctx.n(120, 6000) * (2 if extended else 1)
    for it in range(n):
        r = ctx.rng.random()
        if it % 12 == 5:
            pl = gen_gravity(ctx.rng)
            if pl is None:
                continue
            check_system(ctx, pl, flow_list_of(pl), 'gravity-line', classes)
            continue
        pl = gen_system(ctx.rng, limited_stratum=(0.3 <= r < 0.65))
        if pl is None:
            continue
        fl = flow_list_of(pl)
        if it % 10 == 7:
            # two pipelines that share their section objects (the same pumps on two lines) but carry different slurries: each is searched after the other was
            # built / searched
            try:
                from DHLLDV.PipeObj import Pipeline
                p2 = dict(pl.slurry._params)
                p2['Cv'] = 0.1 if p2['Cv'] > 0.2 else 0.3
                s2 = E.make_slurry(p2)
                s2._params = p2
                with warnings.catch_warnings():
                    warnings.simplefilter('ignore')
                    pl2 = Pipeline(name='second line, same pumps', pipe_list=list(pl.pipesections), slurry=s2)
            except Exception:   # noqa
                pl2 = None
            if pl2 is not None:
                check_system(ctx, pl, fl, 'shared-pumps', classes, history='a second pipeline with another slurry was built from the same pump objects')
                check_system(ctx, pl2, flow_list_of(pl2), 'shared-pumps', classes, history='built from the pump objects of a pipeline that was searched before')
                check_system(ctx, pl, fl, 'shared-pumps', classes, history='searched again after the second pipeline sharing its pumps was searched')
                continue
        marginal = r < 0.3
        if marginal:
            tune_marginal(ctx.rng, pl, fl)
        elif r < 0.65:
            marginal = 'jump' if tune_jump(ctx.rng, pl, fl) else False
        check_system(ctx, pl, fl, marginal, classes)
    ctx.stats['distinct_nontrivial'] = len(classes)


KNOWN_WITNESS = {'sections': [['pipe', 0.6, 0.0, 1.0, -12.81225603231373], ['pump', 'Ladder_Pump', 'torque', 1491.4, 1.0, 3.75, 1.88, None],
                              ['pump', 'Main_Pump500', 'None', 1440.0, 1.0, 7.5, 1.4224, None], ['pipe', 0.6, 21.397493389576745, 1.0, 4.4109394119248115]],
                 'slurry': {'Dp': 0.6, 'fluid': 'salt', 'rhos': 2.7776102939120384, 'Cv': 0.34931381050659466, 'D50': 0.0022729693887545317,
                            'r15': 3.800867802131664, 'r85': 1.0201}}


def replay_known(kf):
    """witness of the listed finding `qimin-local-minimum`: True if it still reproduces"""
    if kf['key'] != 'qimin-local-minimum':
        return False
    with warnings.catch_warnings():
        warnings.simplefilter('ignore')
        pl = G.rebuild(kf.get('witness', {}).get('pipeline') or KNOWN_WITNESS)
        fl = flow_list_of(pl)
        q = pl.qimin(fl)
        hs = pl.calc_system_head(q)[0]
        tab = min(pl.calc_system_head(x)[0] for x in fl)
    return hs > tab + 0.001 * abs(tab) + 1e-9
