"""C20 — Wilson models respect their own maxima, bounds and fixed points."""
import math
import signal

import envelope as E
from common import compare_gen, rel_close, is_real_finite

ID = 'C20'
LEAN_MODULES = ['Dhlldv.Props.C20']
PROP_MODULES = ['Dhlldv.Props.C20']
PROVED = ['Vsm <= Vsm_max (all inputs); Cvr_max in [0.05, 0.66]; Vsm_max >= 0 and Vsm >= 0 for physical inputs',
          'Vsm at the reported Cvr_max lies in [0.998 Vsm_max, Vsm_max] (both nomograph branches: 6.75*0.333*0.667^2 and 6.75*0.666^2*0.334)',
          '0.25 <= M <= 1.7; V50 >= 0 whatever the friction-factor iteration does, hence V50-model Erhg non-increasing in line speed for physical inputs',
          'Wilson-stratified Erhg non-increasing in line speed on E (L(v)^0.26 / v decreasing; friction lemma shared with C04)',
          'both gradients exceed the water gradient whenever the excess gradient is positive (Rsd > 0, Cv > 0)',
          'Wilson stratified: Vsm > 0 for physical inputs with a positive friction factor and 0 < Cv/Cvb < 1, hence Erhg > 0 and the gradient exceeds '
          'the water gradient at EVERY point of E, no positivity hypothesis (C20_Vsm_pos, C20_stratified_exceeds_water)',
          'the non-rising clause at the entry points a caller uses: head loss minus water gradient, and pressure loss minus water pressure loss, do not rise with '
          'line speed - Wilson stratified on E, V50 model for every physical grading (C20_stratified_excess_antitone_at_entry_points, C20_V50_excess_antitone_at_entry_points)']
HYPOTHESES = ['positivity of the V50 excess gradient (V50 > 0 needs the friction-factor iteration to leave through its exit, i.e. to terminate; monitored)']
MONITORED = ['V50 iteration terminates; result satisfies its implicit friction-factor equation within 0.5 %']
RULE = ('E with d <= 0.1 Dp, musf in {0.31,0.4,0.415}, vls in [0.5,10], d85/d50 in (1.02,6]; both branches of the nomograph fit forced '
        '(Cvr_max <= 0.33 and > 0.33); non-trivial = distinct (branch, friction-limited or not, musf) classes')
ASSUMPTIONS = ['theorems over R under the stated positivity hypotheses (they hold on E); V50 loop modelled with fuel 1000 (returns NaN on exhaustion)']


class Timeout(Exception):
    pass


def _alarm(signum, frame):
    raise Timeout()


def wpoint(rng):
    vls, Dp, d, eps, nu, rhol, rhos, Cv = E.point(rng, vls_lo=0.5, dmax_ratio=0.1)
    musf = rng.choice([0.31, 0.4, 0.415])
    return vls, Dp, d, eps, nu, rhol, rhos, musf, Cv


def correspondence(ctx):
    from Wilson import Wilson_Stratified as WS, Wilson_V50 as WV
    from DHLLDV import homogeneous as Ho
    n = ctx.n(1500, 80000)
    W = [wpoint(ctx.rng) for _ in range(n)]
    fs = []
    for (vls, Dp, d, eps, nu, rhol, rhos, musf, Cv) in W:
        fs.append(Ho.swamee_jain_ff(Ho.pipe_reynolds_number(vls, Dp, nu), Dp, eps) if ctx.rng.random() < 0.7 else 0.0)
    compare_gen(ctx, 'wilson_stratified.Vsm_max', WS.Vsm_max,
                [([w[1], w[2], w[5], w[6], w[7], f], (w[1], w[2], w[5], w[6], w[7]), {'f': f if f else None}) for w, f in zip(W, fs)])
    compare_gen(ctx, 'wilson_stratified.Cvr_max', WS.Cvr_max, [([w[1], w[2], w[5], w[6]], (w[1], w[2], w[5], w[6]), {}) for w in W])
    compare_gen(ctx, 'wilson_stratified.Vsm', WS.Vsm,
                [([w[1], w[2], w[5], w[6], w[7], w[8], 0.6, f], (w[1], w[2], w[5], w[6], w[7], w[8]), {'f': f if f else None}) for w, f in zip(W, fs)])
    compare_gen(ctx, 'wilson_stratified.Erhg', WS.Erhg, [(list(w) + [0.6], w, {}) for w in W])
    V = []
    for (vls, Dp, d, eps, nu, rhol, rhos, musf, Cv) in W:
        d85 = min(d * E.loguniform(ctx.rng, 1.02, 6.0), 0.25 * Dp)
        V.append((vls, Dp, d, d85, eps, nu, rhol, rhos, musf))
    compare_gen(ctx, 'wilson_v50.w', WV.w, [([v[2], v[5], v[6], v[7]], (v[2], v[5], v[6], v[7]), {}) for v in V])
    compare_gen(ctx, 'wilson_v50.sigma', WV.sigma, [([v[1], v[2], v[3], v[5], v[6], v[7]], (v[1], v[2], v[3], v[5], v[6], v[7]), {}) for v in V])
    compare_gen(ctx, 'wilson_v50.M', WV.M, [([v[1], v[2], v[3], v[5], v[6], v[7]], (v[1], v[2], v[3], v[5], v[6], v[7]), {}) for v in V])
    compare_gen(ctx, 'wilson_v50.V50', WV.V50, [(list(v[1:8]), v[1:8], {}) for v in V])
    compare_gen(ctx, 'wilson_v50.Erhg', WV.Erhg, [(list(v), v, {}) for v in V])
    ctx.sample({'op': 'wilson_stratified.Vsm', 'args': list(W[0])})


def monitor(ctx, extended=False):
    from Wilson import Wilson_Stratified as WS, Wilson_V50 as WV
    from DHLLDV import homogeneous as Ho
    n = ctx.n(2500, 150000) * (3 if extended else 1)
    classes = set()
    signal.signal(signal.SIGALRM, _alarm)
    for _ in range(n):
        w = wpoint(ctx.rng)
        vls, Dp, d, eps, nu, rhol, rhos, musf, Cv = w
        inp = {'args': list(w)}
        ctx.count('evaluations')
        try:
            f = Ho.swamee_jain_ff(Ho.pipe_reynolds_number(vls, Dp, nu), Dp, eps)
            for ff in (None, f):
                vmax = WS.Vsm_max(Dp, d, rhol, rhos, musf, f=ff)
                vsm = WS.Vsm(Dp, d, rhol, rhos, musf, Cv, f=ff)
                cm = WS.Cvr_max(Dp, d, rhol, rhos)
                at = WS.Vsm(Dp, d, rhol, rhos, musf, cm * 0.6, f=ff)
                if not all(is_real_finite(x) for x in (vmax, vsm, cm, at)):
                    ctx.violation(f'non-finite Wilson stratified value {(vmax, vsm, cm, at)}', inp, key='vsm')
                    continue
                if vsm < 0 or vsm > vmax:
                    ctx.violation(f'Vsm={vsm!r} outside [0, Vsm_max={vmax!r}]', inp, key='vsm')
                if not rel_close(at, vmax, 0.002):
                    ctx.violation(f'Vsm at the reported Cvr_max={cm!r} is {at!r}, Vsm_max is {vmax!r} (ratio {at / vmax:.4f})', inp, key='vsm-at-max')
                classes.add(('branch1' if cm <= 0.33 else 'branch2', ff is None, musf))
            il = Ho.fluid_head_loss(vls, Dp, eps, nu, rhol)
            hs = WS.stratified_head_loss(*w)
            if not hs > il:
                ctx.violation(f'Wilson stratified gradient {hs!r} does not exceed the water gradient {il!r}', inp, key='exceeds-water')
            pl_, ps_ = Ho.fluid_pressure_loss(vls, Dp, eps, nu, rhol), WS.stratified_pressure_loss(*w)
            if not ps_ > pl_:
                ctx.violation(f'Wilson stratified pressure gradient {ps_!r} does not exceed the water pressure gradient {pl_!r}', inp, key='exceeds-water')
            v2 = min(10.0, vls * ctx.rng.choice([1 + 1e-6, 1.01, 1.3, 2.0]))
            e1, e2 = WS.Erhg(*w), WS.Erhg(v2, *w[1:])
            if v2 > vls and e2 > e1 * (1 + 1e-12):
                ctx.violation(f'Wilson stratified Erhg rises with line speed: {e1!r} at {vls} -> {e2!r} at {v2}', inp, key='erhg-rises')
            # the same clause at the entry points a user calls: the excess gradient (head loss - water gradient, per unit Rsd*Cvt) read off the head and the
            # pressure loss does not rise with the line speed either
            if v2 > vls:
                rc_ = (rhos - rhol) / rhol * Cv
                il2 = Ho.fluid_head_loss(v2, Dp, eps, nu, rhol)
                x1, x2 = (hs - il) / rc_, (WS.stratified_head_loss(v2, *w[1:]) - il2) / rc_
                y1 = (ps_ - pl_) / rc_
                y2 = (WS.stratified_pressure_loss(v2, *w[1:]) - Ho.fluid_pressure_loss(v2, Dp, eps, nu, rhol)) / rc_
                if x2 > x1 * (1 + 1e-9) + 1e-12 or y2 > y1 * (1 + 1e-9) + 1e-12:
                    ctx.violation(f'Wilson stratified: excess gradient read off the head / pressure loss rises with line speed: {x1!r} at {vls} -> {x2!r} at {v2} (pressure: {y1!r} -> {y2!r})',
                                  dict(inp, v2=v2), key='erhg-rises')
            d85 = min(d * E.loguniform(ctx.rng, 1.02, 6.0), 0.25 * Dp)
            M = WV.M(Dp, d, d85, nu, rhol, rhos)
            if not 0.25 <= M <= 1.7:
                ctx.violation(f'M={M!r} outside [0.25, 1.7]', dict(inp, d85=d85), key='M')
            signal.alarm(10)
            try:
                v50 = WV.V50(Dp, d, d85, eps, nu, rhol, rhos)
            finally:
                signal.alarm(0)
            w50 = WV.w(d, nu, rhol, rhos)
            rhs = w50 * math.sqrt(8 / Ho.swamee_jain_ff(Ho.pipe_reynolds_number(v50, Dp, nu), Dp, eps)) * math.cosh(60 * d / Dp)
            if not (is_real_finite(v50) and v50 > 0 and rel_close(v50, rhs, 0.005)):
                ctx.violation(f'V50={v50!r} does not satisfy its implicit equation (rhs {rhs!r})', dict(inp, d85=d85), key='v50-implicit')
            if ctx.rng.random() < 0.3:
                # the same grain and pipe in water at other temperatures: each answer must satisfy its own equation
                for nu2 in ctx.rng.sample([0.8e-6, 1.0e-6, 1.2e-6, 1.4e-6], 3):
                    ctx.count('evaluations')
                    v50b = WV.V50(Dp, d, d85, eps, nu2, rhol, rhos)
                    w50b = WV.w(d, nu2, rhol, rhos)
                    rhsb = w50b * math.sqrt(8 / Ho.swamee_jain_ff(Ho.pipe_reynolds_number(v50b, Dp, nu2), Dp, eps)) * math.cosh(60 * d / Dp)
                    if not (is_real_finite(v50b) and v50b > 0 and rel_close(v50b, rhsb, 0.005)):
                        ctx.violation(f'V50={v50b!r} at nu={nu2} (after a call at another viscosity) does not satisfy its implicit equation (rhs {rhsb!r})',
                                      dict(inp, d85=d85, nu_sequence=[nu, nu2]), key='v50-implicit')
            hv = WV.heterogeneous_head_loss(vls, Dp, d, d85, eps, nu, rhol, rhos, Cv, musf)
            if not hv > il:
                ctx.violation(f'Wilson V50 gradient {hv!r} does not exceed the water gradient {il!r}', dict(inp, d85=d85), key='exceeds-water')
            pv_ = WV.heterogeneous_pressure_loss(vls, Dp, d, d85, eps, nu, rhol, rhos, Cv, musf)
            if not pv_ > Ho.fluid_pressure_loss(vls, Dp, eps, nu, rhol):
                ctx.violation(f'Wilson V50 pressure gradient {pv_!r} does not exceed the water pressure gradient', dict(inp, d85=d85), key='exceeds-water')
            e1, e2 = WV.Erhg(vls, Dp, d, d85, eps, nu, rhol, rhos, musf), WV.Erhg(v2, Dp, d, d85, eps, nu, rhol, rhos, musf)
            if v2 > vls and e2 > e1 * (1 + 1e-12):
                ctx.violation(f'Wilson V50 Erhg rises with line speed: {e1!r} -> {e2!r}', dict(inp, d85=d85), key='erhg-rises')
            if v2 > vls:
                x1 = (hv - il) / rc_
                x2 = (WV.heterogeneous_head_loss(v2, Dp, d, d85, eps, nu, rhol, rhos, Cv, musf) - il2) / rc_
                if x2 > x1 * (1 + 1e-9) + 1e-12:
                    ctx.violation(f'Wilson V50: excess gradient read off the head loss rises with line speed: {x1!r} at {vls} -> {x2!r} at {v2}', dict(inp, d85=d85, v2=v2), key='erhg-rises')
        except Timeout:
            ctx.violation('V50 iteration did not terminate within 10 s', inp, key='v50-termination')
        except Exception as e:   # noqa
            ctx.violation(f'raised {type(e).__name__}: {e}', inp, key='raised')
    ctx.stats['distinct_nontrivial'] = len(classes)
