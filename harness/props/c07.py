"""C07 — the slurry object never serves stale derived data, whatever the edit history."""
import copy
import itertools
import math

from common import run_model, rel_close

ID = 'C07'
LEAN_MODULES = ['Dhlldv.Props.C07']
PROP_MODULES = ['Dhlldv.Props.C07']
TIE = ('tie A: setter/flag and artefact/parameter tables extracted from SlurryObj.py by AST analysis on every run and fed to a hand-written Lean '
       'state machine; tie X: dirty flags and regeneration events of the real object compared with the state machine on every generated history')
TECHNIQUE = 'Lean 4 invariant proof over an invalidation state machine parametrised by tables extracted from the source + event-stream correspondence'
PROVED = ['for every adequate (raises, reads) table pair and EVERY operation history, a read serves an artefact computed from the current parameters '
          '(restricted to what the artefact reads) and the current grading shape (induction over the history)',
          'the tables and structural facts extracted from the current source are adequate (by evaluation): flags counted only when raised by the unconditional leading '
          'assignments of a setter, no setter can be left early, the class holds no mutable container of its own, every curve artefact is bound to a newly built object '
          '(never refreshed in place), so shallow copies share nothing that is written later']
HYPOTHESES = ['grading-shape recovery from the stored grading is exact in R (log-linear extrapolation along the same segment); measured 1e-9 on doubles']
MONITORED = ['aliasing between copies made by Pipeline.update_slurries beyond the extracted structural facts (containers reached through attributes the extractor does '
             'not know) - outside the value-semantics model; every copy is compared with a freshly built object, twice, on every run']
RULE = ('all histories to depth 2 (quick) / 3 (thorough) over 9 setters/generate_GSD x 2 values with reads interleaved, random histories to depth 12, '
        'pipelines with two diameters (copies); each final state compared with a freshly built object on every observable; '
        'non-trivial = distinct histories that change at least one parameter after a read')
ASSUMPTIONS = ['value semantics of the state machine (no aliasing); extraction (py2lean/effects) is trusted and cross-checked by the event-stream correspondence']

VALUES = {
    'Dp': [0.5, 0.762, 0.3], 'fluid': ['fresh', 'salt'], 'D50': [0.3e-3, 1.0e-3, 0.1e-3, 0.12e-3], 'Cv': [0.1, 0.25], 'rhom': [1.2, 1.35],
    'rhos': [2.65, 3.2], 'epsilon': [4.5e-5, 1.0e-4], 'max_index': [4, 7], 'generate_GSD': [(2.0, 2.72), (1.5, 3.5), None],
}
SETTERS = ['Dp', 'fluid', 'D50', 'Cv', 'rhom', 'rhos', 'epsilon', 'max_index', 'generate_GSD']
READS_G = ['GSD', 'get_dx', 'Erhg']
READS_C = ['vls_list', 'Erhg_curves', 'im_curves', 'LDV_curves', 'LDV85_curves']
# reads of derived scalars and lookups that touch neither flag (they must not leave a trace either)
READS_S = ['Rsd', 'rhom_read', 'Cvi', 'Dmean', 'im_point', 'il_point', 'get_dx_25', 'str', 'other_slurry', 'other_slurry']


class Tracker:
    """wraps the two generators of the class to observe regeneration events (monkey-patching in the harness process)"""
    def __init__(self):
        from DHLLDV.SlurryObj import Slurry
        self.S = Slurry
        self.orig_g, self.orig_c = Slurry.generate_GSD, Slurry.generate_curves
        self.nG = self.nC = 0
        tr = self

        def g(obj, *a, **k):
            tr.nG += 1
            return tr.orig_g(obj, *a, **k)

        def c(obj, *a, **k):
            tr.nC += 1
            return tr.orig_c(obj, *a, **k)
        Slurry.generate_GSD, Slurry.generate_curves = g, c

    def close(self):
        self.S.generate_GSD, self.S.generate_curves = self.orig_g, self.orig_c


def new_obj():
    from DHLLDV.SlurryObj import Slurry
    return Slurry(Dp=0.762, D50=1.0e-3, fluid='salt', Cv=0.175, max_index=5)


def apply(obj, op, state):
    """apply one operation; `state` tracks the parameters a fresh object must be built with"""
    name, val = op
    if name == 'generate_GSD':
        if val is None:
            obj.generate_GSD()
        else:
            obj.generate_GSD(d15_ratio=val[0], d85_ratio=val[1])
            state['shape'] = val
    elif name == 'rhom':
        obj.rhom = val
        state['Cv'] = obj.Cv
    elif name in READS_G:
        if name == 'GSD':
            _ = obj.GSD
        elif name == 'get_dx':
            _ = obj.get_dx(0.5)
        else:
            _ = obj.Erhg(3.0)
    elif name in READS_C:
        _ = getattr(obj, name)
    elif name in READS_S:
        if name == 'im_point':
            _ = obj.im(2.5)
        elif name == 'il_point':
            _ = obj.il(2.5)
        elif name == 'get_dx_25':
            _ = obj.get_dx(0.25)
        elif name == 'str':
            _ = str(obj)
        elif name == 'other_slurry':
            # something else happens in the process: another slurry is built and graded (every Pipeline and Pump builds one of its own).
            # No state may be shared between slurry objects
            from DHLLDV.SlurryObj import Slurry
            o = Slurry(D50=0.5e-3)
            o.generate_GSD(d15_ratio=3.0, d85_ratio=4.0)
            _ = o.GSD
        else:
            _ = getattr(obj, name.removesuffix('_read'))
    else:
        setattr(obj, name, val)
        state[name] = val


def fresh(state):
    from DHLLDV.SlurryObj import Slurry
    s = Slurry(Dp=state['Dp'], D50=state['D50'], fluid=state['fluid'], Cv=state['Cv'], max_index=state['max_index'])
    s.rhos = state['rhos']
    s.epsilon = state['epsilon']
    s.generate_GSD(d15_ratio=state['shape'][0], d85_ratio=state['shape'][1])
    return s


INIT = {'Dp': 0.762, 'D50': 1.0e-3, 'fluid': 'salt', 'Cv': 0.175, 'max_index': 5, 'rhos': 2.65, 'epsilon': 4.5e-5, 'shape': (2.0, 2.72)}


def close(a, b, tol=1e-9):
    if isinstance(a, dict) and isinstance(b, dict):
        ka, kb = sorted(a.keys(), key=repr), sorted(b.keys(), key=repr)
        if len(ka) != len(kb):
            return False
        for x, y in zip(ka, kb):
            if isinstance(x, float):
                if not rel_close(x, y, tol):
                    return False
            elif x != y:
                return False
        return all(close(a[x], b[y], tol) for x, y in zip(ka, kb))
    if isinstance(a, (list, tuple)) and isinstance(b, (list, tuple)):
        return len(a) == len(b) and all(close(x, y, tol) for x, y in zip(a, b))
    if isinstance(a, str) or isinstance(b, str):
        return a == b
    if isinstance(a, (int, float)) and isinstance(b, (int, float)):
        return rel_close(float(a), float(b), tol)
    return a == b


def observables(s, rng=None):
    """everything the object exposes; with `rng` the reading ORDER is shuffled (a stale value may heal once something else has been read)"""
    def curves():
        ec = dict(s.Erhg_curves)
        ec.pop('Erhg_objects', None)
        return ec
    readers = [('GSD', lambda: s.GSD), ('vls_list', lambda: s.vls_list), ('Erhg_curves', curves), ('im_curves', lambda: s.im_curves),
               ('LDV_curves', lambda: s.LDV_curves), ('LDV85_curves', lambda: s.LDV85_curves), ('il', lambda: s.il(3.0)), ('Erhg', lambda: s.Erhg(3.0)),
               ('im', lambda: s.im(3.0)), ('Rsd', lambda: s.Rsd), ('Cvi', lambda: s.Cvi), ('rhom', lambda: s.rhom), ('Dmean', lambda: s.Dmean),
               ('dx', lambda: [s.get_dx(f) for f in (0.15, 0.5, 0.85)]), ('str', lambda: str(s)),
               ('params', lambda: (s.Dp, s.epsilon, s.fluid, s.nu, s.rhol, s.D50, s.Cv, s.rhos, s.max_index, s.rhoi))]
    if rng is not None:
        rng.shuffle(readers)
    return {k: f() for k, f in readers}


def diff_obs(a, b):
    return [k for k in a if not close(a[k], b[k])]


def model_token(op, codes):
    name, val = op
    if name == 'generate_GSD':
        return 'g:-' if val is None else 'g:' + str(codes.setdefault(('shape', val), len(codes) + 1))
    if name in READS_S:
        # lookups and pointwise gradients read the grading (like the G-reads); pure scalars touch no flag and are not events of the state machine
        return 'rg' if name in ('im_point', 'get_dx_25', 'Dmean', 'str') else None
    if name in READS_G:
        return 'rg'
    if name in READS_C:
        return 'rc'
    p = 'Cv' if name == 'rhom' else name
    return f's:{p}:{codes.setdefault((p, str(val)), len(codes) + 1)}'


def histories(ctx, depth):
    alphabet = [(n, v) for n in SETTERS for v in VALUES[n][:2]]
    for combo in itertools.product(alphabet, repeat=depth):
        yield list(combo)


def interleave_reads(ctx, ops, p=0.5):
    out = []
    for op in ops:
        if ctx.rng.random() < p:
            out.append((ctx.rng.choice(READS_G + READS_C + READS_S), None))
        out.append(op)
    return out


def random_history(ctx, depth):
    ops = []
    for _ in range(depth):
        n = ctx.rng.choice(SETTERS)
        ops.append((n, ctx.rng.choice(VALUES[n])))
    return interleave_reads(ctx, ops, 0.6)


def correspondence(ctx):
    """event streams: real object vs the Lean state machine instantiated with the extracted tables"""
    hs = []
    for h in histories(ctx, 2):
        hs.append(interleave_reads(ctx, h, 0.7) + [(ctx.rng.choice(READS_G + READS_C), None), (ctx.rng.choice(READS_C), None)])
    for _ in range(ctx.n(150, 3000)):
        hs.append(random_history(ctx, ctx.rng.randint(3, 12)) + [(ctx.rng.choice(READS_C), None)])
    lines = []
    hs = [[op for op in h if model_token(op, {}) is not None] for h in hs]
    for h in hs:
        codes = {}
        lines.append('spec.slurry ' + ' '.join(model_token(op, codes) for op in h))
    outs = run_model(lines)
    tr = Tracker()
    try:
        for h, o in zip(hs, outs):
            obj = new_obj()
            st = dict(INIT)
            want = o.split(' ')
            for i, op in enumerate(h):
                g0, c0 = tr.nG, tr.nC
                apply(obj, op, st)
                got = ''.join('1' if x else '0' for x in (obj.GSD_curves_dirty, obj.curves_dirty, tr.nG > g0, tr.nC > c0))
                ctx.count('corr_compared')
                if got != want[i]:
                    ctx.mismatch('dirty flags / regeneration events differ from the state machine (dG dC regenGsd regenCurves)',
                                 {'history': [str(x) for x in h[:i + 1]]}, want[i], got)
                    break
    finally:
        tr.close()
    ctx.sample({'history': [str(x) for x in hs[len(hs) // 2]], 'model_events': outs[len(hs) // 2]})


def run_history(ctx, h, label):
    obj = new_obj()
    st = dict(INIT)
    try:
        for op in h:
            apply(obj, op, st)
        got = observables(obj, ctx.rng)
        order = list(got.keys())
        bad = diff_obs(got, observables(fresh(st)))
    except Exception as e:   # noqa
        bad = [f'raised {type(e).__name__}: {e}']
        order = []
    ctx.count('evaluations')
    if bad:
        ctx.violation(f'after the history the object differs from a freshly built one on {bad}',
                      {'history': [list(map(str, x)) for x in h], 'final': {k: str(v) for k, v in st.items()}, 'read_order': order}, key='stale')
    return not bad


def monitor(ctx, extended=False):
    nontrivial = 0
    depth = 3 if ctx.thorough else 2
    for h in histories(ctx, depth):
        hh = [(ctx.rng.choice(READS_C), None)] + interleave_reads(ctx, h, 0.5)
        run_history(ctx, hh, 'exhaustive')
        nontrivial += 1
    # fine sands: histories that pass through a state in which D50 lies below the pseudo-liquid limit (e.g. created with the default pipe diameter,
    # the actual one set afterwards) - the given D15 must survive it
    scripted = [[('D50', 0.1e-3), ('generate_GSD', (3.3333, 2.6)), ('Dp', 0.3)],
                [('D50', 0.1e-3), ('generate_GSD', (2.0, 2.72)), ('fluid', 'fresh'), ('Dp', 0.3), ('Cv', 0.1)],
                [('D50', 0.12e-3), ('generate_GSD', (1.5, 3.5)), ('Dp', 0.762), ('rhos', 3.2), ('Dp', 0.5)],
                [('Dp', 0.3), ('D50', 0.1e-3), ('generate_GSD', (3.3333, 2.6)), ('Dp', 0.762), ('GSD', None), ('Dp', 0.3)]]
    for h in scripted:
        run_history(ctx, h, 'scripted-fine-sand')
        nontrivial += 1
    # small steps: a parameter moved by less than the resolution of its input box, once and repeatedly, with the curves read before (an "is it worth
    # regenerating" shortcut in a setter shows only here)
    small = [[('im_curves', None), ('Cv', 0.1754)],
             [('Erhg_curves', None), ('Cv', 0.1754), ('Cv', 0.1758), ('Cv', 0.1762), ('Cv', 0.1766), ('Cv', 0.177)],
             [('rhom', 1.309), ('im_curves', None), ('rhom', 1.3095)],
             [('LDV_curves', None), ('epsilon', 4.51e-5)],
             [('im_curves', None), ('D50', 1.0002e-3)],
             [('im_curves', None), ('rhos', 2.6503)],
             [('im_curves', None), ('Dp', 0.7621)]]
    for h in small:
        run_history(ctx, h, 'scripted-small-steps')
        nontrivial += 1
    for _ in range(ctx.n(60, 3000) * (3 if extended else 1)):
        run_history(ctx, [(ctx.rng.choice(READS_C + READS_G), None)] + random_history(ctx, ctx.rng.randint(3, 12)), 'random')
        nontrivial += 1
    # copies made by Pipeline.update_slurries
    from DHLLDV.PipeObj import Pipe, Pipeline
    for _ in range(ctx.n(25, 600)):
        st = dict(INIT)
        st['D50'] = ctx.rng.choice([0.2e-3, 0.3e-3, 1.0e-3])
        st['Dp'] = ctx.rng.choice([0.5, 0.65, 0.762])
        base = fresh(st)
        dias = ctx.rng.sample([0.4, 0.5, 0.65, 0.762, 0.9], 2)
        if ctx.rng.random() < 0.7:
            dias[ctx.rng.randrange(2)] = st['Dp']
        log = []
        if ctx.rng.random() < 0.5:
            # the slurry was plotted / tabulated before the pipeline was built on it: the copies are taken from an object that already holds its tables
            _ = base.im_curves, base.LDV_curves
            log.append('slurry curves read before the pipeline was built')
        pl = Pipeline(pipe_list=[Pipe('a', dias[0], 0.0, 0.5, -5.0), Pipe('b', dias[0], 200.0, 0.2, 1.0), Pipe('c', dias[1], 500.0, 1.0, 2.0)],
                      slurry=base)
        try:
            for _ in range(ctx.rng.randint(0, 4)):
                r = ctx.rng.random()
                if r < 0.3:
                    v = ctx.rng.choice(VALUES['Cv'])
                    pl.Cv = v
                    st['Cv'] = v
                    log.append(f'pipeline.Cv={v}')
                elif r < 0.5:
                    st2 = dict(st, D50=ctx.rng.choice([0.2e-3, 1.0e-3]), rhos=ctx.rng.choice(VALUES['rhos']), shape=ctx.rng.choice(VALUES['generate_GSD'][:2]))
                    st2['Dp'] = pl.slurry.Dp
                    pl.slurry = fresh(st2)
                    st = st2
                    log.append(f'pipeline.slurry=Slurry({st2})')
                elif r < 0.7:
                    d = ctx.rng.choice(dias)
                    _ = pl.slurries[d].im_curves if ctx.rng.random() < 0.5 else pl.slurries[d].GSD
                    log.append(f'read slurries[{d}]')
                elif r < 0.85:
                    _ = pl.slurry.GSD if ctx.rng.random() < 0.5 else pl.slurry.im_curves
                    log.append('read pipeline.slurry (GSD or curves)')
                else:
                    n = ctx.rng.choice(['D50', 'rhos', 'fluid'])
                    v = ctx.rng.choice(VALUES[n])
                    setattr(pl.slurry, n, v)
                    st[n] = v
                    pl.update_slurries()
                    log.append(f'pipeline.slurry.{n}={v}; update_slurries()')
            st['Dp'] = pl.slurry.Dp
            order = list(pl.slurries.keys()) + ['main']
            ctx.rng.shuffle(order)
            # every object is looked at twice: the second look comes after all its siblings have generated their tables
            for d in order + order:
                ctx.count('evaluations')
                o = pl.slurry if d == 'main' else pl.slurries[d]
                f = fresh(dict(st, Dp=(st['Dp'] if d == 'main' else d)))
                bad = diff_obs(observables(o), observables(f))
                if bad:
                    ctx.violation(f'pipeline copy for diameter {d} differs from a freshly built slurry on {bad}',
                                  {'diameters': dias, 'log': log, 'read_order': [str(x) for x in order], 'final': {k: str(v) for k, v in st.items()}}, key='stale-copy')
                    break
            nontrivial += 1
        except Exception as e:   # noqa
            ctx.violation(f'pipeline history raised {type(e).__name__}: {e}', {'diameters': dias, 'log': log}, key='stale-copy')
    # the pipeline's slurry and one of its per-diameter copies edited independently, in turn: each keeps its own parameters (an edit of one leaves no trace in the other)
    for _ in range(ctx.n(12, 300)):
        st0 = dict(INIT)
        st0['D50'] = ctx.rng.choice([0.2e-3, 0.3e-3, 1.0e-3])
        d_other = ctx.rng.choice([0.5, 0.65, 0.9])
        pl = Pipeline(pipe_list=[Pipe('a', st0['Dp'], 0.0, 0.5, -5.0), Pipe('b', d_other, 200.0, 0.2, 1.0), Pipe('c', st0['Dp'], 500.0, 1.0, 2.0)], slurry=fresh(st0))
        objs = {'pipeline slurry': (pl.slurry, dict(st0)), f'copy for {d_other}': (pl.slurries[d_other], dict(st0, Dp=d_other))}
        log = []
        try:
            for _ in range(ctx.rng.randint(2, 5)):
                who = ctx.rng.choice(sorted(objs))
                o, stt = objs[who]
                n = ctx.rng.choice(['generate_GSD', 'generate_GSD', 'D50', 'rhos', 'Cv', 'read'])
                if n == 'read':
                    _ = o.im_curves if ctx.rng.random() < 0.5 else o.GSD
                    log.append(f'{who}: read')
                elif n == 'generate_GSD':
                    shape = ctx.rng.choice([(2.0, 4.0), (1.5, 3.5), (3.0, 2.72)])
                    if ctx.rng.random() < 0.5:
                        o.generate_GSD(d85_ratio=shape[1])
                        stt['shape'] = (stt['shape'][0], shape[1])
                    else:
                        o.generate_GSD(d15_ratio=shape[0], d85_ratio=shape[1])
                        stt['shape'] = shape
                    log.append(f'{who}: generate_GSD -> shape {stt["shape"]}')
                else:
                    v = ctx.rng.choice({'D50': [0.4e-3, 0.8e-3], 'rhos': VALUES['rhos'], 'Cv': VALUES['Cv']}[n])
                    setattr(o, n, v)
                    stt[n] = v
                    log.append(f'{who}: {n}={v}')
            for who in sorted(objs):
                ctx.count('evaluations')
                o, stt = objs[who]
                bad = diff_obs(observables(o), observables(fresh(stt)))
                if bad:
                    ctx.violation(f'{who} differs from a slurry built directly with its own final parameters on {bad}',
                                  {'log': log, 'final': {k: str(v) for k, v in stt.items()}}, key='stale-copy')
                    break
            nontrivial += 1
        except Exception as e:   # noqa
            ctx.violation(f'independent edits of a pipeline slurry and its copy raised {type(e).__name__}: {e}', {'log': log}, key='stale-copy')
    ctx.stats['distinct_nontrivial'] = nontrivial
