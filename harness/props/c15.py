"""C15 — saving a pipeline to Excel and loading it back preserves the system; safe file names."""
import os
import re
import shutil
import tempfile
import warnings

import envelope as E
import pipegen as G
import xlgen as X
from common import run_model, rel_close

ID = 'C15'
LEAN_MODULES = ['Dhlldv.Props.C15']
PROP_MODULES = ['Dhlldv.Props.C15']
TIE = ('tie A: whitelist, replace list and the statement shapes of remove_disallowed_filename_chars / the file-name branch of store_to_excel extracted from the '
       'source on every run; tie X: base name produced by the implementation vs the Lean Spec on generated Unicode strings (exact equality)')
TECHNIQUE = 'Lean 4 proof of the file-name clause over a Spec parametrised by the extracted whitelist + differential check; round trip decided by a property oracle on the real store/load'
PROVED = ['for EVERY requested name (any Unicode string) the base name is a stem of whitelisted characters followed by ".xlsx"; no path separator or dot survives in the stem',
          'the extracted whitelist is exactly 64 characters, all ASCII letters, digits, "-" or "_"; the sanitiser and the file-name branch have the modelled shape']
HYPOTHESES = []
MONITORED = ['the round-trip clause (store then load yields an equivalent pipeline: names, ordered sections, pump design data / limit / driver / gear ratio, slurry parameters and grading, '
             'heads within 1e-9) - decided on the implementation for generated pipelines every run; openpyxl (de)serialisation itself',
             'that the file is written inside the requested folder (os.path.join + the proved absence of separators; observed on disk)']
RULE = ('file names: Unicode strings from a grammar (ASCII, separators, dots, ".xlsx" suffixes in odd places, empty, accented / CJK / fullwidth / superscript characters, control characters) '
        'through the pure sanitiser and through store_to_excel on disk; round trip: generated pipelines (0-3 pumps in all limit modes incl. driver curves and gear ratios, repeated pumps, '
        'same-named pumps with different drives, slurries in E with rhos != 2.65); non-trivial = distinct names / pipelines')
ASSUMPTIONS = ['pipeline names are restricted to what an Excel cell can hold (no C0 control characters except tab/LF/CR); numbers survive the file with 16 significant digits (openpyxl), so geometry is compared at 1e-12; os.path.join(path, base) stays inside path when base contains no separator (proved) and is not empty / ".." (the ".xlsx" suffix)']

ALPH = ['a', 'Z', '7', '-', '_', ' ', '.', '/', '\\', ':', '*', '?', '"', '<', '>', '|', '\t', '\n', '\x00', 'é', 'ß', 'Ø', '中', 'ж', '٣', '７', '½', '²', 'Ⅷ', '③',
        '.xlsx', '..', '../', 'C:\\', '~', '%', '$(x)', "'", 'İ', 'ǅ', '\u200b', '\ud7ff', '𝒳']


def gen_name(rng):
    r = rng.random()
    if r < 0.05:
        return ''
    n = rng.randint(1, 12)
    s = ''.join(rng.choice(ALPH) for _ in range(n))
    if rng.random() < 0.4:
        s += rng.choice(['.xlsx', '.XLSX', '.xlsx.', '.xls', '.xlsx '])
    return s


def correspondence(ctx):
    import store_pump_excel as S
    names = [gen_name(ctx.rng) for _ in range(ctx.n(3000, 200000))]
    lines = ['spec.filename ' + (n.encode('utf-8').hex() or '-') for n in names]
    outs = run_model(lines)
    for n, o in zip(names, outs):
        ctx.count('corr_compared')
        if '.xlsx' in n and n[-5:] == '.xlsx':
            got = S.remove_disallowed_filename_chars(n[:-5], '.xlsx')
        else:
            got = S.remove_disallowed_filename_chars(n, '.xlsx')
        want = bytes.fromhex(o[1:]).decode('utf-8')
        if got != want:
            ctx.mismatch('base name differs from the Spec', {'requested': n}, want, got)
    ctx.sample({'requested': names[5], 'base_name': bytes.fromhex(outs[5][1:]).decode('utf-8')})


SAFE = re.compile(r'^[A-Za-z0-9_-]*\.xlsx$')


def same_curve(a, b):
    ka, kb = sorted(a.keys()), sorted(b.keys())
    return len(ka) == len(kb) and all(rel_close(x, y, 1e-12) and rel_close(dict.__getitem__(a, x), dict.__getitem__(b, y), 1e-12) for x, y in zip(ka, kb))


def share_flow_list(pl, rng=None, runout=False):
    """the documented workbook format has ONE flow column for the head and the power curve: re-key the power curve on the head curve's flows"""
    from DHLLDV.PipeObj import Pipe, Pipeline
    from DHLLDV.DHLLDV_Utils import interpDict
    secs = []
    for s in pl.pipesections:
        if isinstance(s, Pipe):
            secs.append(s)
        else:
            qs = sorted(s.design_QH_curve.keys())
            ps = [dict.__getitem__(s.design_QP_curve, k) for k in sorted(s.design_QP_curve.keys())]
            hs = [dict.__getitem__(s.design_QH_curve, k) for k in qs]
            if runout and rng is not None and rng.random() < 0.5:
                # a curve tabulated all the way to run-out: last point with head exactly 0 (and the power it takes there)
                qs, hs, ps = qs + [qs[-1] * 1.2], hs + [0.0], ps + [ps[-1] * 1.05]
            secs.append(G.clone_pump(s, design_QH_curve=interpDict(dict(zip(qs, hs))), design_QP_curve=interpDict(dict(zip(qs, ps)))))
    return Pipeline(name=pl.name, pipe_list=secs, slurry=pl.slurry)


def compare_pipelines(p, q):
    from DHLLDV.PipeObj import Pipe
    if p.name != q.name:
        return f'name {q.name!r} != {p.name!r}'
    if len(p.pipesections) != len(q.pipesections):
        return 'number of sections'
    for i, (a, b) in enumerate(zip(p.pipesections, q.pipesections)):
        if isinstance(a, Pipe) != isinstance(b, Pipe):
            return f'section {i} kind'
        if isinstance(a, Pipe):
            if a.name != b.name or not all(rel_close(x, y, 1e-12) for x, y in ((a.diameter, b.diameter), (a.length, b.length),
                                                                                (a.total_K, b.total_K), (a.elev_change, b.elev_change))):
                return f'pipe section {i}: {b!r} != {a!r}'
        else:
            for f in ('name', 'limited'):
                if getattr(a, f) != getattr(b, f):
                    return f'pump {i} {f}: {getattr(b, f)!r} != {getattr(a, f)!r}'
            for f in ('design_speed', 'design_impeller', 'suction_dia', 'disch_dia', 'avail_power', 'gear_ratio'):
                if not rel_close(getattr(a, f), getattr(b, f), 1e-12):
                    return f'pump {i} {f}: {getattr(b, f)!r} != {getattr(a, f)!r}'
            if not same_curve(a.design_QH_curve, b.design_QH_curve) or not same_curve(a.design_QP_curve, b.design_QP_curve):
                return f'pump {i} design curves'
            if a.limited == 'curve':
                if b.driver is None or not same_curve(a.driver.design_power_curve, b.driver.design_power_curve) or a.driver.name != b.driver.name:
                    return f'pump {i} driver'
    s, t = p.slurry, q.slurry
    if (s.name, s.fluid) != (t.name, t.fluid):
        return f'slurry name/fluid {(t.name, t.fluid)} != {(s.name, s.fluid)}'
    for f in ('Dp', 'D50', 'Cv', 'rhos', 'rhoi'):
        if not rel_close(getattr(s, f), getattr(t, f), 1e-9):
            return f'slurry {f}: {getattr(t, f)!r} != {getattr(s, f)!r}'
    for fr in (0.15, 0.5, 0.85):
        if not rel_close(s.get_dx(fr), t.get_dx(fr), 1e-9):
            return f'slurry d{int(fr * 100)}: {t.get_dx(fr)!r} != {s.get_dx(fr)!r}'
    ga, gb = sorted(s.GSD.items()), sorted(t.GSD.items())
    if len(ga) != len(gb) or not all(rel_close(x[0], y[0], 1e-9) and rel_close(x[1], y[1], 1e-9) for x, y in zip(ga, gb)):
        return 'slurry grading differs'
    return None


def monitor(ctx, extended=False):
    import openpyxl
    import load_pump_excel as L
    import store_pump_excel as S
    from DHLLDV.PipeObj import Pipe, Pipeline
    tmp = tempfile.mkdtemp(prefix='c15_')
    k = 0
    try:
        base_pl = Pipeline(name='n', pipe_list=[Pipe('Entrance', 0.5, 0.0, 0.5, -4.0), Pipe('Discharge', 0.5, 100.0, 1.0, 1.0)])
        for i in range(ctx.n(80, 3000)):
            n = gen_name(ctx.rng)
            ctx.count('evaluations')
            try:
                before = set(os.listdir(tmp))
                # the requested folder as an absolute path, or relative to the current directory ('.', a sub-folder name, '../<folder>')
                how = ctx.rng.choice(['abs', 'abs', 'dot', 'rel-parent']) if i % 4 == 1 else 'abs'
                cwd0 = os.getcwd()
                folder = tmp
                if how == 'dot':
                    os.chdir(tmp)
                    folder = '.'
                elif how == 'rel-parent':
                    os.chdir(os.path.dirname(tmp))
                    folder = os.path.basename(tmp)
                try:
                    with warnings.catch_warnings():
                        warnings.simplefilter('ignore')
                        gave_fname = ctx.rng.random() < 0.5
                        if gave_fname:
                            # a requested file name together with a pipeline name of any kind (plain, with blanks / separators / dots, non-ASCII); the requested name
                            # is sometimes one that cleans to nothing
                            base_pl.name = ctx.rng.choice(['p', 'p', 'Main Line', 'a/b', '../escape', 'Leitung \u00fc 3', 'x.y'])
                            if ctx.rng.random() < 0.15:
                                n = ctx.rng.choice(['', '.xlsx', '...', '???', '/', '\u7ba1\u7dda', ' '])
                            path = S.store_to_excel(base_pl, fname=n, path=folder)
                        else:
                            # a pipeline name is written into a cell: Excel (openpyxl) cannot hold C0 control characters other than tab/newline/CR
                            base_pl.name = re.sub('[\x00-\x08\x0b\x0c\x0e-\x1f\ud7ff]', '', n)
                            n = base_pl.name
                            path = S.store_to_excel(base_pl, path=folder)
                    path = os.path.abspath(path)
                finally:
                    os.chdir(cwd0)
                new = set(os.listdir(tmp)) - before
                bn = os.path.basename(path)
                if os.path.dirname(os.path.abspath(path)) != os.path.abspath(tmp) or not SAFE.match(bn) or new != {bn}:
                    ctx.violation(f'file written as {path!r} (new files in the requested folder {sorted(new)}) for requested name {n!r}, folder given as {folder!r} ({how})',
                                  {'requested': n, 'folder': how}, key='file-name')
                    if not new and os.path.isfile(path) and os.path.basename(os.path.dirname(path)) != os.path.basename(tmp):
                        os.remove(path)
                if i % 5 == 2 and new == {bn} and gave_fname:
                    # the same request again while the first file is still there: the second save may overwrite it; its name obeys the same rules
                    with warnings.catch_warnings():
                        warnings.simplefilter('ignore')
                        path2 = os.path.abspath(S.store_to_excel(base_pl, fname=n, path=tmp))
                    new2 = set(os.listdir(tmp)) - before - new
                    bn2 = os.path.basename(path2)
                    if os.path.dirname(path2) != os.path.abspath(tmp) or not SAFE.match(bn2) or not new2 <= {bn2}:
                        ctx.violation(f'second save of the same request written as {path2!r} (new files {sorted(new2)}) for requested name {n!r}', {'requested': n, 'history': 'same request saved twice'}, key='file-name')
                    new = new | new2
                for f in new:
                    os.remove(os.path.join(tmp, f))
                k += 1
            except Exception as e:   # noqa
                ctx.violation(f'store_to_excel raised {type(e).__name__}: {e} for name {n!r}', {'requested': n}, key='file-name')
        # round trip
        must_names = ['Slurry pump', 'Pipeline booster', ' driver side pump', 'Booster 650 ', 'pump']
        for i in range(ctx.n(12, 400) * (2 if extended else 1)):
            sl = None
            if i < 4 or ctx.rng.random() < 0.3:
                # fine, heavy solids: D50 just above the pseudo-liquid limit (which falls with the solids density), D15 below it
                dia = ctx.rng.choice([0.4, 0.5, 0.65, 0.762, 0.9])
                pp = E.slurry_params(ctx.rng)
                pp['Dp'], pp['rhos'] = dia, ctx.rng.uniform(3.2, 4.0)
                nu_, rhol_ = E.fluids()[pp['fluid']]
                pp['D50'] = max(E.dlim(dia, nu_, rhol_, pp['rhos']), 5e-5) * ctx.rng.uniform(1.01, 1.15)
                pp['r15'], pp['r85'] = ctx.rng.uniform(1.5, 4.0), min(ctx.rng.uniform(1.5, 4.0), 0.5 * dia / pp['D50'])
                sl = E.make_slurry(pp, max_index=100)
                sl._params = pp
            pl = G.random_pipeline(ctx.rng, n_pumps=ctx.rng.randint(0, 3), slurry=sl, **({'dia_choices': (sl.Dp,)} if sl is not None else {}))
            pl.name = ctx.rng.choice(['Line A', 'x', 'Ünïcode ✓', 'a/b', 'Line A ', ' x', 'T\t'])
            pl.slurry.name = ctx.rng.choice(['sand', 'S 1', 'Medium sand ', ' fines'])
            secs = pl.pipesections
            # pump names as users choose them: with the words the workbook format uses for its tabs, with blanks at the ends
            for j_, sct in enumerate(list(secs)):
                if not isinstance(sct, Pipe) and (must_names or ctx.rng.random() < 0.5):
                    # (the first pumps of a run get each of the awkward names once, so that none of them depends on the draw)
                    q_ = G.clone_pump(sct, name=must_names.pop(0) if must_names else ctx.rng.choice(['Slurry pump', 'Pipeline booster', 'Booster 650 ', ' driver side pump', 'Main Pump', 'pump']))
                    q_._example = getattr(sct, '_example', sct.name)
                    secs[j_] = q_
            # section names as a user types them: leading / trailing blanks or tabs, inner double blanks, punctuation, non-ASCII
            for sct in secs:
                if isinstance(sct, Pipe) and ctx.rng.random() < 0.4:
                    sct.name = ctx.rng.choice([' Suction', 'Floating line ', 'Shore line\t', 'D\u00fcker 3', 'pipe  two', 'Rohr-1/2"', '\u914d\u7ba1', ' x '])
            pumps = [s for s in secs if not isinstance(s, Pipe)]
            if pumps and ctx.rng.random() < 0.5:
                # a repeated pump, or a same-named pump with a different drive
                twin = G.clone_pump(pumps[0]) if ctx.rng.random() < 0.5 else G.clone_pump(pumps[0], limited='power', avail_power=pumps[0].avail_power * 1.3, driver=None)
                if twin.limited == 'curve' and twin.driver is None:
                    twin = G.clone_pump(pumps[0])
                secs.insert(len(secs) - 1, twin)
                pl = Pipeline(name=pl.name, pipe_list=secs, slurry=pl.slurry)
            force_curve = (i % 3 == 1)
            if force_curve and (i % 6 == 1 or not any((not isinstance(s_, Pipe)) and s_.limited == 'curve' for s_ in secs)):
                # every third pipeline has at least one pump limited by a driver curve; every sixth one whose engine turns slower than the pump (step-up gear, ratio 0.8)
                secs.insert(len(secs) - 1, G.random_pump(ctx.rng, mode='curve', gear=0.8 if i % 6 == 1 else None))
                pl = Pipeline(name=pl.name, pipe_list=secs, slurry=pl.slurry)
            pl = share_flow_list(pl, ctx.rng, runout=True)
            if force_curve or ctx.rng.random() < 0.5:
                # driver curves tabulated from standstill: a first point (0 Hz, 0 kW)
                from DHLLDV.DriverObj import Driver
                from DHLLDV.DHLLDV_Utils import interpDict
                secs2 = []
                for sct in pl.pipesections:
                    if not isinstance(sct, Pipe) and sct.limited == 'curve' and sct.driver is not None and 0.0 not in sct.driver.design_power_curve:
                        pts_ = dict(sct.driver.design_power_curve)
                        pts_[0.0] = 0.0
                        sct = G.clone_pump(sct, driver=Driver(name=sct.driver.name, design_power_curve=interpDict(pts_)))
                    secs2.append(sct)
                pl = Pipeline(name=pl.name, pipe_list=secs2, slurry=pl.slurry)
            hist_ = []
            dias_ = [s_.diameter for s_ in pl.pipesections if isinstance(s_, Pipe)]
            inner_ = sorted({d_ for d_ in dias_ if d_ != dias_[-1]})
            if inner_ and i % 2 == 0:
                # the slurry is defined for a pipeline diameter that is not the discharge diameter (the pipeline keeps such a diameter)
                pl.slurry.Dp = ctx.rng.choice(inner_)
                pl.update_slurries()
                hist_.append(f'slurry Dp set to the diameter {pl.slurry.Dp} of a section that is not the last')
            pumps_ = [s_ for s_ in pl.pipesections if not isinstance(s_, Pipe)]
            if pumps_ and hasattr(pl.slurry, '_params') and i % 3 != 1 and ctx.rng.random() < 0.6:
                # the same pump objects are also part of a second pipeline with another slurry, built and evaluated before this one is saved
                p2_ = dict(pl.slurry._params, Cv=0.03 if pl.slurry.Cv > 0.2 else 0.4, Dp=dias_[-1])
                other_ = Pipeline(name='reference', pipe_list=[Pipe('Entrance', dias_[-1], 0.0, 0.5, -3.0)] + pumps_ + [Pipe('discharge', dias_[-1], 300.0, 1.0, 1.0)],
                                  slurry=E.make_slurry(p2_, max_index=100))
                try:
                    other_.calc_system_head(G.flows_for(ctx.rng, pl, 1)[0])
                except Exception:   # noqa
                    pass
                hist_.append(f'a second pipeline with another slurry (Cv {p2_["Cv"]}) was built around the same pump objects and evaluated first')
            desc = G.describe(pl)
            if hist_:
                desc = dict(desc, history=hist_)
            ctx.count('evaluations')
            try:
                with warnings.catch_warnings():
                    warnings.simplefilter('ignore')
                    if i % 4 == 2:
                        # the Save button pressed twice: the file that is loaded back is the one written by the SECOND save of the same objects in this process
                        os.remove(S.store_to_excel(pl, fname=f'rt{i}first', path=tmp))
                        desc = dict(desc, history=list(desc.get('history', [])) + ['the same pipeline object was saved once before (to another file name)'])
                    path = S.store_to_excel(pl, fname=f'rt{i}', path=tmp)
                    q = L.load_pipeline_from_workbook(openpyxl.load_workbook(filename=path, data_only=True))
                os.remove(path)
                bad = compare_pipelines(pl, q)
                if not bad:
                    qmax = min([max(s.design_QH_curve.keys()) for s in pl.pipesections if not isinstance(s, Pipe)] + [1e9])
                    for Q in G.flows_for(ctx.rng, pl, 2):
                        Q = min(Q, qmax * 0.95)
                        try:
                            a = pl.calc_system_head(Q)
                        except Exception:   # noqa  (whether the pipeline itself can be evaluated at Q is not a round-trip matter)
                            continue
                        b = q.calc_system_head(Q)
                        if not all(rel_close(x, y, 1e-9) or abs(x - y) < 1e-9 for x, y in zip(a, b)):
                            bad = f'heads at Q={Q}: {b} != {a}'
                if bad:
                    ctx.violation('round trip: ' + bad, {'pipeline': desc}, key='round-trip')
                k += 1
            except Exception as e:   # noqa
                ctx.violation(f'round trip raised {type(e).__name__}: {e}', {'pipeline': desc}, key='round-trip')
    finally:
        shutil.rmtree(tmp, ignore_errors=True)
    ctx.stats['distinct_nontrivial'] = k
