"""C09 — pipeline system head is the sum of its parts and uses the current slurry."""
import copy
import math

import envelope as E
import pipegen as G
from common import run_model, enc, unbits, same_float, rel_close, is_real_finite, tie_equal_vec

ID = 'C09'
LEAN_MODULES = ['Dhlldv.Props.C09']
PROP_MODULES = ['Dhlldv.Props.C09']
TIE = ('hand-written executable Lean model of calc_system_head / update_slurries (Spec.Pipe) compared bit-for-bit with the implementation on every '
       'generated pipeline (per-section friction gradients and pump heads are taken from the running implementation)')
TECHNIQUE = 'Lean 4 proof over an executable model of the accumulation loop + bit-exact correspondence; property oracle with independent per-diameter slurries'
PROVED = ['closed form of all four heads (sum of friction*length, fittings, lifts of positive-length sections, suction submergence of a zero-length entrance, exit velocity head; pump heads summed)',
          'invariance under any permutation of the interior sections and under splitting a positive-length section (all reals)',
          'after the concentration or the slurry is replaced every pipe diameter maps to the new parameters at that diameter and every pump points at the pipeline slurry',
          'the binding step of calc_system_head: afterwards every pump in the line holds the pipeline slurry whatever it held before (pump objects shared with a second pipeline), '
          'nothing else changes, idempotent (C09_calc_binds_pumps; the Spec is run beside the implementation)']
HYPOTHESES = []
MONITORED = ['floating-point re-association under split / permutation (measured against 1e-9 relative)',
             'that the per-diameter copy really behaves like a fresh slurry at that diameter (composition with C07; compared on every pipeline)']
RULE = ('generated pipelines per the property (2-8 pipes, 0-3 example pumps under all limit modes, zero-length first / interior sections, 1-3 diameters, slurries in E) x 3 flows; '
        'every split point and up to 24 interior permutations per pipeline; Cv / slurry replacement histories; non-trivial = distinct pipelines x flows')
ASSUMPTIONS = ['identities in R; on doubles split/permutation agree up to rounding (1e-9)']


def sec_tokens(pl, Q):
    from DHLLDV.PipeObj import Pipe
    toks = []
    for s in pl.pipesections:
        if isinstance(s, Pipe):
            v = s.velocity(Q)
            if s.length > 0:
                imv, ilv = pl.slurries[s.diameter].im(v), pl.slurries[s.diameter].il(v)
            else:
                imv = ilv = 0.0
            toks += ['P'] + [enc(float(x)) for x in (s.diameter, s.length, s.total_K, s.elev_change, imv, ilv)]
        else:
            s.slurry = pl.slurry
            toks += ['U', enc(float(s.point(Q, water=True)[1])), enc(float(s.point(Q)[1]))]
    return toks


def correspondence(ctx):
    from DHLLDV.DHLLDV_constants import gravity
    lines, metas = [], []
    for _ in range(ctx.n(40, 1500)):
        pl = G.random_pipeline(ctx.rng, vary_speed=True)
        for Q in G.flows_for(ctx.rng, pl, 3):
            try:
                want = pl.calc_system_head(Q)
                toks = sec_tokens(pl, Q)
            except Exception as e:   # noqa
                ctx.count('corr_impl_nonreal')
                continue
            lines.append('spec.syshead ' + ' '.join([enc(gravity), enc(pl.slurry.rhom), enc(pl.slurry.rhol), enc(Q), str(len(pl.pipesections))] + toks))
            metas.append((pl, Q, want))
    outs = run_model(lines)
    for (pl, Q, want), o in zip(metas, outs):
        ctx.count('corr_compared')
        got = [unbits(x) for x in o.split(' ')]
        if not tie_equal_vec(ctx, got, want):
            ctx.mismatch('Spec.Pipe.sysHead differs from calc_system_head', {'pipeline': G.describe(pl), 'Q': Q}, got, list(want))
    if metas:
        ctx.sample({'pipeline': G.describe(metas[0][0]), 'Q': metas[0][1]})
    # update_slurries against Spec.Pipe.updateSlurries (the model C09_update is about): which per-diameter copies exist, in which order, which diameter and
    # parameter set each holds, which slurry every pump holds afterwards, and where the pipeline slurry's own diameter ends up - also when that diameter is
    # not one of the pipeline's before the call
    from DHLLDV.PipeObj import Pipe
    lines, metas = [], []
    for _ in range(ctx.n(40, 1500)):
        pl = G.random_pipeline(ctx.rng, vary_speed=True)
        dias = [s_.diameter for s_ in pl.pipesections if isinstance(s_, Pipe)]
        r_ = ctx.rng.random()
        d0 = pl.slurry.Dp if r_ < 0.4 else (ctx.rng.choice(dias) if r_ < 0.7 else ctx.rng.choice([0.3, 0.55, 0.8, 1.0, dias[0] + 0.0005]))
        code = {d: i + 1 for i, d in enumerate(sorted(set(dias + [d0])))}
        try:
            pl._slurry.Dp = d0
            pl.update_slurries()
            main = pl.slurry

            def pcode(sl):
                return 1 if all(getattr(sl, k_) == getattr(main, k_) for k_ in ('Cv', 'D50', 'rhos', 'fluid', 'rhol', 'nu')) else 0
            got = ' '.join([str(code.get(main.Dp, 0)), '|'] + [f'{code.get(d, 0)}:{pcode(sl)}:{code.get(sl.Dp, 0)}' for d, sl in pl.slurries.items()] + ['|']
                           + [f'{1 if s_.slurry is main else pcode(s_.slurry) * 2}:{code.get(s_.slurry.Dp, 0)}' for s_ in pl.pipesections if not isinstance(s_, Pipe)])
        except Exception as e:   # noqa
            got = f'raised {type(e).__name__}'
        lines.append(f'spec.updslur {code[d0]} ' + ' '.join(f'P {code[s_.diameter]}' if isinstance(s_, Pipe) else 'U' for s_ in pl.pipesections))
        metas.append((G.describe(pl), d0, got))
    # the binding step of calc_system_head against Spec.Pipe.bindPumps (the model C09_calc_binds_pumps is about): the pump objects of this pipeline are first
    # made part of a second pipeline with another slurry (so they hold THAT slurry), then this pipeline is evaluated - every pump must hold this pipeline's
    # slurry afterwards, and the section list is as long as before
    from DHLLDV.PipeObj import Pipeline
    for _ in range(ctx.n(25, 800)):
        pl = G.random_pipeline(ctx.rng, n_pumps=ctx.rng.randint(1, 3), vary_speed=True)
        pumps_ = [s_ for s_ in pl.pipesections if not isinstance(s_, Pipe)]
        dias = [s_.diameter for s_ in pl.pipesections if isinstance(s_, Pipe)]
        code = {d: i + 1 for i, d in enumerate(sorted(set(dias + [pl.slurry.Dp])))}
        try:
            p2_ = dict(pl.slurry._params, Cv=0.03 if pl.slurry.Cv > 0.2 else 0.4, Dp=dias[-1])
            other = Pipeline(name='second line', pipe_list=[Pipe('Entrance', dias[-1], 0.0, 0.5, -3.0)] + pumps_ + [Pipe('discharge', dias[-1], 300.0, 1.0, 1.0)],
                             slurry=E.make_slurry(p2_, max_index=100))
            held_other = all(q_.slurry is other.slurry for q_ in pumps_)
            pl.calc_system_head(G.flows_for(ctx.rng, pl, 1)[0])
            got = ' '.join([f'{1 if q_.slurry is pl.slurry else 0}:{code.get(q_.slurry.Dp, 0)}' for q_ in pumps_] + ['|', str(len(pl.pipesections))])
            if not held_other:
                got = 'the second pipeline did not take the pumps over: ' + got
        except Exception as e:   # noqa
            got = f'raised {type(e).__name__}'
        lines.append(f'spec.bindpumps {code[pl.slurry.Dp]} ' + ' '.join(f'P {code[s_.diameter]}' if isinstance(s_, Pipe) else 'U' for s_ in pl.pipesections))
        metas.append((dict(G.describe(pl), history='the pump objects were first made part of a second pipeline with another slurry; then calc_system_head of this one'), pl.slurry.Dp, got))
    outs = run_model(lines)
    for (desc, d0, got), o in zip(metas, outs):
        ctx.count('corr_compared')
        if o.strip() != got.strip():
            ctx.mismatch('Spec.Pipe.updateSlurries / bindPumps differs from Pipeline.update_slurries / the binding step of calc_system_head (main diameter | diameter:parameters:Dp of every copy | slurry of every pump)',
                         {'pipeline': desc, 'slurry_Dp_before': d0}, o, got)


def oracle_heads(pl, Q, slurries=None):
    """the property's right-hand side, from independent per-diameter slurries"""
    from DHLLDV.PipeObj import Pipe
    from DHLLDV.DHLLDV_constants import gravity
    sl = pl.slurry
    fr_m, fr_l, fit_m, fit_l, z_m, z_l, pm, pw = [], [], [], [], [], [], [], []
    cache = slurries if slurries is not None else {}
    last_v = None
    for i, s in enumerate(pl.pipesections):
        if isinstance(s, Pipe):
            v = Q / (math.pi * s.diameter ** 2 / 4)
            last_v = v
            fit_m.append(s.total_K * v * v / (2 * gravity) * sl.rhom)
            fit_l.append(s.total_K * v * v / (2 * gravity) * sl.rhol)
            if s.length > 0:
                if s.diameter not in cache:
                    cache[s.diameter] = G.fresh_slurry_like(sl, s.diameter)
                f = cache[s.diameter]
                fr_m.append(f.im(v) * s.length)
                fr_l.append(f.il(v) * s.length)
                z_m.append(s.elev_change * sl.rhom)
                z_l.append(s.elev_change * sl.rhol)
            elif i == 0:
                z_m.append(s.elev_change * sl.rhol)
                z_l.append(s.elev_change * sl.rhol)
        else:
            q = copy.copy(s)
            q.slurry = sl
            pw.append(q.point(Q, water=True)[1])
            pm.append(q.point(Q)[1])
    ex = last_v * last_v / (2 * gravity)
    return (math.fsum(fr_m + fit_m + z_m + [ex * sl.rhom]), math.fsum(fr_l + fit_l + z_l + [ex * sl.rhol]), math.fsum(pw), math.fsum(pm))


def heads_close(a, b, tol=1e-9):
    scale = max(max(abs(x) for x in a), max(abs(x) for x in b), 1.0)
    return all(is_real_finite(x) and is_real_finite(y) and abs(x - y) <= tol * scale for x, y in zip(a, b))


def monitor(ctx, extended=False):
    from DHLLDV.PipeObj import Pipe, Pipeline
    n = ctx.n(25, 800) * (2 if extended else 1)
    nontrivial = 0
    for _ in range(n):
        pl = G.random_pipeline(ctx.rng, vary_speed=True)
        desc = G.describe(pl)
        try:
            fresh = {}
            for Q in G.flows_for(ctx.rng, pl, 2):
                ctx.count('evaluations')
                got = pl.calc_system_head(Q)
                want = oracle_heads(pl, Q, fresh)
                if not heads_close(got, want):
                    ctx.violation(f'system/pump heads {got} differ from the sum of the parts {want}', {'pipeline': desc, 'Q': Q}, key='sum-of-parts')
                    break
                nontrivial += 1
                # splits
                secs = pl.pipesections
                for i, s in enumerate(secs):
                    if isinstance(s, Pipe) and s.length > 0 and ctx.rng.random() < 0.7:
                        f = ctx.rng.uniform(0.1, 0.9)
                        a = Pipe(s.name + 'a', s.diameter, s.length * f, s.total_K * f, s.elev_change * f)
                        b = Pipe(s.name + 'b', s.diameter, s.length - a.length, s.total_K - a.total_K, s.elev_change - a.elev_change)
                        pl2 = Pipeline(pipe_list=secs[:i] + [a, b] + secs[i + 1:], slurry=pl.slurry)
                        ctx.count('evaluations')
                        g2 = pl2.calc_system_head(Q)
                        if not heads_close(got, g2):
                            ctx.violation(f'splitting section {i} changes the heads: {got} -> {g2}', {'pipeline': desc, 'Q': Q, 'split': i, 'fraction': f}, key='split')
                # interior permutations
                if len(secs) > 3:
                    for _ in range(ctx.n(3, 24)):
                        mid = secs[1:-1]
                        ctx.rng.shuffle(mid)
                        pl3 = Pipeline(pipe_list=[secs[0]] + mid + [secs[-1]], slurry=pl.slurry)
                        ctx.count('evaluations')
                        g3 = pl3.calc_system_head(Q)
                        if not heads_close(got, g3):
                            ctx.violation(f'reordering interior sections changes the heads: {got} -> {g3}', {'pipeline': desc, 'Q': Q}, key='permutation')
                            break
            # replace the concentration / the slurry, then every section and pump must use the new slurry at its own diameter
            log = []
            for _ in range(ctx.rng.randint(1, 3)):
                if ctx.rng.random() < 0.5:
                    c = E.pick_Cv(ctx.rng)
                    pl.Cv = c
                    log.append(f'Cv={c}')
                else:
                    p = dict(pl.slurry._params)
                    p.update(Cv=E.pick_Cv(ctx.rng), rhos=ctx.rng.choice([2.65, 3.0, p['rhos']]), r85=min(p['r85'], ctx.rng.uniform(1.1, 4.0)))
                    p['Dp'] = pl.slurry.Dp
                    # stay inside E: D50 above the pseudo-liquid limit of every diameter in the line also for the new solids density
                    nu_, rhol_ = E.fluids()[p['fluid']]
                    dias_ = [x.diameter for x in pl.pipesections if isinstance(x, Pipe)] + [p['Dp']]
                    if p['D50'] < 1.001 * max(E.dlim(dd, nu_, rhol_, p['rhos']) for dd in dias_):
                        p['rhos'] = pl.slurry.rhos
                    s2 = E.make_slurry(p)
                    s2._params = p
                    pl.slurry = s2
                    log.append(f'slurry=Slurry({p})')
                if ctx.rng.random() < 0.5:
                    _ = pl.calc_system_head(G.flows_for(ctx.rng, pl, 1)[0])
                    log.append('read heads')
            Q = G.flows_for(ctx.rng, pl, 1)[0]
            ctx.count('evaluations')
            for s in pl.pipesections:
                if isinstance(s, Pipe):
                    c = pl.slurries.get(s.diameter)
                    if c is None or c.Dp != s.diameter or (c.Cv, c.D50, c.rhos, c.fluid) != (pl.slurry.Cv, pl.slurry.D50, pl.slurry.rhos, pl.slurry.fluid):
                        ctx.violation(f'section of diameter {s.diameter} does not use the new slurry at its own diameter', {'pipeline': desc, 'log': log}, key='propagation')
                        break
            got = pl.calc_system_head(Q)
            for s in pl.pipesections:
                if not isinstance(s, Pipe) and s.slurry is not pl.slurry:
                    ctx.violation('a pump does not use the pipeline slurry after the replacement', {'pipeline': desc, 'log': log}, key='propagation')
            want = oracle_heads(pl, Q)
            if not heads_close(got, want):
                ctx.violation(f'after {log} the heads {got} differ from the sum of the parts with the new slurry {want}', {'pipeline': desc, 'Q': Q, 'log': log}, key='propagation')
            # the same flow asked again after a section or pump was edited in place (the project's tests edit sections like this): the head is the
            # sum over the sections AS THEY ARE NOW
            pipes = [x for x in pl.pipesections if isinstance(x, Pipe) and x.length > 0]
            pumps = [x for x in pl.pipesections if not isinstance(x, Pipe)]
            kind = ctx.rng.choice(['length', 'K', 'elev', 'speed', 'trim'])
            if kind == 'length' and pipes:
                ctx.rng.choice(pipes).length *= ctx.rng.choice([0.5, 1.7, 2.5])
            elif kind == 'K' and pipes:
                ctx.rng.choice(pipes).total_K += 1.0
            elif kind == 'elev' and pipes:
                ctx.rng.choice(pipes).elev_change += ctx.rng.choice([-3.0, 2.0, 5.0])
            elif kind == 'speed' and pumps:
                q = ctx.rng.choice(pumps)
                q.current_speed = q.current_speed * 0.9
            elif kind == 'trim' and pumps:
                q = ctx.rng.choice(pumps)
                q.current_impeller = q.current_impeller * 0.95
            ctx.count('evaluations')
            got2, want2 = pl.calc_system_head(Q), oracle_heads(pl, Q)
            if not heads_close(got2, want2):
                ctx.violation(f'after an in-place edit ({kind}) the heads at the same flow {got2} differ from the sum of the parts {want2}',
                              {'pipeline': G.describe(pl), 'Q': Q, 'log': log + [f'heads at Q, then in-place edit: {kind}, then heads at Q again']}, key='sum-of-parts-history')
            # the same section objects (pumps included) used by a second pipeline with another slurry: each pipeline reports its own heads
            p2 = dict(pl.slurry._params)
            p2.update(Cv=E.pick_Cv(ctx.rng), rhos=ctx.rng.choice([2.65, 3.0, 3.4]))
            p2['Dp'] = pl.slurry.Dp
            nu_, rhol_ = E.fluids()[p2['fluid']]
            dias_ = [x.diameter for x in pl.pipesections if isinstance(x, Pipe)] + [p2['Dp']]
            if p2['D50'] < 1.001 * max(E.dlim(dd, nu_, rhol_, p2['rhos']) for dd in dias_):
                p2['rhos'] = max(p2['rhos'], pl.slurry.rhos)
            s3 = E.make_slurry(p2)
            s3._params = p2
            pl_b = Pipeline(pipe_list=list(pl.pipesections), slurry=s3)
            for which, line in (('second', pl_b), ('first', pl), ('second', pl_b)):
                ctx.count('evaluations')
                g, w = line.calc_system_head(Q), oracle_heads(line, Q)
                if not heads_close(g, w):
                    ctx.violation(f'two pipelines share their section objects: the {which} one reports {g}, the sum of its parts with its own slurry is {w}',
                                  {'pipeline': G.describe(pl), 'Q': Q, 'second_slurry': p2, 'log': log}, key='shared-sections')
                    break
        except Exception as e:   # noqa
            ctx.violation(f'raised {type(e).__name__}: {e}', {'pipeline': desc}, key='raised')
    ctx.stats['distinct_nontrivial'] = nontrivial
