"""C17 — the viewer session stays consistent and crash-free under any sequence of edits."""
import contextlib
import io
import math
import os
import sys

import envelope as E
import pipegen as G
from common import REPO, VERIF, rel_close

ID = 'C17'
LEAN_MODULES = ['Dhlldv.Props.C17']
PROP_MODULES = ['Dhlldv.Props.C17']
TIE = ('tie A: the unit-conversion constants are extracted from unit_conv.py on every run; tie X: the real callbacks of main.py / SystemTab.py are driven through a '
       'behavioural stand-in of the bokeh widget API (harness/bokeh_stub) and every accept/reject decision is compared with the check_value Spec')
TECHNIQUE = 'Lean 4 proof of the entry-gate contract and of the unit constants + session exploration of the real callbacks against a widget-API double'
PROVED = ['check_value contract: an accepted entry is handed to the model and the text is left alone; a rejected one leaves the previous value and restores the previous text; '
          'the value handed on stays within the documented bounds',
          'the US-unit constants (and the SI pressure constant) extracted from the source are within 0.2 % of the exact conversions']
HYPOTHESES = []
MONITORED = ['no callback raises; echoed texts equal the model to display precision; plotted curve data equal those of a fresh slurry object (composition of C02 / C07 in the real library); '
             'US displays = SI values x exact conversions; every pipeline section uses the edited slurry at its own diameter - all decided on the real callbacks every run',
             'the stand-in is not bokeh: property-change and click wiring only']
RULE = ('event sequences over the slurry-tab and top-bar widgets (valid / out-of-range / non-numeric text in every box, up/down buttons, fluid, units, pipeline selection): '
        'all sequences of depth 1 (quick) / 2 (thorough) over ~30 representative events from a fresh session, random sessions of depth 15; accepted values kept inside E; '
        'non-trivial = events executed')
ASSUMPTIONS = ['"accepted" is decided by the bounds the widget code documents (Dp 25-1500 mm, Cv 0.01-0.5, rhos 1.5-7, D15 >= 0.04 mm ...) evaluated on the model state before the event']
KNOWN_DP = 'accepted pipe-diameter entry that is not one of the pipeline\'s diameters is overwritten by Pipeline.update_slurries (model and box reset to the last pipe diameter)'

STUB = os.path.join(VERIF, 'harness', 'bokeh_stub')
SESSION_MODS = ('main', 'SystemTab', 'ExamplePumps', 'unit_conv', 'load_pump_excel', 'store_pump_excel', 'CustomSetups')


def new_session():
    for m in list(sys.modules):
        if m in SESSION_MODS or m == 'bokeh' or m.startswith('bokeh.'):
            del sys.modules[m]
    if STUB not in sys.path:
        sys.path.insert(0, STUB)
    with contextlib.redirect_stdout(io.StringIO()):
        import main
    return main


EXACT = {'len': 1 / 0.3048, 'dia': 12 / 0.3048, 'vol': (1 / 0.9144) ** 3, 'flow': 60 / 0.003785411784, 'power': 1 / 0.74569987158227022,
         'pressure': 9.80665 / 6.894757293168, 'rot speed': 60.0}


def events_for(main, rng):
    """~30 representative events for the current model state: (label, kind, payload)"""
    s = main.slurry
    dl = 1000 * E.dlim(s.Dp, s.nu, s.rhol, s.rhos)
    d15, d50, d85 = (s.get_dx(f) * 1000 for f in (0.15, 0.5, 0.85))
    dias = sorted({int(round(p.diameter * 1000)) for p in main.pipeline.pipesections if hasattr(p, 'diameter')})
    ev = []
    for v in [str(dias[-1]), str(dias[0]), '700', '24', '1501', 'abc', '', '600.5']:
        ev.append((f'Dp={v!r}', 'text', ('Dp_input', v)))
    for v in ['0.2', '0.333', '0.009', '0.51', 'x', '1e-1']:
        ev.append((f'Cv={v!r}', 'text', ('Cv_input', v)))
    for v in ['2.65', '3.1', '1.4', '7.5', 'two']:
        ev.append((f'rhos={v!r}', 'text', ('rhos_input', v)))
    for v in ['1.3', '1.04', '9', 'n/a']:
        ev.append((f'rhom={v!r}', 'text', ('rhom_input', v)))
    for v in [f'{max(0.05, d15 * 0.7):0.3f}', f'{d50 * 1.5:0.3f}', '0.03', 'abc']:
        ev.append((f'D15={v!r}', 'text', ('D15_input', v)))
    for v in [f'{(d15 + d85) / 2:0.3f}', f'{d85 * 2:0.3f}', f'{dl * 0.5:0.4f}', '-1']:
        ev.append((f'D50={v!r}', 'text', ('D50_input', v)))
    for v in [f'{d85 * 1.7:0.3f}', f'{d50 * 0.9:0.3f}', f'{s.Dp * 1000 * 0.6:0.1f}', '9']:
        ev.append((f'D85={v!r}', 'text', ('D85_input', v)))
    # texts that parse as floats but are not numbers (must be rejected like any other out-of-range entry)
    for w in ('Dp_input', 'Cv_input', 'rhos_input', 'rhom_input', 'D15_input', 'D50_input', 'D85_input'):
        ev.append((f"{w.split('_')[0]}='nan'", 'text', (w, 'nan')))
    ev.append(("Cv='inf'", 'text', ('Cv_input', 'inf')))
    for b in ('Dp_up_button', 'Dp_down_button', 'D50_up_button', 'D50_down_button', 'Cv_up_button', 'Cv_down_button'):
        ev.append((b, 'click', b))
    ev.append(('fluid=fresh', 'radio', 0))
    ev.append(('fluid=salt', 'radio', 1))
    ev.append(('units=US', 'units', 'US'))
    ev.append(('units=SI', 'units', 'SI'))
    for name in main.SystemTab.setups:
        ev.append((f'pipeline={name!r}', 'pipeline', name))
    return ev


BOUNDS = {
    'Dp_input': lambda s: (25, 1500), 'Cv_input': lambda s: (0.01, 0.5), 'rhos_input': lambda s: (1.5, 7.0),
    'rhom_input': lambda s: (1.05, 0.5 * (s.rhos - s.rhol) + s.rhol),
    'D15_input': lambda s: (0.04, s.D50 * 1000),
    'D50_input': lambda s: (max(s.get_dx(0.15) * 1000 + 0.01, 1000 * E.dlim(s.Dp, s.nu, s.rhol, s.rhos)), min(s.get_dx(0.85) * 1000 - 0.01, s.Dp * 1000 * 0.25)),
    'D85_input': lambda s: (s.D50 * 1000 + 0.01, s.Dp * 1000 * 0.50),
}
MODEL_OF = {
    'Dp_input': lambda s: s.Dp * 1000, 'Cv_input': lambda s: s.Cv, 'rhos_input': lambda s: s.rhos, 'rhom_input': lambda s: s.rhom,
    'D15_input': lambda s: s.get_dx(0.15) * 1000, 'D50_input': lambda s: s.D50 * 1000, 'D85_input': lambda s: s.get_dx(0.85) * 1000,
}
PREC = {'Dp_input': 1.0, 'Cv_input': 0.0005, 'rhos_input': 0.0005, 'rhom_input': 0.0005,
         'D15_input': 0.0005, 'D50_input': 0.0005, 'D85_input': 0.0005}


def in_envelope(widget, v, s):
    """keep accepted values inside E (the property's premise)"""
    if widget == 'Dp_input':
        return 100 <= v <= 1200 and s.get_dx(0.85) <= 0.5 * v / 1000 and s.D50 <= 0.25 * v / 1000
    if widget == 'Cv_input':
        return 0.02 <= v <= 0.45
    if widget == 'rhos_input':
        return 2.0 <= v <= 4.0
    if widget == 'rhom_input':
        cv = (v - s.rhol) / (s.rhos - s.rhol)
        return 0.02 <= cv <= 0.45
    if widget == 'D15_input':
        return s.D50 * 1000 / v <= 6.0 and v < s.D50 * 1000 / 1.02
    if widget == 'D50_input':
        return v >= 0.05      # D15 and D85 follow a D50 entry in proportion: the ratios, hence the shape, stay as they are
    if widget == 'D85_input':
        return v / (s.D50 * 1000) <= 6.0 and v > s.D50 * 1000 * 1.02
    return True


def fresh_like(s, Dp=None):
    return G.fresh_slurry_like(s, s.Dp if Dp is None else Dp)


def lists_close(a, b, tol=1e-9):
    return len(a) == len(b) and all((x == y) if isinstance(x, str) or isinstance(y, str) else rel_close(float(x), float(y), tol) or abs(float(x) - float(y)) < 1e-12 for x, y in zip(a, b))


def check_state(ctx, main, label, log):
    """invariants after an event; returns a violation (text, key) or None"""
    s = main.slurry
    pl = main.pipeline
    # bounds
    if not (0.025 <= s.Dp <= 1.5 and 0.01 <= s.Cv <= 0.5 and 1.5 <= s.rhos <= 7.0):
        return f'parameter outside the documented widget bounds: Dp={s.Dp}, Cv={s.Cv}, rhos={s.rhos}', 'bounds'
    d15, d50, d85 = s.get_dx(0.15) * 1000, s.D50 * 1000, s.get_dx(0.85) * 1000
    if not (0.04 - 5e-4 <= d15 <= d50 and d50 <= d85 <= s.Dp * 1000 * 0.50 + 5e-4 and d50 <= s.Dp * 1000 * 0.25 + 5e-4):
        return (f'grading outside the bounds its boxes document (0.04 <= D15 <= D50 <= 0.25 Dp, D50 <= D85 <= 0.5 Dp; display precision): '
                f'D15={d15:0.4f}, D50={d50:0.4f}, D85={d85:0.4f} mm, Dp={s.Dp * 1000:0.0f} mm'), 'grading-bounds'
    # echo
    want = {'Dp_input': f'{int(s.Dp * 1000)}', 'Cv_input': f'{s.Cv:0.3f}', 'rhos_input': f'{s.rhos:0.3f}', 'rhom_input': f'{s.rhom:0.3f}',
            'D15_input': f'{s.get_dx(0.15) * 1000:0.3f}', 'D50_input': f'{s.get_dx(0.5) * 1000:0.3f}', 'D85_input': f'{s.get_dx(0.85) * 1000:0.3f}',
            'Rsd_input': f'{s.Rsd:0.3f}', 'Cvi_input': f'{s.Cvi:0.3f}', 'fluid_viscosity_label': f'{s.nu:0.4e}', 'fluid_density_label': f'{s.rhol:0.4f}',
            'roughness_label': f'{s.epsilon:0.3e}'}
    for w, txt in want.items():
        got = getattr(main, w).value
        try:
            ok = got == txt or abs(float(got) - float(txt)) <= 1.01 * (10 ** -3 if w not in ('Dp_input',) else 1)
        except ValueError:
            ok = False
        if not ok:
            return f'text box {w} shows {got!r}, the model value formats as {txt!r}', 'echo'
    if main.fluid_radio.active != {'fresh': 0, 'salt': 1}[s.fluid]:
        return 'fluid selector does not show the model fluid', 'echo'
    # plotted data = fresh slurry with the same parameters
    f = fresh_like(s)
    for src, data in (('im_source', {'v': f.vls_list, 'graded_Cvt_im': f.im_curves['graded_Cvt_im'], 'Cvs_im': f.im_curves['Cvs_im'], 'Cvt_im': f.im_curves['Cvt_im'],
                                     'il': f.im_curves['il'], 'regime': f.Erhg_curves['Cvs_regime']}),
                      ('Erhg_source', {'il': f.Erhg_curves['il'], 'graded_Cvt': f.Erhg_curves['graded_Cvt_Erhg'], 'Cvs': f.Erhg_curves['Cvs_Erhg'], 'Cvt': f.Erhg_curves['Cvt_Erhg']}),
                      ('LDV50_source', {'v': f.LDV_curves['vls'], 'im': f.LDV_curves['im']}), ('LDV85_source', {'v': f.LDV85_curves['vls'], 'im': f.LDV85_curves['im']})):
        got = getattr(main, src).data
        for k, v in data.items():
            if not lists_close(list(got[k]), list(v)):
                return f'plotted {src}[{k}] differs from a fresh slurry object with the same parameters', 'plot-data'
    gp = sorted(f.GSD.keys())
    if not lists_close(list(main.GSD_source.data['p']), gp) or not lists_close(list(main.GSD_source.data['dia']), [f.GSD[x] * 1000 for x in gp]):
        return 'plotted grading differs from a fresh slurry object', 'plot-data'
    # every section uses the edited slurry at its own diameter
    for p in pl.pipesections:
        if hasattr(p, 'diameter') and hasattr(p, 'length'):
            c = pl.slurries.get(p.diameter)
            if c is None:
                return f'no per-diameter slurry for section diameter {p.diameter}', 'sections'
            g = fresh_like(s, p.diameter)
            if c.fluid != s.fluid or c.Dp != p.diameter or not all(rel_close(a, b, 1e-9) for a, b in ((c.Cv, s.Cv), (c.rhos, s.rhos), (c.D50, s.D50))) or any(
                    not rel_close(c.im(v), g.im(v), 2e-3) for v in (2.0, 4.0, 6.0)):
                return f'section of diameter {p.diameter} does not use the edited slurry at its own diameter', 'sections'
        elif hasattr(p, 'slurry') and p.slurry is not s:
            return 'a pump does not use the edited slurry', 'sections'
    # the System tab's minimum-friction and operating-point boxes show the values of the pipeline that is selected NOW (checked after a pipeline or unit
    # selection and on the event after it; the searches behind them are the expensive part of a session)
    recent = [l for l in log[-2:] if l.startswith(('pipeline', 'units'))] or label.startswith(('pipeline', 'units')) or '[system boxes]' in label
    if recent:
        try:
            ST_ = main.SystemTab
            opcol = main.sys_tab.child.children[2].children[1]
            shown = [w.value for w in opcol.children[2].children[:3]] + [w.value for w in opcol.children[5].children[:4]]
            fl_ = [pl.pipesections[-1].flow(v) for v in pl.slurry.vls_list]
            qi_ = pl.qimin(fl_)
            uc_ = ST_.unit_convs
            want_ = [f'{qi_ * uc_["flow"]:0.2f}', f'{pl.pipesections[-1].velocity(qi_) * uc_["len"]:0.1f}', f'{pl.calc_system_head(qi_)[0] * uc_["len"]:0.1f}']
            try:
                qo_ = pl.find_operating_point(fl_)
                want_ += [f'{qo_ * uc_["flow"]:0.2f}', f'{pl.pipesections[-1].velocity(qo_) * uc_["len"]:0.1f}', f'{pl.calc_system_head(qo_)[0] * uc_["len"]:0.1f}',
                          f'{pl.slurry.Cvi * qo_ * 60 * 60 * uc_["vol"]:0.0f}']
            except Exception as e_:   # noqa
                want_ += ['None'] * 4 if type(e_).__name__ == 'OperatingPointError' else [f'<{type(e_).__name__}>'] * 4

            def near(a_, b_):
                if a_ == b_:
                    return True
                try:
                    dec_ = len(b_.split('.')[1]) if '.' in b_ else 0
                    return abs(float(a_) - float(b_)) <= 1.5 * 10 ** (-dec_) + 1e-3 * abs(float(b_))
                except ValueError:
                    return False
            if isinstance(shown, list) and len(shown) == 7 and all(isinstance(x_, str) for x_ in shown) and not all(near(a_, b_) for a_, b_ in zip(shown, want_)):
                return (f'System tab boxes (minimum-friction Q, v, H; operating point Q, v, H, production) show {shown} while the selected pipeline {pl.name!r} has {want_}'), 'system-boxes'
        except (AttributeError, IndexError, TypeError):
            pass        # the panel layout is not what this oracle navigates: nothing is concluded from it
    # unit displays: the selected system's constants must be the exact conversions (0.2 %)
    ST = main.SystemTab
    us = main.unit_picker.label.startswith('US')
    for k, ex in EXACT.items():
        want_c = ex if us else {'dia': 1000.0, 'rot speed': 60.0, 'pressure': 9.80665}.get(k, 1.0)
        if k in ST.unit_convs and not rel_close(ST.unit_convs[k], want_c, 2e-3):
            return f'with {"US" if us else "SI"} units selected the {k} factor in use is {ST.unit_convs[k]!r}, exact {want_c!r}', 'units'
    return None


def do_event(main, kind, payload):
    from bokeh import Event
    if kind == 'text':
        getattr(main, payload[0]).value = payload[1]
    elif kind == 'click':
        getattr(main, payload).click()
    elif kind == 'radio':
        main.fluid_radio.active = payload
    elif kind == 'units':
        main.unit_picker.click(Event(payload))
    elif kind == 'pipeline':
        main.pipeline_dropdown.click(Event(payload))


def step(ctx, main, ev, log, edge=False):
    """execute one event with its oracle; returns False if a violation was recorded that ends the session"""
    label, kind, payload = ev
    s = main.slurry
    pre = {w: f(s) for w, f in MODEL_OF.items()}
    pre_txt = {w: getattr(main, w).value for w in MODEL_OF}
    expect = None
    if kind == 'text':
        w, txt = payload
        lo, hi = BOUNDS[w](s)
        try:
            v = float(txt)
            acc = lo <= v <= hi
        except ValueError:
            v, acc = None, False
        if acc and not edge and not in_envelope(w, v, s):
            return True          # would leave the envelope: outside the property's premise, skip the event
        if txt == pre_txt[w]:
            return True          # no change event
        expect = (w, acc, v)
    press = None
    if kind == 'click' and payload in ('Cv_up_button', 'Cv_down_button', 'D50_up_button', 'D50_down_button'):
        # an up / down button makes an entry for the slurry that is being edited NOW: the model value does not move the other way, and away from the ends
        # of the concentration box the press is not lost
        press = (payload.split('_')[0] + '_input', +1 if '_up_' in payload else -1)
    ctx.count('evaluations')
    log.append(label)
    try:
        with contextlib.redirect_stdout(io.StringIO()):
            do_event(main, kind, payload)
    except SystemExit:
        raise
    except Exception as e:   # noqa
        ctx.violation(f'callback raised {type(e).__name__}: {e}', {'events': list(log)}, key='callback-raised')
        return False
    s = main.slurry
    if press:
        w, sign = press
        got = MODEL_OF[w](s)
        moved = (got - pre[w]) * sign
        if moved < -1e-9 or (w == 'Cv_input' and 0.02 <= pre[w] <= 0.44 and moved < 1e-4):
            ctx.violation(f'{payload} pressed with {w.split("_")[0]} = {pre[w]!r}: the model now has {got!r}', {'events': list(log)}, key='button-step')
            return False
    if expect:
        w, acc, v = expect
        got = MODEL_OF[w](s)
        if acc:
            if not abs(got - v) <= PREC[w] + 1e-9:
                dias = {p.diameter for p in main.pipeline.pipesections if hasattr(p, 'diameter')}
                key = 'accepted-not-applied'
                if w == 'Dp_input' and v / 1000 not in dias and got / 1000 == main.pipeline.pipesections[-1].diameter:
                    key = 'dp-entry-overwritten'
                ctx.violation(f'accepted entry {w}={v!r} did not become the model value (model has {got!r})', {'events': list(log)}, key=key)
                if key != 'dp-entry-overwritten':
                    return False
        else:
            if not rel_close(got, pre[w], 1e-12) and not abs(got - pre[w]) < 1e-12:
                ctx.violation(f'rejected entry {w}={payload[1]!r} changed the model from {pre[w]!r} to {got!r}', {'events': list(log)}, key='rejected-changed-model')
                return False
            try:
                restored = abs(float(getattr(main, w).value) - pre[w]) <= PREC[w] * 2 + 1e-9
            except ValueError:
                restored = False
            if not restored:
                ctx.violation(f'rejected entry {w}={payload[1]!r}: text box shows {getattr(main, w).value!r}, previous value {pre[w]!r}', {'events': list(log)}, key='text-not-restored')
                return False
    bad = check_state(ctx, main, label, log)
    if bad:
        ctx.violation(bad[0], {'events': list(log)}, key=bad[1])
        return False
    return True


def correspondence(ctx):
    """accept/reject decisions, the value the model gets and the text left in the box: the real check_value against Spec.Viewer.checkValue executed by the Lean
    driver on generated texts (what `float(text)` gives and the bounds are handed over as exact rationals; the callbacks themselves are exercised by the monitor)"""
    from fractions import Fraction
    import math
    from common import run_model
    main = new_session()

    class W:
        def __init__(self, v):
            self.value, self.title = v, 't'

    def rat(x):
        f = Fraction(x)
        return f'{f.numerator}/{f.denominator}'
    lines, metas = [], []
    for _ in range(ctx.n(2000, 50000)):
        lo = ctx.rng.uniform(-5, 5)
        hi = lo + ctx.rng.uniform(0, 10)
        prev = ctx.rng.uniform(lo, hi)
        txt = ctx.rng.choice([f'{ctx.rng.uniform(lo - 3, hi + 3):0.3f}', 'abc', '', '1e2', ' 3 ', 'nan', 'inf', '-inf', f'{lo}', f'{hi}', '0x10', '1,5', '1_0', '٣'])
        w = W(txt)
        with contextlib.redirect_stdout(io.StringIO()):
            got = main.check_value(w, lo, hi, prev, '0.3f')
        try:
            v = float(txt)
            parsed = 'none' if math.isnan(v) else (rat(v) if math.isfinite(v) else ('1' + '0' * 400 + '/1' if v > 0 else '-1' + '0' * 400 + '/1'))
        except ValueError:
            parsed = 'none'
        lines.append(f'spec.checkvalue {parsed} {rat(lo)} {rat(hi)} {rat(prev)}')
        metas.append((txt, lo, hi, prev, got, w.value))
    outs = run_model(lines)
    for (txt, lo, hi, prev, got, left), o in zip(metas, outs):
        ctx.count('corr_compared')
        parts = o.split(' ')
        ok = len(parts) == 3
        if ok:
            n_, d_ = parts[1].split('/')
            want_v = Fraction(int(n_), int(d_))
            want_txt = txt if parts[0] == 'T' else f'{prev:0.3f}'
            ok = isinstance(got, float) and math.isfinite(got) and Fraction(got) == want_v and left == want_txt
        if not ok:
            ctx.mismatch('check_value differs from Spec.Viewer.checkValue (text left in the box, value handed to the model)',
                         {'text': txt, 'min': lo, 'max': hi, 'prev': prev}, o, [left, repr(got)])
    ctx.sample({'text': '0.333', 'min': 0.01, 'max': 0.5, 'prev': 0.175})


def monitor(ctx, extended=False):
    k = 0
    # depth 1 (quick) / 2 (thorough) exhaustive from a fresh session
    main = new_session()
    base_events = events_for(main, ctx.rng)
    firsts = base_events if ctx.thorough else ctx.rng.sample(base_events, min(len(base_events), 14))
    for ev in firsts:
        main = new_session()
        log = []
        if not step(ctx, main, ev, log):
            continue
        k += 1
        if ctx.thorough:
            for ev2 in ctx.rng.sample(events_for(main, ctx.rng), 8):
                if not step(ctx, main, ev2, log):
                    break
                k += 1
    # scripted sessions: unit round trips and grading edits followed by other edits (multi-step patterns a random walk rarely hits)
    scripts = [['units=US', "Cv='0.2'", 'units=SI', 'Dp_up_button', 'units=US', 'units=SI', "rhos='3.1'"],
               ['D85=*1.7', "Cv='0.333'", 'D15=*0.7', 'fluid=fresh', 'Cv_up_button', 'D50_up_button', "rhom='1.3'", "rhom='n/a'", "rhom='1.3'"]]
    # pipeline selection after edits of every kind (the selected pipeline brings its own slurry: every box has to follow)
    names = list(new_session().SystemTab.setups)
    for nm in names:
        other = [x for x in names if x != nm][:1]
        scripts.append(['fluid=fresh', f'pipeline={nm!r}', "Cv='0.2'", 'fluid=salt'] + [f'pipeline={x!r}' for x in other] + ['fluid=fresh', f'pipeline={nm!r}'])
        scripts.append(['units=US', "rhos='3.1'", f'pipeline={nm!r}', 'D50_up_button', 'units=SI'] + [f'pipeline={x!r}' for x in other])
        # the buttons step the slurry the selected pipeline brought with it
        scripts.append([f'pipeline={nm!r}', "Cv='0.333'", 'Cv_up_button', 'Cv_up_button', 'Cv_down_button', 'D50_up_button', 'D50_down_button'])
    # grading pushed towards the limits of its boxes by D50 entries (D15 and D85 follow D50 in proportion): D15 must stay >= 0.04 mm, D85 <= Dp / 2
    for raw in ([('D15_input', '0.170'), ('D50_input', '0.200'), ('D50_input', '0.190')],
                [('D50_input', '2.700'), ('D50_input', '7.300'), ('D50_input', '19.800'), ('D50_input', '53.800'), ('D50_input', '124.000')],
                [('D15_input', '0.170'), ('D50_input', '0.260'), ('click', 'D50_down_button'), ('click', 'D50_down_button')],
                [('Cv_input', 'nan'), ('D50_input', 'nan'), ('rhos_input', 'nan'), ('Dp_input', 'nan')],
                # the edges of the range the Cv box documents (0.01 .. 0.5), reached by entry and then pushed with the buttons
                [('Cv_input', '0.012'), ('click', 'Cv_down_button'), ('click', 'Cv_down_button'), ('click', 'Cv_up_button')],
                [('Cv_input', '0.498'), ('click', 'Cv_up_button'), ('click', 'Cv_up_button'), ('click', 'Cv_down_button')],
                # the operating-point boxes of the System tab follow an edit of the grading alone
                [('D85_input', '8.000 [system boxes]'), ('D15_input', '0.300 [system boxes]')]) + tuple(
                # after another pipeline is selected the density box is range-checked against the slurry that is selected NOW (solids density changed first)
                [('pipeline', nm_), ('rhos_input', '2.000'), ('rhom_input', '1.560'), ('rhom_input', '1.300'), ('rhos_input', '3.500'), ('rhom_input', '2.100')]
                for nm_ in [x_ for x_ in names if x_.lower() != new_session().pipeline.name.lower()][:2]):
        main = new_session()
        log = []
        for w, txt in raw:
            if w == 'pipeline':
                ev_ = (f'pipeline={txt!r}', 'pipeline', txt)
            elif w == 'click':
                ev_ = (txt, 'click', txt)
            else:
                ev_ = (f"{w.split('_')[0]}={txt!r}", 'text', (w, txt.replace(' [system boxes]', '')))
            if not step(ctx, main, ev_, log, edge=True):
                break
            k += 1
    for sc in scripts:
        main = new_session()
        log = []
        for name in sc:
            evs = events_for(main, ctx.rng)
            if name == 'D85=*1.7':
                ev = next(e for e in evs if e[0].startswith('D85='))
            elif name == 'D15=*0.7':
                ev = next(e for e in evs if e[0].startswith('D15='))
            else:
                ev = next((e for e in evs if e[0] == name), None)
            if ev is None:
                continue
            if not step(ctx, main, ev, log):
                break
            k += 1
    # random sessions of depth 15
    for _ in range(ctx.n(3, 60) * (2 if extended else 1)):
        main = new_session()
        log = []
        for _ in range(15):
            ev = ctx.rng.choice(events_for(main, ctx.rng))
            if not step(ctx, main, ev, log):
                break
            k += 1
    ctx.stats['distinct_nontrivial'] = k


def replay_known(kf):
    """re-run the witness of a listed finding on a fresh session; True if it still reproduces"""
    if kf['key'] != 'dp-entry-overwritten':
        return False
    main = new_session()
    dias = {p.diameter for p in main.pipeline.pipesections if hasattr(p, 'diameter')}
    main.Dp_input.value = '700'
    return 0.7 not in dias and main.slurry.Dp != 0.7 and main.slurry.Dp == main.pipeline.pipesections[-1].diameter
