"""C03 — gradient, excess gradient and pressure loss are mutually consistent."""
import math

import envelope as E
from common import compare_gen, run_model, enc, unbits, same_float, rel_close, is_real_finite, tie_equal

ID = 'C03'
LEAN_MODULES = ['Dhlldv.Props.C03']
PROP_MODULES = ['Dhlldv.Props.C03']
TECHNIQUE = 'Lean 4 proof over the model regenerated from the source (regime models) and over executable Specs of the graded sum and the slurry tables + bit-exact correspondence'
PROVED = ['head = Erhg*Rsd*Cv + il and pressure = head*g*rhol for the homogeneous, heterogeneous, sliding-bed, fixed-bed (rhol*g != 0, Rsd*Cvs != 0), '
          'Wilson-stratified and Wilson-V50 models, argument lists written out; Wilson stratified also at full strength for ANY bed concentration handed in '
          '(C03_wilson_stratified_any_bed: pressure(Cvb) = head(Cvb)*g*rhol)',
          'graded sand (Spec tied by bit-exact correspondence): im = (rhox/rhol) * (sum f_i im_i)/(1-X), im_i = E(dx_i; pseudo-liquid, Cv_r)*Rsd_x*Cv_r + il_x, '
          'dx_i the geometric mean, Erhg = (im - il)/(Rsd Cv) hence im = Erhg*Rsd*Cv + il',
          'slurry tables: im[key][i] = Erhg[key][i]*Rsd*Cv + il[i], ELM[i] = il[i]*rhom (Spec)']
HYPOTHESES = []
MONITORED = ['floating-point deviation of the identities on the implementation (measured, tolerance 1e-9 relative)']
RULE = ('envelope tuples for each of the six model families x switch settings; slurry objects in E: every curve key x every index, pointwise methods '
        'at tabulated speeds, graded sum recomputed independently; non-trivial = distinct (model family, regime/branch) classes')
ASSUMPTIONS = ['identities hold exactly in R; on doubles they hold up to rounding, measured against 1e-9 by the monitor']

TOL = 1e-9


def graded_lines(gsd_items, cvt, sf, sq, vls, Dp, eps, nu, rhol, rhos, Cv):
    return ('spec.graded ' + ' '.join([enc(cvt), enc(sf), enc(sq)] + [enc(x) for x in (vls, Dp, eps, nu, rhol, rhos, Cv)]
                                       + [str(len(gsd_items))] + [enc(x) for fd in gsd_items for x in fd]))


def correspondence(ctx):
    from DHLLDV import homogeneous as Ho, heterogeneous as He, stratified as St, DHLLDV_framework as F
    from Wilson import Wilson_Stratified as WS, Wilson_V50 as WV
    n = ctx.n(600, 40000)
    pts = [E.point(ctx.rng) for _ in range(n)]
    sw = [ctx.rng.choice([(True, True), (True, False), (False, True), (False, False)]) for _ in pts]
    compare_gen(ctx, 'homogeneous.homogeneous_head_loss', Ho.homogeneous_head_loss, [(list(a), a, {}) for a in pts])
    compare_gen(ctx, 'homogeneous.homogeneous_pressure_loss', Ho.homogeneous_pressure_loss, [(list(a), a, {}) for a in pts])
    compare_gen(ctx, 'homogeneous.fluid_head_loss', Ho.fluid_head_loss, [([a[0], a[1], a[3], a[4], a[5]], (a[0], a[1], a[3], a[4], a[5]), {}) for a in pts])
    compare_gen(ctx, 'homogeneous.fluid_pressure_loss', Ho.fluid_pressure_loss, [([a[0], a[1], a[3], a[4], a[5]], (a[0], a[1], a[3], a[4], a[5]), {}) for a in pts])
    compare_gen(ctx, 'heterogeneous.heterogeneous_head_loss', He.heterogeneous_head_loss, [(list(a) + list(s), a + s, {}) for a, s in zip(pts, sw)])
    compare_gen(ctx, 'heterogeneous.heterogeneous_pressure_loss', He.heterogeneous_pressure_loss, [(list(a) + list(s), a + s, {}) for a, s in zip(pts, sw)])
    compare_gen(ctx, 'heterogeneous.Erhg', He.Erhg, [(list(a) + list(s), a + s, {}) for a, s in zip(pts, sw)])
    compare_gen(ctx, 'stratified.sliding_bed_head_loss', St.sliding_bed_head_loss, [(list(a) + [0.6], a, {}) for a in pts])
    compare_gen(ctx, 'stratified.sliding_bed_pressure_loss', St.sliding_bed_pressure_loss, [(list(a), a, {}) for a in pts])
    compare_gen(ctx, 'stratified.fb_pressure_loss', St.fb_pressure_loss, [(list(a), a, {}) for a in pts])
    compare_gen(ctx, 'stratified.fb_head_loss', St.fb_head_loss, [(list(a), a, {}) for a in pts])
    compare_gen(ctx, 'stratified.fb_Erhg', St.fb_Erhg, [(list(a), a, {}) for a in pts])
    wpts = []
    for a in pts:
        vls, Dp, d, eps, nu, rhol, rhos, Cv = a
        musf = ctx.rng.choice([0.31, 0.4, 0.415])
        d = min(d, 0.1 * Dp)
        wpts.append((max(vls, 0.5), Dp, d, eps, nu, rhol, rhos, musf, Cv))
    # the bed concentration is an argument of the Wilson stratified functions: the default and a looser / denser bed
    cvbs = [ctx.rng.choice([None, None, 0.55, 0.65]) for _ in wpts]
    wargs = [(list(a) + [0.6 if c is None else c], a if c is None else a + (c,), {}) for a, c in zip(wpts, cvbs)]
    compare_gen(ctx, 'wilson_stratified.stratified_head_loss', WS.stratified_head_loss, wargs)
    compare_gen(ctx, 'wilson_stratified.stratified_pressure_loss', WS.stratified_pressure_loss, wargs)
    compare_gen(ctx, 'wilson_stratified.Erhg', WS.Erhg, wargs)
    vpts = []
    for a in wpts:
        vls, Dp, d, eps, nu, rhol, rhos, musf, Cv = a
        d85 = min(d * E.loguniform(ctx.rng, 1.02, 6.0), 0.25 * Dp)
        vpts.append((vls, Dp, d, d85, eps, nu, rhol, rhos, Cv, musf))
    compare_gen(ctx, 'wilson_v50.heterogeneous_head_loss', WV.heterogeneous_head_loss, [(list(a), a, {}) for a in vpts])
    compare_gen(ctx, 'wilson_v50.heterogeneous_pressure_loss', WV.heterogeneous_pressure_loss, [(list(a), a, {}) for a in vpts])
    compare_gen(ctx, 'wilson_v50.Erhg', WV.Erhg, [(list(a[:8]) + [a[9]], a[:8] + (a[9],), {}) for a in vpts])
    ctx.sample({'op': 'stratified.fb_Erhg', 'args': list(pts[0])})
    # graded sand: Spec.erhgGraded vs Erhg_graded(get_dict=True), bit-exact
    lines, metas = [], []
    for _ in range(ctx.n(25, 600)):
        p = E.slurry_params(ctx.rng)
        s = E.make_slurry(p)
        items = sorted(s.GSD.items())
        # "the grading as is" is a dict the caller wrote: in ascending order, coarse-to-fine, or D50 first - the model gets the sorted points
        order = ctx.rng.choice(['ascending', 'descending', 'shuffled'])
        its = list(items) if order == 'ascending' else list(reversed(items)) if order == 'descending' else ctx.rng.sample(items, len(items))
        gsd = dict(its)
        p = dict(p, grading_written=order)
        for cvt in (False, True):
            for vls in [E.pick_vls(ctx.rng) for _ in range(3)]:
                sf, sq = ctx.rng.choice([(True, True), (True, False), (False, True), (False, False)])
                lines.append(graded_lines(items, cvt, sf, sq, vls, s.Dp, s.epsilon, s.nu, s.rhol, s.rhos, s.Cv))
                metas.append((p, gsd, cvt, sf, sq, vls, s))
    outs = run_model(lines)
    try:
        for (p, gsd, cvt, sf, sq, vls, s), o in zip(metas, outs):
            F.use_sf, F.use_sqrtcx = sf, sq
            ctx.count('corr_compared')
            try:
                r = F.Erhg_graded(gsd, vls, s.Dp, s.epsilon, s.nu, s.rhol, s.rhos, s.Cv, Cvt_eq_Cvs=cvt, num_fracs=None, get_dict=True)
            except Exception as e:   # noqa
                ctx.count('corr_impl_nonreal')
                continue
            vals = [unbits(x) for x in o.split(' ')]
            nfr = len(r['ims'])
            want = [r['im_x'], r['X'], r['rhox'], r['Cv_x'], r['Cv_r'], r['mu_x'], r['nu_x'], r['Rsd_x'], r['Erhg_x'], r['Erhg'], r['il']] \
                + list(r['ims']) + list(r['dxs']) + list(r['fracs'])
            if len(vals) != len(want) or not all(tie_equal(ctx, x, y) for x, y in zip(vals, want)):
                ctx.mismatch('Spec.erhgGraded differs from Erhg_graded', {'slurry': p, 'Cvt_eq_Cvs': cvt, 'vls': vls, 'switches': (sf, sq)},
                             vals[:11], want[:11])
    finally:
        F.use_sf, F.use_sqrtcx = True, True
    ctx.sample({'op': 'spec.graded', 'slurry': metas[0][0], 'vls': metas[0][5], 'Cvt_eq_Cvs': metas[0][2]})


def ident(ctx, fam, head, erhg, il, rsd, cv, pressure, rhol, inp):
    from DHLLDV.DHLLDV_constants import gravity
    ctx.count('evaluations')
    vals = (head, erhg, il, pressure)
    if not all(is_real_finite(x) for x in vals):
        ctx.violation(f'{fam}: non-finite value {vals}', inp, key='identity')
        return
    if not rel_close(head, erhg * rsd * cv + il, TOL):
        ctx.violation(f'{fam}: head {head!r} != Erhg*Rsd*Cv + il = {erhg * rsd * cv + il!r}', inp, key='identity')
    if pressure is not None and not rel_close(pressure, head * gravity * rhol, TOL):
        ctx.violation(f'{fam}: pressure {pressure!r} != head*g*rhol = {head * gravity * rhol!r}', inp, key='identity')


def graded_oracle(F, Ho, gsd, vls, Dp, eps, nu, rhol, rhos, Cv, cvt):
    """independent recomputation of the graded-sand gradient from the public uniform-sand functions (Eqns 8.15-x)"""
    fr = sorted(gsd.keys())
    X = fr[0]
    Rsd = (rhos - rhol) / rhol
    rhox = rhol + rhol * (X * Cv * Rsd) / (1 - Cv + Cv * X)
    Cv_x = X * Cv / (1 - Cv + Cv * X)
    Cv_r = (1 - X) * Cv
    mu_x = nu * rhol * (1 + 2.5 * Cv_x + 10.05 * Cv_x ** 2 + 0.00273 * math.exp(16.6 * Cv_x))
    nu_x = mu_x / rhox
    Rsd_x = (rhos - rhox) / rhox
    tot = 0.0
    for f0, f1 in zip(fr, fr[1:]):
        dx = math.sqrt(gsd[f0] * gsd[f1])
        e = (F.Cvt_Erhg if cvt else F.Cvs_Erhg)(vls, Dp, dx, eps, nu_x, rhox, rhos, Cv_r)
        il_x = Ho.fluid_head_loss(vls, Dp, eps, nu_x, rhox)
        tot += (f1 - f0) * (e * Rsd_x * Cv_r + il_x)
    im = rhox / rhol * tot / (1 - X)
    return im


def monitor(ctx, extended=False):
    from DHLLDV import homogeneous as Ho, heterogeneous as He, stratified as St, DHLLDV_framework as F
    from Wilson import Wilson_Stratified as WS, Wilson_V50 as WV
    classes = set()
    n = ctx.n(1500, 100000) * (3 if extended else 1)
    for _ in range(n):
        a = E.point(ctx.rng)
        vls, Dp, d, eps, nu, rhol, rhos, Cv = a
        rsd = (rhos - rhol) / rhol
        il = Ho.fluid_head_loss(vls, Dp, eps, nu, rhol)
        sf, sq = ctx.rng.choice([(True, True), (True, False), (False, True), (False, False)])
        inp = {'args': list(a), 'switches': (sf, sq)}
        try:
            ident(ctx, 'homogeneous', Ho.homogeneous_head_loss(*a), Ho.Erhg(*a), il, rsd, Cv, Ho.homogeneous_pressure_loss(*a), rhol, inp)
            ident(ctx, 'heterogeneous', He.heterogeneous_head_loss(*a, sf, sq), He.Erhg(*a, sf, sq), il, rsd, Cv,
                  He.heterogeneous_pressure_loss(*a, sf, sq), rhol, inp)
            ident(ctx, 'sliding bed', St.sliding_bed_head_loss(*a), St.Erhg(*a), il, rsd, Cv, St.sliding_bed_pressure_loss(*a), rhol, inp)
            ident(ctx, 'fixed bed', St.fb_head_loss(*a), St.fb_Erhg(*a), il, rsd, Cv, St.fb_pressure_loss(*a), rhol, inp)
            musf = ctx.rng.choice([0.31, 0.4, 0.415])
            dw = min(d, 0.1 * Dp)
            vw = max(vls, 0.5)
            ilw = Ho.fluid_head_loss(vw, Dp, eps, nu, rhol)
            w = (vw, Dp, dw, eps, nu, rhol, rhos, musf, Cv) + ctx.rng.choice([(), (), (0.55,), (0.65,)])   # the bed concentration is an argument too
            ident(ctx, 'Wilson stratified', WS.stratified_head_loss(*w), WS.Erhg(*w), ilw, rsd, Cv, WS.stratified_pressure_loss(*w), rhol, {'args': list(w)})
            d85 = min(dw * E.loguniform(ctx.rng, 1.02, 6.0), 0.25 * Dp)
            v = (vw, Dp, dw, d85, eps, nu, rhol, rhos, Cv, musf)
            ident(ctx, 'Wilson V50', WV.heterogeneous_head_loss(*v), WV.Erhg(*v[:8], musf), ilw, rsd, Cv, WV.heterogeneous_pressure_loss(*v), rhol, {'args': list(v)})
            classes.add(('f<1' if d < 0.015 * Dp else 'f>=1', sf, sq))
            # the framework as a whole, delivered-concentration form: the mixture gradient a regime entry stands for (entry x Rsd x Cvt + il) is the
            # one the spatial form gives at the concentration derived from Cvt (entry x Rsd x Cvs + il) - the same slurry described two ways
            if ctx.rng.random() < 0.3:
                dt = F.Cvt_Erhg(*a, get_dict=True)
                cvs = F.Cvs_from_Cvt(*a)
                if isinstance(cvs, float) and 0 < cvs < 0.58:
                    ds = F.Cvs_Erhg(*a[:7], cvs, get_dict=True)
                    for r_ in ('FB', 'SB', 'He', 'Ho'):
                        ctx.count('evaluations')
                        m_t, m_s = dt[r_] * rsd * Cv + il, ds[r_] * rsd * cvs + il
                        if not rel_close(m_t, m_s, 1e-9):
                            ctx.violation(f'framework, regime {r_}: mixture gradient from the delivered-concentration result {m_t!r} differs from the one at the derived spatial concentration {m_s!r}',
                                          inp, key='framework-cvt')
                            break
        except Exception as e:   # noqa
            ctx.violation(f'raised {type(e).__name__}: {e}', inp, key='identity')
    # slurry objects: tables and pointwise methods, graded sum
    for it in range(ctx.n(8, 300) * (2 if extended else 1)):
        p = E.slurry_params(ctx.rng)
        lean = it % 3 == 0
        if lean:
            # lean slurry of coarse grains in a large pipe: some fractions sit in the fixed-bed regime at 2-4 m/s, where the
            # delivered-concentration selector differs from the spatial one
            p.update(Dp=ctx.rng.uniform(0.75, 1.2), Cv=ctx.rng.uniform(0.02, 0.06), D50=ctx.rng.uniform(1.0e-3, 4.0e-3), r15=ctx.rng.uniform(1.5, 3.0),
                     r85=ctx.rng.uniform(1.5, 3.0), rhos=ctx.rng.choice([2.65, 3.2, 4.0]))
        try:
            if ctx.rng.random() < 0.5:
                s = E.make_slurry(p, max_index=ctx.rng.choice([100, 100, 37]))
            else:
                # the same object reached through an edit history with reads in between (still a slurry object in E)
                p0 = dict(p, Cv=E.pick_Cv(ctx.rng), r15=2.0, r85=2.72)
                s = E.make_slurry(p0, max_index=ctx.rng.choice([100, 37]))
                _ = s.im_curves
                p = dict(p, history=E.edit_to(s, p, ctx.rng))
            ec, ic = s.Erhg_curves, s.im_curves
            il_list = ic['il']
            pairs = {'Cvs_im': 'Cvs_Erhg', 'FB': 'FB', 'SB': 'SB', 'He': 'He', 'Ho': 'Ho', 'Cvt_im': 'Cvt_Erhg',
                     'graded_Cvs_im': 'graded_Cvs_Erhg', 'graded_Cvt_im': 'graded_Cvt_Erhg'}
            if set(ic.keys()) != set(pairs) | {'il', 'ELM'}:
                ctx.violation(f'unexpected curve keys {sorted(ic.keys())}', {'slurry': p}, key='tables')
            for i, vls in enumerate(s.vls_list):
                ilv = Ho.fluid_head_loss(vls, s.Dp, s.epsilon, s.nu, s.rhol)
                if not (same_float(il_list[i], ilv) and same_float(ec['il'][i], ilv) and rel_close(s.il(vls), il_list[i], TOL)):
                    ctx.violation(f'il table entry {i} differs from the liquid gradient', {'slurry': p, 'index': i}, key='tables')
                for ik, ek in pairs.items():
                    ctx.count('evaluations')
                    if not rel_close(ic[ik][i], ec[ek][i] * s.Rsd * s.Cv + il_list[i], TOL):
                        ctx.violation(f'im_curves[{ik}][{i}] != Erhg_curves[{ek}][{i}]*Rsd*Cv + il', {'slurry': p, 'index': i, 'key': ik}, key='tables')
                if not rel_close(ic['ELM'][i], il_list[i] * s.rhom, TOL):
                    ctx.violation(f'ELM[{i}] != il*rhom', {'slurry': p, 'index': i}, key='tables')
            idx = set(ctx.rng.sample(range(len(s.vls_list)), min(12, len(s.vls_list))))
            if lean:
                idx |= {i for i, v in enumerate(s.vls_list) if 2.0 <= v <= 4.0 and i % 2 == 0}
            for i in sorted(idx):
                vls = s.vls_list[i]
                ctx.count('evaluations')
                if not rel_close(s.Erhg(vls), ec['graded_Cvt_Erhg'][i], TOL) or not rel_close(s.im(vls), ic['graded_Cvt_im'][i], TOL):
                    ctx.violation(f'pointwise Erhg/im at tabulated speed {vls} differs from the table', {'slurry': p, 'index': i}, key='tables')
                for cvt, key in ((False, 'graded_Cvs_im'), (True, 'graded_Cvt_im')):
                    want = graded_oracle(F, Ho, s.GSD, vls, s.Dp, s.epsilon, s.nu, s.rhol, s.rhos, s.Cv, cvt)
                    if not rel_close(ic[key][i], want, 1e-8):
                        ctx.violation(f'{key}[{i}]={ic[key][i]!r} differs from the fraction-weighted sum {want!r}', {'slurry': p, 'index': i}, key='graded-sum')
                    if i == min(idx):
                        # the function itself on a grading "used as is" that the caller wrote coarse-to-fine / in no particular order
                        its = sorted(s.GSD.items())
                        for order, g in (('descending', dict(reversed(its))), ('shuffled', dict(ctx.rng.sample(its, len(its))))):
                            ctx.count('evaluations')
                            e_ = F.Erhg_graded(g, vls, s.Dp, s.epsilon, s.nu, s.rhol, s.rhos, s.Cv, Cvt_eq_Cvs=cvt, num_fracs=None)
                            got = e_ * s.Rsd * s.Cv + il_list[i]
                            if not rel_close(got, want, 1e-8):
                                ctx.violation(f'Erhg_graded on the grading as is, written {order}: gradient {got!r} differs from the fraction-weighted sum {want!r}',
                                              {'slurry': p, 'index': i, 'Cvt_eq_Cvs': cvt, 'grading_written': order, 'grading': list(g.items())}, key='graded-sum')
            classes.add(('slurry', p['fluid'], p['D50'] > 0.015 * p['Dp']))
        except Exception as e:   # noqa
            ctx.violation(f'slurry object raised {type(e).__name__}: {e}', {'slurry': p}, key='tables')
    # slurry objects that are copies of each other (the per-diameter slurries of a pipeline): the tables of A, then of B, then of A again - each object's
    # pointwise methods must agree with ITS OWN tables at every look
    from DHLLDV.PipeObj import Pipe, Pipeline
    for _ in range(ctx.n(3, 60)):
        p = E.slurry_params(ctx.rng)
        try:
            base = E.make_slurry(p, max_index=ctx.rng.choice([20, 37]))
            nu_, rhol_ = E.fluids()[p['fluid']]
            dias = [d for d in (0.4, 0.5, 0.6, 0.762, 0.9) if p['D50'] >= 1.001 * E.dlim(d, nu_, rhol_, p['rhos']) and p['D50'] * p['r85'] <= 0.5 * d]
            if len(dias) < 2:
                continue
            d1, d2 = ctx.rng.sample(dias, 2)
            pl = Pipeline(pipe_list=[Pipe('a', d1, 0.0, 0.5, -4.0), Pipe('b', d1, 300.0, 0.5, 1.0), Pipe('c', d2, 500.0, 1.0, 2.0)], slurry=base)
            for look, obj in enumerate([pl.slurries[d1], pl.slurries[d2], pl.slurries[d1], pl.slurry, pl.slurries[d2]]):
                ic, ec = obj.im_curves, obj.Erhg_curves
                for i in ctx.rng.sample(range(len(obj.vls_list)), 6):
                    v = obj.vls_list[i]
                    ctx.count('evaluations')
                    ilv = Ho.fluid_head_loss(v, obj.Dp, obj.epsilon, obj.nu, obj.rhol)
                    if not (rel_close(ic['il'][i], ilv, TOL) and rel_close(obj.il(v), ic['il'][i], TOL) and rel_close(obj.Erhg(v), ec['graded_Cvt_Erhg'][i], TOL)
                            and rel_close(obj.im(v), ic['graded_Cvt_im'][i], TOL)):
                        ctx.violation(f'look {look} (diameter {obj.Dp}): pointwise il/Erhg/im at tabulated speed {v} differ from the object\'s own tables',
                                      {'slurry': p, 'diameters': [d1, d2], 'looks': 'slurries[d1], slurries[d2], slurries[d1], pipeline slurry, slurries[d2]', 'index': i}, key='tables-copies')
                        break
            classes.add(('copies', p['fluid']))
        except Exception as e:   # noqa
            ctx.violation(f'pipeline copies raised {type(e).__name__}: {e}', {'slurry': p}, key='tables-copies')
    ctx.stats['distinct_nontrivial'] = len(classes)
