"""C13 — stationary-deposit limit is the true fixed-bed / sliding-bed crossing."""
import envelope as E
from common import compare_gen, is_real_finite, time_limit, CallTimeout

ID = 'C13'
LEAN_MODULES = ['Dhlldv.Props.C13']
PROP_MODULES = ['Dhlldv.Props.C13']
PROVED = ['the generated Newton loop returns either a speed meeting the stopping test |FB - musf| < e (default e = musf/1000, i.e. 0.1 %) or the iterate '
          'reached when the step budget ran out (induction over the budget, all reals)',
          'a strictly increasing fixed-bed excess gradient has at most one crossing with musf']
HYPOTHESES = ['fixed-bed excess gradient strictly increasing in line speed (sampled on the real code every run)']
MONITORED = ['positivity of the result; 1 % accuracy after a 20-step fall-through on E (Cvs 0.02-0.45); for denser beds (Cvs > 0.45) the 20 Newton steps can end up to 30 % off the crossing: listed finding']
RULE = ('E (Cvs 0.02-0.45) incl. 0.1 m pipes with light solids, dilute (Cvs 0.02-0.05) and light (Rsd < 1.2) slurries; history probes repeating the query with only '
        'rhol / nu changed; non-trivial = distinct (early return | fall-through, Rsd*Cvs < 0.1 or not) classes')
ASSUMPTIONS = ['generated vls_FBSB and fb_Erhg equal the implementation bit-for-bit (correspondence incl. step budgets 0..20)']


def pt(rng):
    vls, Dp, d, eps, nu, rhol, rhos, Cvs = E.point(rng, cv_hi=0.45)
    r = rng.random()
    if r < 0.2:
        Cvs = rng.uniform(0.02, 0.05)
    if 0.2 <= r < 0.35:
        rhos = rng.uniform(2.0, 2.3)
    return (Dp, d, eps, nu, rhol, rhos, Cvs)


def correspondence(ctx):
    from DHLLDV import stratified as St
    n = ctx.n(600, 40000)
    cases = []
    for _ in range(n):
        a = pt(ctx.rng)
        ms = 20 if ctx.rng.random() < 0.7 else ctx.rng.choice([0, 1, 2, 5])
        cases.append((list(a) + [ms, 0.415 / 1000], a, {'max_steps': ms}))
    compare_gen(ctx, 'stratified.vls_FBSB', St.vls_FBSB, cases)
    ctx.sample({'op': 'stratified.vls_FBSB', 'args': cases[0][0]})


def check_point(ctx, St, a, classes, hist=None):
    Dp, d, eps, nu, rhol, rhos, Cvs = a
    inp = {'args': list(a)}
    if hist:
        inp['history'] = hist
    ctx.count('evaluations')
    try:
        with time_limit(20):
            v = St.vls_FBSB(*a)
            v2 = St.vls_lsdv(*a)
        if not (is_real_finite(v) and v > 0):
            ctx.violation(f'limit of stationary deposit {v!r} not finite and positive', inp, key='positive')
            return
        if v2 != v:
            ctx.violation(f'vls_lsdv {v2!r} differs from vls_FBSB {v!r} for the same arguments', inp, key='crossing')
        fb = St.fb_Erhg(v, *a)
        res = abs(fb - St.musf) / St.musf
        if not res < 0.01:
            ctx.violation(f'fixed-bed Erhg at the returned speed {v!r} is {fb!r}: {res:.2%} off musf', inp, key='crossing-missed-dense-bed' if Cvs > 0.45 else 'crossing')
        classes.add((res < 1e-3, (rhos - rhol) / rhol * Cvs < 0.1))
        # monotonicity around and away from the crossing
        for f1, f2 in ((1.0, 1 + 1e-6), (1.0, 1.001), (0.5, 0.55), (1.0, 1.3), (ctx.rng.uniform(0.2, 3), None)):
            x1 = v * f1
            x2 = v * f2 if f2 else x1 * ctx.rng.choice([1 + 1e-5, 1.0001, 1.01])
            if St.fb_Erhg(x2, *a) <= St.fb_Erhg(x1, *a):
                ctx.violation(f'fixed-bed Erhg does not increase from vls={x1!r} to {x2!r}', inp, key='fb-increasing')
    except Exception as e:   # noqa
        ctx.violation(f'raised {type(e).__name__}: {e}', inp, key='raised')


def monitor(ctx, extended=False):
    from DHLLDV import stratified as St
    n = ctx.n(1200, 80000) * (3 if extended else 1)
    classes = set()
    for i in range(n):
        a = pt(ctx.rng)
        check_point(ctx, St, a, classes)
        if i % 8 == 0:
            # the same query with only the carrier density, then only the viscosity, changed
            Dp, d, eps, nu, rhol, rhos, Cvs = a
            b = (Dp, d, eps, nu, min(1.03, max(0.99, rhol + ctx.rng.choice([-0.01, 0.01, 0.02]))), rhos, Cvs)
            check_point(ctx, St, b, classes, hist=[list(a)])
            c = (Dp, d, eps, ctx.rng.choice([0.8e-6, 1.1e-6, 1.4e-6]), b[4], rhos, Cvs)
            check_point(ctx, St, c, classes, hist=[list(a), list(b)])
    # call forms: the two optional arguments given by position (a documented form) must mean what their names say
    for _ in range(ctx.n(40, 2000)):
        a = pt(ctx.rng)
        ctx.count('evaluations')
        try:
            with time_limit(30):
                v0 = St.vls_FBSB(*a)
                v1 = St.vls_FBSB(*a, 20)
                v2 = St.vls_lsdv(*a, 20, 0.415 / 1000)
                v3 = St.vls_FBSB(*a, max_steps=20, e=0.415 / 1000)
            if not (v0 == v1 == v2 == v3):
                ctx.violation(f'vls_FBSB(*a) = {v0!r}, vls_FBSB(*a, 20) = {v1!r}, vls_lsdv(*a, 20, 0.415/1000) = {v2!r}, keyword form {v3!r}: the defaults given explicitly change the result',
                              {'args': list(a)}, key='call-form')
        except Exception as e:   # noqa
            ctx.violation(f'a positional / keyword call form raised {type(e).__name__}: {e}', {'args': list(a)}, key='call-form')
    # far-apart consecutive queries (a thick bed in a small loop, then a lean slurry in a large line, and back): each answer depends on its own arguments only
    for _ in range(ctx.n(30, 1500)):
        small = (ctx.rng.uniform(0.1, 0.15), ctx.rng.uniform(2e-4, 1e-3), E.EPS, 1.0e-6, 1.0, 2.65, ctx.rng.uniform(0.35, 0.45))
        large = (ctx.rng.uniform(1.0, 1.2), ctx.rng.uniform(2e-4, 2e-3), E.EPS, 1.0e-6, 1.0, ctx.rng.uniform(2.65, 3.5), ctx.rng.uniform(0.01, 0.03))
        if ctx.rng.random() < 0.5:
            # wider than E (the property names no envelope for this clause): light solids in a laboratory loop, then a worn dredge line with a thin bed
            small = (ctx.rng.choice([0.1016, 0.1524]), ctx.rng.choice([2e-4, 5e-4, 1e-3, 2e-3]), ctx.rng.choice([4.5e-5, 2e-4]), 1.0e-6, 1.0, ctx.rng.choice([1.5, 2.65]), ctx.rng.uniform(0.40, 0.45))
            large = (ctx.rng.choice([0.6, 0.762, 0.9, 1.0, 1.2]), ctx.rng.choice([1e-4, 2e-4]), ctx.rng.choice([2e-4, 5e-4]), 1.0e-6, 1.0, ctx.rng.choice([2.65, 4.5]), 0.01)
        seq = [small, large, small] if ctx.rng.random() < 0.5 else [large, small, large]
        hist = []
        for a in seq:
            check_point(ctx, St, a, set(), hist=list(hist) or None)
            hist.append(list(a))
    # a fine concentration sweep (the viewer's mixture-density box hands over arbitrary floats): consecutive queries that differ only in the fourth decimal of
    # the concentration, lean and dense - each answer is the crossing for ITS concentration
    for _ in range(ctx.n(60, 3000)):
        Dp, d, eps, nu, rhol, rhos, _ = pt(ctx.rng)
        c0 = round(ctx.rng.uniform(0.02, 0.035) if ctx.rng.random() < 0.5 else ctx.rng.uniform(0.3, 0.449), 3)
        cs = [c0 + 0.0004, c0 - 0.0004, c0 + 0.00045] if ctx.rng.random() < 0.5 else [c0 - 0.0004, c0 + 0.0004, c0 - 0.00045]
        hist = []
        for c_ in cs:
            a = (Dp, d, eps, nu, rhol, rhos, c_)
            check_point(ctx, St, a, set(), hist=list(hist) or None)
            hist.append(list(a))
    # beds that nearly fill the pipe (outside E): the stated clauses are evaluated there too; a missed crossing there is the listed finding
    for _ in range(ctx.n(150, 8000)):
        Dp, d, eps, nu, rhol, rhos, _ = pt(ctx.rng)
        check_point(ctx, St, (Dp, d, eps, nu, rhol, rhos, ctx.rng.uniform(0.4501, 0.59)), set())
    ctx.stats['distinct_nontrivial'] = len(classes)


KNOWN_WITNESS = [0.13108338980956233, 0.012128194587209764, 4.5e-05, 1.0068122620717291e-06, 0.9982, 2.65, 0.5195790771747857]


def replay_known(kf):
    """witness of the listed finding `crossing-missed-dense-bed`: True if it still reproduces"""
    if kf['key'] != 'crossing-missed-dense-bed':
        return False
    from DHLLDV import stratified as St
    a = kf.get('witness', {}).get('args') or KNOWN_WITNESS
    v = St.vls_FBSB(*a)
    return not abs(St.fb_Erhg(v, *a) - St.musf) / St.musf < 0.01
