"""C01 — reported regime and gradient follow the DHLLDV selection law."""
import itertools

import envelope as E
from common import rel_close, compare_gen, run_model, enc, unbits, bits, same_float

ID = 'C01'
LEAN_MODULES = ['Dhlldv.Props.C01']
PROP_MODULES = ['Dhlldv.Props.C01']
PROVED = ['value = max(min(FB,SB,He),Ho) of the four standalone models with identical argument lists (all reals, both switches)',
          'each of il/FB/SB/He/Ho in the detailed result equals the standalone call',
          'regime code in {FB,SB,He,Ho}, dict[code] = value, long name = name(code)',
          'order-only Spec of the selection = max/min law over every linear order; all 256 {0..3}^4 assignments (75 weak orderings) by decide']
HYPOTHESES = []
MONITORED = []
RULE = ('envelope points (generators of harness/envelope.py: thresholds d/Dp=0.015, tabulated speeds, box corners) x 4 switch settings; '
        'plus all 75 weak orderings of the four regime values x 4 switch settings with the regime models replaced by constants; '
        'non-trivial = distinct (regime selected, switch setting) classes and distinct orderings')
ASSUMPTIONS = ['selection/comparison of finite doubles does not round, so the order-only theorems transfer exactly to IEEE doubles']


def _switch(F, sf, sq):
    def f():
        F.use_sf, F.use_sqrtcx = sf, sq
    return f


def weak_orderings():
    seen = {}
    for t in itertools.product(range(4), repeat=4):
        # canonical form: dense ranks
        ranks = sorted(set(t))
        c = tuple(ranks.index(x) for x in t)
        seen[c] = True
    return sorted(seen)


def correspondence(ctx):
    from DHLLDV import DHLLDV_framework as F
    n = ctx.n(1500, 100000)
    cases_d, cases_v, cases_r = [], [], []
    for i in range(n):
        a = E.point(ctx.rng)
        sf, sq = ctx.rng.choice([(True, True), (True, False), (False, True), (False, False)])
        la = {'args': list(a), 'switches': (sf, sq)}
        cases_d.append((la, a, {'get_dict': True}, _switch(F, sf, sq)))
        cases_v.append((la, a, {}, _switch(F, sf, sq)))
        cases_r.append((la, a, {}, _switch(F, sf, sq)))
    try:
        compare_gen(ctx, 'framework.Cvs_Erhg_dict', F.Cvs_Erhg, cases_d)
        compare_gen(ctx, 'framework.Cvs_Erhg', F.Cvs_Erhg, cases_v)
        compare_gen(ctx, 'framework.Cvs_regime', F.Cvs_regime, cases_r)
    finally:
        F.use_sf, F.use_sqrtcx = True, True
    ctx.sample({'op': 'framework.Cvs_Erhg_dict', 'args': list(cases_d[0][1]), 'switches': cases_d[0][0]['switches']})
    # Spec of the selection vs the real selector on all 75 weak orderings (regime models replaced by constants)
    orderings = weak_orderings()
    assert len(orderings) == 75
    lines = ['spec.select ' + ' '.join(enc(float(x)) for x in o) for o in orderings]
    outs = run_model(lines)
    from DHLLDV import stratified, heterogeneous, homogeneous
    saved = (stratified.fb_Erhg, stratified.Erhg, heterogeneous.Erhg, homogeneous.Erhg)
    try:
        for o, out in zip(orderings, outs):
            code, val = out.split(' ')
            stratified.fb_Erhg = lambda *a, _v=float(o[0]): _v
            stratified.Erhg = lambda *a, _v=float(o[1]): _v
            heterogeneous.Erhg = lambda *a, _v=float(o[2]): _v
            homogeneous.Erhg = lambda *a, _v=float(o[3]): _v
            for sf, sq in [(True, True), (True, False), (False, True), (False, False)]:
                F.use_sf, F.use_sqrtcx = sf, sq
                d = F.Cvs_Erhg(3.0, 0.5, 1e-3, 4.5e-5, 1e-6, 1.0, 2.65, 0.2, get_dict=True)
                v = F.Cvs_Erhg(3.0, 0.5, 1e-3, 4.5e-5, 1e-6, 1.0, 2.65, 0.2)
                ctx.count('corr_compared')
                ctx.count('orderings_checked')
                if d['regime'] != code[2:] or not same_float(v, unbits(val)):
                    ctx.mismatch('Spec.select differs from the implementation on a weak ordering', {'ordering': o, 'switches': (sf, sq)},
                                 out, (d['regime'], v))
    finally:
        stratified.fb_Erhg, stratified.Erhg, heterogeneous.Erhg, homogeneous.Erhg = saved
        F.use_sf, F.use_sqrtcx = True, True


NAMES = {'FB': 'fixed bed', 'SB': 'sliding bed', 'He': 'heterogeneous', 'Ho': 'homogeneous'}


def oracle(F, a, sf, sq):
    """returns a string describing the violation, or None"""
    from DHLLDV import stratified, heterogeneous, homogeneous
    F.use_sf, F.use_sqrtcx = sf, sq
    d = F.Cvs_Erhg(*a, get_dict=True)
    v = F.Cvs_Erhg(*a)
    name = F.Cvs_regime(*a)
    vls, Dp, dd, eps, nu, rhol, rhos, Cvs = a
    fb = stratified.fb_Erhg(*a)
    sb = stratified.Erhg(*a)
    he = heterogeneous.Erhg(*a, sf, sq)
    ho = homogeneous.Erhg(*a)
    il = homogeneous.fluid_head_loss(vls, Dp, eps, nu, rhol)
    want = max(min(fb, sb, he), ho)
    if v != want:
        return f'value {v!r} != max(min(FB,SB,He),Ho) = {want!r}'
    r = d.get('regime')
    if r not in NAMES:
        return f'regime code {r!r}'
    if d[r] != v or {'FB': fb, 'SB': sb, 'He': he, 'Ho': ho}[r] != v:
        return f'reported regime {r} does not attain the reported value'
    if name != NAMES[r]:
        return f'long name {name!r} for code {r}'
    for k, x in (('FB', fb), ('SB', sb), ('He', he), ('Ho', ho), ('il', il)):
        if d[k] != x:
            return f'detailed result {k}={d[k]!r} differs from the standalone model {x!r}'
    return r


def _object_reports(ctx, F, so, pp, hist_):
    """every third tabulated point of the object's Erhg curves against the framework and the standalone models at the object's own parameters"""
    from DHLLDV import homogeneous as Ho_, heterogeneous as He_, stratified as St_
    base = (so.Dp, so.D50, so.epsilon, so.nu, so.rhol, so.rhos)
    ec = so.Erhg_curves
    for i_, v_ in list(enumerate(so.vls_list))[::3]:
        ctx.count('evaluations')
        a_ = (v_, base[0], base[1], base[2], base[3], base[4], base[5], so.Cv)
        want = F.Cvs_Erhg(*a_, get_dict=True)
        got = {'Cvs_Erhg': ec['Cvs_Erhg'][i_], 'FB': ec['FB'][i_], 'SB': ec['SB'][i_], 'He': ec['He'][i_], 'Ho': ec['Ho'][i_]}
        exp = {'Cvs_Erhg': want[want['regime']], 'FB': St_.fb_Erhg(*a_), 'SB': St_.Erhg(*a_), 'He': He_.Erhg(*a_, F.use_sf, F.use_sqrtcx), 'Ho': Ho_.Erhg(*a_)}
        bad = [k for k in got if not rel_close(got[k], exp[k], 1e-12)]
        if bad or ec['Cvs_regime'][i_] not in (want['regime'], F.Cvs_regime(*a_)):
            ctx.violation(f'slurry object reports {got} / {ec["Cvs_regime"][i_]!r} at {v_} m/s; the framework and the standalone models give {exp} / {want["regime"]!r} for the same slurry',
                          {'slurry': pp, 'history': hist_, 'vls': v_, 'object': {'Dp': so.Dp, 'D50': so.D50, 'Cv': so.Cv, 'rhos': so.rhos}}, key='selection-law')
            return False
    return True


def monitor(ctx, extended=False):
    from DHLLDV import DHLLDV_framework as F
    n = ctx.n(3000, 200000) * (4 if extended else 1)
    classes = set()
    try:
        for i in range(n // 2):
            a = E.point(ctx.rng)
            prior = None
            if ctx.rng.random() < 0.25:
                # history: the delivered-concentration model of the same slurry is evaluated first, then the spatial-concentration result is
                # asked at exactly the concentration it derived (a caller comparing the two models does this)
                try:
                    F.Cvt_Erhg(*a, get_dict=True)
                    cvs = F.Cvs_from_Cvt(*a)
                    if isinstance(cvs, float) and 0.02 <= cvs <= 0.45:
                        prior = list(a)
                        a = tuple(a[:7]) + (cvs,)
                except Exception:   # noqa
                    pass
            # the same slurry under a sequence of switch settings ("under the current setting of the switches")
            settings = [(True, True), (True, False), (False, True), (False, False)]
            ctx.rng.shuffle(settings)
            hist = []
            for sf, sq in settings[:ctx.rng.choice([1, 2, 4])]:
                hist.append((sf, sq))
                ctx.count('evaluations')
                try:
                    r = oracle(F, a, sf, sq)
                except Exception as e:   # noqa
                    r = f'raised {type(e).__name__}: {e}'
                if r in NAMES:
                    classes.add((r, sf, sq))
                else:
                    ctx.violation(r, {'args': list(a), 'use_sf': sf, 'use_sqrtcx': sq, 'switch_history': list(hist), 'prior_Cvt_Erhg_call': prior},
                                  key='selection-law')
    finally:
        F.use_sf, F.use_sqrtcx = True, True
    # what a slurry object ('fresh' / 'salt' carrier) REPORTS for a uniform sand at constant spatial concentration is the same quantity: every tabulated point
    # (line speed, the object's D50, its Cv) and every point of its two limit-deposit-velocity curves (their own grain size D50 / D85, their own concentration)
    # equals the framework's value at that point, its regime is the framework's regime, and its per-regime values are the standalone models' - also after an
    # edit of the pipe diameter or the grading
    from DHLLDV import homogeneous as Ho_, heterogeneous as He_, stratified as St_
    for k_ in range(ctx.n(4, 100)):
        pp = E.slurry_params(ctx.rng)
        try:
            so = E.make_slurry(pp, max_index=8)
            hist_ = ['built']
            if k_ % 2 == 1:
                _ = so.Erhg_curves
                nu_, rhol_ = E.fluids()[pp['fluid']]
                newDp = ctx.rng.choice([d_ for d_ in (0.3, 0.5, 0.762, 0.9) if d_ != pp['Dp'] and pp['D50'] > max(E.dlim(d_, nu_, rhol_, pp['rhos']), 5e-5) * 1.001
                                        and pp['D50'] * pp['r85'] <= 0.5 * d_ and pp['D50'] <= 0.25 * d_] or [pp['Dp']])
                so.Dp = newDp
                hist_ += ['curves read', f'Dp={newDp}']
            if not _object_reports(ctx, F, so, pp, hist_):
                continue
            # a near twin: a second object (or the same one after an edit) whose parameters agree with the first to the digits a display shows but are not
            # equal reports ITS OWN values; and a shallow copy (how the pipeline makes its per-diameter slurries) that is edited and read leaves the original's report alone
            import copy as _copy
            kind = k_ % 4
            if kind in (0, 1):
                pp2 = dict(pp)
                which = ctx.rng.choice(['Cv', 'D50', 'Dp'])
                pp2[which] = pp[which] * (1 + ctx.rng.choice([1e-4, -1e-4, 3e-5]))
                so2 = E.make_slurry(pp2, max_index=8)
                if not _object_reports(ctx, F, so2, pp2, hist_ + [f'second object with {which}={pp2[which]!r} built and read']):
                    continue
                so.Cv = so.Cv * (1 + 2e-4)
                if not _object_reports(ctx, F, so, pp, hist_ + [f'Cv={so.Cv!r}']):
                    continue
            else:
                twin = _copy.copy(so)
                newCv = min(0.45, max(0.02, so.Cv * ctx.rng.choice([0.5, 1.5])))
                twin.Cv = newCv
                h2 = hist_ + ['copy.copy taken', f'copy.Cv={newCv!r}']
                if not _object_reports(ctx, F, twin, pp, h2 + ['copy read']):
                    continue
                if not _object_reports(ctx, F, so, pp, h2 + ['copy read', 'original read again']):
                    continue
            nu_, rhol_ = so.nu, so.rhol
            for cname, frac in (('LDV_curves', 0.5), ('LDV85_curves', 0.85)):
                d_ = so.get_dx(frac)
                cur = getattr(so, cname)
                if not (5e-5 <= d_ <= 0.25 * so.Dp):
                    continue
                for cv_, v_, e_ in list(zip(cur['Cv'], cur['vls'], cur['Erhg']))[2:45:6]:
                    if not (0.02 <= cv_ <= 0.45 and 0.1 <= v_ <= 10):
                        continue
                    ctx.count('evaluations')
                    want = F.Cvs_Erhg(v_, so.Dp, d_, so.epsilon, so.nu, so.rhol, so.rhos, cv_)
                    if not rel_close(e_, want, 1e-12):
                        ctx.violation(f'slurry object {cname}: reported Erhg {e_!r} at ({v_} m/s, Cvs={cv_}) for its {d_ * 1000:.4f} mm grain; the framework gives {want!r} for that uniform sand',
                                      {'slurry': pp, 'history': hist_, 'curve': cname, 'Cvs': cv_}, key='selection-law')
                        break
        except Exception as e:   # noqa
            ctx.violation(f'slurry object stratum raised {type(e).__name__}: {e}', {'slurry': pp}, key='selection-law')
    ctx.stats['distinct_nontrivial'] = len(classes) + ctx.stats.get('orderings_checked', 0) // 4
    ctx.stats['regime_classes'] = sorted(map(str, classes))


def replay(v):
    from DHLLDV import DHLLDV_framework as F
    i = v['input']
    try:
        r = None
        if i.get('prior_Cvt_Erhg_call'):
            F.Cvt_Erhg(*i['prior_Cvt_Erhg_call'], get_dict=True)
        for sf, sq in i.get('switch_history') or [(i['use_sf'], i['use_sqrtcx'])]:
            r = oracle(F, tuple(i['args']), sf, sq)
    finally:
        F.use_sf, F.use_sqrtcx = True, True
    return None if r in NAMES else r
