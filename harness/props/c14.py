"""C14 — the pressure grade line matches the pipeline and is computed without side effects."""
import copy
import envelope as E
import math

import pipegen as G
from common import run_model, enc, unbits, same_float, rel_close, is_real_finite, tie_equal_vec
from props.c09 import sec_tokens

ID = 'C14'
LEAN_MODULES = ['Dhlldv.Props.C14']
PROP_MODULES = ['Dhlldv.Props.C14']
TIE = ('hand-written executable Lean model of the pop-and-reverse loop of hydraulic_gradient (Spec.Pipe.gradeLine) compared bit-for-bit with the implementation; '
       'the head of each truncated pipeline is obtained from independently built truncated Pipeline objects')
TECHNIQUE = 'Lean 4 proof (list induction) over an executable model of the loop + bit-exact correspondence; state snapshot before/after on the real objects'
PROVED = ['the three lists are (0 :: cumulative lengths), (hydrostatic inlet pressure :: pump - system head of the prefix of length 1..n), (suction depth :: cumulative lifts); '
          'n+1 points; the last pressure is total pump head - total system head (all section lists, all reals)',
          'constructing the temporary pipeline runs update_slurries, which is the identity on slurry parameters, diameter and per-diameter map when the slurry diameter is a pipeline diameter']
HYPOTHESES = []
MONITORED = ['object-level side effects (attribute values of sections, pumps, slurries before/after) - snapshot comparison on the real objects every run',
             'the non-positive-flow convention (evaluation at the minimum-friction flow found by scipy)']
RULE = ('pipelines as in C09 that start with the zero-length entrance, 2 positive flows + the non-positive-flow convention each; pumps with changed speed / trimmed impeller, '
        'repeated identical sections; non-trivial = distinct (pipeline, flow) pairs')
ASSUMPTIONS = ['scipy minimize_scalar is deterministic (same minimum-friction flow when called twice)']


def prefix_head(pl, k, Q):
    """pump - system head (slurry) of the pipeline truncated after k sections, from an independent Pipeline object"""
    from DHLLDV.PipeObj import Pipeline
    t = Pipeline(pipe_list=[copy.copy(p) for p in pl.pipesections[:k]], slurry=pl.slurry)
    hm, hl, pl_, pm = t.calc_system_head(Q)
    return pm - hm


def snapshot(pl, bind=True):
    from DHLLDV.PipeObj import Pipe
    secs = []
    for s in pl.pipesections:
        if isinstance(s, Pipe):
            secs.append(('pipe', id(s), s.name, s.diameter, s.length, s.total_K, s.elev_change))
        else:
            secs.append(('pump', id(s), s.name, s.current_speed, s.current_impeller, s.max_driver_speed, s.limited, s.avail_power, id(s.slurry) if bind else None))
    sl = pl.slurry
    return (tuple(secs), id(sl), (sl.Dp, sl.D50, sl.Cv, sl.rhos, sl.fluid, sl.epsilon, sl.max_index), sorted(sl.GSD.items()),
            tuple(sorted((d, id(s), s.Dp, s.Cv, s.D50) for d, s in pl.slurries.items())))


def gen(ctx):
    # mostly the usual zero-length entrance; sometimes the line starts with a real suction pipe (length > 0, elevation change = suction depth)
    pl = G.random_pipeline(ctx.rng, entrance_zero=(ctx.rng.random() < 0.7), vary_speed=True)
    from DHLLDV.PipeObj import Pipe
    # pump state changed after construction; repeated identical sections
    for s in pl.pipesections:
        if not isinstance(s, Pipe) and ctx.rng.random() < 0.4:
            if ctx.rng.random() < 0.5:
                s.current_speed = s.design_speed * ctx.rng.uniform(0.7, 0.95)
            else:
                s.current_impeller = s.design_impeller * ctx.rng.uniform(0.85, 0.98)
    if ctx.rng.random() < 0.3 and len(pl.pipesections) > 2:
        i = ctx.rng.randrange(1, len(pl.pipesections))
        if isinstance(pl.pipesections[i], Pipe):
            pl.pipesections.insert(i, copy.copy(pl.pipesections[i]))
            pl.update_slurries()
    if ctx.rng.random() < 0.25 and isinstance(pl.pipesections[-1], Pipe):
        # a discharge (shore) line of a diameter of its own, which is also the slurry's diameter: no other section shares it
        used = {x.diameter for x in pl.pipesections[:-1] if isinstance(x, Pipe)}
        pr = getattr(pl.slurry, '_params', None)
        cand = [d_ for d_ in (0.55, 0.75, 0.8, 0.45) if d_ not in used]
        if pr and cand:
            nu_, rhol_ = E.fluids()[pr['fluid']]
            cand = [d_ for d_ in cand if pr['D50'] > max(E.dlim(d_, nu_, rhol_, pr['rhos']), 5e-5) * 1.001 and pr['D50'] * pr['r85'] <= 0.5 * d_]
            if cand:
                pl.pipesections[-1].diameter = ctx.rng.choice(cand)
                pl.slurry.Dp = pl.pipesections[-1].diameter
                pr['Dp'] = pl.slurry.Dp
                pl.update_slurries()
    # the convention of the property: slurry diameter is one of the pipeline's diameters
    if pl.slurry.Dp not in pl.slurries:
        pl.slurry.Dp = pl.pipesections[-1].diameter
        pl.update_slurries()
    return pl


def correspondence(ctx):
    lines, metas = [], []
    for _ in range(ctx.n(25, 800)):
        pl = gen(ctx)
        for Q in G.flows_for(ctx.rng, pl, 2):
            try:
                want = pl.hydraulic_gradient(Q)
                n = len(pl.pipesections)
                heads = [prefix_head(pl, k, Q) for k in range(1, n + 1)]
                toks = sec_tokens(pl, Q)
            except Exception:   # noqa
                ctx.count('corr_impl_nonreal')
                continue
            lines.append('spec.gradeline ' + ' '.join([enc(pl.slurry.rhol), str(n)] + toks + [enc(h) for h in heads]))
            metas.append((pl, Q, want))
    outs = run_model(lines)
    for (pl, Q, want), o in zip(metas, outs):
        ctx.count('corr_compared')
        got = [unbits(x) for x in o.split(' ')]
        flat = [float(x) for l in want for x in l]
        if len(got) != len(flat) or not tie_equal_vec(ctx, got, flat):
            ctx.mismatch('Spec.Pipe.gradeLine differs from hydraulic_gradient', {'pipeline': G.describe(pl), 'Q': Q}, got, flat)
    if metas:
        ctx.sample({'pipeline': G.describe(metas[0][0]), 'Q': metas[0][1]})


def check_line(ctx, pl, Q_arg, Q_eff, desc, bind=True):
    from DHLLDV.PipeObj import Pipe
    before = snapshot(pl, bind)
    locs, heads, elevs = pl.hydraulic_gradient(Q_arg)
    after = snapshot(pl, bind)
    ctx.count('evaluations')
    inp = {'pipeline': desc, 'Q': Q_arg}
    if before != after:
        ctx.violation('computing the grade line changed the pipeline (sections / per-diameter slurries / slurry parameters / pump state)', inp, key='side-effect')
    n = len(pl.pipesections)
    if not (len(locs) == len(heads) == len(elevs) == n + 1):
        ctx.violation(f'grade line has {len(locs)}/{len(heads)}/{len(elevs)} points for {n} sections', inp, key='shape')
        return
    cl, ce = [0.0], [pl.pipesections[0].elev_change]
    tl, te = 0.0, 0.0
    for s in pl.pipesections:
        if isinstance(s, Pipe):
            tl += s.length
            te += s.elev_change
        cl.append(tl)
        ce.append(te)
    ce[0] = ce[1]
    ok = all(rel_close(a, b, 1e-9) or abs(a - b) < 1e-9 for a, b in zip(locs, cl)) and all(rel_close(a, b, 1e-9) or abs(a - b) < 1e-9 for a, b in zip(elevs, ce))
    if not ok:
        ctx.violation(f'locations/elevations {locs}/{elevs} are not the cumulative lengths/lifts {cl}/{ce}', inp, key='boundaries')
    if not rel_close(heads[0], -ce[0] * pl.slurry.rhol, 1e-12):
        ctx.violation(f'inlet pressure {heads[0]!r} is not the hydrostatic submergence {-ce[0] * pl.slurry.rhol!r}', inp, key='inlet')
    for k in range(1, n + 1):
        want = prefix_head(pl, k, Q_eff)
        if not (rel_close(heads[k], want, 1e-9) or abs(heads[k] - want) < 1e-9):
            ctx.violation(f'pressure at boundary {k} is {heads[k]!r}; pump - system head of the truncated pipeline is {want!r}', inp, key='boundary-pressure')
            break
    hm, hl, pl_, pm = pl.calc_system_head(Q_eff)
    if not (rel_close(heads[-1], pm - hm, 1e-9) or abs(heads[-1] - (pm - hm)) < 1e-9):
        ctx.violation('last pressure is not total pump head - total system head', inp, key='boundary-pressure')


def monitor(ctx, extended=False):
    from DHLLDV.PipeObj import Pipe
    n = ctx.n(20, 600) * (2 if extended else 1)
    k = 0
    for _ in range(n):
        pl = gen(ctx)
        desc = G.describe(pl)
        try:
            for Q in G.flows_for(ctx.rng, pl, 2):
                check_line(ctx, pl, Q, Q, desc)
                k += 1
            if ctx.rng.random() < 0.6:
                # history: the pipeline is edited directly (as the project's own tests do) and the grade line asked again at the SAME flow
                pipes = [x for x in pl.pipesections if isinstance(x, Pipe) and x.length > 0]
                pumps = [x for x in pl.pipesections if not isinstance(x, Pipe)]
                kind = ctx.rng.choice(['length', 'elev', 'K', 'speed', 'append', 'drop'])
                if kind == 'length' and pipes:
                    ctx.rng.choice(pipes).length *= ctx.rng.choice([0.5, 1.5, 2.0])
                elif kind == 'elev' and pipes:
                    ctx.rng.choice(pipes).elev_change += ctx.rng.choice([-2.0, 1.5, 3.0])
                elif kind == 'K' and pipes:
                    ctx.rng.choice(pipes).total_K += 0.5
                elif kind == 'speed' and pumps:
                    q = ctx.rng.choice(pumps)
                    q.current_speed = q.current_speed * 0.9
                elif kind == 'append':
                    last = pl.pipesections[-1]
                    pl.pipesections.append(Pipe('appended', last.diameter, ctx.rng.uniform(10.0, 200.0), 0.1, ctx.rng.uniform(-2.0, 3.0)))
                elif kind == 'drop' and len(pl.pipesections) > 3 and isinstance(pl.pipesections[-2], Pipe):
                    del pl.pipesections[-2]
                desc2 = dict(G.describe(pl), history=f'grade line at Q, then direct edit ({kind}), then grade line at the same Q')
                check_line(ctx, pl, Q, Q, desc2)
                k += 1
            pumps_ = [x for x in pl.pipesections if not isinstance(x, Pipe)]
            if pumps_ and hasattr(pl.slurry, '_params') and ctx.rng.random() < 0.5:
                # history: the SAME pump objects are also part of a second pipeline that carries another slurry (the viewer's set-ups share the pumps of
                # ExamplePumps; a water reference line built around the pumps of a slurry line): the grade line of this pipeline is still its own
                from DHLLDV.PipeObj import Pipeline
                p2 = dict(pl.slurry._params)
                p2['Cv'] = 0.03 if pl.slurry.Cv > 0.2 else 0.4
                d_ = pl.pipesections[-1].diameter
                other = Pipeline(name='second line', pipe_list=[Pipe('Entrance', d_, 0.0, 0.5, -3.0)] + pumps_ + [Pipe('discharge', d_, 400.0, 1.0, 2.0)],
                                 slurry=E.make_slurry(dict(p2, Dp=d_), max_index=100))
                other.calc_system_head(Q)
                check_line(ctx, pl, Q, Q, dict(G.describe(pl), history='a second pipeline with another slurry (Cv %r) was built around the same pump objects and evaluated' % p2['Cv']),
                           bind=False)
                k += 1
            if ctx.rng.random() < 0.4:
                # history on the non-positive-flow convention: grade line at Q <= 0, a section edited in place, grade line at Q <= 0 again - each evaluated at the
                # minimum-friction flow of the pipeline as it is THEN
                fl0 = [Pipe(diameter=pl.slurry.Dp).flow(v) for v in pl.slurry.vls_list]
                check_line(ctx, pl, ctx.rng.choice([0, -1, 0.0]), pl.qimin(fl0), dict(G.describe(pl), history='grade line at Q <= 0'))
                pipes_ = [x for x in pl.pipesections if isinstance(x, Pipe) and x.length > 0]
                if pipes_:
                    tgt = ctx.rng.choice(pipes_)
                    if ctx.rng.random() < 0.5:
                        tgt.length *= ctx.rng.choice([0.25, 3.0, 6.0])
                    else:
                        tgt.total_K += ctx.rng.choice([5.0, 12.0])
                    check_line(ctx, pl, ctx.rng.choice([0, -1]), pl.qimin(fl0),
                               dict(G.describe(pl), history='grade line at Q <= 0, then a section edited in place (length or K), then grade line at Q <= 0 again'))
                    k += 1
            dias = sorted({x.diameter for x in pl.pipesections if isinstance(x, Pipe)})
            other = [x for x in dias if x != pl.pipesections[-1].diameter]
            if other and ctx.rng.random() < 0.7:
                # the slurry sits on a pipeline diameter that is not the discharge diameter (the viewer's Dp box allows it)
                pl.slurry.Dp = ctx.rng.choice(other)
                desc = dict(G.describe(pl), slurry_Dp_set_to=pl.slurry.Dp)
            if other or ctx.rng.random() < 0.35:
                flow_list = [Pipe(diameter=pl.slurry.Dp).flow(v) for v in pl.slurry.vls_list]
                qmin = pl.qimin(flow_list)
                check_line(ctx, pl, ctx.rng.choice([0, -1, 0.0]), qmin, desc)
                k += 1
        except Exception as e:   # noqa
            ctx.violation(f'raised {type(e).__name__}: {e}', {'pipeline': desc}, key='raised')
    ctx.stats['distinct_nontrivial'] = k
