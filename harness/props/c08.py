"""C08 — computational functions depend only on their arguments and the two documented switches."""
import json
import math
import os
import subprocess
import sys

import envelope as E
from common import run_model, REPO, GEN_DIR, PY, VERIF

ID = 'C08'
LEAN_MODULES = ['Dhlldv.Props.C08']
PROP_MODULES = ['Dhlldv.Props.C08']
TIE = ('tie A: per lru_cache\'d function the key parameters, the module-level names read transitively (minus those every call site passes in a key '
       'parameter), whether a cached container is handed out, and hidden module-level mutable state, extracted by AST analysis on every run; '
       'tie X: hit/miss streams of the real caches vs the Lean memo model')
TECHNIQUE = 'Lean 4 invariant proof over a memoisation state machine parametrised by facts extracted from the source + fresh-interpreter differential oracle'
PROVED = ['a memoised function whose key contains everything its body reads and that hands out no cached container returns, after ANY history of calls, '
          'toggles, caller mutations and cache clears, what the un-memoised body computes under the current switches',
          'every lru_cache\'d function of the current source meets that condition; no model module holds hidden mutable state, no library function rebinds a module-level name or assigns an attribute of an imported module (the switches are written '
          'by the caller only), every decorator in the library is one the model understands (by evaluation of the extracted tables)']
HYPOTHESES = []
MONITORED = ['memoisation by other means than functools.lru_cache / module-level containers recognised by the extractor (searched: every call compared with '
             'the same call in a freshly reloaded interpreter state)']
RULE = ('random interleavings (length 12 quick / 40 thorough) of calls to every public function of the six model modules with arguments drawn from a small pool '
        '(so calls repeat) incl. 1e-5-close neighbours, toggles of use_sf/use_sqrtcx, in-place mutation of returned dicts/lists; exhaustive depth-3 histories over '
        '12 operations for the cached selectors; non-trivial = distinct (function, switch setting, repeated-or-neighbour argument) events compared with the fresh oracle')
ASSUMPTIONS = ['"fresh interpreter state" is realised by reloading every model module before each oracle call (separate worker process)']

SHORT = {'homogeneous': 'DHLLDV.homogeneous', 'heterogeneous': 'DHLLDV.heterogeneous', 'stratified': 'DHLLDV.stratified',
         'framework': 'DHLLDV.DHLLDV_framework', 'wilson_stratified': 'Wilson.Wilson_Stratified', 'wilson_v50': 'Wilson.Wilson_V50'}


class Fresh:
    def __init__(self):
        self.p = subprocess.Popen([PY, os.path.join(VERIF, 'harness', 'fresh_worker.py'), os.path.join(REPO, 'src'), REPO],
                                  stdin=subprocess.PIPE, stdout=subprocess.PIPE, text=True)

    def call(self, fn, args, kwargs, sf, sq):
        import fresh_worker as W
        q = {'fn': fn, 'args': [W.enc(a) for a in args], 'kwargs': {k: W.enc(v) for k, v in kwargs.items()}, 'use_sf': sf, 'use_sqrtcx': sq}
        self.p.stdin.write(json.dumps(q) + '\n')
        self.p.stdin.flush()
        r = json.loads(self.p.stdout.readline())
        if 'exc' in r:
            return ('exc', r['exc'])
        return ('ok', W.dec(r['ok']))

    def close(self):
        try:
            self.p.stdin.close()
            self.p.wait(timeout=5)
        except Exception:   # noqa
            self.p.kill()


def same(a, b):
    if isinstance(a, dict) and isinstance(b, dict):
        return list(a.keys()) == list(b.keys()) and all(same(a[k], b[k]) for k in a)
    if isinstance(a, (list, tuple)) and isinstance(b, (list, tuple)):
        return len(a) == len(b) and all(same(x, y) for x, y in zip(a, b))
    if isinstance(a, float) and isinstance(b, float):
        return a == b or (a != a and b != b)
    return a == b


def pools(rng):
    """three base slurries (fine sand, coarse sand in a small pipe, gravel) + 1e-5 neighbours of their concentrations"""
    base = [
        dict(vls=3.0, Dp=0.5, d=0.4e-3, epsilon=4.5e-5, nu=1.0508e-6, rhol=1.0248103, rhos=2.65, Cv=0.2),
        dict(vls=1.5, Dp=0.1524, d=5.0e-3, epsilon=4.5e-5, nu=1.0e-6, rhol=1.0, rhos=2.65, Cv=0.12),
        dict(vls=4.0, Dp=0.762, d=12.0e-3, epsilon=4.5e-5, nu=1.3e-6, rhol=0.999, rhos=3.0, Cv=0.3),
    ]
    a = E.point(rng)
    base.append(dict(vls=a[0], Dp=a[1], d=a[2], epsilon=a[3], nu=a[4], rhol=a[5], rhos=a[6], Cv=a[7]))
    # a creeping flow (laminar: Re about 1000-2000): the functions are defined there too, and a branch that is hardly ever taken is where state hides
    base.append(dict(vls=0.02, Dp=0.1016, d=0.2e-3, epsilon=4.5e-5, nu=1.0e-6, rhol=1.0, rhos=2.65, Cv=0.1, laminar=True))
    return base


def arg_for(name, b, rng):
    near = (1 + rng.choice([0, 0, 0, 1e-5, 3e-5])) if rng.random() < 0.6 else 1.0
    if name in ('vls', 'Vls'):
        return rng.choice([0.02, 0.015, 0.01, 0.02]) if b.get('laminar') else b['vls']
    if name in ('Dp', 'd', 'epsilon', 'nu', 'rhol', 'rhos'):
        # siblings: the same slurry with exactly one parameter changed (a cache key that omits a parameter needs this)
        if rng.random() < 0.12:
            alt = {'nu': [0.8e-6, 1.0e-6, 1.2e-6, 1.4e-6], 'rhol': [0.99, 1.0, 1.01, 1.03], 'rhos': [2.65, 3.0, 3.5],
                   'epsilon': [4.5e-5, 1.0e-4], 'Dp': [b['Dp'], b['Dp'] * 1.1], 'd': [b['d'], b['d'] * 1.2]}[name]
            return rng.choice(alt)
        return b[name]
    if name in ('Cvs', 'Cvt', 'Cv'):
        return b['Cv'] * near
    if name == 'musf':
        return 0.4
    if name == 'Cvb':
        return 0.6
    if name == 'd50':
        return min(b['d'], 0.1 * b['Dp'])
    if name == 'd85':
        return min(b['d'], 0.1 * b['Dp']) * 2.0
    if name == 'Re':
        return (rng.choice([0.02, 0.015, 0.01]) if b.get('laminar') else b['vls']) * b['Dp'] / b['nu']
    if name == 'Dp_H':
        return b['Dp'] * 0.8
    if name == 'v1':
        return b['vls'] * 1.3
    if name == 'v2':
        return 0.0
    if name == 'nu_l':
        return b['nu']
    if name == 'vt':
        return 0.08
    if name == 'Rsd':
        return (b['rhos'] - b['rhol']) / b['rhol']
    if name == 'X':
        return 0.1
    raise KeyError(name)


class _Fixed:
    """rng stand-in: arg_for then returns the base value itself"""
    def random(self):
        return 1.0

    def choice(self, xs):
        return xs[0]


OPTIONAL = {'K', 'Stk', 'max_steps', 'e', 'f', 'num_fracs', 'get_dict', 'use_sf', 'use_sqrtcx', 'Cvt_eq_Cvs'}


class OwnedDict:
    """marks an argument that is handed over as the caller's own object (not a copy)"""
    def __init__(self, d):
        self.d = d


def make_call(rng, c, bases):
    """(fn, args, kwargs) for the extracted function row c, or None if it is not a public computational function"""
    name = c['name']
    if name.startswith('_'):
        return None
    b = rng.choice(bases)
    args, kwargs = [], {}
    for p in c['key']:
        if p == 'GSD':
            if name == 'Erhg_graded' and rng.random() < 0.5:
                # a discretised grading the caller owns and passes again and again as the SAME object (num_fracs=None); the caller may edit it in place
                if '_own_gsd' not in b:
                    from DHLLDV import DHLLDV_framework as _F
                    try:
                        b['_own_gsd'] = _F.create_fracs({0.15: b['d'] / 2.0, 0.5: b['d'] * 1.01, 0.85: b['d'] * 2.72}, b['Dp'], b['nu'], b['rhol'], b['rhos'])
                    except Exception:   # noqa  (C02 / C12 decide whether the discretiser may raise; here it only supplies an argument)
                        b['_own_gsd'] = None
                if b['_own_gsd'] is None:
                    args.append({0.15: b['d'] / 2.0, 0.5: b['d'], 0.85: b['d'] * 2.72})
                    continue
                args.append(OwnedDict(b['_own_gsd']))
                kwargs['num_fracs'] = None
            else:
                args.append({0.15: b['d'] / 2.0, 0.5: b['d'], 0.85: b['d'] * 2.72})
            continue
        if p in OPTIONAL:
            if p == 'get_dict' and rng.random() < 0.6:
                kwargs['get_dict'] = True
            if p in ('use_sf', 'use_sqrtcx') and rng.random() < 0.5:
                kwargs[p] = rng.random() < 0.5
            if p == 'Cvt_eq_Cvs' and rng.random() < 0.5:
                kwargs[p] = True
            if p == 'f' and rng.random() < 0.5:
                kwargs['f'] = 0.012
            continue
        try:
            args.append(arg_for(p, b, rng))
        except KeyError:
            return None
    return (f"{c['mod']}.{name}", args, kwargs)


def mutate(rng, r):
    """in-place damage to a returned container (and to the containers nested in it), the way a careless caller might"""
    if isinstance(r, dict) and r:
        nested = [k for k, v in r.items() if isinstance(v, (dict, list)) and v]
        if nested and rng.random() < 0.7:
            # edit a nested container in place (e.g. the discretised grading or a list handed out inside a result dict)
            for k in nested:
                v = r[k]
                if isinstance(v, dict):
                    kk = rng.choice(list(v.keys()))
                    if rng.random() < 0.5 and len(v) > 2:
                        del v[kk]
                    else:
                        v[kk] = v[kk] * 1.5 if isinstance(v[kk], (int, float)) else 99.0
                else:
                    if rng.random() < 0.5:
                        v.clear()
                    else:
                        v[0] = 99.0
            return True
        k = rng.choice(list(r.keys()))
        if isinstance(r[k], list):
            r[k].clear()
        else:
            r[k] = 99.0 if not isinstance(r[k], str) else 'FB'
        if rng.random() < 0.3:
            r['extra'] = 1.0
        return True
    if isinstance(r, list) and r:
        r[0] = 99.0
        return True
    return False


def correspondence(ctx):
    """hit/miss stream of a real lru_cache vs the Lean memo model, for the cached selector reached through its public wrapper"""
    import importlib
    fx = json.load(open(os.path.join(GEN_DIR, 'effects.json')))
    from DHLLDV import DHLLDV_framework as F, stratified as St
    targets = []
    if hasattr(F, '_Cvt_Erhg_obj') and hasattr(F._Cvt_Erhg_obj, 'cache_info'):
        targets.append(('framework._Cvt_Erhg_obj', F._Cvt_Erhg_obj, lambda a: F.Cvt_Erhg(*a, get_dict=True), True))
    elif hasattr(F.Cvt_Erhg, 'cache_info'):
        targets.append(('framework.Cvt_Erhg', F.Cvt_Erhg, lambda a: F.Cvt_Erhg(*a, get_dict=True), True))
    if hasattr(F.slip_ratio, 'cache_info'):
        targets.append(('framework.slip_ratio', F.slip_ratio, lambda a: F.slip_ratio(*a), False))
    if hasattr(St.fb_Erhg, 'cache_info'):
        targets.append(('stratified.fb_Erhg', St.fb_Erhg, lambda a: St.fb_Erhg(*a), False))
    rows = {f"{c['mod']}.{c['name']}": c for c in fx['caches']}
    pts = [(3.0, 0.5, 0.4e-3, 4.5e-5, 1.0508e-6, 1.0248103, 2.65, 0.2), (1.5, 0.1524, 5.0e-3, 4.5e-5, 1.0e-6, 1.0, 2.65, 0.12),
           (4.0, 0.762, 12.0e-3, 4.5e-5, 1.3e-6, 0.999, 3.0, 0.3)]
    settings = [(True, True), (True, False), (False, True), (False, False)]
    try:
        for qname, cached_fn, call, reads_sw in targets:
            row = rows.get(qname)
            if row is None or not row['cached']:
                ctx.mismatch('a cached function of the implementation is not in the extracted table', qname, None, None)
                continue
            key_has_sw = any(k in ('sf', 'sqrtcx', 'use_sf', 'use_sqrtcx') for k in row['key'])
            for _ in range(ctx.n(20, 300)):
                toks, script = [], []
                for _ in range(ctx.rng.randint(4, 14)):
                    r = ctx.rng.random()
                    if r < 0.6:
                        i = ctx.rng.randrange(3)
                        toks.append(f'c:{i}')
                        script.append(('c', i))
                    elif r < 0.85 and reads_sw:
                        j = ctx.rng.randrange(4)
                        toks.append(f't:{j}')
                        script.append(('t', j))
                    elif r < 0.95:
                        toks.append('x')
                        script.append(('x',))
                if not toks:
                    continue
                # the model starts with switch value 3 = (False, False)
                F.use_sf, F.use_sqrtcx = settings[3]
                for m in ('DHLLDV.homogeneous', 'DHLLDV.stratified', 'DHLLDV.DHLLDV_framework'):
                    mod = importlib.import_module(m)
                    for v in vars(mod).values():
                        if hasattr(v, 'cache_clear'):
                            v.cache_clear()
                out = run_model([f'spec.memo {1 if (key_has_sw or not reads_sw) else 0} 0 ' + ' '.join(toks)])[0].split(' ')
                got = []
                for s in script:
                    if s[0] == 'c':
                        h0 = cached_fn.cache_info().hits
                        call(pts[s[1]])
                        got.append('1' if cached_fn.cache_info().hits > h0 else '0')
                    elif s[0] == 't':
                        F.use_sf, F.use_sqrtcx = settings[s[1]]
                    else:
                        cached_fn.cache_clear()
                ctx.count('corr_compared')
                want = [x for x in out if x]
                if got != want:
                    ctx.mismatch(f'hit/miss stream of {qname} differs from the memo model', {'script': toks}, want, got)
    finally:
        F.use_sf, F.use_sqrtcx = True, True
    ctx.sample({'cached_functions_compared': [t[0] for t in targets]})


def monitor(ctx, extended=False):
    import importlib
    fx = json.load(open(os.path.join(GEN_DIR, 'effects.json')))
    rows = fx['caches']
    fresh = Fresh()
    mods = {k: importlib.import_module(v) for k, v in SHORT.items()}
    F = mods['framework']
    events = set()
    try:
        n_hist = ctx.n(60, 2500) * (3 if extended else 1)
        length = 40 if ctx.thorough else 14
        for _ in range(n_hist):
            bases = pools(ctx.rng)
            # restrict a history to a few functions so that calls repeat
            fam = ctx.rng.sample(rows, 4)
            log = []
            held = []
            sf, sq = True, True
            F.use_sf, F.use_sqrtcx = sf, sq
            for _ in range(length):
                r = ctx.rng.random()
                if r < 0.15:
                    sf, sq = ctx.rng.choice([(True, True), (True, False), (False, True), (False, False)])
                    F.use_sf, F.use_sqrtcx = sf, sq
                    log.append(f'use_sf={sf}; use_sqrtcx={sq}')
                    continue
                if r < 0.3 and held:
                    tgt = ctx.rng.choice(held)
                    if mutate(ctx.rng, tgt):
                        log.append('mutate a previously returned container in place')
                    continue
                if 0.3 <= r < 0.36:
                    owners = [b for b in bases if b.get('_own_gsd')]
                    if owners:
                        g = ctx.rng.choice(owners)['_own_gsd']
                        f_ = ctx.rng.choice([1.05, 1.2, 0.9])
                        for kk in list(g.keys()):
                            g[kk] = g[kk] * f_
                        log.append(f'the caller scales the diameters of its own GSD dict in place by {f_}')
                        continue
                c = make_call(ctx.rng, ctx.rng.choice(fam), bases)
                if c is None:
                    continue
                fn, args, kwargs = c
                mod, name = fn.split('.')
                ctx.count('evaluations')
                log.append(f'{fn}{tuple(a.d if isinstance(a, OwnedDict) else a for a in args)} {kwargs}')
                try:
                    live = ('ok', getattr(mods[mod], name)(*[a.d if isinstance(a, OwnedDict) else (dict(a) if isinstance(a, dict) else a) for a in args], **kwargs))
                except Exception as e:   # noqa
                    live = ('exc', type(e).__name__)
                args = [dict(a.d) if isinstance(a, OwnedDict) else a for a in args]
                if (F.use_sf, F.use_sqrtcx) != (sf, sq):
                    ctx.violation(f'{fn} ({live[0]}) left the module switches at use_sf={F.use_sf}, use_sqrtcx={F.use_sqrtcx}; the caller had set {sf}, {sq}',
                                  {'history': log[-14:], 'use_sf': sf, 'use_sqrtcx': sq}, key='history-dependence')
                    break
                want = fresh.call(fn, args, kwargs, sf, sq)
                if live[0] != want[0] or (live[0] == 'ok' and not same(live[1], want[1])) or (live[0] == 'exc' and live[1] != want[1]):
                    ctx.violation(f'{fn} returned {str(live)[:160]} after this history; the same call in a fresh interpreter state returns {str(want)[:160]}',
                                  {'history': log[-14:], 'use_sf': sf, 'use_sqrtcx': sq}, key='history-dependence')
                    break
                if live[0] == 'ok' and isinstance(live[1], (dict, list)):
                    held.append(live[1])
                events.add((fn, sf, sq, json.dumps(kwargs, sort_keys=True)))
        # a call that fails leaves no trace either: ok call, failing call (concentration at an end of its range: 0, the bed concentration, just below it),
        # the same failing call again, the ok call again - each compared with a fresh interpreter (an exception is an outcome like any other)
        F.use_sf, F.use_sqrtcx = True, True
        conc_rows = [c for c in rows if not c['name'].startswith('_') and any(p in ('Cvs', 'Cvt', 'Cv') for p in c['key'])]
        for c in conc_rows:
            for b in pools(ctx.rng)[:3]:
                def call_with(cv):
                    args, kwargs = [], {}
                    for p in c['key']:
                        if p == 'GSD':
                            args.append({0.15: b['d'] / 2.0, 0.5: b['d'], 0.85: b['d'] * 2.72})
                        elif p in OPTIONAL:
                            continue
                        elif p in ('Cvs', 'Cvt', 'Cv'):
                            args.append(cv)
                        else:
                            args.append(arg_for(p, b, _Fixed()))
                    return f"{c['mod']}.{c['name']}", args, kwargs
                script = [b['Cv'], 0.0, 0.0, b['Cv'], 0.6, 0.6, 0.59, 0.59, b['Cv']]
                log = []
                for cv in script:
                    try:
                        fn, args, kwargs = call_with(cv)
                    except KeyError:
                        break
                    mod, name = fn.split('.')
                    ctx.count('evaluations')
                    log.append(f'{fn}{tuple(args)}')
                    try:
                        live = ('ok', getattr(mods[mod], name)(*[dict(a) if isinstance(a, dict) else a for a in args], **kwargs))
                    except Exception as e:   # noqa
                        live = ('exc', type(e).__name__)
                    want = fresh.call(fn, args, kwargs, True, True)
                    if live[0] != want[0] or (live[0] == 'ok' and not same(live[1], want[1])) or (live[0] == 'exc' and live[1] != want[1]):
                        ctx.violation(f'{fn} returned {str(live)[:160]} after this history (it contains calls that fail); the same call in a fresh interpreter state returns {str(want)[:160]}',
                                      {'history': log, 'use_sf': True, 'use_sqrtcx': True}, key='history-dependence')
                        break
                    events.add((fn, 'after-failed-call' if live[0] == 'exc' else 'ok-in-failing-script'))
        # the caller's own grading dict, used as is, edited in place between two calls (a diameter changed, a point added): each call answers for the dict as it is THEN
        F.use_sf, F.use_sqrtcx = True, True
        for b in pools(ctx.rng)[:3]:
            g = {0.15: b['d'] / 2.0, 0.5: b['d'], 0.85: b['d'] * 2.72}
            log = []
            for edit in (None, 'scale', 'add', 'remove'):
                if edit == 'scale':
                    for kk in list(g):
                        g[kk] = g[kk] * 1.2
                elif edit == 'add':
                    g[0.3] = (g[0.15] * g[0.5]) ** 0.5 * 1.1
                elif edit == 'remove':
                    del g[0.3]
                if edit:
                    log.append(f'the caller edits its own GSD dict in place ({edit})')
                for cvt_ in (False, True):
                    args = [g, b['vls'], b['Dp'], b['epsilon'], b['nu'], b['rhol'], b['rhos'], b['Cv']]
                    kwargs = {'Cvt_eq_Cvs': cvt_, 'num_fracs': None}
                    ctx.count('evaluations')
                    log.append(f'framework.Erhg_graded{tuple([dict(g)] + args[1:])} {kwargs}')
                    try:
                        live = ('ok', F.Erhg_graded(*args, **kwargs))
                    except Exception as e:   # noqa
                        live = ('exc', type(e).__name__)
                    want = fresh.call('framework.Erhg_graded', [dict(g)] + args[1:], kwargs, True, True)
                    if live[0] != want[0] or (live[0] == 'ok' and not same(live[1], want[1])) or (live[0] == 'exc' and live[1] != want[1]):
                        ctx.violation(f'Erhg_graded on the caller\'s own dict returned {str(live)[:160]} after this history; the same call in a fresh interpreter state returns {str(want)[:160]}',
                                      {'history': list(log), 'use_sf': True, 'use_sqrtcx': True}, key='history-dependence')
                        break
                    events.add(('framework.Erhg_graded', 'own-dict', edit))
        # the graded-sand function fails inside its loop over the fractions (line speed 0, a concentration above the bed concentration); afterwards the switches are
        # what the caller set and a coarse-grain call (the only place the sliding-flow switch matters) answers as in a fresh interpreter
        coarse = [(1.5, 0.1524, 6.0e-3, 4.5e-5, 1.0e-6, 1.0, 2.65, 0.12), (3.0, 0.3, 8.0e-3, 4.5e-5, 1.3e-6, 1.0248103, 2.65, 0.2)]
        for sf, sq in ((True, True), (True, False), (False, True)):
            for b in pools(ctx.rng)[:2]:
                gsd = {0.15: b['d'] / 2.0, 0.5: b['d'], 0.85: b['d'] * 2.72}
                F.use_sf, F.use_sqrtcx = sf, sq
                log = [f'use_sf={sf}; use_sqrtcx={sq}']
                bad = False
                for vls_, cv_, cvt_ in ((b['vls'], b['Cv'], False), (0.0, b['Cv'], False), (b['vls'], 0.75, True), (b['vls'], 0.75, False), (0.0, b['Cv'], True)):
                    args = [gsd, vls_, b['Dp'], b['epsilon'], b['nu'], b['rhol'], b['rhos'], cv_]
                    kwargs = {'Cvt_eq_Cvs': cvt_}
                    ctx.count('evaluations')
                    log.append(f'framework.Erhg_graded{tuple(args)} {kwargs}')
                    try:
                        live = ('ok', F.Erhg_graded(dict(gsd), *args[1:], **kwargs))
                    except Exception as e:   # noqa
                        live = ('exc', type(e).__name__)
                    events.add(('framework.Erhg_graded', 'after-failed-call' if live[0] == 'exc' else 'ok-in-failing-script'))
                    if (F.use_sf, F.use_sqrtcx) != (sf, sq):
                        ctx.violation(f'Erhg_graded ({live}) left the module switches at use_sf={F.use_sf}, use_sqrtcx={F.use_sqrtcx}; the caller had set {sf}, {sq}',
                                      {'history': list(log), 'use_sf': sf, 'use_sqrtcx': sq}, key='history-dependence')
                        bad = True
                        break
                    for fn_, a_ in (('framework.Cvs_Erhg', list(coarse[0])), ('heterogeneous.Erhg', list(coarse[1]) + [sf, sq]), ('framework.Cvt_Erhg', list(coarse[1]))):
                        mod, name = fn_.split('.')
                        try:
                            lv = ('ok', getattr(mods[mod], name)(*a_))
                        except Exception as e:   # noqa
                            lv = ('exc', type(e).__name__)
                        want = fresh.call(fn_, a_, {}, sf, sq)
                        if lv[0] != want[0] or (lv[0] == 'ok' and not same(lv[1], want[1])) or (lv[0] == 'exc' and lv[1] != want[1]):
                            ctx.violation(f'{fn_}{tuple(a_)} returned {str(lv)[:160]} after this history (graded calls, some of which fail); a fresh interpreter state returns {str(want)[:160]}',
                                          {'history': list(log), 'use_sf': sf, 'use_sqrtcx': sq}, key='history-dependence')
                            bad = True
                            break
                    if bad:
                        break
                if bad:
                    break
        F.use_sf, F.use_sqrtcx = True, True
        # an argument that is the RESULT of an earlier call on the same slurry: the delivered-concentration functions first, then the spatial-concentration functions
        # at exactly the in-situ concentration they derived (bit for bit), then the delivered ones again - and the same starting from the spatial side
        F.use_sf, F.use_sqrtcx = True, True
        for b in pools(ctx.rng):
            a8 = [b['vls'], b['Dp'], b['d'], b['epsilon'], b['nu'], b['rhol'], b['rhos'], b['Cv']]
            log = []

            def step(fn, args, kwargs):
                mod, name = fn.split('.')
                ctx.count('evaluations')
                log.append(f'{fn}{tuple(args)} {kwargs}')
                try:
                    live = ('ok', getattr(mods[mod], name)(*args, **kwargs))
                except Exception as e:   # noqa
                    live = ('exc', type(e).__name__)
                want = fresh.call(fn, args, kwargs, True, True)
                if live[0] != want[0] or (live[0] == 'ok' and not same(live[1], want[1])) or (live[0] == 'exc' and live[1] != want[1]):
                    ctx.violation(f'{fn} returned {str(live)[:160]} after this history; the same call in a fresh interpreter state returns {str(want)[:160]}',
                                  {'history': list(log), 'use_sf': True, 'use_sqrtcx': True}, key='history-dependence')
                    return None
                events.add((fn, 'derived-argument'))
                return live
            order = ctx.rng.choice(['delivered-first', 'spatial-first'])
            ok = True
            if order == 'spatial-first':
                ok = step('framework.Cvs_Erhg', a8, {'get_dict': True}) is not None
            r = step('framework.Cvt_Erhg', a8, {'get_dict': True}) if ok else None
            c = step('framework.Cvs_from_Cvt', a8, {}) if r is not None else None
            if c is not None and c[0] == 'ok' and isinstance(c[1], float) and c[1] == c[1]:
                d8 = a8[:7] + [c[1]]
                for fn, kw in (('framework.Cvs_Erhg', {'get_dict': True}), ('framework.Cvs_Erhg', {}), ('framework.Cvs_regime', {}), ('framework.Cvt_Erhg', {'get_dict': True}),
                               ('framework.Cvt_regime', {}), ('framework.Cvs_Erhg', {'get_dict': True})):
                    if step(fn, d8 if fn.startswith('framework.Cvs') else a8, kw) is None:
                        break
        # whatever a caller does to a returned result - here: every container in it, nested ones included, is wrecked - the same call gives the same answer
        def wreck(x):
            if isinstance(x, dict):
                for kk in list(x.keys()):
                    if isinstance(x[kk], (dict, list)):
                        wreck(x[kk])
                    elif isinstance(x[kk], (int, float)) and not isinstance(x[kk], bool):
                        x[kk] = x[kk] * 1.37 + 1.0
                if len(x) > 2:
                    del x[list(x.keys())[0]]
            elif isinstance(x, list):
                for i_ in range(len(x)):
                    if isinstance(x[i_], (dict, list)):
                        wreck(x[i_])
                    elif isinstance(x[i_], (int, float)) and not isinstance(x[i_], bool):
                        x[i_] = x[i_] * 1.37 + 1.0
        F.use_sf, F.use_sqrtcx = True, True
        for b in pools(ctx.rng)[:3]:
            g0 = {0.15: b['d'] / 2.0, 0.5: b['d'] * 1.01, 0.85: b['d'] * 2.72}
            a8 = [b['vls'], b['Dp'], b['d'], b['epsilon'], b['nu'], b['rhol'], b['rhos'], b['Cv']]
            for fn_, args_, kw_ in (('framework.Erhg_graded', [g0] + a8[:2] + a8[3:], {'get_dict': True}),
                                    ('framework.Erhg_graded', [g0] + a8[:2] + a8[3:], {'get_dict': True, 'Cvt_eq_Cvs': True}),
                                    ('framework.Cvs_Erhg', a8, {'get_dict': True}), ('framework.Cvt_Erhg', a8, {'get_dict': True}),
                                    ('framework.create_fracs', [g0, b['Dp'], b['nu'], b['rhol'], b['rhos']], {})):
                mod_, name_ = fn_.split('.')
                ctx.count('evaluations')
                try:
                    r1 = getattr(mods[mod_], name_)(*[dict(a) if isinstance(a, dict) else a for a in args_], **kw_)
                    wreck(r1)
                    r2 = ('ok', getattr(mods[mod_], name_)(*[dict(a) if isinstance(a, dict) else a for a in args_], **kw_))
                except Exception as e:   # noqa
                    r2 = ('exc', type(e).__name__)
                want = fresh.call(fn_, args_, kw_, True, True)
                if r2[0] != want[0] or (r2[0] == 'ok' and not same(r2[1], want[1])):
                    ctx.violation(f'{fn_}: after the caller wrecked the result of the first call, the same call returns {str(r2)[:160]}; a fresh interpreter returns {str(want)[:160]}',
                                  {'function': fn_, 'args': [str(a) for a in args_], 'kwargs': kw_}, key='returned-object-aliased')
                events.add((fn_, 'wrecked-result'))
        # objects: a pipeline's heads depend on its sections and slurry parameters, not on what the caller does to containers a slurry object returned
        # earlier (its grading dict, its velocity list, its tabulated curves)
        from DHLLDV.PipeObj import Pipe, Pipeline
        for _ in range(ctx.n(4, 60)):
            pp = E.slurry_params(ctx.rng)
            try:
                sl = E.make_slurry(pp, max_index=20)
                d_other = ctx.rng.choice([x for x in (0.4, 0.5, 0.6, 0.762, 0.9) if x != pp['Dp']])
                pl = Pipeline(pipe_list=[Pipe('a', pp['Dp'], 0.0, 0.5, -4.0), Pipe('b', d_other, 300.0, 0.5, 1.0), Pipe('c', pp['Dp'], 500.0, 1.0, 2.0)], slurry=sl)
                Qs = [0.25 * 3.14159 * pp['Dp'] ** 2 * v for v in (2.0, 4.0)]
                ctx.count('evaluations')
                h1 = [pl.calc_system_head(Q) for Q in Qs]
                g1 = pl.hydraulic_gradient(Qs[0])
                import copy as _cp
                ldv_before = _cp.deepcopy([sl.LDV_curves, sl.LDV85_curves])
                got = [sl.GSD, sl.vls_list, sl.Erhg_curves, sl.im_curves, sl.LDV_curves, sl.LDV85_curves]
                for c_ in got:
                    wreck(c_)
                h2 = [pl.calc_system_head(Q) for Q in Qs]
                g2 = pl.hydraulic_gradient(Qs[0])
                # and ANOTHER slurry object with the same parameters, built afterwards, tabulates what the first one tabulated before the caller touched anything
                sl2 = E.make_slurry(pp, max_index=20)
                ldv_after = [sl2.LDV_curves, sl2.LDV85_curves]
                if not same(ldv_before, ldv_after):
                    ctx.violation('after the caller wrecked the containers one slurry object had returned, a second slurry object with the same parameters tabulates other LDV curves '
                                  f'(Cv grid now starts {str(ldv_after[0].get("Cv", [])[:3])})', {'slurry': pp}, key='returned-object-aliased')
                if not (same(h1, h2) and same(g1, g2)):
                    ctx.violation(f'after the caller wrecked the grading dict / velocity list / curve tables the slurry object had returned, the pipeline reports {str(h2)[:120]} instead of {str(h1)[:120]}',
                                  {'slurry': pp, 'diameters': [pp['Dp'], d_other]}, key='returned-object-aliased')
                events.add(('pipeline', 'wrecked-slurry-containers'))
            except Exception as e:   # noqa
                ctx.violation(f'pipeline / slurry object stratum raised {type(e).__name__}: {e}', {'slurry': pp}, key='returned-object-aliased')
        # pump objects built WITHOUT a slurry (they get a default one): what one of them is asked, or what is done to its slurry, leaves no trace in another
        try:
            import pipegen as G_
            from DHLLDV.PumpObj import Pump as _Pump
            for name_ in sorted(G_.example_pumps())[:2]:
                base_ = G_.example_pumps()[name_]

                def bare():
                    from DHLLDV.DHLLDV_Utils import interpDict as _iD
                    return _Pump(name=base_.name, design_speed=base_.design_speed, design_impeller=base_.design_impeller, suction_dia=base_.suction_dia,
                                 disch_dia=base_.disch_dia, design_QH_curve=_iD(dict(base_.design_QH_curve)), design_QP_curve=_iD(dict(base_.design_QP_curve)),
                                 avail_power=base_.avail_power, limited=base_.limited)
                Qp = 0.5 * max(base_.design_QH_curve.keys())
                ctx.count('evaluations')
                ref = bare().point(Qp)
                a_ = bare()
                a_.slurry.Cv = 0.30
                a_.slurry.D50 = 0.4e-3
                a_.point(Qp)
                b_ = bare()
                got_b = b_.point(Qp)
                if not same(list(ref), list(got_b)):
                    ctx.violation(f'a pump built without a slurry answers {str(got_b)[:120]} after ANOTHER such pump had its own slurry edited (Cv=0.30, D50=0.4 mm); '
                                  f'before that edit the same query gave {str(ref)[:120]}', {'pump': name_, 'Q': Qp}, key='returned-object-aliased')
                events.add(('pump', 'default-slurry'))
        except Exception as e:   # noqa
            ctx.violation(f'pump default-slurry stratum raised {type(e).__name__}: {e}', {}, key='returned-object-aliased')
        # a function may not edit the containers it is given: the same call repeated with the caller's own list / dict gives the same answer
        import copy as _copy
        import unit_conv as UC
        from DHLLDV import DHLLDV_framework as FW
        vals = [0.5, 1.0, 2.5, 4.0, 7.25]
        for label, fn, mk in ([(f'unit_conv.convert_list(factor {k})', (lambda a, c=c: UC.convert_list(c, a)), (lambda: list(vals)))
                               for tab in (UC.unit_conv_US, UC.unit_conv_SI) for k, c in tab.items()] +
                              [('framework.create_fracs', (lambda a: FW.create_fracs(a, 0.5, 1.0508e-6, 1.0248, 2.65)), (lambda: {0.15: 2e-4, 0.5: 4e-4, 0.85: 1.1e-3})),
                               ('framework.Erhg_graded', (lambda a: FW.Erhg_graded(a, 3.0, 0.5, 4.5e-5, 1.0508e-6, 1.0248, 2.65, 0.2)), (lambda: {0.15: 2e-4, 0.5: 4e-4, 0.85: 1.1e-3}))]):
            ctx.count('evaluations')
            arg = mk()
            before = _copy.deepcopy(arg)
            try:
                r1 = _copy.deepcopy(fn(arg))
                changed = arg != before
                r2 = fn(arg)
                r3 = fn(mk())
            except Exception as e:   # noqa
                ctx.violation(f'{label} raised {type(e).__name__}: {e}', {'argument': before}, key='argument-edited')
                continue
            if changed or not same(r1, r2) or not same(r1, r3):
                ctx.violation(f'{label}: ' + ('the argument was edited in place; ' if changed else '') +
                              f'first call {str(r1)[:80]}, the same call again {str(r2)[:80]}, with a fresh equal argument {str(r3)[:80]}',
                              {'argument': before, 'argument_after_the_call': arg if changed else None}, key='argument-edited')
            events.add((label, 'argument-preserved'))
    finally:
        F.use_sf, F.use_sqrtcx = True, True
        fresh.close()
    ctx.stats['distinct_nontrivial'] = len(events)
