"""Shared machinery of the checks: regeneration of the Lean model from /repo, lake builds, the axiom
audit, the line-protocol bridge to the executable model, evidence and verdicts (DESIGN.md §3.4/3.5)."""
import fcntl
import json
import math
import contextlib
import os
import signal
import random
import re
import struct
import subprocess
import sys
import time

VERIF = os.path.dirname(os.path.dirname(os.path.abspath(__file__)))
REPO = os.environ.get('DHLLDV_REPO', '/repo')
LEAN_DIR = os.path.join(VERIF, 'lean')
GEN_DIR = os.path.join(LEAN_DIR, 'Dhlldv', 'Gen')
PY = '/venv/bin/python'
ALLOWED_AXIOMS = {'propext', 'Classical.choice', 'Quot.sound'}
TRUSTED_BASE = [
    'Lean 4.33 kernel; axioms propext, Classical.choice, Quot.sound only (audited by #print axioms on every run)',
    'py2lean translator (/verif/py2lean) for the restricted Python subset, cross-checked bit-for-bit on every run',
    'Transc primitive table: Real.log/exp/rpow/sin/... at R  <->  glibc log/exp/pow/sin/... at Float',
    'theorems are about the exact-arithmetic (R) reading; IEEE rounding is outside the theorems and measured by the correspondence check',
]

for p in (os.path.join(REPO, 'src'), REPO, os.path.join(REPO, 'DHLLDV_viewer')):
    if p not in sys.path:
        sys.path.insert(0, p)


# ----------------------------------------------------------------------------- floats <-> bits
def bits(x):
    return struct.unpack('<Q', struct.pack('<d', float(x)))[0]


def unbits(n):
    return struct.unpack('<d', struct.pack('<Q', int(n)))[0]


def is_real_finite(x):
    return isinstance(x, (int, float)) and not isinstance(x, bool) and math.isfinite(x)


def enc(v):
    """encode one argument for the line protocol"""
    if isinstance(v, bool):
        return '1' if v else '0'
    if isinstance(v, int):
        return str(v)
    return str(bits(v))


# ----------------------------------------------------------------------------- subprocess helpers
def sh(cmd, cwd=None, timeout=3600, input=None):
    env = dict(os.environ)
    r = subprocess.run(cmd, shell=True, cwd=cwd, capture_output=True, text=True, timeout=timeout, input=input, env=env)
    out = '\n'.join(l for l in (r.stdout + r.stderr).splitlines() if 'conda' not in l.lower())
    return r.returncode, out


class LakeLock:
    def __enter__(self):
        os.makedirs(os.path.join(LEAN_DIR, '.lake'), exist_ok=True)
        self.fh = open(os.path.join(LEAN_DIR, '.lake', 'verif.lock'), 'w')
        fcntl.flock(self.fh, fcntl.LOCK_EX)
        return self

    def __exit__(self, *a):
        fcntl.flock(self.fh, fcntl.LOCK_UN)
        self.fh.close()


def regenerate():
    """Step 1: regenerate Gen/*.lean from the working tree. Returns (ok, message)."""
    with LakeLock():
        rc, out = sh(f'{PY} {VERIF}/py2lean/translate.py {REPO} {GEN_DIR}')
        if rc == 0:
            rc2, out2 = sh(f'{PY} {VERIF}/py2lean/effects.py {REPO} {GEN_DIR}')
            if rc2 != 0:
                return False, out2
            out += '\n' + out2
    return rc == 0, out


def lake_build(targets, timeout=3000):
    """Step 2: build the given modules. Returns (ok, log)."""
    with LakeLock():
        rc, out = sh('lake build ' + ' '.join(targets), cwd=LEAN_DIR, timeout=timeout)
    return rc == 0, out


def theorem_names(prop_files):
    names = []
    for f in prop_files:
        path = os.path.join(LEAN_DIR, f)
        if not os.path.exists(path):
            continue
        txt = strip_comments(open(path).read())
        ns = []
        for line in txt.splitlines():
            m = re.match(r'^\s*namespace\s+(\S+)', line)
            if m:
                ns.append(m.group(1))
                continue
            m = re.match(r'^\s*end\s+(\S+)', line)
            if m and ns and ns[-1] == m.group(1):
                ns.pop()
                continue
            m = re.match(r'^\s*(?:private\s+|protected\s+)?theorem\s+([^\s:({\[]+)', line)
            if m:
                names.append('.'.join(ns + [m.group(1)]))
    return names


def strip_comments(txt):
    txt = re.sub(r'/-.*?-/', '', txt, flags=re.S)
    txt = re.sub(r'--.*', '', txt)
    return txt


FORBIDDEN = re.compile(r'\b(sorry|admit|native_decide|bv_decide|implemented_by|unsafe)\b|^\s*axiom\s|maxHeartbeats\s+0\b', re.M)


def audit(prop_modules, tag):
    """Step 3: forbidden-token grep over all hand-written Lean + `#print axioms` of every property theorem.
    Returns (ok, report dict)."""
    report = {'forbidden': [], 'axioms': {}, 'theorems': []}
    for root, _, files in os.walk(os.path.join(LEAN_DIR, 'Dhlldv')):
        for fn in files:
            if fn.endswith('.lean'):
                p = os.path.join(root, fn)
                for m in FORBIDDEN.finditer(strip_comments(open(p).read())):
                    report['forbidden'].append(f'{os.path.relpath(p, LEAN_DIR)}: {m.group(0).strip()}')
    files = [m.replace('.', '/') + '.lean' for m in prop_modules]
    names = theorem_names(files)
    report['theorems'] = names
    if not names:
        return False, report
    os.makedirs(os.path.join(LEAN_DIR, '.audit'), exist_ok=True)
    af = os.path.join(LEAN_DIR, '.audit', f'Audit_{tag}.lean')
    with open(af, 'w') as fh:
        for m in prop_modules:
            fh.write(f'import {m}\n')
        for n in names:
            fh.write(f'#print axioms {n}\n')
    with LakeLock():
        rc, out = sh(f'lake env lean {af}', cwd=LEAN_DIR, timeout=1200)
    report['raw_rc'] = rc
    cur = None
    for m in re.finditer(r"'([^']+)' (depends on axioms: \[([^\]]*)\]|does not depend on any axioms)", out, re.S):
        ax = [a.strip() for a in (m.group(3) or '').replace('\n', ' ').split(',') if a.strip()]
        report['axioms'][m.group(1)] = ax
    ok = rc == 0 and not report['forbidden'] and all(n in report['axioms'] for n in names) \
        and all(set(ax) <= ALLOWED_AXIOMS for ax in report['axioms'].values())
    if not ok:
        report['raw'] = out[-2000:]
    return ok, report


# ----------------------------------------------------------------------------- executable model
def run_model(lines, timeout=3000):
    """Pipe operation lines through the Lean driver (α := Float). Returns the list of output lines."""
    if not lines:
        return []
    with LakeLock():
        pass  # make sure no build is in flight
    r = subprocess.run('lake env lean --run Driver.lean', shell=True, cwd=LEAN_DIR, capture_output=True, text=True,
                       input='\n'.join(lines) + '\n', timeout=timeout)
    out = [l for l in r.stdout.splitlines()]
    if r.returncode != 0 or len(out) != len(lines):
        raise ModelError(f'driver rc={r.returncode}, {len(out)} lines for {len(lines)} ops: {r.stderr[-1500:]}')
    return out


class ModelError(Exception):
    pass


def signatures():
    return json.load(open(os.path.join(GEN_DIR, 'signatures.json')))


def parse_dict(s):
    d = {}
    for item in s.split(' '):
        if not item:
            continue
        k, v = item.split('=', 1)
        d[k] = v[2:] if v.startswith('s:') else unbits(v)
    return d


def canon_py(fn, *a, **kw):
    """Call the implementation; canonicalise the outcome: ('ok', value) | ('nonreal', info) | ('exc', class name)."""
    try:
        with time_limit(60):
            r = fn(*a, **kw)
    except Exception as e:     # noqa  (a call that does not return within 60 s counts as the exception class CallTimeout)
        return ('exc', type(e).__name__)
    return ('ok', r)


def same_float(a, b):
    """bit-for-bit equality of two doubles (NaN == NaN)"""
    return bits(a) == bits(b) or (a != a and b != b)


class CallTimeout(Exception):
    pass


@contextlib.contextmanager
def time_limit(seconds):
    """raise CallTimeout in the calling (main) thread if the block does not finish in time: a call into the implementation that does not return
    is a finding ('returns ...' / 'terminates'), not a reason for the check itself to hang"""
    def handler(signum, frame):
        raise CallTimeout()
    old = signal.signal(signal.SIGALRM, handler)
    signal.setitimer(signal.ITIMER_REAL, seconds)
    try:
        yield
    finally:
        signal.setitimer(signal.ITIMER_REAL, 0)
        signal.signal(signal.SIGALRM, old)


TIE_REL = 1e-12


def tie_equal(ctx, a, b, scale=0.0, rel=TIE_REL):
    """Equality of an executable hand-written model and the implementation on one double.
    The theorems are about the exact-arithmetic reading of the model, so the tie that matters is "same real-number function": bit-for-bit equality
    is recorded when it holds (it does on the unchanged tree); a difference of a few ulps (a re-associated sum, x*x for x**2 - rewrites that do not
    change the function over R) is accepted and counted separately, anything beyond 1e-12 of the magnitudes involved is a disagreement."""
    a, b = float(a), float(b)
    if same_float(a, b):
        ctx.count('tie_bit_exact')
        return True
    if is_real_finite(a) and is_real_finite(b) and abs(a - b) <= rel * max(abs(a), abs(b), scale):
        ctx.count('tie_within_rounding')
        return True
    return False


def tie_equal_vec(ctx, xs, ys, rel=TIE_REL):
    """vectors whose entries are sums that may cancel (heads): the scale is the largest magnitude in either vector"""
    xs, ys = [float(x) for x in xs], [float(y) for y in ys]
    if len(xs) != len(ys):
        return False
    fin = [abs(v) for v in xs + ys if is_real_finite(v)]
    scale = max(fin) if fin else 0.0
    return all(tie_equal(ctx, x, y, scale, rel) for x, y in zip(xs, ys))


def rel_close(a, b, tol):
    if a == b:
        return True
    if not (is_real_finite(a) and is_real_finite(b)):
        return False
    return abs(a - b) <= tol * max(abs(a), abs(b), 1e-300)


# ----------------------------------------------------------------------------- check context
class Ctx:
    def __init__(self, pid, tier, seed):
        self.pid, self.tier, self.seed = pid, tier, seed
        self.rng = random.Random(f'{pid}-{seed}')
        self.t0 = time.time()
        self.violations = []       # dicts: {'what':..., 'input':..., 'key': (for known-finding matching)}
        self.mismatches = []       # correspondence disagreements
        self.samples = []
        self.stats = {}
        self.notes = []
        self.thorough = tier == 'thorough'

    def n(self, quick, thorough):
        return thorough if self.thorough else quick

    def violation(self, what, input_, key=None, **extra):
        # at most 50 recorded per key (a listed finding that shows often must not crowd out a different violation), 400 in all
        k = key or what
        self._per_key = getattr(self, '_per_key', {})
        if self._per_key.get(k, 0) < 50 and len(self.violations) < 400:
            self._per_key[k] = self._per_key.get(k, 0) + 1
            self.violations.append(dict(what=what, input=input_, key=k, **extra))
        self.stats['violations_seen'] = self.stats.get('violations_seen', 0) + 1

    def mismatch(self, what, input_, model, impl):
        if len(self.mismatches) < 50:
            self.mismatches.append(dict(what=what, input=input_, model=model, impl=impl))
        self.stats['mismatches_seen'] = self.stats.get('mismatches_seen', 0) + 1

    def count(self, k, n=1):
        self.stats[k] = self.stats.get(k, 0) + n

    def sample(self, s):
        if len(self.samples) < 6:
            self.samples.append(s)


def load_known():
    p = os.path.join(VERIF, 'known_findings.json')
    if not os.path.exists(p):
        return {'findings': [], 'fixed': []}
    return json.load(open(p))


def write_json(path, obj):
    os.makedirs(os.path.dirname(path), exist_ok=True)
    tmp = path + '.tmp'
    with open(tmp, 'w') as fh:
        json.dump(obj, fh, indent=1, default=str)
    os.replace(tmp, path)


# ----------------------------------------------------------------------------- generated-function correspondence
def gen_lines(op, lean_args_list, sig):
    """operation lines for a generated function. `lean_args` are the explicit parameters in source order
    (without get_dict); fuel and the two module switches are prepended here as the signature demands:
    lean_args may be a dict {'args': [...], 'switches': (sf, sq), 'fuel': n}."""
    lines = []
    for la in lean_args_list:
        if isinstance(la, dict):
            args, sw, fuel = la['args'], la.get('switches', (True, True)), la.get('fuel', 1000)
        else:
            args, sw, fuel = la, (True, True), 1000
        pre = []
        if sig['has_fuel']:
            pre.append(str(fuel))
        if sig['reads_switches']:
            pre += [enc(bool(sw[0])), enc(bool(sw[1]))]
        lines.append(op + ' ' + ' '.join(pre + [enc(a) for a in args]))
    return lines


def decode_result(sig, s):
    if s == 'bad-op':
        raise ModelError('driver answered bad-op')
    ret = sig['ret']
    if ret == 'num':
        return unbits(s)
    if ret == 'str':
        return s[2:]
    if ret == 'dict':
        return parse_dict(s)
    return tuple(unbits(x) for x in s.split(' '))


def values_equal_exact(a, b):
    if isinstance(a, dict) and isinstance(b, dict):
        return a.keys() == b.keys() and all(values_equal_exact(a[k], b[k]) for k in a)
    if isinstance(a, (tuple, list)) and isinstance(b, (tuple, list)):
        return len(a) == len(b) and all(values_equal_exact(x, y) for x, y in zip(a, b))
    if isinstance(a, str) or isinstance(b, str):
        return a == b
    if isinstance(a, complex) or isinstance(b, complex):
        return False
    return same_float(float(a), float(b))


def py_outcome_real(r):
    """True if the implementation's result is made of finite reals / strings only"""
    if isinstance(r, dict):
        return all(py_outcome_real(v) for v in r.values())
    if isinstance(r, (tuple, list)):
        return all(py_outcome_real(v) for v in r)
    if isinstance(r, str):
        return True
    return is_real_finite(r)


def compare_gen(ctx, op, pyfunc, cases, label=None):
    """cases: list of (lean_args | dict, py_args, py_kwargs[, setup]) — `setup()` is called before the
    implementation call (e.g. to set module switches).  Bit-exact comparison wherever the implementation returns
    finite reals; elsewhere only counted."""
    sig = signatures()[op]
    lines = gen_lines(op, [c[0] for c in cases], sig)
    outs = run_model(lines)
    label = label or op
    for c, line, o in zip(cases, lines, outs):
        if len(c) > 3 and c[3]:
            c[3]()
        kind, r = canon_py(pyfunc, *c[1], **c[2])
        ctx.count('corr_compared')
        if kind == 'exc' or not py_outcome_real(r):
            ctx.count('corr_impl_nonreal')
            continue
        m = decode_result(sig, o)
        if not values_equal_exact(m, r):
            ctx.mismatch(f'{label}: executable model differs from the implementation', {'op_line': line, 'py_args': list(c[1]), 'py_kwargs': c[2]},
                         m, r)
