"""Generators of pipelines, pumps and drivers for the pipeline / pump properties (C09, C10, C11, C14, C15, C16)."""
import copy
import math

import envelope as E


def example_pumps():
    import ExamplePumps as X
    return {'Ladder_Pump': X.Ladder_Pump, 'Main_Pump': X.Main_Pump, 'Ladder_Pump600': X.Ladder_Pump600, 'Main_Pump500': X.Main_Pump500}


def clone_pump(p, **over):
    """an independent pump with the same design data (curves copied), optionally overriding constructor fields"""
    from DHLLDV.PumpObj import Pump
    from DHLLDV.DHLLDV_Utils import interpDict
    kw = dict(name=p.name, design_speed=p.design_speed, design_impeller=p.design_impeller, suction_dia=p.suction_dia,
              disch_dia=p.disch_dia, design_QH_curve=interpDict(dict(p.design_QH_curve)), design_QP_curve=interpDict(dict(p.design_QP_curve)),
              avail_power=p.avail_power, limited=p.limited, driver=p.driver, driver_name=p.driver_name, gear_ratio=p.gear_ratio)
    kw.update(over)
    return Pump(**kw)


def make_driver(rng, pump, gear_ratio, shape=None, nameplate=None):
    """a driver power curve (speed Hz -> kW) covering 0.3 .. 1.0 of the pump's design speed (at the driver shaft: x gear ratio)"""
    from DHLLDV.DriverObj import Driver
    from DHLLDV.DHLLDV_Utils import interpDict
    shape = shape or rng.choice(['linear', 'flat-top', 'engine'])
    nameplate = nameplate or pump.avail_power
    n0 = pump.design_speed * gear_ratio
    pts = {}
    for f in (0.3, 0.5, 0.7, 0.8, 0.9, 1.0):
        if shape == 'linear':
            pw = nameplate * f
        elif shape == 'flat-top':
            pw = nameplate * min(1.0, f / 0.8)
        else:
            pw = nameplate * (1 - (1 - f) ** 2 * 1.3)
        pts[n0 * f] = pw
    return Driver(name=f'{shape} driver', design_power_curve=interpDict(pts))


def random_pump(rng, which=None, mode=None, vary=False, gear=None):
    pumps = example_pumps()
    name = which or rng.choice(sorted(pumps))
    base = pumps[name]
    mode = mode or rng.choice(['torque', 'power', 'curve', 'None'])
    over = {'limited': mode, 'avail_power': base.avail_power * rng.choice([0.5, 0.8, 1.0, 1.0, 1.3])}
    if mode == 'curve':
        gr = gear or rng.choice([1.0, 2.0, 4.5, 0.8, 2.857])   # step-up gears (ratio < 1) are as legitimate as reduction gears
        over['gear_ratio'] = gr
        over['driver'] = make_driver(rng, base, gr, nameplate=over['avail_power'])
        over['driver_name'] = over['driver'].name
    p = clone_pump(base, **over)
    p._example = name
    if vary:
        vary_setting(rng, p)
    return p


def vary_setting(rng, p):
    """operating settings that are not constructor fields: reduced set speed and / or trimmed impeller"""
    r = rng.random()
    if r < 0.45:
        p.current_speed = p.design_speed * rng.choice([0.7, 0.8, 0.85, 0.9, 0.95])
    if 0.3 <= r < 0.6:
        p.current_impeller = p.design_impeller * rng.choice([0.85, 0.9, 0.95])


def random_pipeline(rng, n_pumps=None, slurry=None, entrance_zero=None, dia_choices=(0.4, 0.5, 0.6, 0.65, 0.7, 0.762, 0.85, 0.9), vary_speed=False):
    """pipeline of 2-8 pipe sections beginning and ending with a pipe, 0-3 pumps in between"""
    from DHLLDV.PipeObj import Pipe, Pipeline
    n_pipes = rng.randint(2, 8)
    n_pumps = rng.randint(0, 3) if n_pumps is None else n_pumps
    dias = rng.sample(list(dia_choices), rng.randint(1, min(3, len(dia_choices))))
    if rng.random() < 0.25:
        # nearly equal diameters are different diameters: a nominal size beside the same size converted from inches, new pipe beside worn pipe
        dias.append(rng.choice(dias) + rng.choice([0.0004, -0.0004, 0.0008]))
    if slurry is None:
        p = E.slurry_params(rng)
        p['Dp'] = rng.choice(dias) if rng.random() < 0.8 else p['Dp']
        # D50 must stay above the limit for every diameter in the line and below 0.25 Dp of the smallest
        nu, rhol = E.fluids()[p['fluid']]
        lo = max(max(E.dlim(d, nu, rhol, p['rhos']) for d in dias + [p['Dp']]), 5e-5) * 1.001
        p['D50'] = min(max(p['D50'], lo), 3e-3)
        p['r85'] = min(p['r85'], 0.5 * min(dias) / p['D50'])
        slurry = E.make_slurry(p, max_index=100)
        slurry._params = p
    secs = []
    zero_first = (rng.random() < 0.6) if entrance_zero is None else entrance_zero
    for i in range(n_pipes):
        d = rng.choice(dias)
        if i == 0 and zero_first:
            # suction submergence mostly; the documented lift range -15..+10 m also allows a mouth at or above the water line
            r0 = rng.random()
            z0 = rng.uniform(-15.0, -1.0) if r0 < 0.6 else (rng.uniform(0.5, 10.0) if r0 < 0.8 else (0.0 if r0 < 0.87 else rng.uniform(-1.0, 1.0)))
            secs.append(Pipe(f'Entrance', d, 0.0, rng.choice([0.0, 0.5, 1.0]), z0))
            continue
        r = rng.random()
        L = 0.0 if (r < 0.12 and 0 < i < n_pipes - 1) else (rng.uniform(1.0, 50.0) if r < 0.5 else rng.uniform(50.0, 3000.0))
        # section names are labels: several lengths of 'Pontoon pipe', or sections left on the class default name, are ordinary
        nm = f'pipe {i}' if rng.random() < 0.65 else rng.choice(['Pontoon pipe', 'Pipe Section', 'pipe 1'])
        secs.append(Pipe(nm, d, L, rng.choice([0.0, 0.1, 0.5, 1.0, 2.0]), rng.uniform(-15.0, 10.0) if L > 0 or rng.random() < 0.5 else 0.0))
    if zero_first and len(secs) >= 2 and rng.random() < 0.12:
        # an interior fitting that is a field-for-field twin of the zero-length entrance (rows copied in a table, sections left on default names): it is an
        # interior zero-length section like any other
        e0 = secs[0]
        secs.insert(rng.randint(1, len(secs) - 1), Pipe(e0.name, e0.diameter, 0.0, e0.total_K, e0.elev_change))
    # pumps anywhere strictly between the first and the last pipe
    placed = []
    for _ in range(n_pumps):
        pos = rng.randint(1, len(secs) - 1)
        if vary_speed and placed and rng.random() < 0.4:
            # a second pump of the same model and drive (equal constructor fields) run at its own speed / trim
            q = clone_pump(placed[0])
            q._example = placed[0]._example
            q.current_speed = placed[0].current_speed * rng.choice([0.8, 0.85, 0.9, 1.0])
            q.current_impeller = placed[0].current_impeller * rng.choice([0.9, 0.95, 1.0, 1.0])
        else:
            q = random_pump(rng, vary=vary_speed)
        placed.append(q)
        secs.insert(pos, q)
    pl = Pipeline(name='generated', pipe_list=secs, slurry=slurry)
    return pl


def flows_for(rng, pl, k=3, vlo=0.5, vhi=8.0):
    """flows giving vlo..vhi m/s in every pipe of the line"""
    from DHLLDV.PipeObj import Pipe
    dmin = min(p.diameter for p in pl.pipesections if isinstance(p, Pipe))
    dmax = max(p.diameter for p in pl.pipesections if isinstance(p, Pipe))
    qlo = vlo * math.pi * dmax ** 2 / 4
    qhi = vhi * math.pi * dmin ** 2 / 4
    if qhi <= qlo:
        qlo, qhi = qhi * 0.5, qhi
    return [rng.uniform(qlo, qhi) for _ in range(k)]


def describe(pl):
    from DHLLDV.PipeObj import Pipe
    out = []
    for s in pl.pipesections:
        if isinstance(s, Pipe):
            out.append(('pipe', s.diameter, s.length, s.total_K, s.elev_change))
        else:
            out.append(('pump', getattr(s, '_example', s.name), s.limited, s.avail_power, s.gear_ratio, s.current_speed, s.current_impeller,
                        sorted(s.driver.design_power_curve.items()) if s.limited == 'curve' and s.driver else None))
    sl = pl.slurry
    return {'sections': out, 'slurry': getattr(sl, '_params', {'Dp': sl.Dp, 'D50': sl.D50, 'fluid': sl.fluid, 'Cv': sl.Cv, 'rhos': sl.rhos})}


def fresh_slurry_like(sl, Dp):
    """independent slurry with the parameters of `sl` at diameter Dp (grading shape recovered from sl)"""
    from DHLLDV.SlurryObj import Slurry
    pr = getattr(sl, '_params', None) or {}
    if 'r15' in pr and 'r85' in pr:
        # the generator knows the grading shape it asked for: no need to recover it from the discretised grading (which loses D15 when D50 lies
        # below the pseudo-liquid limit of the present diameter)
        r15, r85 = pr['r15'], pr['r85']
    else:
        r15 = sl.get_dx(0.5) / sl.get_dx(0.15)
        r85 = sl.get_dx(0.85) / sl.get_dx(0.5)
    s = Slurry(Dp=Dp, D50=sl.D50, fluid=sl.fluid, Cv=sl.Cv, max_index=sl.max_index)
    s.rhos = sl.rhos
    s.rhoi = sl.rhoi
    s.epsilon = sl.epsilon
    s.generate_GSD(d15_ratio=r15, d85_ratio=r85)
    return s


def rebuild(desc):
    """re-create a pipeline from `describe()` output (replays, known findings)"""
    from DHLLDV.PipeObj import Pipe, Pipeline
    from DHLLDV.DriverObj import Driver
    from DHLLDV.DHLLDV_Utils import interpDict
    sp = dict(desc['slurry'])
    sl = E.make_slurry(sp)
    sl._params = sp
    secs = []
    for i, s in enumerate(desc['sections']):
        if s[0] == 'pipe':
            secs.append(Pipe(f'pipe {i}', s[1], s[2], s[3], s[4]))
        else:
            _, name, limited, avail, gear, speed, imp = s[:7]
            ex = example_pumps()
            base = ex[name] if name in ex else next(b for b in ex.values() if b.name == name)
            over = {'limited': limited, 'avail_power': avail, 'gear_ratio': gear}
            if limited == 'curve':
                curve = s[7] if len(s) > 7 and s[7] else None
                if curve:
                    over['driver'] = Driver(name='driver', design_power_curve=interpDict(dict((float(k), float(v)) for k, v in curve)))
                else:
                    import random
                    over['driver'] = make_driver(random.Random(0), base, gear, shape='linear', nameplate=avail)
                over['driver_name'] = over['driver'].name
            p = clone_pump(base, **over)
            p._example = name
            p.current_speed = speed
            p.current_impeller = imp
            secs.append(p)
    return Pipeline(name='rebuilt', pipe_list=secs, slurry=sl)
