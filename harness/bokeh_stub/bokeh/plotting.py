from . import Obj, Auto


class Figure(Obj):
    def __init__(self, *a, tools='', **kw):
        for r in ('x_range', 'y_range'):
            v = kw.get(r)
            if isinstance(v, (list, tuple)):
                kw[r] = Obj(start=v[0], end=v[1])
        super().__init__(**kw)
        object.__setattr__(self, 'tools', [Auto() for _ in str(tools).split(',') if _])
        object.__setattr__(self, 'extra_x_ranges', {})
        object.__setattr__(self, 'extra_y_ranges', {})

    def line(self, *a, **k):
        return Auto()

    def circle_dot(self, *a, **k):
        return Auto()

    def scatter(self, *a, **k):
        return Auto()

    def add_layout(self, *a, **k):
        pass

    def add_tools(self, *a, **k):
        pass


def figure(*a, **kw):
    return Figure(*a, **kw)
