"""Behavioural stand-in for the part of the bokeh widget API that DHLLDV_viewer uses (C17).
Keyword arguments become attributes; `on_change` callbacks fire when an attribute is assigned a different value; `on_click` callbacks
fire on `click()`. Anything else is a permissive auto-created object. This is NOT bokeh: it only keeps the callback wiring observable."""


class Obj:
    def __init__(self, *args, **kw):
        object.__setattr__(self, '_cbs', {})
        object.__setattr__(self, '_click', [])
        kids = list(args[0]) if len(args) == 1 and isinstance(args[0], (list, tuple)) else list(args)
        object.__setattr__(self, 'children', kids)
        for k, v in kw.items():
            object.__setattr__(self, k, v)

    def __getattr__(self, name):
        if name.startswith('__'):
            raise AttributeError(name)
        v = Auto()
        object.__setattr__(self, name, v)
        return v

    def __setattr__(self, name, value):
        old = self.__dict__.get(name, None)
        object.__setattr__(self, name, value)
        if old != value:
            for cb in list(self._cbs.get(name, [])):
                cb(name, old, value)

    def on_change(self, attr, *cbs):
        self._cbs.setdefault(attr, []).extend(cbs)

    def remove_on_change(self, attr, *cbs):
        for cb in cbs:
            if cb in self._cbs.get(attr, []):
                self._cbs[attr].remove(cb)

    def on_click(self, cb):
        self._click.append(cb)

    def on_event(self, *a, **k):
        pass

    def click(self, *a):
        for cb in list(self._click):
            cb(*a)


class Auto(Obj):
    def __call__(self, *a, **k):
        return Auto()

    def __getitem__(self, i):
        d = self.__dict__.setdefault('_items', {})
        if i not in d:
            d[i] = Auto()
        return d[i]

    def __setitem__(self, i, v):
        self.__dict__.setdefault('_items', {})[i] = v

    def __iter__(self):
        return iter([])

    def append(self, x):
        d = self.__dict__.setdefault('_items', {})
        d[len(d)] = x


class Event:
    def __init__(self, item):
        self.item = item
