from . import Obj


class Doc(Obj):
    def add_root(self, r):
        object.__setattr__(self, 'root', r)


_doc = Doc()


def curdoc():
    return _doc
