from .. import Obj, Auto


class ColumnDataSource(Obj):
    pass


class TextInput(Obj):
    def __init__(self, *a, **kw):
        kw.setdefault('value', '')
        kw.setdefault('title', '')
        super().__init__(*a, **kw)


class Button(Obj):
    pass


class RadioButtonGroup(Obj):
    pass


class Spacer(Obj):
    pass


class Div(Obj):
    pass


class TabPanel(Obj):
    pass


class Tabs(Obj):
    pass


class Dropdown(Obj):
    pass


class HoverTool(Obj):
    pass


class LinearAxis(Obj):
    pass


class NumeralTickFormatter(Obj):
    pass


class Range1d(Obj):
    def __init__(self, start=None, end=None, **kw):
        super().__init__(start=start, end=end, **kw)
