from .. import Obj


class FileInput(Obj):
    def __init__(self, *a, **kw):
        kw.setdefault('filename', '')
        kw.setdefault('value', '')
        super().__init__(*a, **kw)
