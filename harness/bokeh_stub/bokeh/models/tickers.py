from .. import Obj


class FixedTicker(Obj):
    pass
