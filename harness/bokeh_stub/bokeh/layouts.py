from . import Obj


class column(Obj):
    pass


class row(Obj):
    pass
