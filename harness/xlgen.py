"""Workbooks for C15 / C16: the shipped example, workbooks produced by store_to_excel for generated pipelines, the single-fault
enumerator and the abstraction of an openpyxl workbook into the tokens of the Lean workbook model."""
import copy
import io
import os
import tempfile
import warnings

import pipegen as G
from common import REPO

EXAMPLE = os.path.join(REPO, 'DHLLDV_viewer', 'static', 'pipelines', 'Example_input.xlsx')


def load_example():
    import openpyxl
    return openpyxl.load_workbook(filename=EXAMPLE, data_only=True)


_REQ = None


def requireds():
    """the workbook format as the loader module defines it when it is first imported - a private deep copy, so that the fault sweep keeps covering the whole
    documented format even if something edits the loader's own table while the process runs"""
    global _REQ
    if _REQ is None:
        import copy
        import load_pump_excel as L
        _REQ = copy.deepcopy(L.excel_requireds)
    return _REQ


def sheet_type(title):
    ts = [t for t in requireds() if t in title.lower()]
    return ts[0] if len(ts) == 1 else None


def hx(s):
    return s.encode('utf-8').hex() or '00'[:0]


def abstract(wb):
    """tokens of the Lean workbook model for an openpyxl workbook"""
    from openpyxl.utils import range_boundaries
    toks = []
    for ws in wb.worksheets:
        names = []
        for nm, dn in ws.defined_names.items():
            addr = dn.attr_text.split('!')[1].replace('$', '')
            if ':' in addr:
                c0, r0, c1, r1 = range_boundaries(addr)
                hdr = [ws.cell(row=r0, column=c).value for c in range(c0, c1 + 1)]
                names.append(['T', hx(nm), str(len(hdr))] + [hx(h.lower()) if isinstance(h, str) else hx('\x00') for h in hdr])
            else:
                v = ws[addr].value
                if isinstance(v, (int, float)):
                    names.append(['C', hx(nm), 'num'])
                elif v is None:
                    names.append(['C', hx(nm), 'blank'])
                else:
                    names.append(['C', hx(nm), 's' + hx(str(v))])
        refs = []
        if 'pipeline' in ws.title.lower() and 'pipe_table' in ws.defined_names:
            addr = ws.defined_names['pipe_table'].attr_text.split('!')[1].replace('$', '')
            c0, r0, c1, r1 = range_boundaries(addr)
            hdr = [ws.cell(row=r0, column=c).value for c in range(c0, c1 + 1)]
            ncol = next((i for i, h in enumerate(hdr) if isinstance(h, str) and 'name' in h.lower()), None)
            if ncol is not None:
                for r in range(r0 + 1, r1 + 1):
                    v = ws.cell(row=r, column=c0 + ncol).value
                    if isinstance(v, str) and 'pump' in v.lower():
                        refs.append(hx(v.lower()))
        toks += ['S', hx(ws.title.lower()), str(len(names))] + [t for n in names for t in n] + ['R', str(len(refs))] + refs
    return toks


def faults(wb):
    """every single structural fault of the property for this workbook: list of (label, mutate(wb), expect) with
    expect = 'reject' (must raise InvalidExcelError) or 'load' (still well-formed)"""
    from openpyxl.utils import range_boundaries, get_column_letter
    out = []
    R = requireds()
    pump_refs = set()
    for ws in wb.worksheets:
        if 'pipeline' in ws.title.lower() and 'pipe_table' in ws.defined_names:
            addr = ws.defined_names['pipe_table'].attr_text.split('!')[1].replace('$', '')
            c0, r0, c1, r1 = range_boundaries(addr)
            for r in range(r0 + 1, r1 + 1):
                v = ws.cell(row=r, column=c0).value
                if isinstance(v, str) and 'pump' in v.lower():
                    pump_refs.add(v.lower().removesuffix('pump'))
    for ws in wb.worksheets:
        t = sheet_type(ws.title)
        title = ws.title
        # delete the sheet
        if t in ('pipeline', 'slurry'):
            exp = 'reject'
        elif t == 'pump':
            exp = 'reject' if title.lower().removesuffix('pump') in pump_refs else 'load'
        elif t == 'driver':
            key = title.lower().removesuffix('driver')
            pump = next((w for w in wb.worksheets if sheet_type(w.title) == 'pump' and w.title.lower().removesuffix('pump') == key), None)
            lim = None
            if pump is not None and 'limited' in pump.defined_names:
                lim = pump[pump.defined_names['limited'].attr_text.split('!')[1].replace('$', '')].value
            exp = 'reject' if lim == 'curve' else 'load'
        else:
            exp = 'load'
        out.append((f'delete sheet {title}', (lambda w, title=title: w.remove(w[title])), exp))
        if t is None:
            continue
        for fname, ftype in R[t].items():
            if fname == 'required' or fname not in ws.defined_names:
                continue

            def delname(w, title=title, fname=fname):
                del w[title].defined_names[fname]
            out.append((f'delete name {title}!{fname}', delname, 'reject'))
            addr = ws.defined_names[fname].attr_text.split('!')[1].replace('$', '')
            if ftype is float:
                for lab, val in (('blank', None), ('stringify', 'abc'), ('numeric-string', '1.5')):
                    def setcell(w, title=title, addr=addr, val=val):
                        w[title][addr].value = val
                    out.append((f'{lab} {title}!{fname}', setcell, 'reject'))
            elif isinstance(ftype, dict):
                c0, r0, c1, r1 = range_boundaries(addr)
                hdr = [ws.cell(row=r0, column=c).value for c in range(c0, c1 + 1)]
                for col_header in ftype:
                    subs = col_header if isinstance(col_header, tuple) else (col_header,)
                    idx = [i for i, h in enumerate(hdr) if isinstance(h, str) and all(x in h.lower() for x in subs)]
                    if len(idx) != 1:
                        continue
                    ci = idx[0]

                    def delcol(w, title=title, fname=fname, rng=(c0, r0, c1, r1), ci=ci):
                        s = w[title]
                        a0, b0, a1, b1 = rng
                        for r in range(b0, b1 + 1):
                            for c in range(a0 + ci, a1):
                                s.cell(row=r, column=c).value = s.cell(row=r, column=c + 1).value
                            s.cell(row=r, column=a1).value = None
                        s.defined_names[fname].attr_text = f"'{title}'!${get_column_letter(a0)}${b0}:${get_column_letter(a1 - 1)}${b1}"
                    out.append((f'delete column {title}!{fname}[{hdr[ci]}]', delcol, 'reject'))

                    def dupcol(w, title=title, fname=fname, rng=(c0, r0, c1, r1), ci=ci):
                        s = w[title]
                        a0, b0, a1, b1 = rng
                        for r in range(b0, b1 + 1):
                            s.cell(row=r, column=a1 + 1).value = s.cell(row=r, column=a0 + ci).value
                        s.defined_names[fname].attr_text = f"'{title}'!${get_column_letter(a0)}${b0}:${get_column_letter(a1 + 1)}${b1}"
                    out.append((f'duplicate column {title}!{fname}[{hdr[ci]}]', dupcol, 'reject'))
    # well-formed variants: a pump tab referenced more than once in the pipe table (the loader's docstring allows re-using pump tabs)
    for ws in wb.worksheets:
        if 'pipeline' in ws.title.lower() and 'pipe_table' in ws.defined_names:
            addr = ws.defined_names['pipe_table'].attr_text.split('!')[1].replace('$', '')
            c0, r0, c1, r1 = range_boundaries(addr)
            rows = [r for r in range(r0 + 1, r1 + 1) if ws.cell(row=r, column=c0).value is not None]
            names = [ws.cell(row=r, column=c0).value for r in rows]
            prefs = [v for v in names if isinstance(v, str) and 'pump' in v.lower()]
            interior = [r for r, v in zip(rows[1:-1], names[1:-1]) if not (isinstance(v, str) and 'pump' in v.lower())]
            for pref in prefs[:2]:
                for k in (1, 2):
                    if len(interior) >= k:
                        def reuse(w, title=ws.title, rs=tuple(interior[:k]), c=c0, pref=pref):
                            for r in rs:
                                w[title].cell(row=r, column=c).value = pref
                        out.append((f'pump tab {pref!r} used {k} more time(s) (rows {interior[:k]})', reuse, 'load'))
    # well-formed variants: pump rows spelled in another letter case than the tab ("names are not case sensitive")
    for ws in wb.worksheets:
        if 'pipeline' in ws.title.lower() and 'pipe_table' in ws.defined_names:
            addr = ws.defined_names['pipe_table'].attr_text.split('!')[1].replace('$', '')
            c0, r0, c1, r1 = range_boundaries(addr)
            prow = [(r, ws.cell(row=r, column=c0).value) for r in range(r0 + 1, r1 + 1)]
            prow = [(r, v) for r, v in prow if isinstance(v, str) and 'pump' in v.lower()]
            for label, fn in (('upper', str.upper), ('lower', str.lower), ('swapcase', str.swapcase)):
                if prow:
                    def recase(w, title=ws.title, rows=tuple(prow), c=c0, fn=fn):
                        for r, v in rows:
                            w[title].cell(row=r, column=c).value = fn(v)
                    out.append((f'pump rows in {label} case', recase, 'load'))
    # dangling pump references
    for ws in wb.worksheets:
        if 'pipeline' in ws.title.lower() and 'pipe_table' in ws.defined_names:
            addr = ws.defined_names['pipe_table'].attr_text.split('!')[1].replace('$', '')
            c0, r0, c1, r1 = range_boundaries(addr)
            rows = list(range(r0 + 1, r1 + 1))
            for r in rows[:6]:
                for ghost in ('GhostPump', 'ghost pump', 'Pump3', 'MainPump2', 'Booster Pump 2'):
                    if ghost.lower().removesuffix('pump') in pump_refs:
                        continue
                    if any(sheet_type(w.title) == 'pump' and w.title.lower().removesuffix('pump') == ghost.lower().removesuffix('pump') for w in wb.worksheets):
                        continue

                    def dangle(w, title=ws.title, r=r, c=c0, ghost=ghost):
                        w[title].cell(row=r, column=c).value = ghost
                    out.append((f'dangling pump {ghost!r} in row {r}', dangle, 'reject'))
    return out


def retitled(wb, style):
    """a well-formed variant: the first pump tab that is not curve-limited gets a title with 'pump' NOT at its end ('Pump 1', 'Booster pump (spare)');
    the pipe table refers to it by the new title. Returns None if there is no such tab."""
    from openpyxl.utils import range_boundaries
    w = clone_wb(wb)
    for ws in w.worksheets:
        if sheet_type(ws.title) != 'pump' or 'limited' not in ws.defined_names:
            continue
        lim = ws[ws.defined_names['limited'].attr_text.split('!')[1].replace('$', '')].value
        if lim == 'curve':
            continue
        old = ws.title
        new = style
        if any(x.title.lower() == new.lower() for x in w.worksheets):
            return None
        ws.title = new
        for nm, dn in list(ws.defined_names.items()):
            dn.attr_text = "'" + new + "'!" + dn.attr_text.split('!')[1]
        for pws in w.worksheets:
            if 'pipeline' in pws.title.lower() and 'pipe_table' in pws.defined_names:
                addr = pws.defined_names['pipe_table'].attr_text.split('!')[1].replace('$', '')
                c0, r0, c1, r1 = range_boundaries(addr)
                for r in range(r0 + 1, r1 + 1):
                    v = pws.cell(row=r, column=c0).value
                    if isinstance(v, str) and v.lower().removesuffix('pump') == old.lower().removesuffix('pump'):
                        pws.cell(row=r, column=c0).value = new
        return clone_wb(w)
    return None


def clone_wb(wb):
    import openpyxl
    buf = io.BytesIO()
    with warnings.catch_warnings():
        warnings.simplefilter('ignore')
        wb.save(buf)
        buf.seek(0)
        return openpyxl.load_workbook(filename=buf, data_only=True)


def outcome(wb):
    """outcome class of the loader: 'ok' | 'InvalidExcelError' | 'other:<class>'"""
    import load_pump_excel as L
    with warnings.catch_warnings():
        warnings.simplefilter('ignore')
        try:
            pl = L.load_pipeline_from_workbook(wb)
            return 'ok', pl
        except L.InvalidExcelError:
            return 'InvalidExcelError', None
        except Exception as e:   # noqa
            return 'other:' + type(e).__name__, None


def stored_workbook(rng, tmpdir, modes=None):
    """(pipeline, path, workbook) of a generated pipeline written by store_to_excel; `modes` = limit modes of the pumps to put in the line (e.g.
    ('curve', 'curve') or ('curve', 'torque', 'curve')), default: 0-3 pumps of random modes"""
    import openpyxl
    import store_pump_excel as S
    if modes is None:
        pl = G.random_pipeline(rng, n_pumps=rng.randint(0, 3))
    else:
        from DHLLDV.PipeObj import Pipeline
        pl = G.random_pipeline(rng, n_pumps=0)
        secs = list(pl.pipesections)
        last_ = None
        for m_ in modes:
            if m_ == 'twin' and last_ is not None:
                # a second pump of the same model on an equal drive (a booster that is a copy of the first pump): it needs its own driver tab like any other
                q_ = G.clone_pump(last_)
                q_._example = getattr(last_, '_example', last_.name)
            else:
                q_ = G.random_pump(rng, mode=m_)
            last_ = q_
            secs.insert(len(secs) - 1, q_)
        pl = Pipeline(name='generated', pipe_list=secs, slurry=pl.slurry)
    pl.name = rng.choice(['generated line', 'Test_1', 'A-B', 'x'])
    with warnings.catch_warnings():
        warnings.simplefilter('ignore')
        path = S.store_to_excel(pl, fname=f'wb{rng.randrange(10**6)}', path=tmpdir)
        wb = openpyxl.load_workbook(filename=path, data_only=True)
    return pl, path, wb


def upper_titles(wb):
    """a well-formed variant: every pump and driver tab title in upper case (MAINPUMP / MAINDRIVER), pipe table rows unchanged"""
    w = clone_wb(wb)
    done = False
    for ws in w.worksheets:
        if sheet_type(ws.title) in ('pump', 'driver') and ws.title != ws.title.upper():
            new = ws.title.upper()
            ws.title = f'tmp{id(ws)}'      # openpyxl compares titles case-insensitively when it avoids duplicates: step aside first
            ws.title = new
            for nm, dn in list(ws.defined_names.items()):
                dn.attr_text = "'" + new + "'!" + dn.attr_text.split('!')[1]
            done = True
    return clone_wb(w) if done else None


def tab_first(wb, kind):
    """a well-formed variant: the first tab of the given kind ('pump' / 'driver' / 'pipeline' ...) moved to the front of the workbook (tab order carries
    no meaning for the loader: tabs are found by title)"""
    w = clone_wb(wb)
    for ws in w.worksheets:
        if sheet_type(ws.title) == kind and w.index(ws) != 0:
            w.move_sheet(ws, offset=-w.index(ws))
            return clone_wb(w)
    return None


def tabs_reversed(wb):
    """a well-formed variant: all tabs in reverse order"""
    w = clone_wb(wb)
    w._sheets = list(reversed(w._sheets))
    return clone_wb(w)
