"""Oracle for C08: evaluates one call in a *fresh interpreter state* — every model module is reloaded (so lru caches and any
module-level state are reset) before each call.  JSON lines on stdin/stdout; floats travel as hex strings."""
import importlib
import json
import sys

for p in sys.argv[1:]:
    sys.path.insert(0, p)

MODS = ['DHLLDV.DHLLDV_Utils', 'DHLLDV.DHLLDV_constants', 'DHLLDV.homogeneous', 'DHLLDV.heterogeneous', 'DHLLDV.stratified',
        'DHLLDV.DHLLDV_framework', 'Wilson.Wilson_Stratified', 'Wilson.Wilson_V50']
loaded = {m: importlib.import_module(m) for m in MODS}
SHORT = {'homogeneous': 'DHLLDV.homogeneous', 'heterogeneous': 'DHLLDV.heterogeneous', 'stratified': 'DHLLDV.stratified',
         'framework': 'DHLLDV.DHLLDV_framework', 'wilson_stratified': 'Wilson.Wilson_Stratified', 'wilson_v50': 'Wilson.Wilson_V50'}


def enc(x):
    if isinstance(x, bool) or x is None or isinstance(x, str):
        return x
    if isinstance(x, int):
        return x
    if isinstance(x, float):
        return {'f': x.hex()}
    if isinstance(x, complex):
        return {'c': repr(x)}
    if isinstance(x, dict):
        return {'d': [[enc(k), enc(v)] for k, v in x.items()]}
    if isinstance(x, (list, tuple)):
        return {'l': [enc(v) for v in x]}
    return {'r': repr(x)}


def dec(x):
    if isinstance(x, dict):
        if 'f' in x:
            return float.fromhex(x['f'])
        if 'd' in x:
            return {dec(k): dec(v) for k, v in x['d']}
        if 'l' in x:
            return [dec(v) for v in x['l']]
    return x


def main():
    for line in sys.stdin:
        q = json.loads(line)
        for m in MODS:
            loaded[m] = importlib.reload(loaded[m])
        F = loaded['DHLLDV.DHLLDV_framework']
        F.use_sf, F.use_sqrtcx = q['use_sf'], q['use_sqrtcx']
        mod, name = q['fn'].split('.')
        try:
            r = getattr(loaded[SHORT[mod]], name)(*[dec(a) for a in q['args']], **{k: dec(v) for k, v in q['kwargs'].items()})
            out = {'ok': enc(r)}
        except Exception as e:   # noqa
            out = {'exc': type(e).__name__}
        sys.stdout.write(json.dumps(out) + '\n')
        sys.stdout.flush()


if __name__ == '__main__':
    main()
