#!/usr/bin/env python
"""py2lean — translate the numeric core of rcriii42/DHLLDV (a restricted Python subset) into
polymorphic Lean 4 definitions (tie T of DESIGN.md).

Run with the repository's interpreter:   /venv/bin/python translate.py <repo> <outdir>
Function bodies come from the *source text* of the working tree (ast); values of module-level
numeric constants and tables come from the source text too (literal evaluation with a tiny
evaluator, never by importing the package), so the output is a function of the files only.

Output (rewritten only when the text changes, so lake's cache survives an unchanged tree):
  <outdir>/Constants.lean  Tables.lean  Homogeneous.lean  Heterogeneous.lean  Stratified.lean
           Framework.lean  WilsonStratified.lean  WilsonV50.lean  Pipe.lean  Pump.lean  UnitConv.lean
           Dispatch.lean   (line-protocol dispatcher used by Driver.lean)
  <outdir>/signatures.json  (for the harness)

If a construct outside the subset is met in a function that is not on the explicit SKIP list the
translator stops with a non-zero exit and names the function and construct (a broken tie, never a
silent skip).
"""
import ast
import json
import os
import sys

HEADER = '''variable {α : Type} [Add α] [Sub α] [Mul α] [Div α] [Neg α] [LT α] [LE α]
  [DecidableLT α] [DecidableLE α] [OfScientific α] [Transc α]
'''

LEAN_KEYWORDS = {'at', 'from', 'then', 'end', 'open', 'in', 'do', 'fun', 'let', 'have', 'show', 'by', 'if', 'else',
                 'match', 'with', 'where', 'instance', 'class', 'def', 'theorem', 'lemma', 'example', 'structure',
                 'namespace', 'section', 'variable', 'universe', 'import', 'export', 'private', 'protected',
                 'mutual', 'inductive', 'deriving', 'extends', 'Type', 'Prop', 'Sort', 'return', 'for', 'unless',
                 'try', 'catch', 'finally', 'macro', 'syntax', 'notation', 'infix', 'prefix', 'postfix', 'λ',
                 'using', 'calc', 'suffices', 'obtain', 'rcases', 'abbrev', 'axiom', 'opaque', 'local', 'set_option',
                 'attribute', 'nomatch', 'nofun', 'true', 'false'}

MATH1 = {'log': 'Transc.log', 'exp': 'Transc.exp', 'sin': 'Transc.sin', 'log10': 'Transc.log10',
         'cosh': 'Transc.cosh', 'sqrt': 'Transc.sqrt'}

BOOL_PARAM_NAMES = {'use_sf', 'use_sqrtcx', 'sf', 'sqrtcx', 'water', 'get_dict'}
SWITCHES = ('use_sf', 'use_sqrtcx')

# module key -> (path relative to repo, lean namespace, output file stem)
MODULES = [
    ('constants', 'src/DHLLDV/DHLLDV_constants.py', 'C', 'Constants'),
    ('homogeneous', 'src/DHLLDV/homogeneous.py', 'homogeneous', 'Homogeneous'),
    ('heterogeneous', 'src/DHLLDV/heterogeneous.py', 'heterogeneous', 'Heterogeneous'),
    ('stratified', 'src/DHLLDV/stratified.py', 'stratified', 'Stratified'),
    ('framework', 'src/DHLLDV/DHLLDV_framework.py', 'framework', 'Framework'),
    ('wilson_stratified', 'src/Wilson/Wilson_Stratified.py', 'wilson_stratified', 'WilsonStratified'),
    ('wilson_v50', 'src/Wilson/Wilson_V50.py', 'wilson_v50', 'WilsonV50'),
]
PYMOD = {  # python dotted module name (as it appears in imports) -> module key
    'DHLLDV_constants': 'constants', 'DHLLDV.DHLLDV_constants': 'constants',
    'homogeneous': 'homogeneous', 'DHLLDV.homogeneous': 'homogeneous',
    'heterogeneous': 'heterogeneous', 'DHLLDV.heterogeneous': 'heterogeneous',
    'stratified': 'stratified', 'DHLLDV.stratified': 'stratified',
    'DHLLDV_framework': 'framework', 'DHLLDV.DHLLDV_framework': 'framework',
}

# functions that are modelled by a hand-written Spec (tie X), with the reason
SKIP = {
    ('framework', 'create_fracs'): 'iterator/float-keyed dict code; modelled by Spec.createFracs (tie X, C12)',
    ('framework', 'Erhg_graded'): 'iterator/float-keyed dict code; modelled by Spec.erhgGraded (tie X, C03)',
}


class Unsupported(Exception):
    pass


def lname(n):
    if n in LEAN_KEYWORDS:
        return n + "'"
    return n


def num_lit(v):
    """Python number -> Lean scientific literal of type α (exactly the double CPython holds)."""
    if isinstance(v, bool):
        raise Unsupported('bool used as number')
    f = float(v)
    if f != f or f in (float('inf'), float('-inf')):
        raise Unsupported(f'non-finite literal {v!r}')
    neg = f < 0 or (f == 0 and str(f).startswith('-'))
    r = repr(abs(f))
    if 'e' in r or 'E' in r:
        m, e = r.lower().split('e')
        if '.' not in m:
            m += '.0'
        s = f'{m}e{int(e)}'
    else:
        s = r
    out = f'({s} : α)'
    return f'(-{out})' if neg else out


class FuncInfo:
    def __init__(self, mod, name, lean, params, ret, reads_switches, variant_of=None):
        self.mod, self.name, self.lean = mod, name, lean
        self.params = params            # list of (name, kind, default_lean or None)
        self.ret = ret                  # 'num' | 'str' | 'dict' | ('tuple', n)
        self.reads_switches = reads_switches
        self.has_fuel = False


class Module:
    def __init__(self, key, path, ns, stem, src):
        self.key, self.path, self.ns, self.stem = key, path, ns, stem
        self.tree = ast.parse(src)
        self.consts = {}        # local name -> ('const', lean expr name) for numeric constants visible in this module
        self.mod_alias = {}     # local name -> module key
        self.func_alias = {}    # local name -> (module key, function name)
        self.tables = {}        # local name -> table lean name
        self.switch_globals = set()


class Translator:
    def __init__(self, repo):
        self.repo = repo
        self.mods = {}
        self.funcs = {}          # (modkey, name) -> FuncInfo   (also variants under name+'#dict')
        self.const_defs = []     # (lean name, python value)
        self.table_defs = []     # (lean name, [(k, v)], exLow, exHigh, tol)
        self.const_values = {}   # (modkey, name) -> python value
        self.table_values = {}
        self.out = {}            # stem -> text
        self.sigs = {}
        self.aux = []            # loop helper defs for the function being translated

    # ------------------------------------------------------------------ constants
    def eval_const(self, mod, node):
        """Evaluate a module-level numeric expression literally."""
        if isinstance(node, ast.Constant) and isinstance(node.value, (int, float)) and not isinstance(node.value, bool):
            return node.value
        if isinstance(node, ast.UnaryOp) and isinstance(node.op, ast.USub):
            return -self.eval_const(mod, node.operand)
        if isinstance(node, ast.BinOp):
            a, b = self.eval_const(mod, node.left), self.eval_const(mod, node.right)
            if isinstance(node.op, ast.Add):
                return a + b
            if isinstance(node.op, ast.Sub):
                return a - b
            if isinstance(node.op, ast.Mult):
                return a * b
            if isinstance(node.op, ast.Div):
                return a / b
            if isinstance(node.op, ast.Pow):
                return a ** b
        if isinstance(node, ast.Name) and (mod.key, node.id) in self.const_values:
            return self.const_values[(mod.key, node.id)]
        raise Unsupported('constant expression ' + ast.dump(node)[:60])

    def scan_module_level(self, mod):
        for node in mod.tree.body:
            if isinstance(node, ast.ImportFrom):
                m = (node.module or '')
                for a in node.names:
                    local = a.asname or a.name
                    if m in ('', 'DHLLDV') and a.name in PYMOD:          # from . import homogeneous
                        mod.mod_alias[local] = PYMOD[a.name]
                    elif m in PYMOD:
                        src = PYMOD[m]
                        if (src, a.name) in self.const_values:
                            mod.consts[local] = (src, a.name)
                        elif (src, a.name) in self.table_values:
                            mod.tables[local] = (src, a.name)
                        elif (src, a.name) in self.funcs or src in self.mods and any(
                                isinstance(n, ast.FunctionDef) and n.name == a.name for n in self.mods[src].tree.body):
                            mod.func_alias[local] = (src, a.name)
            elif isinstance(node, ast.Import):
                pass
            elif isinstance(node, ast.Assign) and len(node.targets) == 1 and isinstance(node.targets[0], ast.Name):
                name = node.targets[0].id
                v = node.value
                if isinstance(v, ast.Constant) and isinstance(v.value, bool):
                    if name in SWITCHES:
                        mod.switch_globals.add(name)
                    continue
                if isinstance(v, ast.Call) and isinstance(v.func, ast.Name) and v.func.id == 'interpDict':
                    self.scan_table(mod, name, v)
                    continue
                if isinstance(v, ast.Name) and any(isinstance(n, ast.FunctionDef) and n.id == v.id if False else
                                                   isinstance(n, ast.FunctionDef) and n.name == v.id for n in mod.tree.body):
                    mod.func_alias[name] = (mod.key, v.id)
                    continue
                try:
                    val = self.eval_const(mod, v)
                except Unsupported:
                    continue
                self.const_values[(mod.key, name)] = val
                mod.consts[name] = (mod.key, name)

    def scan_table(self, mod, name, call):
        ex = {'extrapolate_low': False, 'extrapolate_high': False, 'tolerance': 0.001}
        for kw in call.keywords:
            ex[kw.arg] = ast.literal_eval(kw.value)
        arg = call.args[0]
        pts = None
        if isinstance(arg, ast.Dict):
            pts = [(self.eval_const(mod, k), self.eval_const(mod, v)) for k, v in zip(arg.keys, arg.values)]
        elif name == 'water_viscosity':
            # dict((t, water_dynamic_viscosity[t]/(1000*water_density[t])) for t in water_density.keys())
            src = ast.unparse(arg).replace(' ', '')
            expect = 'dict(((t,water_dynamic_viscosity[t]/(1000*water_density[t]))fortinwater_density.keys()))'
            if src != expect:
                raise Unsupported('water_viscosity table is no longer the recognised comprehension: ' + src)
            dv = dict(self.table_values[(mod.key, 'water_dynamic_viscosity')][0])
            dens = self.table_values[(mod.key, 'water_density')][0]
            pts = [(t, dv[t] / (1000 * rho)) for t, rho in dens]
        else:
            raise Unsupported(f'interpDict {name}: unsupported constructor argument')
        self.table_values[(mod.key, name)] = (pts, ex['extrapolate_low'], ex['extrapolate_high'], ex['tolerance'])
        mod.tables[name] = (mod.key, name)

    # ------------------------------------------------------------------ expressions
    def const_ref(self, key):
        m, n = key
        return f'(Cst.{n} : α)' if m == 'constants' else f'(Cst.{m}_{n} : α)'

    def resolve_func(self, mod, fn):
        """ast func node -> (modkey, name) or None"""
        if isinstance(fn, ast.Name):
            if fn.id in mod.func_alias:
                return mod.func_alias[fn.id]
            if (mod.key, fn.id) in self.funcs:
                return (mod.key, fn.id)
            return None
        if isinstance(fn, ast.Attribute) and isinstance(fn.value, ast.Name) and fn.value.id in mod.mod_alias:
            target = mod.mod_alias[fn.value.id]
            tm = self.mods[target]
            if fn.attr in tm.func_alias:
                return tm.func_alias[fn.attr]
            return (target, fn.attr)
        return None

    def kind_of(self, e, env, mod):
        """static kind of an expression: 'num' | 'bool' | 'str' | 'dict' | ('tuple', n) | 'nat'"""
        if isinstance(e, ast.Constant):
            if isinstance(e.value, bool):
                return 'bool'
            if isinstance(e.value, str):
                return 'str'
            return 'num'
        if isinstance(e, ast.Name) and e.id in env:
            return env[e.id][1]
        if isinstance(e, (ast.Compare, ast.BoolOp)) or isinstance(e, ast.UnaryOp) and isinstance(e.op, ast.Not):
            return 'bool'
        if isinstance(e, ast.Dict):
            return 'dict'
        if isinstance(e, ast.Tuple):
            return ('tuple', len(e.elts))
        if isinstance(e, ast.Call):
            q = self.resolve_func(mod, e.func)
            if q and q in self.funcs:
                fi = self.funcs[q]
                if any(k.arg == 'get_dict' and isinstance(k.value, ast.Constant) and k.value.value is True for k in e.keywords):
                    return 'dict'
                return fi.ret
        if isinstance(e, ast.Subscript) and isinstance(e.value, ast.Dict):
            return 'str'
        return 'num'

    def expr(self, e, env, mod, want='num'):
        if isinstance(e, ast.Constant):
            if isinstance(e.value, str):
                return json.dumps(e.value, ensure_ascii=False)
            if isinstance(e.value, bool):
                return 'true' if e.value else 'false'
            if e.value is None:
                return num_lit(0.0)       # None default of an optional numeric parameter (only tested for truth)
            return num_lit(e.value)
        if isinstance(e, ast.Name):
            if e.id in env:
                name, kind = env[e.id]
                if kind == 'nat' and want == 'num':
                    raise Unsupported(f'nat variable {e.id} used as a number')
                return name
            if e.id in mod.consts:
                return self.const_ref(mod.consts[e.id])
            if e.id == 'pi':
                return '(Transc.pi : α)'
            raise Unsupported(f'name {e.id}')
        if isinstance(e, ast.Attribute) and isinstance(e.value, ast.Name) and e.value.id in mod.mod_alias:
            tm = self.mods[mod.mod_alias[e.value.id]]
            if e.attr in tm.consts:
                return self.const_ref(tm.consts[e.attr])
            raise Unsupported(f'attribute {e.value.id}.{e.attr}')
        if isinstance(e, ast.UnaryOp):
            if isinstance(e.op, ast.USub):
                return f'(-{self.expr(e.operand, env, mod)})'
            if isinstance(e.op, ast.Not):
                return f'(!{self.bexpr(e.operand, env, mod)})'
        if isinstance(e, ast.BinOp):
            left = self.expr(e.left, env, mod)
            if isinstance(e.op, ast.Pow):
                r = e.right
                if isinstance(r, ast.Constant) and isinstance(r.value, int) and not isinstance(r.value, bool) and r.value >= 0:
                    return f'(Transc.npow {left} {r.value})'
                return f'(Transc.rpow {left} {self.expr(r, env, mod)})'
            right = self.expr(e.right, env, mod)
            ops = {ast.Add: '+', ast.Sub: '-', ast.Mult: '*', ast.Div: '/'}
            if type(e.op) not in ops:
                raise Unsupported('operator ' + type(e.op).__name__)
            return f'({left} {ops[type(e.op)]} {right})'
        if isinstance(e, ast.IfExp):
            return (f'(if {self.bexpr(e.test, env, mod)} then {self.expr(e.body, env, mod, want)} '
                    f'else {self.expr(e.orelse, env, mod, want)})')
        if isinstance(e, (ast.Compare, ast.BoolOp)):
            return self.bexpr(e, env, mod)
        if isinstance(e, ast.Tuple):
            return '(' + ', '.join(self.expr(x, env, mod) for x in e.elts) + ')'
        if isinstance(e, ast.Dict):
            items = []
            for k, v in zip(e.keys, e.values):
                if not (isinstance(k, ast.Constant) and isinstance(k.value, str)):
                    raise Unsupported('dict literal with non-string key')
                if self.kind_of(v, env, mod) == 'str':
                    items.append(f'({json.dumps(k.value)}, PyVal.str {self.expr(v, env, mod, "str")})')
                else:
                    items.append(f'({json.dumps(k.value)}, PyVal.num {self.expr(v, env, mod)})')
            return '([' + ', '.join(items) + '] : PyDict α)'
        if isinstance(e, ast.Subscript):
            return self.subscript(e, env, mod, want)
        if isinstance(e, ast.Call):
            return self.call(e, env, mod, want)
        raise Unsupported(ast.dump(e)[:80])

    def subscript(self, e, env, mod, want):
        base, key = e.value, e.slice
        # table lookup  Arel_to_beta[x]
        if isinstance(base, ast.Name) and base.id not in env and base.id in mod.tables:
            m, n = mod.tables[base.id]
            return f'(InterpTable.at (Tbl.{n} : InterpTable α) {self.expr(key, env, mod)})'
        # literal {str: str}[key]
        if isinstance(base, ast.Dict):
            items = []
            for k, v in zip(base.keys, base.values):
                if not (isinstance(k, ast.Constant) and isinstance(k.value, str)
                        and isinstance(v, ast.Constant) and isinstance(v.value, str)):
                    raise Unsupported('literal dict lookup that is not str->str')
                items.append(f'({json.dumps(k.value)}, {json.dumps(v.value)})')
            return f'(strLookup [{", ".join(items)}] {self.expr(key, env, mod, "str")})'
        if isinstance(base, ast.Name) and base.id in env and env[base.id][1] == 'dict':
            k = self.expr(key, env, mod, 'str')
            conv = 'toStr' if want == 'str' else 'toNum'
            return f'(PyVal.{conv} (PyDict.get {env[base.id][0]} {k}))'
        raise Unsupported('subscript ' + ast.dump(e)[:80])

    def call(self, e, env, mod, want):
        fn = e.func
        if isinstance(fn, ast.Name) and fn.id not in env:
            if fn.id in MATH1 and fn.id not in mod.func_alias and (mod.key, fn.id) not in self.funcs:
                if fn.id == 'log' and len(e.args) == 2:
                    return f'(Transc.log {self.expr(e.args[0], env, mod)} / Transc.log {self.expr(e.args[1], env, mod)})'
                if len(e.args) != 1:
                    raise Unsupported(f'{fn.id} with {len(e.args)} args')
                return f'({MATH1[fn.id]} {self.expr(e.args[0], env, mod)})'
            if fn.id in ('min', 'max') and len(e.args) == 2 and not e.keywords:
                a, b = (self.expr(x, env, mod) for x in e.args)
                # CPython: min(a,b) is a unless b < a ; max(a,b) is a unless b > a
                return f'(pyMin {a} {b})' if fn.id == 'min' else f'(pyMax {a} {b})'
            if fn.id == 'abs' and len(e.args) == 1:
                return f'(Transc.abs {self.expr(e.args[0], env, mod)})'
            if fn.id == 'int' and len(e.args) == 1:
                return f'(Transc.trunc {self.expr(e.args[0], env, mod)})'
            if fn.id == 'float' and len(e.args) == 1:
                return self.expr(e.args[0], env, mod)
            if fn.id == 'dict' and len(e.args) == 1 and not e.keywords and self.kind_of(e.args[0], env, mod) == 'dict':
                # a shallow copy: values of the model are immutable, so the copy is the value itself
                # (that callers cannot disturb the original is property C08, decided separately)
                return self.expr(e.args[0], env, mod, 'any')
        q = self.resolve_func(mod, fn)
        if q is None or q not in self.funcs:
            raise Unsupported('call ' + ast.unparse(fn))
        fi = self.funcs[q]
        kw = {k.arg: k.value for k in e.keywords}
        # get_dict specialisation
        if any(p[0] == 'get_dict' for p in fi.params):
            gd = kw.get('get_dict')
            pos_idx = [p[0] for p in fi.params].index('get_dict')
            if gd is None and len(e.args) > pos_idx:
                gd = e.args[pos_idx]
            val = False
            if gd is not None:
                if not (isinstance(gd, ast.Constant) and isinstance(gd.value, bool)):
                    raise Unsupported('get_dict passed a non-constant')
                val = gd.value
            if val:
                fi = self.funcs[(q[0], q[1] + '#dict')]
        args = []
        if fi.has_fuel:
            args.append('(1000 : Nat)')
        if fi.reads_switches:
            for s in SWITCHES:
                if s in env:
                    args.append(env[s][0])
                else:
                    raise Unsupported(f'call to switch-reading {fi.name} from a context without {s}')
        pos = list(e.args)
        for i, (pn, pk, pd) in enumerate(fi.params):
            if pn == 'get_dict':
                continue
            if i < len(pos):
                a = pos[i]
            elif pn in kw:
                a = kw[pn]
            elif pd is not None:
                args.append(pd)
                continue
            else:
                raise Unsupported(f'missing argument {pn} in call to {fi.name}')
            if pk == 'bool':
                args.append(self.bexpr(a, env, mod))
            elif pk == 'nat':
                if isinstance(a, ast.Constant) and isinstance(a.value, int):
                    args.append(f'({a.value} : Nat)')
                elif isinstance(a, ast.Name) and a.id in env and env[a.id][1] == 'nat':
                    args.append(env[a.id][0])
                else:
                    raise Unsupported('nat argument that is not a literal or nat variable')
            else:
                args.append(self.expr(a, env, mod))
        return f'({fi.lean} {" ".join(args)})' if args else fi.lean

    def bexpr(self, e, env, mod):
        if isinstance(e, ast.Compare):
            parts = []
            left = e.left
            for op, right in zip(e.ops, e.comparators):
                lk = self.kind_of(left, env, mod)
                rk = self.kind_of(right, env, mod)
                if 'str' in (lk, rk) or isinstance(right, ast.Constant) and isinstance(right.value, str):
                    ls, rs = self.expr(left, env, mod, 'str'), self.expr(right, env, mod, 'str')
                    if isinstance(op, ast.Eq):
                        parts.append(f'({ls} == {rs})')
                    elif isinstance(op, ast.NotEq):
                        parts.append(f'({ls} != {rs})')
                    else:
                        raise Unsupported('string ordering comparison')
                else:
                    ls, rs = self.expr(left, env, mod), self.expr(right, env, mod)
                    if isinstance(op, ast.Eq):
                        parts.append(f'(feq {ls} {rs})')
                    elif isinstance(op, ast.NotEq):
                        parts.append(f'(!(feq {ls} {rs}))')
                    else:
                        o = {ast.Lt: '<', ast.LtE: '≤', ast.Gt: '>', ast.GtE: '≥'}.get(type(op))
                        if o is None:
                            raise Unsupported('comparison ' + type(op).__name__)
                        parts.append(f'decide ({ls} {o} {rs})')
                left = right
            return '(' + ' && '.join(parts) + ')'
        if isinstance(e, ast.BoolOp):
            o = ' && ' if isinstance(e.op, ast.And) else ' || '
            return '(' + o.join(self.bexpr(v, env, mod) for v in e.values) + ')'
        if isinstance(e, ast.UnaryOp) and isinstance(e.op, ast.Not):
            return f'(!{self.bexpr(e.operand, env, mod)})'
        if isinstance(e, ast.Constant) and isinstance(e.value, bool):
            return 'true' if e.value else 'false'
        if isinstance(e, ast.Name) and e.id in env:
            name, kind = env[e.id]
            if kind == 'bool':
                return name
            if kind == 'num':       # truthiness of a number (None is modelled as 0.0)
                return f'(!(feq {name} {num_lit(0.0)}))'
        raise Unsupported('boolean ' + ast.dump(e)[:80])

    # ------------------------------------------------------------------ statements
    @staticmethod
    def contains_return(stmts):
        return any(isinstance(x, ast.Return) for s in stmts for x in ast.walk(s))

    @staticmethod
    def assigned_names(stmts):
        """names (re)bound by a statement list (including dict item assignment -> the dict variable)"""
        out = []

        def add(n):
            if n not in out:
                out.append(n)
        for s in stmts:
            for x in ast.walk(s):
                if isinstance(x, (ast.Assign, ast.AugAssign)):
                    targets = x.targets if isinstance(x, ast.Assign) else [x.target]
                    for t in targets:
                        if isinstance(t, ast.Name):
                            add(t.id)
                        elif isinstance(t, ast.Subscript) and isinstance(t.value, ast.Name):
                            add(t.value.id)
                        elif isinstance(t, ast.Tuple):
                            for el in t.elts:
                                if isinstance(el, ast.Name):
                                    add(el.id)
        return out

    def always_assigns(self, stmts, name):
        for s in stmts:
            if isinstance(s, (ast.Assign, ast.AugAssign)) and name in self.assigned_names([s]):
                return True
            if isinstance(s, ast.If) and s.orelse and self.always_assigns(s.body, name) and self.always_assigns(s.orelse, name):
                return True
        return False

    def block(self, stmts, env, mod, ind, k, fname):
        """Translate a statement list; `k(env, ind)` produces the text of what follows (continuation)."""
        pad = '  ' * ind
        if not stmts:
            return k(env, ind)
        s, rest = stmts[0], stmts[1:]
        if isinstance(s, ast.Expr) and isinstance(s.value, ast.Constant):
            return self.block(rest, env, mod, ind, k, fname)      # docstring / ellipsis
        if isinstance(s, ast.Pass):
            return self.block(rest, env, mod, ind, k, fname)
        if isinstance(s, ast.Return):
            if s.value is None:
                raise Unsupported('bare return')
            return pad + self.expr(s.value, env, mod, 'any')
        if isinstance(s, ast.Assign) and len(s.targets) == 1:
            t = s.targets[0]
            if isinstance(t, ast.Name):
                kind = self.kind_of(s.value, env, mod)
                if kind == 'bool':
                    v = self.bexpr(s.value, env, mod)
                else:
                    v = self.expr(s.value, env, mod, 'str' if kind == 'str' else 'num')
                env2 = dict(env)
                env2[t.id] = (lname(t.id), kind)
                return f'{pad}let {lname(t.id)} := {v}\n' + self.block(rest, env2, mod, ind, k, fname)
            if isinstance(t, ast.Tuple) and all(isinstance(el, ast.Name) for el in t.elts):
                v = self.expr(s.value, env, mod)
                env2 = dict(env)
                for el in t.elts:
                    env2[el.id] = (lname(el.id), 'num')
                names = ', '.join(lname(el.id) for el in t.elts)
                return f'{pad}let ({names}) := {v}\n' + self.block(rest, env2, mod, ind, k, fname)
            if isinstance(t, ast.Subscript) and isinstance(t.value, ast.Name) and t.value.id in env \
                    and env[t.value.id][1] == 'dict':
                d = env[t.value.id][0]
                key = self.expr(t.slice, env, mod, 'str')
                kind = self.kind_of(s.value, env, mod)
                if kind == 'str':
                    val = f'PyVal.str {self.expr(s.value, env, mod, "str")}'
                else:
                    val = f'PyVal.num {self.expr(s.value, env, mod)}'
                return f'{pad}let {d} := PyDict.set {d} {key} ({val})\n' + self.block(rest, env, mod, ind, k, fname)
            raise Unsupported('assignment target ' + ast.dump(t)[:60])
        if isinstance(s, ast.AugAssign) and isinstance(s.target, ast.Name) and s.target.id in env:
            ops = {ast.Add: '+', ast.Sub: '-', ast.Mult: '*', ast.Div: '/'}
            n = env[s.target.id][0]
            v = f'({n} {ops[type(s.op)]} {self.expr(s.value, env, mod)})'
            return f'{pad}let {n} := {v}\n' + self.block(rest, env, mod, ind, k, fname)
        if isinstance(s, ast.Assert):
            # asserts guard against runaway iteration; the model keeps going (fuel bounds it)
            return self.block(rest, env, mod, ind, k, fname)
        if isinstance(s, ast.If):
            # static resolution of `if get_dict:`
            if isinstance(s.test, ast.Name) and s.test.id in env and env[s.test.id][1] == 'static':
                chosen = s.body if env[s.test.id][0] == 'true' else s.orelse
                return self.block(chosen + rest, env, mod, ind, k, fname)
            c = self.bexpr(s.test, env, mod)
            if self.contains_return(s.body) or self.contains_return(s.orelse):
                a = self.block(s.body + rest, dict(env), mod, ind + 1, k, fname)
                b = self.block(list(s.orelse) + rest, dict(env), mod, ind + 1, k, fname)
                return f'{pad}if {c} then\n{a}\n{pad}else\n{b}'
            names = []
            for n in self.assigned_names(s.body) + self.assigned_names(s.orelse):
                if n in names:
                    continue
                if n in env or (self.always_assigns(s.body, n) and self.always_assigns(s.orelse, n)):
                    names.append(n)
            if not names:
                raise Unsupported('if statement without effect')
            kinds = {}
            for n in names:
                if n in env:
                    kinds[n] = env[n][1]
                else:
                    kinds[n] = self.branch_kind(s.body, n, env, mod)
            tup = '(' + ', '.join(lname(n) for n in names) + ')' if len(names) != 1 else lname(names[0])

            def fin(env_b, ind_b):
                parts = []
                for n in names:
                    if n not in env_b:
                        raise Unsupported(f'{n} not defined on one branch')
                    parts.append(env_b[n][0])
                body = '(' + ', '.join(parts) + ')' if len(parts) != 1 else parts[0]
                return '  ' * ind_b + body
            a = self.block(s.body, dict(env), mod, ind + 2, fin, fname)
            b = self.block(list(s.orelse), dict(env), mod, ind + 2, fin, fname)
            env2 = dict(env)
            for n in names:
                env2[n] = (lname(n), kinds[n])
            return (f'{pad}let {tup} :=\n{pad}  if {c} then\n{a}\n{pad}  else\n{b}\n'
                    + self.block(rest, env2, mod, ind, k, fname))
        if isinstance(s, ast.For):
            return self.for_loop(s, rest, env, mod, ind, k, fname)
        if isinstance(s, ast.While):
            return self.while_loop(s, rest, env, mod, ind, k, fname)
        raise Unsupported(type(s).__name__ + ': ' + ast.unparse(s)[:60])

    def branch_kind(self, stmts, name, env, mod):
        e2 = dict(env)
        for s in stmts:
            if isinstance(s, ast.Assign) and isinstance(s.targets[0], ast.Name):
                kd = self.kind_of(s.value, e2, mod)
                e2[s.targets[0].id] = (s.targets[0].id, kd)
                if s.targets[0].id == name:
                    return kd
            if isinstance(s, ast.If):
                return self.branch_kind(s.body, name, e2, mod)
        return 'num'

    KIND_TYPE = {'num': 'α', 'bool': 'Bool', 'nat': 'Nat', 'str': 'String', 'dict': 'PyDict α'}

    def env_params(self, env):
        names = sorted(n for n, (ln, kd) in env.items() if kd in self.KIND_TYPE)
        sig = ' '.join(f'({env[n][0]} : {self.KIND_TYPE[env[n][1]]})' for n in names)
        args = ' '.join(env[n][0] for n in names)
        return names, sig, args

    def for_loop(self, s, rest, env, mod, ind, k, fname):
        pad = '  ' * ind
        it = s.iter
        # for x in [literal list]  -> unrolled
        if isinstance(it, ast.List) and isinstance(s.target, ast.Name) and not s.orelse:
            stmts = []
            for el in it.elts:
                stmts.append(ast.Assign(targets=[ast.Name(id=s.target.id, ctx=ast.Store())], value=el))
                stmts.extend(s.body)
            for x in stmts:
                ast.fix_missing_locations(x)
            return self.block(stmts + rest, env, mod, ind, k, fname)
        # for n in range(K) with n unused in the body -> recursion on K
        if (isinstance(it, ast.Call) and isinstance(it.func, ast.Name) and it.func.id == 'range' and len(it.args) == 1
                and isinstance(s.target, ast.Name) and not s.orelse):
            used = any(isinstance(x, ast.Name) and x.id == s.target.id for b in s.body for x in ast.walk(b))
            if used:
                raise Unsupported('for-range loop variable used in the body')
            bound = it.args[0]
            if not (isinstance(bound, ast.Name) and bound.id in env and env[bound.id][1] == 'nat'):
                raise Unsupported('range() bound is not a nat parameter')
            idx = len(self.aux) + 1
            loop = f'{fname}.loop{idx}'
            self.aux.append(None)       # reserve the slot (numbering in source order)
            names, sig, args = self.env_params(env)

            def again(env_b, ind_b):
                _, _, args_b = self.env_params({n: env_b[n] for n in names})
                return '  ' * ind_b + f'{loop} fuel0 k {args_b}'
            exit_text = self.block(rest, dict(env), mod, 2, k, fname)
            body_text = self.block(s.body, dict(env), mod, 2, again, fname)
            self.aux[idx - 1] = (f'def {loop} (fuel0 : Nat) (k : Nat) {sig} :=\n  match k with\n  | 0 =>\n{exit_text}\n'
                                 f'  | k + 1 =>\n{body_text}\n')
            self.cur_uses_fuel0 = True
            return f'{pad}{loop} fuel0 {env[bound.id][0]} {args}'
        raise Unsupported('for loop ' + ast.unparse(it)[:40])

    def while_loop(self, s, rest, env, mod, ind, k, fname):
        pad = '  ' * ind
        if s.orelse:
            raise Unsupported('while-else')
        idx = len(self.aux) + 1
        loop = f'{fname}.loop{idx}'
        self.aux.append(None)
        names, sig, args = self.env_params(env)
        cond = self.bexpr(s.test, env, mod)

        def again(env_b, ind_b):
            _, _, args_b = self.env_params({n: env_b[n] for n in names})
            return '  ' * ind_b + f'{loop} fuel0 fuel {args_b}'
        exit_text = self.block(rest, dict(env), mod, 2, k, fname)
        body_text = self.block(s.body, dict(env), mod, 3, again, fname)
        # fuel0: the budget every loop of this function starts with; fuel: what is left of it in this loop
        self.aux[idx - 1] = (f'def {loop} (fuel0 : Nat) (fuel : Nat) {sig} :=\n  if {cond} then\n    match fuel with\n'
                             f'    | 0 => Transc.nan   -- iteration budget of the model exhausted\n'
                             f'    | fuel + 1 =>\n{body_text}\n  else\n{exit_text}\n')
        self.cur_has_fuel = True
        self.cur_uses_fuel0 = True
        return f'{pad}{loop} fuel0 fuel0 {args}'

    # ------------------------------------------------------------------ functions
    def reads_switches_direct(self, mod, f):
        if not mod.switch_globals:
            return False
        params = {a.arg for a in f.args.args}
        return any(isinstance(x, ast.Name) and x.id in mod.switch_globals and x.id not in params for x in ast.walk(f))

    def compute_switch_readers(self):
        """transitive closure: which functions read the module-level switches"""
        direct = {}
        calls = {}
        for mk, mod in self.mods.items():
            for f in mod.tree.body:
                if isinstance(f, ast.FunctionDef):
                    direct[(mk, f.name)] = self.reads_switches_direct(mod, f)
                    cs = set()
                    for x in ast.walk(f):
                        if isinstance(x, ast.Call):
                            if isinstance(x.func, ast.Name):
                                if x.func.id in mod.func_alias:
                                    cs.add(mod.func_alias[x.func.id])
                                else:
                                    cs.add((mk, x.func.id))
                            elif isinstance(x.func, ast.Attribute) and isinstance(x.func.value, ast.Name) \
                                    and x.func.value.id in mod.mod_alias:
                                cs.add((mod.mod_alias[x.func.value.id], x.func.attr))
                    calls[(mk, f.name)] = cs
        readers = {q for q, d in direct.items() if d}
        changed = True
        while changed:
            changed = False
            for q, cs in calls.items():
                if q not in readers and cs & readers:
                    readers.add(q)
                    changed = True
        return readers

    @staticmethod
    def topo_order(mod):
        """module functions in dependency order (Lean needs definitions before use), stable w.r.t. source order"""
        fs = [f for f in mod.tree.body if isinstance(f, ast.FunctionDef)]
        names = {f.name for f in fs}
        alias = {a: q[1] for a, q in mod.func_alias.items() if q[0] == mod.key}
        deps = {}
        for f in fs:
            d = set()
            for x in ast.walk(f):
                if isinstance(x, ast.Call) and isinstance(x.func, ast.Name):
                    n = alias.get(x.func.id, x.func.id)
                    if n in names and n != f.name:
                        d.add(n)
            deps[f.name] = d
        done, order = set(), []
        while len(order) < len(fs):
            progressed = False
            for f in fs:
                if f.name not in done and deps[f.name] <= done:
                    order.append(f)
                    done.add(f.name)
                    progressed = True
            if not progressed:
                raise SystemExit(f'py2lean: recursive functions in {mod.path}')
        return order

    def func(self, mod, f, readers, static_get_dict=None):
        q = (mod.key, f.name)
        if f.args.vararg or f.args.kwarg or f.args.kwonlyargs:
            raise Unsupported('*args/**kwargs')
        pnames = [a.arg for a in f.args.args]
        nd = len(f.args.defaults)
        defaults = dict(zip(pnames[len(pnames) - nd:], f.args.defaults))
        range_params = set()
        for x in ast.walk(f):
            if isinstance(x, ast.Call) and isinstance(x.func, ast.Name) and x.func.id == 'range':
                for a in x.args:
                    if isinstance(a, ast.Name) and a.id in pnames:
                        range_params.add(a.id)
        env = {}
        params = []
        rs = q in readers
        if rs:
            for s in SWITCHES:
                env[s] = (s, 'bool')
        sig = []
        for p in pnames:
            d = defaults.get(p)
            if p == 'get_dict':
                env[p] = ('true' if static_get_dict else 'false', 'static')
                params.append((p, 'static', None))
                continue
            if p in range_params:
                kind = 'nat'
            elif p in BOOL_PARAM_NAMES or (isinstance(d, ast.Constant) and isinstance(d.value, bool)):
                kind = 'bool'
            else:
                kind = 'num'
            dl = None
            if d is not None:
                if kind == 'nat':
                    dl = f'({d.value} : Nat)'
                elif kind == 'bool':
                    dl = 'true' if d.value else 'false'
                else:
                    dl = self.expr(d, {}, mod)
            params.append((p, kind, dl))
            env[p] = (lname(p), kind)
            sig.append(f'({lname(p)} : {self.KIND_TYPE[kind]})')
        lean = f'{mod.ns}.{f.name}' + ('_dict' if static_get_dict else '')
        self.aux = []
        self.cur_has_fuel = False
        self.cur_uses_fuel0 = False

        def fell_off(env_b, ind_b):
            raise Unsupported('control reaches the end of the function without return')
        body = self.block(f.body, env, mod, 1, fell_off, lean)
        # return kind
        ret = 'num'
        for x in ast.walk(f):
            if isinstance(x, ast.Return) and x.value is not None:
                if isinstance(x.value, ast.Tuple):
                    ret = ('tuple', len(x.value.elts))
                elif isinstance(x.value, ast.Subscript) and isinstance(x.value.value, ast.Dict):
                    ret = 'str'
                elif isinstance(x.value, ast.Name) and static_get_dict and x.value.id.endswith('_obj'):
                    ret = 'dict'
        if f.name == '_Cvt_Erhg_obj':
            ret = 'dict'
        if static_get_dict:
            ret = 'dict'
        head = []
        if self.cur_has_fuel:
            head.append('(fuel0 : Nat)')
        elif self.cur_uses_fuel0:
            body = '  let fuel0 : Nat := 0\n' + body
        if rs:
            head.extend(f'({s} : Bool)' for s in SWITCHES)
        text = ''
        for a in reversed(self.aux):
            # loop helpers that need `fuel` of an enclosing while loop never occur here; each has its own
            text += a + '\n'
        text += f'def {lean} {" ".join(head + sig)} :=\n{body}\n'
        fi = FuncInfo(mod.key, f.name, lean, params, ret, rs)
        fi.has_fuel = self.cur_has_fuel
        return fi, text

    # ------------------------------------------------------------------ driver
    def run(self):
        for key, path, ns, stem in MODULES:
            src = open(os.path.join(self.repo, path)).read()
            mod = Module(key, path, ns, stem, src)
            self.mods[key] = mod
        for key, path, ns, stem in MODULES:
            self.scan_module_level(self.mods[key])
        readers = self.compute_switch_readers()
        imports = ['Dhlldv.Gen.Tables']
        for key, path, ns, stem in MODULES:
            mod = self.mods[key]
            if key == 'constants':
                continue
            chunks = []
            for f in self.topo_order(mod):
                if (key, f.name) in SKIP:
                    chunks.append(f'-- SKIPPED {f.name}: {SKIP[(key, f.name)]}\n')
                    continue
                try:
                    has_gd = any(a.arg == 'get_dict' for a in f.args.args)
                    if has_gd:
                        fi_d, text_d = self.func(mod, f, readers, static_get_dict=True)
                        self.funcs[(key, f.name + '#dict')] = fi_d
                        chunks.append(text_d)
                    fi, text = self.func(mod, f, readers, static_get_dict=False if has_gd else None)
                except Unsupported as ex:
                    raise SystemExit(f'py2lean: cannot translate {path}:{f.name} (line {f.lineno}): {ex}')
                self.funcs[(key, f.name)] = fi
                chunks.append(text)
            body = '\n'.join(chunks)
            imp = '\n'.join(f'import {i}' for i in imports)
            self.out[stem] = (f'{imp}\n\n/-! GENERATED by py2lean from {path} — do not edit. -/\n\n'
                              f'set_option linter.unusedVariables false\n\nsection\n{HEADER}\n{body}\nend\n')
            imports = imports + [f'Dhlldv.Gen.{stem}']
        self.emit_constants()
        self.emit_tables()
        self.emit_dispatch(imports)

    def emit_constants(self):
        lines = ['/-! GENERATED by py2lean: module-level numeric constants — do not edit. -/', '', 'namespace Cst']
        for (m, n), v in self.const_values.items():
            name = n if m == 'constants' else f'{m}_{n}'
            lines.append(f'def {name} {{α : Type}} [OfScientific α] [Neg α] : α := {num_lit(v)}')
        lines.append('end Cst')
        self.out['Constants'] = '\n'.join(lines) + '\n'

    def emit_tables(self):
        lines = ['import Dhlldv.Prim', 'import Dhlldv.Gen.Constants', '',
                 '/-! GENERATED by py2lean: interpDict literals of DHLLDV_constants — do not edit. -/', '',
                 'namespace Tbl']
        for (m, n), (pts, lo, hi, tol) in self.table_values.items():
            items = ',\n    '.join(f'({num_lit(k)}, {num_lit(v)})' for k, v in sorted(pts))
            lines.append(f'def {n} {{α : Type}} [OfScientific α] [Neg α] : InterpTable α :=\n  {{ pts := [\n    {items}],\n'
                         f'    exLow := {"true" if lo else "false"}, exHigh := {"true" if hi else "false"}, tol := {num_lit(tol)} }}')
        lines.append('end Tbl')
        self.out['Tables'] = '\n'.join(lines) + '\n'

    def emit_dispatch(self, imports):
        """A dispatcher `Gen.dispatch : String → List String → Option String` at α := Float."""
        lines = ['\n'.join(f'import {i}' for i in imports), '',
                 '/-! GENERATED by py2lean: line-protocol dispatcher over the generated functions — do not edit. -/', '',
                 'namespace Gen', '',
                 'def fOfBits (s : String) : Float := Float.ofBits (s.toNat!).toUInt64',
                 'def bitsOf (x : Float) : String := toString x.toBits.toNat',
                 'def bOf (s : String) : Bool := s == "1"',
                 'def showVal : PyVal Float → String\n  | .num x => bitsOf x\n  | .str s => "s:" ++ s',
                 'def showDict (d : PyDict Float) : String := " ".intercalate (d.map fun p => p.1 ++ "=" ++ showVal p.2)',
                 '', 'def dispatch (op : String) (a : Array String) : Option String :=', '  match op with']
        sigs = {}
        for (m, n), fi in self.funcs.items():
            opname = f'{m}.{n}'.replace('#dict', '_dict')
            kinds = []
            args = []
            i = 0
            if fi.has_fuel:
                kinds.append('nat')
                args.append(f'(a[{i}]!).toNat!')
                i += 1
            if fi.reads_switches:
                for s in SWITCHES:
                    kinds.append('bool')
                    args.append(f'(bOf a[{i}]!)')
                    i += 1
            for pn, pk, pd in fi.params:
                if pk == 'static':
                    continue
                kinds.append(pk)
                if pk == 'num':
                    args.append(f'(fOfBits a[{i}]!)')
                elif pk == 'bool':
                    args.append(f'(bOf a[{i}]!)')
                elif pk == 'nat':
                    args.append(f'(a[{i}]!).toNat!')
                i += 1
            call = f'{fi.lean} (α := Float) {" ".join(args)}' if args else f'{fi.lean} (α := Float)'
            if fi.ret == 'num':
                res = f'bitsOf ({call})'
            elif fi.ret == 'str':
                res = f'"s:" ++ ({call})'
            elif fi.ret == 'dict':
                res = f'showDict ({call})'
            else:
                n_el = fi.ret[1]
                names = [f'r{j}' for j in range(n_el)]
                res = (f'(match ({call}) with | ({", ".join(names)}) => '
                       + ' ++ " " ++ '.join(f'bitsOf {x}' for x in names) + ')')
            lines.append(f'  | "{opname}" => if a.size == {i} then some ({res}) else none')
            sigs[opname] = {'lean': fi.lean, 'kinds': kinds, 'ret': fi.ret if isinstance(fi.ret, str) else list(fi.ret),
                            'params': [p[0] for p in fi.params if p[1] != 'static'],
                            'has_fuel': fi.has_fuel, 'reads_switches': fi.reads_switches}
        for (m, n) in self.table_values:
            lines.append(f'  | "table.{n}" => if a.size == 1 then some (match (Tbl.{n} : InterpTable Float).lookup (fOfBits a[0]!) with '
                         f'| some v => bitsOf v | none => "IndexError") else none')
            sigs[f'table.{n}'] = {'lean': f'Tbl.{n}', 'kinds': ['num'], 'ret': 'lookup', 'params': ['key'],
                                  'has_fuel': False, 'reads_switches': False,
                                  'keys': [k for k, v in sorted(self.table_values[(m, n)][0])]}
        lines.append('  | _ => none')
        lines.append('')
        lines.append('end Gen')
        self.out['Dispatch'] = '\n'.join(lines) + '\n'
        self.sigs = sigs


def write_if_changed(path, text):
    if os.path.exists(path) and open(path).read() == text:
        return False
    with open(path, 'w') as fh:
        fh.write(text)
    return True


def main():
    repo, outdir = sys.argv[1], sys.argv[2]
    os.makedirs(outdir, exist_ok=True)
    t = Translator(repo)
    t.run()
    changed = []
    for stem, text in t.out.items():
        if write_if_changed(os.path.join(outdir, stem + '.lean'), text):
            changed.append(stem)
    write_if_changed(os.path.join(outdir, 'signatures.json'), json.dumps(t.sigs, indent=1, sort_keys=True))
    print('py2lean: generated', len(t.out), 'files;', 'changed:', ','.join(changed) if changed else 'none')


if __name__ == '__main__':
    main()
