#!/usr/bin/env python
"""effects — tie A of DESIGN.md: tables extracted from the class sources by AST analysis (no import of the package).
Emits <outdir>/Effects.lean.  Filled in by the C07 / C08 / C11 / C14 checks."""
import sys

if __name__ == '__main__':
    from effects_impl import main
    main(sys.argv[1], sys.argv[2])
