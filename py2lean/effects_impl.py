def main(repo, outdir):
    print('effects: nothing to extract yet')
