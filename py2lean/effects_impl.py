"""effects — tie A: tables extracted from the class / module sources by AST analysis (the package is never imported).

Emits <outdir>/Effects.lean with
  * Slurry (C07): per-setter dirty flags raised; parameters read (transitively) by the grading generator and by the curve
    generator; structure flags of generate_GSD / generate_curves / the lazy getters;
  * lru_cache'd functions (C08): key parameters, module-level mutable names read transitively, whether the cached
    value is a mutable container handed out to callers.
Anything whose shape is not recognised is recorded as such (the corresponding adequacy theorem then fails to check:
a broken tie, handled by the verdict rules)."""
import ast
import json
import os

PARAM_OF_ATTR = {'Dp': 'Dp', '_Dp': 'Dp', 'epsilon': 'epsilon', '_epsilon': 'epsilon', 'fluid': 'fluid', '_fluid': 'fluid',
                 'nu': 'fluid', 'rhol': 'fluid', 'D50': 'D50', '_D50': 'D50', 'Cv': 'Cv', '_Cv': 'Cv', 'rhos': 'rhos',
                 '_rhos': 'rhos', 'max_index': 'max_index', '_max_index': 'max_index', 'rhoi': 'rhoi'}
FLAGS = {'GSD_curves_dirty': 'gsd', 'curves_dirty': 'curves'}
CURVE_FIELDS = ['_vls_list', '_Erhg_curves', '_im_curves', '_LDV_curves', '_LDV85_curves']


def self_attr(node):
    return isinstance(node, ast.Attribute) and isinstance(node.value, ast.Name) and node.value.id == 'self'


class SlurryFx:
    def __init__(self, src):
        tree = ast.parse(src)
        self.cls = next(n for n in tree.body if isinstance(n, ast.ClassDef) and n.name == 'Slurry')
        self.methods = {}
        self.getters = {}
        self.setters = {}
        for n in self.cls.body:
            if isinstance(n, ast.FunctionDef):
                decos = [ast.unparse(d) for d in n.decorator_list]
                if 'property' in decos:
                    self.getters[n.name] = n
                elif any(d.endswith('.setter') for d in decos):
                    self.setters[n.name] = n
                else:
                    self.methods[n.name] = n

    @staticmethod
    def unconditional_prefix(fn):
        """the statements of `fn` that are executed on every call: the leading run of plain assignments (a docstring may precede them)"""
        out = []
        for st in fn.body:
            if isinstance(st, ast.Expr) and isinstance(st.value, ast.Constant) and isinstance(st.value.value, str):
                continue
            if not isinstance(st, ast.Assign):
                break
            out.append(st)
        return out

    def flags_raised(self, fn, seen=None):
        """flags set to True by `fn` on EVERY call (transitively through assignments to other properties with setters): only the leading run of
        plain assignments counts - a flag raised inside an `if`, or after a statement that can leave the setter, is not raised for every edit"""
        seen = seen or set()
        out = set()
        for x in self.unconditional_prefix(fn):
            if isinstance(x, ast.Assign):
                for t in x.targets:
                    if self_attr(t):
                        if t.attr in FLAGS and isinstance(x.value, ast.Constant) and x.value.value is True:
                            out.add(FLAGS[t.attr])
                        elif t.attr in self.setters and t.attr not in seen:
                            out |= self.flags_raised(self.setters[t.attr], seen | {t.attr})
        return out

    def params_written(self, fn, seen=None):
        seen = seen or set()
        out = set()
        for x in ast.walk(fn):
            if isinstance(x, ast.Assign):
                for t in x.targets:
                    if self_attr(t) and t.attr in PARAM_OF_ATTR:
                        if t.attr in self.setters and t.attr not in seen and self.setters[t.attr] is not fn:
                            out |= self.params_written(self.setters[t.attr], seen | {t.attr})
                        else:
                            out.add(PARAM_OF_ATTR[t.attr])
        return out

    def reads(self, fn, seen=None, stop_at=()):
        """parameters read by `fn`, transitively through self.method() calls and property reads; artefact reads
        ('GSD', curve fields) are returned as pseudo-parameters '@gsd' / '@curves'."""
        seen = set() if seen is None else seen
        out = set()
        for x in ast.walk(fn):
            if self_attr(x) and isinstance(x.ctx, ast.Load):
                a = x.attr
                if a in ('GSD', '_GSD'):
                    out.add('@gsd')
                elif a in CURVE_FIELDS or a in ('vls_list', 'Erhg_curves', 'im_curves', 'LDV_curves', 'LDV85_curves'):
                    out.add('@curves')
                elif a in PARAM_OF_ATTR:
                    out.add(PARAM_OF_ATTR[a])
                elif a in self.getters and a not in seen and a not in stop_at:
                    seen.add(a)
                    out |= self.reads(self.getters[a], seen, stop_at)
                elif a in self.methods and a not in seen and a not in stop_at:
                    seen.add(a)
                    out |= self.reads(self.methods[a], seen, stop_at)
        return out

    @staticmethod
    def first_stmts(fn):
        return [s for s in fn.body if not (isinstance(s, ast.Expr) and isinstance(s.value, ast.Constant))]

    def extract(self):
        fx = {}
        raises = {}
        for name, fn in self.setters.items():
            ps = self.params_written(fn)
            for p in ps:
                raises.setdefault(p, set())
                raises[p] |= self.flags_raised(fn)
            fx.setdefault('setter_params', {})[name] = sorted(ps)
        fx['raises'] = {p: sorted(v) for p, v in sorted(raises.items())}
        # mutable containers held by the CLASS (shared by every slurry object, also by objects with other parameters): none may exist
        fx['class_level_state'] = sorted(
            (t.id if isinstance(t, ast.Name) else ast.unparse(t))
            for n in self.cls.body if isinstance(n, (ast.Assign, ast.AnnAssign)) and n.value is not None
            and (isinstance(n.value, (ast.Dict, ast.List, ast.Set, ast.ListComp, ast.DictComp, ast.SetComp))
                 or (isinstance(n.value, ast.Call) and ast.unparse(n.value.func).split('.')[-1] in
                     ('dict', 'list', 'set', 'defaultdict', 'OrderedDict', 'deque', 'Counter', 'WeakValueDictionary', 'WeakKeyDictionary', 'lru_cache')))
            for t in (n.targets if isinstance(n, ast.Assign) else [n.target]))
        # no setter can be left before its end (an early `return` / `raise` / `try` makes the assignments after it conditional)
        fx['setters_no_early_exit'] = not any(isinstance(x, (ast.Return, ast.Raise, ast.Try)) for fn in self.setters.values() for x in ast.walk(fn))
        g = self.methods['generate_GSD']
        gs = self.first_stmts(g)
        # structure of generate_GSD: clears its flag first, raises the curves flag, rebuilds from create_fracs
        fx['gsd_clears_flag_first'] = (isinstance(gs[0], ast.Assign) and self_attr(gs[0].targets[0])
                                        and gs[0].targets[0].attr == 'GSD_curves_dirty' and isinstance(gs[0].value, ast.Constant)
                                        and gs[0].value.value is False)
        fx['gsd_raises_curves'] = any(isinstance(s, ast.Assign) and self_attr(s.targets[0]) and s.targets[0].attr == 'curves_dirty'
                                      and isinstance(s.value, ast.Constant) and s.value.value is True for s in gs)
        rebinding = [s for s in gs if isinstance(s, ast.Assign) and self_attr(s.targets[0]) and s.targets[0].attr == '_GSD']
        fx['gsd_rebinds_fresh_dict'] = (len(rebinding) == 1 and isinstance(rebinding[0].value, ast.Call)
                                         and ast.unparse(rebinding[0].value.func).endswith('create_fracs'))
        mutating = [x for x in ast.walk(g) if isinstance(x, ast.Call) and isinstance(x.func, ast.Attribute)
                    and self_attr(x.func.value) and x.func.value.attr == '_GSD']
        fx['gsd_rebinds_fresh_dict'] = fx['gsd_rebinds_fresh_dict'] and not mutating
        fx['reads_gsd'] = sorted(p for p in self.reads(g, stop_at=('get_dx', 'GSD')) if not p.startswith('@'))
        c = self.methods['generate_curves']
        cs = self.first_stmts(c)
        checks = (isinstance(cs[0], ast.If) and ast.unparse(cs[0].test) == 'self.GSD_curves_dirty'
                  and ast.unparse(cs[0].body[0]) == 'self.generate_GSD()')
        fx['curves_checks_gsd'] = bool(checks)
        clears = [i for i, s in enumerate(cs) if isinstance(s, ast.Assign) and self_attr(s.targets[0])
                  and s.targets[0].attr == 'curves_dirty' and isinstance(s.value, ast.Constant) and s.value.value is False]
        assigned = [s.targets[0].attr for s in cs if isinstance(s, ast.Assign) and self_attr(s.targets[0])]
        # every curve artefact is bound to a NEWLY built object (a call of one of the class's own generate_* methods, or a comprehension): an artefact that is
        # refreshed in place, or routed through a helper that may hand the old object back, is shared with every shallow copy of the slurry
        def fresh_value(v):
            return isinstance(v, (ast.ListComp, ast.DictComp, ast.Dict, ast.List)) or (
                isinstance(v, ast.Call) and isinstance(v.func, ast.Attribute) and self_attr(v.func) and v.func.attr.startswith('generate_'))
        fx['curves_rebind_fresh_objects'] = all(fresh_value(s.value) for s in cs if isinstance(s, ast.Assign) and self_attr(s.targets[0])
                                                and s.targets[0].attr in CURVE_FIELDS) and not any(
            isinstance(x, ast.Call) and isinstance(x.func, ast.Attribute) and self_attr(x.func.value) and x.func.value.attr in CURVE_FIELDS
            and x.func.attr in ('clear', 'update', 'append', 'extend', 'pop', 'setdefault', 'insert', 'remove') for x in ast.walk(c))
        fx['curves_regenerates_all_unconditionally'] = bool(clears) and all(f in assigned for f in CURVE_FIELDS) and \
            not any(isinstance(s, (ast.If, ast.Try, ast.While, ast.For)) for s in cs[1:])
        rc = self.reads(c, stop_at=('generate_GSD',))
        fx['curves_read_gsd'] = '@gsd' in rc
        fx['reads_curves'] = sorted(p for p in rc if not p.startswith('@'))
        # lazy getters
        ok = True
        for name in ('vls_list', 'Erhg_curves', 'im_curves', 'LDV_curves', 'LDV85_curves'):
            st = self.first_stmts(self.getters[name])
            field = '_' + name
            want = f'self.curves_dirty or self.{field} is None'
            ok = ok and isinstance(st[0], ast.If) and ast.unparse(st[0].test) == want \
                and ast.unparse(st[0].body[0]) == 'self.generate_curves()' and ast.unparse(st[-1]) == f'return self.{field}'
        st = self.first_stmts(self.getters['GSD'])
        ok = ok and isinstance(st[0], ast.If) and ast.unparse(st[0].test) == 'self.GSD_curves_dirty' \
            and ast.unparse(st[0].body[0]) == 'self.generate_GSD()' and ast.unparse(st[-1]) == 'return self._GSD'
        st = self.first_stmts(self.methods['get_dx'])
        ok = ok and isinstance(st[0], ast.If) and ast.unparse(st[0].test) == 'self.GSD_curves_dirty'
        fx['getters_guarded'] = bool(ok)
        # pointwise methods read the grading through the guarded getter, never the raw field
        pw = True
        for name in ('Erhg', 'im', 'il', 'generate_Erhg_curves', 'generate_im_curves', 'generate_LDV_curves'):
            for x in ast.walk(self.methods[name]):
                if self_attr(x) and x.attr in ('_GSD',) + tuple(CURVE_FIELDS):
                    pw = False
        fx['pointwise_use_guarded_getters'] = pw
        return fx


def cache_effects(repo):
    """lru_cache'd functions of the model modules: key params, switch reads (transitive), mutable result handed out."""
    mods = {'framework': 'src/DHLLDV/DHLLDV_framework.py', 'homogeneous': 'src/DHLLDV/homogeneous.py',
            'heterogeneous': 'src/DHLLDV/heterogeneous.py', 'stratified': 'src/DHLLDV/stratified.py',
            'wilson_stratified': 'src/Wilson/Wilson_Stratified.py', 'wilson_v50': 'src/Wilson/Wilson_V50.py'}
    alias_mod = {'homogeneous': 'homogeneous', 'heterogeneous': 'heterogeneous', 'stratified': 'stratified'}
    trees = {k: ast.parse(open(os.path.join(repo, p)).read()) for k, p in mods.items()}
    funcs, mut_globals, module_state = {}, {}, {}
    for mk, t in trees.items():
        mut_globals[mk] = set()
        module_state[mk] = []
        for n in t.body:
            if isinstance(n, ast.FunctionDef):
                funcs[(mk, n.name)] = n
            elif isinstance(n, ast.Assign) and isinstance(n.targets[0], ast.Name):
                v = n.value
                if isinstance(v, ast.Constant) and isinstance(v.value, bool):
                    mut_globals[mk].add(n.targets[0].id)      # documented switches (rebindable module attributes)
                elif isinstance(v, (ast.Dict, ast.List, ast.Set)) or (isinstance(v, ast.Call) and isinstance(v.func, ast.Name)
                                                                      and v.func.id in ('dict', 'list', 'set', 'defaultdict')):
                    module_state[mk].append(n.targets[0].id)  # hidden module-level mutable state
    from_imports = {}
    for mk, t in trees.items():
        for n in t.body:
            if isinstance(n, ast.ImportFrom):
                for a in n.names:
                    m = (n.module or '').split('.')[-1]
                    for k2 in mods:
                        if mods[k2].endswith('/' + m + '.py') and (k2, a.name) in funcs:
                            from_imports[(mk, a.asname or a.name)] = (k2, a.name)

    def callees(q):
        mk, _ = q
        out = set()
        for x in ast.walk(funcs[q]):
            if isinstance(x, ast.Call):
                f = x.func
                if isinstance(f, ast.Name):
                    if (mk, f.id) in funcs:
                        out.add((mk, f.id))
                    elif (mk, f.id) in from_imports:
                        out.add(from_imports[(mk, f.id)])
                elif isinstance(f, ast.Attribute) and isinstance(f.value, ast.Name) and f.value.id in alias_mod \
                        and (alias_mod[f.value.id], f.attr) in funcs:
                    out.add((alias_mod[f.value.id], f.attr))
        return out

    def direct_reads(q):
        mk, _ = q
        fn = funcs[q]
        params = {a.arg for a in fn.args.args}
        local = {t.id for x in ast.walk(fn) if isinstance(x, ast.Assign) for t in x.targets if isinstance(t, ast.Name)}
        r = set()
        for x in ast.walk(fn):
            if isinstance(x, ast.Name) and isinstance(x.ctx, ast.Load) and x.id not in params and x.id not in local:
                if x.id in mut_globals[mk]:
                    r.add(x.id)
                if x.id in module_state[mk]:
                    r.add('@state:' + x.id)
            if isinstance(x, (ast.Global, ast.Nonlocal)):
                r.add('@global-stmt')
        return r
    reads = {q: direct_reads(q) for q in funcs}
    changed = True
    while changed:
        changed = False
        for q in funcs:
            for c in callees(q):
                # a value passed explicitly as argument is part of the callee's arguments; only *global* reads propagate
                new = reads[c] - reads[q]
                if new:
                    reads[q] |= new
                    changed = True
    out = []
    for q, fn in sorted(funcs.items()):
        cached = any('lru_cache' in ast.unparse(d) for d in fn.decorator_list)
        rets = [x.value for x in ast.walk(fn) if isinstance(x, ast.Return) and x.value is not None]
        mutable = False
        for r in rets:
            if isinstance(r, (ast.Dict, ast.List, ast.Set)):
                mutable = True
            if isinstance(r, ast.Name):
                for x in ast.walk(fn):
                    if isinstance(x, ast.Assign) and any(isinstance(t, ast.Name) and t.id == r.id for t in x.targets):
                        v = x.value
                        if isinstance(v, (ast.Dict, ast.List, ast.Set)):
                            mutable = True
                        if isinstance(v, ast.Call) and any(k.arg == 'get_dict' and isinstance(k.value, ast.Constant) and k.value.value
                                                            for k in v.keywords):
                            mutable = True
        # a non-cached wrapper that returns the cached container itself (not a copy) also hands it out
        params = [a.arg for a in fn.args.args]
        out.append({'mod': q[0], 'name': q[1], 'cached': cached, 'key': params, 'reads': sorted(reads[q]),
                    'mutable_result': mutable})
    # module-level names read by a cached function are harmless if every call site passes their *current* value in a key
    # parameter (only possible to establish for private functions, whose call sites are all in the package)
    for o in out:
        o['uncovered_reads'] = list(o['reads'])
        if not o['cached'] or not o['reads']:
            if not o['cached']:
                o['uncovered_reads'] = []
            continue
        if not o['name'].startswith('_'):
            continue
        sites = []
        for q, fn in funcs.items():
            for x in ast.walk(fn):
                if isinstance(x, ast.Call) and isinstance(x.func, ast.Name) and x.func.id == o['name'] and q[0] == o['mod']:
                    sites.append((q, x))
        if not sites:
            continue
        covered = set(o['reads'])
        for q, call in sites:
            passed = {a.id for a in call.args if isinstance(a, ast.Name)} | {k.value.id for k in call.keywords if isinstance(k.value, ast.Name)}
            # the passing function must not rebind the name locally
            fnq = funcs[q]
            local = {t.id for x in ast.walk(fnq) if isinstance(x, ast.Assign) for t in x.targets if isinstance(t, ast.Name)} | {a.arg for a in fnq.args.args}
            covered &= {g for g in passed if g not in local}
        o['uncovered_reads'] = sorted(set(o['reads']) - covered)
    # which public functions hand out a cached container without copying it
    by = {(o['mod'], o['name']): o for o in out}
    for o in out:
        o['hands_out_cached_container'] = False
        fn = funcs[(o['mod'], o['name'])]
        if o['cached'] and o['mutable_result'] and not o['name'].startswith('_'):
            o['hands_out_cached_container'] = True
        for x in ast.walk(fn):
            if isinstance(x, ast.Return) and isinstance(x.value, ast.Name):
                # returns a variable bound to a call of a cached mutable-result function, uncopied
                for y in ast.walk(fn):
                    if isinstance(y, ast.Assign) and isinstance(y.value, ast.Call) and any(
                            isinstance(t, ast.Name) and t.id == x.value.id for t in y.targets):
                        cal = y.value.func
                        nm = cal.id if isinstance(cal, ast.Name) else None
                        tgt = by.get((o['mod'], nm))
                        if tgt and tgt['cached'] and tgt['mutable_result']:
                            o['hands_out_cached_container'] = True
    return out, {k: v for k, v in module_state.items() if v}


def unknown_decorators(repo):
    """decorated functions of the library whose decorator is not one the model understands (functools.lru_cache with its extracted key, property / setter,
    dataclass, staticmethod / classmethod): a home-made caching or wrapping decorator puts the function outside the memo model"""
    import glob
    out = []
    for path in sorted(glob.glob(os.path.join(repo, 'src/DHLLDV/*.py')) + glob.glob(os.path.join(repo, 'src/Wilson/*.py'))):
        t = ast.parse(open(path).read())
        mod = os.path.splitext(os.path.basename(path))[0]
        for fn in [n for n in ast.walk(t) if isinstance(n, (ast.FunctionDef, ast.AsyncFunctionDef, ast.ClassDef))]:
            for d in fn.decorator_list:
                txt = ast.unparse(d.func if isinstance(d, ast.Call) else d)
                if txt in ('functools.lru_cache', 'lru_cache', 'property', 'dataclass', 'dataclasses.dataclass', 'staticmethod', 'classmethod') or txt.endswith('.setter'):
                    continue
                out.append(f'{mod}.{fn.name}@{txt}')
    return sorted(set(out))


def module_state_writers(repo):
    """functions of the library (src/DHLLDV, src/Wilson) that rebind module-level names (`global` / `nonlocal` statements) or assign an attribute of an imported
    module (DHLLDV_framework.use_sf = ...): a function that does is not a function of its arguments and the two switches alone"""
    import glob
    out = []
    for path in sorted(glob.glob(os.path.join(repo, 'src/DHLLDV/*.py')) + glob.glob(os.path.join(repo, 'src/Wilson/*.py'))):
        t = ast.parse(open(path).read())
        imported = set()
        for n in ast.walk(t):
            if isinstance(n, ast.Import):
                imported |= {(a.asname or a.name).split('.')[0] for a in n.names}
            elif isinstance(n, ast.ImportFrom):
                imported |= {(a.asname or a.name) for a in n.names}
        mod = os.path.splitext(os.path.basename(path))[0]
        for fn in [n for n in ast.walk(t) if isinstance(n, (ast.FunctionDef, ast.AsyncFunctionDef))]:
            for x in ast.walk(fn):
                hit = isinstance(x, (ast.Global, ast.Nonlocal))
                if isinstance(x, (ast.Assign, ast.AugAssign, ast.AnnAssign)):
                    for tg in (x.targets if isinstance(x, ast.Assign) else [x.target]):
                        if isinstance(tg, ast.Attribute) and isinstance(tg.value, ast.Name) and tg.value.id in imported and tg.value.id != 'self':
                            hit = True
                if hit:
                    out.append(f'{mod}.{fn.name}')
                    break
    return sorted(set(out))


def excel_requireds(repo):
    """the `excel_requireds` literal of load_pump_excel.py and the exception classes the validator converts"""
    src = open(os.path.join(repo, 'DHLLDV_viewer/load_pump_excel.py')).read()
    tree = ast.parse(src)
    req = None
    for n in tree.body:
        if isinstance(n, ast.Assign) and isinstance(n.targets[0], ast.Name) and n.targets[0].id == 'excel_requireds':
            req = n.value
    if req is None:
        raise SystemExit('effects: cannot find excel_requireds in load_pump_excel.py')
    out = []
    for k, v in zip(req.keys, req.values):
        t = ast.literal_eval(k)
        required, scalars, tables = False, [], []
        for fk, fv in zip(v.keys, v.values):
            name = ast.literal_eval(fk)
            if name == 'required':
                required = ast.literal_eval(fv)
            elif isinstance(fv, ast.Name):
                scalars.append((name, fv.id == 'float'))
            elif isinstance(fv, ast.Dict):
                cols = []
                for ck in fv.keys:
                    c = ast.literal_eval(ck)
                    cols.append(list(c) if isinstance(c, tuple) else [c])
                tables.append((name, cols))
            else:
                raise SystemExit(f'effects: cannot read excel_requireds[{t}][{name}]')
        out.append((t, required, scalars, tables))
    # exception classes caught around the scalar lookup and the table lookup in validate_excel_fields
    caught = {'scalar': [], 'table': []}
    fn = next(n for n in tree.body if isinstance(n, ast.FunctionDef) and n.name == 'validate_excel_fields')
    for x in ast.walk(fn):
        if isinstance(x, ast.Try):
            kind = 'scalar' if 'get_range_value' in ast.unparse(x.body[0]) else 'table'
            for h in x.handlers:
                t = h.type
                names = [e.id for e in t.elts] if isinstance(t, ast.Tuple) else [t.id]
                caught[kind] += names
    load_src = ast.unparse(next(n for n in tree.body if isinstance(n, ast.FunctionDef) and n.name == 'load_pipeline_from_workbook'))
    pump_src = ast.unparse(next(n for n in tree.body if isinstance(n, ast.FunctionDef) and n.name == 'load_pump_from_worksheet'))
    facts = {'dangling_pump_checked': 'not in pumps' in load_src and 'InvalidExcelError' in load_src,
             'curve_without_driver_checked': "== 'curve'" in pump_src and 'InvalidExcelError' in pump_src,
             'validate_called_first': load_src.split('\n')[2].strip().startswith('validate_excel(wb)') or 'validate_excel(wb)' in load_src.split('pipesheet_id')[0]}
    return out, caught, facts


def filename_rules(repo):
    """whitelist / replace list and the shape of remove_disallowed_filename_chars + the file-name branch of store_to_excel"""
    import string as _string
    src = open(os.path.join(repo, 'DHLLDV_viewer/store_pump_excel.py')).read()
    tree = ast.parse(src)

    def ev(node):
        if isinstance(node, ast.Constant):
            return node.value
        if isinstance(node, ast.List):
            return [ev(e) for e in node.elts]
        if isinstance(node, ast.JoinedStr):
            return ''.join(ev(v) for v in node.values)
        if isinstance(node, ast.FormattedValue):
            return ev(node.value)
        if isinstance(node, ast.Attribute) and isinstance(node.value, ast.Name) and node.value.id == 'string':
            return getattr(_string, node.attr)
        raise SystemExit('effects: cannot evaluate ' + ast.unparse(node))
    vals = {}
    for n in tree.body:
        if isinstance(n, ast.Assign) and isinstance(n.targets[0], ast.Name) and n.targets[0].id in ('replace_filename_chars', 'valid_filename_chars'):
            vals[n.targets[0].id] = ev(n.value)
    fn = next(n for n in tree.body if isinstance(n, ast.FunctionDef) and n.name == 'remove_disallowed_filename_chars')
    body = [ast.unparse(x) for x in fn.body if not (isinstance(x, ast.Expr) and isinstance(x.value, ast.Constant))]
    expect = ["if extension is None:\n    extension = ''",
              'cleaned_filename = filename_candidate',
              "for c in replace_filename_chars:\n    cleaned_filename = cleaned_filename.replace(c, '_')",
              "cleaned_filename = ''.join((c for c in cleaned_filename if c in valid_filename_chars))",
              'cleaned_filename += extension',
              'return cleaned_filename']
    st = next(n for n in tree.body if isinstance(n, ast.FunctionDef) and n.name == 'store_to_excel')
    st_src = ast.unparse(st)
    name_branch = ("if fname is None:" in st_src
                   and "fname = os.path.join(path, remove_disallowed_filename_chars(basename, '.xlsx'))" in st_src
                   and "if '.xlsx' in fname and fname[-5:] == '.xlsx':" in st_src
                   and "fname = os.path.join(path, remove_disallowed_filename_chars(fname[:-5], '.xlsx'))" in st_src
                   and "fname = os.path.join(path, remove_disallowed_filename_chars(fname, '.xlsx'))" in st_src
                   and 'wb.save(fname)' in st_src)
    return vals.get('replace_filename_chars'), vals.get('valid_filename_chars'), body == expect, name_branch


def unit_constants(repo):
    """unit_conv_US / unit_conv_SI literals of DHLLDV_viewer/unit_conv.py as exact decimal strings / rational expressions"""
    src = open(os.path.join(repo, 'DHLLDV_viewer/unit_conv.py')).read()
    tree = ast.parse(src)
    out = {}

    def lean_expr(n):
        if isinstance(n, ast.Constant) and isinstance(n.value, (int, float)):
            r = repr(n.value)
            if 'e' in r or 'inf' in r or 'nan' in r:
                raise SystemExit('effects: unit constant literal ' + r)
            if r.startswith('.'):
                r = '0' + r
            return f'({r} : Rat)'
        if isinstance(n, ast.BinOp):
            op = {ast.Add: '+', ast.Sub: '-', ast.Mult: '*', ast.Div: '/'}.get(type(n.op))
            if op:
                return f'({lean_expr(n.left)} {op} {lean_expr(n.right)})'
            if isinstance(n.op, ast.Pow) and isinstance(n.right, ast.Constant) and isinstance(n.right.value, int):
                return f'({lean_expr(n.left)} ^ {n.right.value})'
        raise SystemExit('effects: cannot read unit constant ' + ast.unparse(n))
    for node in tree.body:
        if isinstance(node, ast.Assign) and isinstance(node.targets[0], ast.Name) and node.targets[0].id == 'unit_conv_US':
            for k, v in zip(node.value.keys, node.value.values):
                out['US_' + ast.literal_eval(k).replace(' ', '_')] = lean_expr(v)
        if isinstance(node, ast.Assign) and isinstance(node.targets[0], ast.Subscript) and ast.unparse(node.targets[0].value) == 'unit_conv_SI':
            key = ast.literal_eval(node.targets[0].slice)
            if isinstance(node.value, (ast.Constant, ast.BinOp)):
                out['SI_' + key.replace(' ', '_')] = lean_expr(node.value)
    return out


def lean_str_list(xs):
    return '[' + ', '.join(json.dumps(x) for x in xs) + ']'


def main(repo, outdir):
    fx = SlurryFx(open(os.path.join(repo, 'src/DHLLDV/SlurryObj.py')).read()).extract()
    caches, module_state = cache_effects(repo)
    lines = ['/-! GENERATED by py2lean/effects: effect tables extracted from the sources (tie A) — do not edit. -/', '',
             'namespace Effects', '']
    lines.append('/-- per parameter: dirty flags its setter raises -/')
    lines.append('def slurryRaises : List (String × List String) := ['
                 + ', '.join(f'({json.dumps(p)}, {lean_str_list(v)})' for p, v in fx['raises'].items()) + ']')
    lines.append(f'def slurryReadsGsd : List String := {lean_str_list(fx["reads_gsd"])}')
    lines.append(f'def slurryReadsCurves : List String := {lean_str_list(fx["reads_curves"])}')
    lines.append(f'def slurryClassLevelState : List String := {lean_str_list(fx["class_level_state"])}')
    for k in ('gsd_clears_flag_first', 'gsd_raises_curves', 'gsd_rebinds_fresh_dict', 'curves_checks_gsd',
              'curves_regenerates_all_unconditionally', 'curves_read_gsd', 'getters_guarded', 'pointwise_use_guarded_getters', 'setters_no_early_exit', 'curves_rebind_fresh_objects'):
        lines.append(f'def {k} : Bool := {"true" if fx[k] else "false"}')
    lines.append('')
    lines.append('/-- (module.function, cached?, key parameters, module-level mutable names read transitively and not passed in the key, hands out a cached mutable container) -/')
    lines.append('def caches : List (String × Bool × List String × List String × Bool) := [')
    lines.append(',\n'.join(f'  ({json.dumps(c["mod"] + "." + c["name"])}, {"true" if c["cached"] else "false"}, {lean_str_list(c["key"])}, '
                            f'{lean_str_list(c["uncovered_reads"])}, {"true" if c["hands_out_cached_container"] else "false"})' for c in caches))
    lines.append(']')
    lines.append(f'def hiddenModuleState : List String := {lean_str_list([m + "." + n for m, ns in sorted(module_state.items()) for n in ns])}')
    lines.append(f'def moduleStateWriters : List String := {lean_str_list(module_state_writers(repo))}')
    lines.append(f'def unknownDecorators : List String := {lean_str_list(unknown_decorators(repo))}')
    lines.append('')
    req, caught, facts = excel_requireds(repo)
    lines.append('/-- excel_requireds: (sheet type, required, scalar fields (name, numeric?), tables (name, columns as lists of substrings)) -/')
    lines.append('def excelRequireds : List (String × Bool × List (String × Bool) × List (String × List (List String))) := [')
    rows = []
    for t, required, scalars, tables in req:
        sc = '[' + ', '.join(f'({json.dumps(n)}, {"true" if f else "false"})' for n, f in scalars) + ']'
        tb = '[' + ', '.join(f'({json.dumps(n)}, [' + ', '.join(lean_str_list(c) for c in cols) + '])' for n, cols in tables) + ']'
        rows.append(f'  ({json.dumps(t)}, {"true" if required else "false"}, {sc}, {tb})')
    lines.append(',\n'.join(rows))
    lines.append(']')
    lines.append(f'def excelScalarLookupCatches : List String := {lean_str_list(caught["scalar"])}')
    lines.append(f'def excelTableLookupCatches : List String := {lean_str_list(caught["table"])}')
    for k, v in facts.items():
        lines.append(f'def excel_{k} : Bool := {"true" if v else "false"}')
    repl, valid, shape_ok, branch_ok = filename_rules(repo)
    lines.append(f'def filenameReplace : List String := {lean_str_list(repl or [])}')
    lines.append(f'def filenameValid : String := {json.dumps(valid or "")}')
    lines.append(f'def filename_sanitiser_shape_recognised : Bool := {"true" if shape_ok else "false"}')
    lines.append(f'def filename_branch_recognised : Bool := {"true" if branch_ok else "false"}')
    for k, v in unit_constants(repo).items():
        lines.append(f'def unit_{k} : Rat := {v}')
    lines.append('')
    lines.append('end Effects')
    text = '\n'.join(lines) + '\n'
    path = os.path.join(outdir, 'Effects.lean')
    if not (os.path.exists(path) and open(path).read() == text):
        open(path, 'w').write(text)
    json.dump({'slurry': fx, 'caches': caches, 'module_state': module_state, 'excel_requireds': req, 'excel_caught': caught, 'excel_facts': facts}, open(os.path.join(outdir, 'effects.json'), 'w'), indent=1, sort_keys=True)
    print('effects: extracted', len(fx['raises']), 'setters,', sum(1 for c in caches if c['cached']), 'cached functions')
