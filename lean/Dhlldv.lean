-- Root of the `Dhlldv` library: the executable model (no Mathlib).  Proof files are built by name.
import Dhlldv.Prim
import Dhlldv.Gen.Dispatch
import Dhlldv.Spec.Dispatch
