/-
Driver.lean — line-protocol driver for the executable (α := Float) reading of the model.
Run:  lake env lean --run Driver.lean < ops.txt
One operation per line: `<op> <arg> …` (doubles as decimal UInt64 bit patterns, booleans 0/1,
naturals in decimal).  One result line per operation; `bad-op` for anything not understood.
-/
import Dhlldv.Gen.Dispatch
import Dhlldv.Spec.Dispatch

partial def loop (h : IO.FS.Stream) (out : IO.FS.Stream) : IO Unit := do
  let line ← h.getLine
  if line.isEmpty then return ()
  let parts := (line.trimAscii.toString.splitOn " ").filter (· ≠ "")
  match parts with
  | op :: args =>
    let a := args.toArray
    match Gen.dispatch op a with
    | some s => out.putStrLn s
    | none =>
      match Spec.dispatch op a with
      | some s => out.putStrLn s
      | none => out.putStrLn "bad-op"
  | [] => out.putStrLn "bad-op"
  loop h out

def main : IO Unit := do
  let out ← IO.getStdout
  loop (← IO.getStdin) out
