import Dhlldv.Lemmas.Interp
import Dhlldv.Lemmas.InterpMono
import Dhlldv.Gen.Tables
import Mathlib.Tactic.NormNum

/-! # C18 — interpolating tables return exact piecewise-linear lookups

`InterpTable.lookup` (Prim.lean) mirrors `interpDict.__getitem__` branch by branch and is tied to it by the
bit-exact correspondence check; the theorems below are its functional correctness at `α := ℝ` against the
piecewise-linear specification, for every table with strictly increasing keys (any sign, any spacing, any
length ≥ 2) and every query.  `none` is `IndexError`. -/

open Interp

section
variable (t : InterpTable ℝ)

/-- a tabulated key returns the stored value -/
theorem C18_hit (hs : Sorted t.pts) (k v : ℝ) (hm : (k, v) ∈ t.pts) : t.lookup k = some v := by
  unfold InterpTable.lookup
  match h : t.pts, hs, hm with
  | [p], _, hm =>
    simp only [List.mem_singleton] at hm
    subst hm; simp [feq_self]
  | p0 :: p1 :: rest, hs, hm =>
    simp only
    rcases List.mem_cons.1 hm with h0 | h0
    · subst h0; simp [feq_self]
    · have hlt : p0.1 < k := (List.pairwise_cons.1 hs).1 (k, v) h0
      rw [feq_false_of_ne (ne_of_lt hlt)]
      simp only [Bool.false_eq_true, if_false, not_lt.mpr hlt.le]
      rw [inner_hit p0 (p1 :: rest) k v hs h0]

/-- strictly between two neighbouring keys: the straight line through the two neighbours -/
theorem C18_between (hs : Sorted t.pts) (l1 l2 : List (ℝ × ℝ)) (a b : ℝ × ℝ) (k : ℝ)
    (hl : t.pts = l1 ++ a :: b :: l2) (ha : a.1 < k) (hb : k < b.1) :
    t.lookup k = some (lineAt a.1 a.2 b.1 b.2 k) := by
  unfold InterpTable.lookup
  match h : t.pts, hs, hl with
  | [], _, hl => cases l1 <;> simp at hl
  | [p], _, hl => cases l1 with
    | nil => simp at hl
    | cons c l1 => cases l1 <;> simp at hl
  | p0 :: p1 :: rest, hs, hl =>
    simp only
    have hmem : a ∈ p0 :: p1 :: rest := by rw [hl]; simp
    have h0a : p0.1 ≤ a.1 := by
      rcases List.mem_cons.1 hmem with h | h
      · rw [h]
      · exact le_of_lt ((List.pairwise_cons.1 hs).1 a h)
    have hlt : p0.1 < k := lt_of_le_of_lt h0a ha
    rw [feq_false_of_ne (ne_of_lt hlt)]
    simp only [Bool.false_eq_true, if_false, not_lt.mpr hlt.le]
    rw [inner_between p0 l1 l2 a b k hl hs ha hb]

/-- above the last key: the end segment is extended iff extrapolation is on or the key is within the
tolerance; otherwise IndexError -/
theorem C18_above (hs : Sorted t.pts) (l : List (ℝ × ℝ)) (a b : ℝ × ℝ) (k : ℝ)
    (hl : t.pts = l ++ [a, b]) (hk : b.1 < k) :
    t.lookup k = if t.exHigh = true ∨ k ≤ b.1 * (1 + t.tol) then some (lineAt a.1 a.2 b.1 b.2 k) else none := by
  have hall : ∀ q ∈ t.pts, q.1 < k := by
    intro q hq
    rw [hl] at hq hs
    have hb' : b ∈ l ++ [a, b] := by simp
    rcases List.mem_append.1 hq with h | h
    · exact lt_trans ((List.pairwise_append.1 hs).2.2 q h b (by simp)) hk
    · simp only [List.mem_cons, List.mem_singleton, List.not_mem_nil, or_false] at h
      rcases h with h | h
      · subst h
        have := (List.pairwise_append.1 hs).2.1
        simp only [List.pairwise_cons, List.mem_singleton, forall_eq] at this
        exact lt_trans this.1 hk
      · subst h; exact hk
  unfold InterpTable.lookup
  match h : t.pts, hall, hl with
  | [], _, hl => cases l <;> simp at hl
  | [p], _, hl => cases l with
    | nil => simp at hl
    | cons c l => cases l <;> simp at hl
  | p0 :: p1 :: rest, hall, hl =>
    simp only
    have h0 : p0.1 < k := hall p0 (by simp)
    rw [feq_false_of_ne (ne_of_lt h0)]
    simp only [Bool.false_eq_true, if_false, not_lt.mpr h0.le]
    rw [inner_none p0 (p1 :: rest) k (fun q hq => hall q (by simp [hq]))]
    simp only
    rw [hl, lastTwo_append]
    simp only [Bool.or_eq_true, decide_eq_true_eq]
    norm_num

/-- below the first key: symmetric -/
theorem C18_below (a b : ℝ × ℝ) (l : List (ℝ × ℝ)) (k : ℝ) (hl : t.pts = a :: b :: l) (hk : k < a.1) :
    t.lookup k = if t.exLow = true ∨ k ≥ a.1 * (1 - t.tol) then some (lineAt a.1 a.2 b.1 b.2 k) else none := by
  unfold InterpTable.lookup
  rw [hl]
  simp only
  rw [feq_false_of_ne (ne_of_gt hk)]
  simp only [Bool.false_eq_true, if_false, hk, if_true, Bool.or_eq_true, decide_eq_true_eq]
  norm_num

/-- the "within 0.1 %" wording of the tolerance clause, for tables whose end keys are positive -/
theorem C18_tolerance_wording (x k tol : ℝ) (hx : 0 < x) :
    (k ≤ x * (1 + tol) ↔ (k - x) / x ≤ tol) ∧ (k ≥ x * (1 - tol) ↔ (x - k) / x ≤ tol) := by
  constructor
  · rw [div_le_iff₀ hx]; constructor <;> intro h <;> nlinarith
  · rw [div_le_iff₀ hx]; constructor <;> intro h <;> nlinarith

/-- the interpolant is continuous at every node: both neighbouring segments pass through the stored value -/
theorem C18_segments_meet (x1 y1 x2 y2 : ℝ) (h : x1 ≠ x2) :
    lineAt x1 y1 x2 y2 x2 = y2 ∧ lineAt x1 y1 x2 y2 x1 = y1 :=
  ⟨lineAt_right x1 y1 x2 y2 h, lineAt_left x1 y1 x2 y2⟩

/-- on a segment with increasing end values the interpolant is increasing (decreasing for decreasing values) -/
theorem C18_segment_mono (x1 y1 x2 y2 k k' : ℝ) (hx : x1 < x2) (hk : k < k') :
    (y1 < y2 → lineAt x1 y1 x2 y2 k < lineAt x1 y1 x2 y2 k') ∧
    (y2 < y1 → lineAt x1 y1 x2 y2 k' < lineAt x1 y1 x2 y2 k) := by
  unfold lineAt
  have hd : 0 < x2 - x1 := sub_pos.2 hx
  constructor
  · intro hy
    have : 0 < (y2 - y1) / (x2 - x1) := div_pos (sub_pos.2 hy) hd
    nlinarith
  · intro hy
    have : (y2 - y1) / (x2 - x1) < 0 := div_neg_of_neg_of_pos (sub_neg.2 hy) hd
    nlinarith

end

/-! ## The shipped tables (literals regenerated from `DHLLDV_constants.py` on every run) -/

theorem C18_shipped_sorted :
    Sorted (Tbl.water_density (α := ℝ)).pts ∧ Sorted (Tbl.water_dynamic_viscosity (α := ℝ)).pts ∧
    Sorted (Tbl.water_viscosity (α := ℝ)).pts ∧ Sorted (Tbl.Arel_to_beta (α := ℝ)).pts := by
  refine ⟨?_, ?_, ?_, ?_⟩ <;>
  · unfold Sorted
    simp only [Tbl.water_density, Tbl.water_dynamic_viscosity, Tbl.water_viscosity, Tbl.Arel_to_beta,
      List.pairwise_cons, List.mem_cons, List.not_mem_nil, or_false, forall_eq_or_imp, forall_eq,
      List.Pairwise.nil, and_true, IsEmpty.forall_iff, implies_true]
    norm_num

theorem C18_shipped_positive :
    (∀ p ∈ (Tbl.water_density (α := ℝ)).pts, 0 < p.2) ∧ (∀ p ∈ (Tbl.water_dynamic_viscosity (α := ℝ)).pts, 0 < p.2) ∧
    (∀ p ∈ (Tbl.water_viscosity (α := ℝ)).pts, 0 < p.2) := by
  refine ⟨?_, ?_, ?_⟩ <;>
  · simp only [Tbl.water_density, Tbl.water_dynamic_viscosity, Tbl.water_viscosity,
      List.mem_cons, List.not_mem_nil, or_false, forall_eq_or_imp, forall_eq]
    norm_num

/-- dynamic and kinematic water viscosity strictly decrease with temperature at the nodes; by
`C18_segment_mono` and `C18_segments_meet` the interpolant then decreases on the whole range -/
theorem C18_viscosity_decreasing :
    (Tbl.water_dynamic_viscosity (α := ℝ)).pts.Pairwise (fun p q => q.2 < p.2) ∧
    (Tbl.water_viscosity (α := ℝ)).pts.Pairwise (fun p q => q.2 < p.2) := by
  refine ⟨?_, ?_⟩ <;>
  · simp only [Tbl.water_dynamic_viscosity, Tbl.water_viscosity,
      List.pairwise_cons, List.mem_cons, List.not_mem_nil, or_false, forall_eq_or_imp, forall_eq,
      List.Pairwise.nil, and_true, IsEmpty.forall_iff, implies_true]
    norm_num

/-- a table with strictly increasing keys and strictly decreasing values is strictly decreasing on its WHOLE key range (nodes and in between) -/
theorem C18_lookup_strictAnti (t : InterpTable ℝ) (p q : ℝ × ℝ) (rest : List (ℝ × ℝ)) (ht : t.pts = p :: q :: rest) (hd : Dec p (q :: rest))
    (x y : ℝ) (h1 : p.1 ≤ x) (h2 : x < y) (h3 : y ≤ (lastPt p (q :: rest)).1) :
    ∃ vx vy, t.lookup x = some vx ∧ t.lookup y = some vy ∧ vy < vx := by
  obtain ⟨vx, vy, a, b, c⟩ := F_strictAnti (q :: rest) p x y hd h1 h2 h3
  refine ⟨vx, vy, ?_, ?_, c⟩
  · rw [lookup_eq_F t p q rest ht hd x h1 (by linarith)]; exact a
  · rw [lookup_eq_F t p q rest ht hd y (by linarith) h3]; exact b

/-- water viscosity (dynamic and kinematic, shipped tables) decreases strictly with temperature everywhere on 0–100 °C -/
theorem C18_viscosity_decreasing_everywhere (x y : ℝ) (h1 : 0 ≤ x) (h2 : x < y) (h3 : y ≤ 100) :
    (∃ vx vy, (Tbl.water_dynamic_viscosity (α := ℝ)).lookup x = some vx ∧ (Tbl.water_dynamic_viscosity (α := ℝ)).lookup y = some vy ∧ vy < vx) ∧
    (∃ vx vy, (Tbl.water_viscosity (α := ℝ)).lookup x = some vx ∧ (Tbl.water_viscosity (α := ℝ)).lookup y = some vy ∧ vy < vx) := by
  constructor
  · apply C18_lookup_strictAnti _ _ _ _ rfl _ x y
    · show (0.0 : ℝ) ≤ x; norm_num; exact h1
    · exact h2
    · simp only [lastPt]; norm_num; exact h3
    · simp only [Dec]; norm_num
  · apply C18_lookup_strictAnti _ _ _ _ rfl _ x y
    · show (0.0 : ℝ) ≤ x; norm_num; exact h1
    · exact h2
    · simp only [lastPt]; norm_num; exact h3
    · simp only [Dec]; norm_num

/-! Non-vacuity: a concrete table meets the hypotheses and exercises hit / between / above / below. -/
example : Sorted [((1:ℝ), (2:ℝ)), (3, 5), (7, 4)] := by
  unfold Sorted; simp only [List.pairwise_cons]; norm_num
