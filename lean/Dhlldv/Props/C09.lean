import Dhlldv.Lemmas.PipelineSum
import Dhlldv.Lemmas.Interp
import Mathlib.Tactic.Linarith
import Mathlib.Tactic.SplitIfs

/-! # C09 — pipeline system head is the sum of its parts and uses the current slurry
Theorems over `Spec.Pipe.sysHead` / `updateSlurries` (hand-written model of `Pipeline.calc_system_head` /
`update_slurries`, tied to the implementation by the correspondence check). -/

open Spec.Pipe

section
variable (g rhom rhol Q : ℝ)

/-- closed form: Σ friction·length + Σ K v²/2g·ρ + Σ_{L>0} lift·ρ + suction submergence of a zero-length entrance + exit velocity head
of the last pipe, for slurry and for water; pump heads are the sums of the pumps' heads -/
theorem C09_sum (secs : List (Sec ℝ)) :
    sysHead g rhom rhol Q secs =
      ( (secs.map tFricM).sum + (secs.map (tFitM g rhom Q)).sum + (z0 rhol secs + (secs.map (tZM rhom)).sum) + lastHv g Q secs 0 * rhom,
        (secs.map tFricL).sum + (secs.map (tFitL g rhol Q)).sum + (z0 rhol secs + (secs.map (tZL rhol)).sum) + lastHv g Q secs 0 * rhol,
        (secs.map tPL).sum, (secs.map tPM).sum ) := by
  unfold sysHead
  obtain ⟨h1, h2, h3, h4, h5, h6, h7, h8, h9⟩ := foldl_closed g rhom rhol Q secs (accInit (z0 rhol secs))
  simp only [h1, h2, h3, h4, h5, h6, h7, h8, h9]
  simp only [accInit, sci_zero, zero_add]

/-- zero-length sections contribute fittings only -/
theorem C09_zero_length (D K dz imv ilv : ℝ) :
    tFricM (Sec.pipe D 0 K dz imv ilv) = 0 ∧ tZM rhom (Sec.pipe D 0 K dz imv ilv) = 0 ∧
    tFitM g rhom Q (Sec.pipe D 0 K dz imv ilv) = K * velHead g D Q * rhom := by
  simp [tFricM, tZM, tFitM]

/-- reordering the interior sections (first and last section kept) leaves all four heads unchanged -/
theorem C09_perm (first : Sec ℝ) (mid mid' : List (Sec ℝ)) (D L K dz imv ilv : ℝ) (h : mid.Perm mid') :
    sysHead g rhom rhol Q (first :: (mid ++ [Sec.pipe D L K dz imv ilv])) =
    sysHead g rhom rhol Q (first :: (mid' ++ [Sec.pipe D L K dz imv ilv])) := by
  have hp : (first :: (mid ++ [Sec.pipe D L K dz imv ilv])).Perm (first :: (mid' ++ [Sec.pipe D L K dz imv ilv])) :=
    List.Perm.cons _ (List.Perm.append_right _ h)
  rw [C09_sum, C09_sum]
  have hz : z0 rhol (first :: (mid ++ [Sec.pipe D L K dz imv ilv])) = z0 rhol (first :: (mid' ++ [Sec.pipe D L K dz imv ilv])) := by
    cases first <;> rfl
  have hl : lastHv g Q (first :: (mid ++ [Sec.pipe D L K dz imv ilv])) 0 = lastHv g Q (first :: (mid' ++ [Sec.pipe D L K dz imv ilv])) 0 := by
    rw [← List.cons_append, ← List.cons_append, lastHv_append_pipe, lastHv_append_pipe]
  rw [hz, hl, (hp.map _).sum_eq, (hp.map (tFitM g rhom Q)).sum_eq, (hp.map (tZM rhom)).sum_eq, (hp.map tFricL).sum_eq,
    (hp.map (tFitL g rhol Q)).sum_eq, (hp.map (tZL rhol)).sum_eq, (hp.map tPL).sum_eq, (hp.map tPM).sum_eq]

/-- splitting a positive-length section in two (same diameter, lengths / K / lifts adding up) leaves all four heads unchanged -/
theorem C09_split (pre post : List (Sec ℝ)) (D L1 L2 K1 K2 dz1 dz2 imv ilv : ℝ) (h1 : 0 < L1) (h2 : 0 < L2) :
    sysHead g rhom rhol Q (pre ++ Sec.pipe D (L1 + L2) (K1 + K2) (dz1 + dz2) imv ilv :: post) =
    sysHead g rhom rhol Q (pre ++ Sec.pipe D L1 K1 dz1 imv ilv :: Sec.pipe D L2 K2 dz2 imv ilv :: post) := by
  have h12 : 0 < L1 + L2 := by linarith
  rw [C09_sum, C09_sum]
  have hz : z0 rhol (pre ++ Sec.pipe D (L1 + L2) (K1 + K2) (dz1 + dz2) imv ilv :: post) =
      z0 rhol (pre ++ Sec.pipe D L1 K1 dz1 imv ilv :: Sec.pipe D L2 K2 dz2 imv ilv :: post) := by
    cases pre with
    | nil =>
      simp only [List.nil_append, z0, sci_zero]
      rw [Interp.feq_false_of_ne (ne_of_gt h12), Interp.feq_false_of_ne (ne_of_gt h1)]
      simp
    | cons s rest => cases s <;> rfl
  have hl : lastHv g Q (pre ++ Sec.pipe D (L1 + L2) (K1 + K2) (dz1 + dz2) imv ilv :: post) 0 =
      lastHv g Q (pre ++ Sec.pipe D L1 K1 dz1 imv ilv :: Sec.pipe D L2 K2 dz2 imv ilv :: post) 0 := by
    rw [lastHv_append, lastHv_append]; rfl
  rw [hz, hl]
  simp only [List.map_append, List.map_cons, List.sum_append, List.sum_cons, tFricM, tFricL, tFitM, tFitL, tZM, tZL, tPL, tPM,
    gt_iff_lt, h1, h2, h12, if_true]
  refine Prod.ext ?_ (Prod.ext ?_ (Prod.ext ?_ ?_)) <;> simp only [] <;> ring

end

/-! ## `update_slurries`: after the pipeline-level concentration or slurry is replaced, every pipe's diameter maps to the new
slurry at that diameter, and every pump uses the pipeline slurry -/

theorem lookupD_append_self (m : List (Nat × Slurry)) (d : Nat) (s : Slurry) (h : (lookupD m d).isSome = false) :
    lookupD (m ++ [(d, s)]) d = some s := by
  unfold lookupD at *
  cases hf : m.find? (fun e => e.1 == d) with
  | some e => rw [hf] at h; simp at h
  | none => simp [List.find?_append, hf]

theorem lookupD_append_keep (m : List (Nat × Slurry)) (d d' : Nat) (s s' : Slurry) (h : lookupD m d = some s) :
    lookupD (m ++ [(d', s')]) d = some s := by
  unfold lookupD at *
  cases hf : m.find? (fun e => e.1 == d) with
  | some e => rw [hf] at h; simp [List.find?_append, hf]; simpa using h
  | none => rw [hf] at h; simp at h

/-- invariant of the dict-building loop: entries are the main slurry at their own diameter, and survive -/
theorem buildSlurries_spec (main : Slurry) (secs : List PSec) : ∀ (m : List (Nat × Slurry)),
    (∀ d s, lookupD m d = some s → s = { main with dp := d }) →
    (∀ d s, lookupD m d = some s → lookupD (buildSlurries main secs m) d = some s) ∧
    (∀ d, PSec.pipe d ∈ secs → lookupD (buildSlurries main secs m) d = some { main with dp := d }) ∧
    (∀ d s, lookupD (buildSlurries main secs m) d = some s → s = { main with dp := d }) := by
  induction secs with
  | nil => intro m hm; exact ⟨fun _ _ h => h, fun _ h => by simp at h, hm⟩
  | cons x rest ih =>
    intro m hm
    cases x with
    | pump sl =>
      simp only [buildSlurries]
      obtain ⟨a, b, c⟩ := ih m hm
      refine ⟨a, ?_, c⟩
      intro d hd
      simp only [List.mem_cons, reduceCtorEq, false_or] at hd
      exact b d hd
    | pipe d0 =>
      simp only [buildSlurries]
      by_cases hs : (lookupD m d0).isSome = true
      · simp only [hs, if_true]
        obtain ⟨a, b, c⟩ := ih m hm
        refine ⟨a, ?_, c⟩
        intro d hd
        simp only [List.mem_cons, PSec.pipe.injEq] at hd
        rcases hd with rfl | hd
        · obtain ⟨s, hsome⟩ := Option.isSome_iff_exists.1 hs
          rw [a _ _ hsome, hm _ _ hsome]
        · exact b d hd
      · simp only [hs, if_false]
        have hs' : (lookupD m d0).isSome = false := by simpa using hs
        have hm' : ∀ d s, lookupD (m ++ [(d0, { main with dp := d0 })]) d = some s → s = { main with dp := d } := by
          intro d s h
          by_cases hd : d = d0
          · subst hd
            rw [lookupD_append_self m d _ hs'] at h
            exact (Option.some.inj h).symm
          · unfold lookupD at h hm
            simp only [List.find?_append] at h
            cases hf : m.find? (fun e => e.1 == d) with
            | some e =>
              rw [hf] at h
              have := hm d e.2 (by rw [hf])
              simp only [Option.some_or] at h
              rw [← Option.some.inj h]; exact this
            | none =>
              rw [hf] at h
              simp only [Option.none_or, List.find?_cons, List.find?_nil] at h
              have : ((d0 == d) = false) := by simpa using (Ne.symm hd)
              simp [this] at h
        obtain ⟨a, b, c⟩ := ih _ hm'
        refine ⟨?_, ?_, c⟩
        · intro d s h
          exact a d s (lookupD_append_keep m d d0 s _ h)
        · intro d hd
          simp only [List.mem_cons, PSec.pipe.injEq] at hd
          rcases hd with rfl | hd
          · exact a _ _ (lookupD_append_self m d _ hs')
          · exact b d hd

theorem C09_update (pl : PL) :
    let pl' := updateSlurries pl
    (∀ d, PSec.pipe d ∈ pl.secs → lookupD pl'.slurries d = some { pl.main with dp := d }) ∧
    (∀ s, PSec.pump s ∈ pl'.secs → s = pl'.main) ∧
    pl'.main.p = pl.main.p ∧
    (∀ d, PSec.pipe d ∈ pl'.secs ↔ PSec.pipe d ∈ pl.secs) := by
  intro pl'
  obtain ⟨_, b, _⟩ := buildSlurries_spec pl.main pl.secs [] (fun d s h => by simp [lookupD] at h)
  refine ⟨b, ?_, ?_, ?_⟩
  · intro s hs
    simp only [pl', updateSlurries, List.map_map, List.mem_map, Function.comp] at hs
    obtain ⟨x, _, hx⟩ := hs
    cases x with
    | pipe d => simp at hx
    | pump sl =>
      simp only [PSec.pump.injEq] at hx
      rw [← hx]
      rfl
  · simp only [pl', updateSlurries]
    split_ifs
    · rfl
    · cases lastDia pl.secs <;> rfl
  · intro d
    simp only [pl', updateSlurries, List.map_map, List.mem_map, Function.comp]
    constructor
    · rintro ⟨x, hx, hxe⟩
      cases x <;> simp_all
    · intro h
      exact ⟨PSec.pipe d, h, rfl⟩

/-- replacing the pipeline-level concentration (or the whole slurry) and propagating: every pipe section's diameter maps to the NEW
parameters at that diameter, every pump uses the new pipeline slurry -/
theorem C09_replace (pl : PL) (p : Nat) (s : Slurry) :
    (∀ d, PSec.pipe d ∈ pl.secs → lookupD (setParams pl p).slurries d = some { p := p, dp := d }) ∧
    (∀ d, PSec.pipe d ∈ pl.secs → lookupD (setSlurry pl s).slurries d = some { p := s.p, dp := d }) ∧
    (∀ x, PSec.pump x ∈ (setParams pl p).secs → x.p = p) ∧ (∀ x, PSec.pump x ∈ (setSlurry pl s).secs → x.p = s.p) := by
  refine ⟨?_, ?_, ?_, ?_⟩
  · intro d hd
    exact (C09_update { pl with main := { pl.main with p := p } }).1 d hd
  · intro d hd
    exact (C09_update { pl with main := s }).1 d hd
  · intro x hx
    have h := C09_update { pl with main := { pl.main with p := p } }
    rw [h.2.1 x hx]; exact h.2.2.1
  · intro x hx
    have h := C09_update { pl with main := s }
    rw [h.2.1 x hx]; exact h.2.2.1

/-! Non-vacuity: a concrete pipeline (zero-length entrance, pump, two diameters) -/
example : (updateSlurries { secs := [.pipe 5, .pump ⟨0, 0⟩, .pipe 7, .pipe 5], main := ⟨3, 9⟩, slurries := [] }) =
    { secs := [.pipe 5, .pump ⟨3, 5⟩, .pipe 7, .pipe 5], main := ⟨3, 5⟩, slurries := [(5, ⟨3, 5⟩), (7, ⟨3, 7⟩)] } := by decide

/-- the pump heads that enter the sum are those of pumps working on THIS pipeline's slurry: after the binding step of `calc_system_head` every pump
in the line holds the pipeline slurry — whatever slurry it held before (it may be part of a second pipeline) —, the pipes, the pipeline slurry and
the per-diameter copies are untouched, and the step is idempotent -/
theorem C09_calc_binds_pumps (pl : Spec.Pipe.PL) :
    (∀ s, Spec.Pipe.PSec.pump s ∈ (Spec.Pipe.bindPumps pl).secs → s = pl.main) ∧
    (∀ d, Spec.Pipe.PSec.pipe d ∈ (Spec.Pipe.bindPumps pl).secs ↔ Spec.Pipe.PSec.pipe d ∈ pl.secs) ∧
    (Spec.Pipe.bindPumps pl).main = pl.main ∧ (Spec.Pipe.bindPumps pl).slurries = pl.slurries ∧
    (Spec.Pipe.bindPumps pl).secs.length = pl.secs.length ∧
    Spec.Pipe.bindPumps (Spec.Pipe.bindPumps pl) = Spec.Pipe.bindPumps pl := by
  refine ⟨?_, ?_, rfl, rfl, by simp [Spec.Pipe.bindPumps], ?_⟩
  · intro s hs
    simp only [Spec.Pipe.bindPumps, List.mem_map] at hs
    obtain ⟨x, _, hx⟩ := hs
    cases x with
    | pipe d => simp at hx
    | pump sl => simp at hx; exact hx.symm
  · intro d
    simp only [Spec.Pipe.bindPumps, List.mem_map]
    constructor
    · rintro ⟨x, hx, h⟩
      cases x with
      | pipe d' => simp at h; subst h; exact hx
      | pump sl => simp at h
    · intro h
      exact ⟨_, h, rfl⟩
  · simp only [Spec.Pipe.bindPumps, List.map_map]
    congr 1
    apply List.map_congr_left
    intro x _
    cases x <;> rfl
