import Dhlldv.Lemmas.SlurryInv
import Dhlldv.Gen.Effects
import Mathlib.Tactic.SplitIfs
import Mathlib.Logic.Basic

/-! # C07 — the slurry object never serves stale derived data, whatever the edit history

`C07_noStale`: for every configuration of (raises, reads) tables that is `Adequate`, every operation history, and every
read at its end, the artefact served was computed from inputs that agree with the *current* parameters on everything the
artefact reads, and from the current grading shape — i.e. it is what a freshly built object serves.
`C07_extracted`: the tables extracted from the current source are adequate (by evaluation). -/



open Spec.Slurry

/-- the invalidation logic is sound for every adequate pair of tables: after ANY history, a read of the grading serves a grading
computed from the current parameters and shape, and a read of the curves serves curves computed from the current parameters
and a current grading -/
theorem C07_noStale (c : Cfg) (h : Adequate c = true) (vals : Vals) (shape : Nat) (ops : List Op) :
    GsdFresh c (run c (init vals shape) (ops ++ [Op.readGsd])) ∧
    CurvesFresh c (run c (init vals shape) (ops ++ [Op.readCurves])) := by
  have a := adeq_of_adequate c h
  have hi := inv_run c a ops (init vals shape) (inv_init c vals shape)
  constructor
  · unfold run at *
    rw [List.foldl_append]
    simp only [List.foldl_cons, List.foldl_nil, step]
    have := inv_ensureGsd c a _ hi
    exact this.1.1 this.2
  · unfold run at *
    rw [List.foldl_append]
    simp only [List.foldl_cons, List.foldl_nil, step]
    split_ifs with hd
    · have := inv_genCurves c a _ hi
      exact this.1.2.1 this.2
    · exact hi.2.1 (by simpa using hd)

/-- the configuration extracted from the current `SlurryObj.py` -/
def extractedCfg : Cfg :=
  { raises := Effects.slurryRaises, readsGsd := Effects.slurryReadsGsd, readsCurves := Effects.slurryReadsCurves,
    gsdRaisesCurves := Effects.gsd_raises_curves, curvesChecksGsd := Effects.curves_checks_gsd }

/-- the tables extracted from the source are adequate, and the structural facts the state machine assumes about the class hold
(flag cleared first, fresh dict rebound, all five curve artefacts regenerated unconditionally, all lazy getters guarded,
pointwise methods go through the guarded getters, the curves read the grading, no setter can be left before its end — the
`raises` table itself only counts flags raised by the unconditional leading assignments of a setter —, and the class holds no
mutable container of its own: whatever an object serves is state of that object; every curve artefact is bound to a newly
built object, never refreshed in place — shallow copies of a slurry share nothing that is written later) -/
theorem C07_extracted :
    Adequate extractedCfg = true ∧ Effects.gsd_clears_flag_first = true ∧ Effects.gsd_rebinds_fresh_dict = true ∧
    Effects.curves_regenerates_all_unconditionally = true ∧ Effects.getters_guarded = true ∧
    Effects.pointwise_use_guarded_getters = true ∧ Effects.curves_read_gsd = true ∧ Effects.setters_no_early_exit = true ∧
    Effects.slurryClassLevelState = [] ∧ Effects.curves_rebind_fresh_objects = true := by
  decide

/-- non-vacuity / sensitivity: a table in which the Dp setter does not raise the grading flag (the state of the source
before the repair) is not adequate, and the two-step history `read; Dp := 1` then serves a stale grading -/
def cfgBeforeFix : Cfg :=
  { raises := [("Cv", ["curves"]), ("D50", ["curves", "gsd"]), ("Dp", ["curves"]),
        ("epsilon", ["curves"]), ("fluid", ["curves"]), ("max_index", ["curves"]), ("rhos", ["curves"])],
    readsGsd := ["D50", "Dp", "fluid", "rhos"], readsCurves := ["Cv", "D50", "Dp", "epsilon", "fluid", "max_index", "rhos"],
    gsdRaisesCurves := true, curvesChecksGsd := true }

theorem C07_counterexample_before_fix :
    Adequate cfgBeforeFix = false ∧
    (run cfgBeforeFix (init (fun _ => 0) 0) [Op.readGsd, Op.set "Dp" 1, Op.readGsd]).gsd.1 "Dp" = 0 ∧
    (run cfgBeforeFix (init (fun _ => 0) 0) [Op.readGsd, Op.set "Dp" 1, Op.readGsd]).vals "Dp" = 1 := by
  decide
