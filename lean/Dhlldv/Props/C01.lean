import Dhlldv.Real
import Dhlldv.Gen.Framework
import Dhlldv.Spec.Select
import Mathlib.Tactic.Linarith
import Mathlib.Tactic.SplitIfs
import Mathlib.Order.Lattice

/-! # C01 — reported regime and gradient follow the DHLLDV selection law

Statements are about the *generated* `framework.Cvs_Erhg…` at `α := ℝ`, for all eight real
arguments and both switches.  The right-hand sides spell out the argument lists of the four
standalone regime models, so each statement is the selection law *and* the pass-through of every
argument and both switches. -/

section
variable (sf sq : Bool) (vls Dp d eps nu rhol rhos Cvs : ℝ)

local notation "FBv" => stratified.fb_Erhg vls Dp d eps nu rhol rhos Cvs
local notation "SBv" => stratified.Erhg vls Dp d eps nu rhol rhos Cvs
local notation "Hev" => heterogeneous.Erhg vls Dp d eps nu rhol rhos Cvs sf sq
local notation "Hov" => homogeneous.Erhg vls Dp d eps nu rhol rhos Cvs true
local notation "ILv" => homogeneous.fluid_head_loss vls Dp eps nu rhol

/-- the reported value is max(min(FB, SB, He), Ho) of the four standalone models -/
theorem C01_value :
    framework.Cvs_Erhg sf sq vls Dp d eps nu rhol rhos Cvs = max (min (min FBv SBv) Hev) Hov := by
  unfold framework.Cvs_Erhg
  generalize FBv = fb
  generalize SBv = sb
  generalize Hev = he
  generalize Hov = ho
  generalize ILv = il
  simp only [max_def, min_def, gt_iff_lt, decide_eq_true_eq]
  split_ifs <;> simp_all [PyDict.get, PyDict.set, PyVal.toNum, PyVal.toStr] <;> linarith

/-- every per-regime entry of the detailed result is the standalone model on the same slurry
(the heterogeneous one under the current switches), and `il` is the liquid gradient -/
theorem C01_dict :
    let D := framework.Cvs_Erhg_dict sf sq vls Dp d eps nu rhol rhos Cvs
    (D.get "il").toNum = ILv ∧ (D.get "FB").toNum = FBv ∧ (D.get "SB").toNum = SBv ∧
    (D.get "He").toNum = Hev ∧ (D.get "Ho").toNum = Hov := by
  unfold framework.Cvs_Erhg_dict
  generalize FBv = fb
  generalize SBv = sb
  generalize Hev = he
  generalize Hov = ho
  generalize ILv = il
  simp [PyDict.get, PyDict.set, PyVal.toNum]

/-- the reported regime code is the Spec's choice, it is one of the four codes, the dict entry under
that code is the reported value, and the long name is the code's name -/
theorem C01_regime :
    let D := framework.Cvs_Erhg_dict sf sq vls Dp d eps nu rhol rhos Cvs
    let r := (D.get "regime").toStr
    r = Spec.selectCode FBv SBv Hev Hov ∧
    (r = "FB" ∨ r = "SB" ∨ r = "He" ∨ r = "Ho") ∧
    (D.get r).toNum = framework.Cvs_Erhg sf sq vls Dp d eps nu rhol rhos Cvs ∧
    framework.Cvs_regime sf sq vls Dp d eps nu rhol rhos Cvs = Spec.longName r := by
  unfold framework.Cvs_regime framework.Cvs_Erhg_dict framework.Cvs_Erhg Spec.selectCode Spec.longName
  generalize FBv = fb
  generalize SBv = sb
  generalize Hev = he
  generalize Hov = ho
  generalize ILv = il
  simp only [gt_iff_lt, decide_eq_true_eq]
  split_ifs <;> simp_all [PyDict.get, PyDict.set, PyVal.toNum, PyVal.toStr, strLookup, List.find?]

end

/-! ## The order-only Spec of the selection (second tie): valid over every linear order, hence for
finite IEEE doubles exactly as for ℝ. -/

section
variable {β : Type} [LinearOrder β]

theorem C01_spec_value (fb sb he ho : β) : Spec.selectVal fb sb he ho = max (min (min fb sb) he) ho := by
  unfold Spec.selectVal
  simp only [max_def, min_def, gt_iff_lt]
  split_ifs <;> first | rfl | (exfalso; order) | order

theorem C01_spec_attains (fb sb he ho : β) :
    Spec.valueOf fb sb he ho (Spec.selectCode fb sb he ho) = Spec.selectVal fb sb he ho := by
  unfold Spec.valueOf Spec.selectCode Spec.selectVal
  simp only [gt_iff_lt]
  split_ifs <;> simp_all

end

/-! Non-vacuity: each of the four regimes is selected by some ordering, and ties resolve to a model that
attains the value (all 256 assignments of {0,1,2,3} to the four values cover the 75 weak orderings). -/
example : Spec.selectCode (0:Nat) 1 2 0 = "FB" ∧ Spec.selectCode (1:Nat) 0 2 0 = "SB" ∧
    Spec.selectCode (2:Nat) 2 1 0 = "He" ∧ Spec.selectCode (0:Nat) 0 0 1 = "Ho" ∧
    Spec.selectCode (1:Nat) 1 1 1 = "SB" := by decide

theorem C01_spec_all_orderings :
    ∀ fb ∈ [0, 1, 2, 3], ∀ sb ∈ [0, 1, 2, 3], ∀ he ∈ [0, 1, 2, 3], ∀ ho ∈ [(0:Nat), 1, 2, 3],
      Spec.valueOf fb sb he ho (Spec.selectCode fb sb he ho) = max (min (min fb sb) he) ho := by
  decide
