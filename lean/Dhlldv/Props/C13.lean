import Dhlldv.Lemmas.Basic
import Dhlldv.Gen.Stratified
import Mathlib.Order.Monotone.Basic
import Mathlib.Order.Interval.Set.Basic

/-! # C13 — stationary-deposit limit is the fixed-bed / sliding-bed crossing
Theorems over the generated Newton loop `stratified.vls_FBSB` at `α := ℝ`. -/

section
variable (Dp d eps nu rhol rhos Cvs e : ℝ)

/-- one Newton step of the code (same expression as in the generated loop body) -/
noncomputable def newtonStep (v : ℝ) : ℝ :=
  let fn := stratified.fb_Erhg v Dp d eps nu rhol rhos Cvs - (Cst.musf : ℝ)
  let dfndv := ((stratified.fb_Erhg (v + 0.1) Dp d eps nu rhol rhos Cvs - (Cst.musf : ℝ)) - fn) / 0.1
  v - fn / dfndv

/-- whatever the loop returns either meets the stopping test |fb_Erhg(v) − μsf| < e (early return), or is the
iterate reached when the step budget ran out (fall-through) -/
theorem C13_loop (fuel0 ms : Nat) : ∀ (k : Nat) (v : ℝ),
    let r := stratified.vls_FBSB.loop1 fuel0 k Cvs Dp d 0.1 e eps ms nu rhol rhos v
    |stratified.fb_Erhg r Dp d eps nu rhol rhos Cvs - (Cst.musf : ℝ)| < e ∨
      r = (newtonStep Dp d eps nu rhol rhos Cvs)^[k] v := by
  intro k
  induction k with
  | zero => intro v; right; rfl
  | succ n ih =>
    intro v
    unfold stratified.vls_FBSB.loop1
    simp only [Transc.abs, decide_eq_true_eq]
    split_ifs with h
    · left; exact h
    · rcases ih (newtonStep Dp d eps nu rhol rhos Cvs v) with h1 | h1
      · left; exact h1
      · right
        rw [Function.iterate_succ_apply]
        exact h1

/-- early return ⇒ the returned speed is a crossing within the stopping tolerance; with the default tolerance μsf/1000
that is 0.1 % of the sliding-friction coefficient (the property asks for 1 %) -/
theorem C13_early (ms : Nat)
    (hne : stratified.vls_FBSB Dp d eps nu rhol rhos Cvs ms e ≠ (newtonStep Dp d eps nu rhol rhos Cvs)^[ms] 1) :
    |stratified.fb_Erhg (stratified.vls_FBSB Dp d eps nu rhol rhos Cvs ms e) Dp d eps nu rhol rhos Cvs - (Cst.musf : ℝ)| < e := by
  have h := C13_loop Dp d eps nu rhol rhos Cvs e 0 ms ms 1
  unfold stratified.vls_FBSB at hne ⊢
  simp only [sci_one] at hne ⊢
  rcases h with h | h
  · exact h
  · exact absurd h hne

theorem C13_default_tolerance : ((0.415 : ℝ) / 1000.0) = (Cst.musf : ℝ) / 1000 ∧ (Cst.musf : ℝ) / 1000 < (Cst.musf : ℝ) / 100 := by
  unfold Cst.musf; norm_num

end

/-- because the fixed-bed excess gradient increases strictly with line speed, the crossing is unique -/
theorem C13_unique (fb : ℝ → ℝ) (musf : ℝ) (hm : StrictMonoOn fb (Set.Ioi 0)) (v1 v2 : ℝ) (h1 : 0 < v1) (h2 : 0 < v2)
    (e1 : fb v1 = musf) (e2 : fb v2 = musf) : v1 = v2 :=
  hm.injOn h1 h2 (e1.trans e2.symm)
