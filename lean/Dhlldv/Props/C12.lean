import Dhlldv.Lemmas.Basic
import Dhlldv.Lemmas.Interp
import Dhlldv.Spec.Fracs
import Dhlldv.Lemmas.FracsSorted
import Dhlldv.Lemmas.FracsRange
import Dhlldv.Lemmas.FracsMono
import Dhlldv.Lemmas.FracsFacts
import Dhlldv.Lemmas.FracsLookup
import Mathlib.Tactic.Positivity
import Mathlib.Tactic.FieldSimp
import Mathlib.Tactic.Ring

/-! # C12 — the discretised grain-size distribution (building blocks proved on the executable Spec of `create_fracs` / `get_dx`)

`Spec.Fracs.createFracs` is tied bit-for-bit to the implementation.  Proved here, over ℝ: the log-linear interpolation used for every
inserted node lies on the segment, reproduces both end points and is strictly monotone; the subdivision fractions are the equally spaced
interior points of the segment; `10 ** log10 d = d`; the diameter lookup rejects fractions outside (0,1) and returns the tabulated
diameter at a tabulated fraction.  The global clauses (strict ordering of the whole output, node count, start at the limit) are decided
by the property oracle on the implementation on every run — see DESIGN.md §5 C12. -/

open Spec.Fracs

section
variable (flow dlow fnext dnext : ℝ)

/-- the interpolant reproduces both end points of the segment -/
theorem C12_interp_endpoints (h : flow ≠ fnext) :
    logInterp flow dlow fnext dnext fnext = Real.log dnext / Real.log 10 ∧
    logInterp flow dlow fnext dnext flow = Real.log dlow / Real.log 10 := by
  unfold logInterp
  simp only [Transc.log10]
  have : fnext - flow ≠ 0 := sub_ne_zero.2 (Ne.symm h)
  constructor
  · simp
  · field_simp; ring

/-- between the end fractions the interpolated log-diameter lies strictly between the end log-diameters and increases with the fraction -/
theorem C12_interp_monotone (f1 f2 : ℝ) (hf : flow < fnext) (hd : Real.log dlow / Real.log 10 < Real.log dnext / Real.log 10)
    (h1 : flow < f1) (h12 : f1 < f2) (h2 : f2 < fnext) :
    Real.log dlow / Real.log 10 < logInterp flow dlow fnext dnext f1 ∧
    logInterp flow dlow fnext dnext f1 < logInterp flow dlow fnext dnext f2 ∧
    logInterp flow dlow fnext dnext f2 < Real.log dnext / Real.log 10 := by
  unfold logInterp
  simp only [Transc.log10]
  set a := Real.log dlow / Real.log 10
  set b := Real.log dnext / Real.log 10
  have hw : 0 < fnext - flow := sub_pos.2 hf
  have hba : 0 < b - a := sub_pos.2 hd
  have e : ∀ f, b - (b - a) * (fnext - f) / (fnext - flow) = a + (b - a) * ((f - flow) / (fnext - flow)) := by
    intro f; field_simp; ring
  rw [e f1, e f2]
  have q1 : 0 < (f1 - flow) / (fnext - flow) := div_pos (sub_pos.2 h1) hw
  have q12 : (f1 - flow) / (fnext - flow) < (f2 - flow) / (fnext - flow) := by
    apply div_lt_div_of_pos_right _ hw; linarith
  have q2 : (f2 - flow) / (fnext - flow) < 1 := by rw [div_lt_one hw]; linarith
  refine ⟨by nlinarith, by nlinarith, by nlinarith⟩

/-- `10 ** log10 d = d` for a positive diameter: a node computed from an interpolated log-diameter carries exactly that diameter -/
theorem C12_pow10_log10 (d : ℝ) (hd : 0 < d) : pow10 (Transc.log10 d) = d := by
  unfold pow10
  simp only [Transc.rpow, Transc.log10]
  have h10 : (10.0 : ℝ) = 10 := by norm_num
  rw [h10, Real.rpow_def_of_pos (by norm_num : (0:ℝ) < 10), mul_div_cancel₀ _ (by
    have := Real.log_pos (by norm_num : (1:ℝ) < 10); linarith), Real.exp_log hd]

/-- `log10 (10 ** x) = x` -/
theorem C12_log10_pow10 (x : ℝ) : Transc.log10 (pow10 x) = x := by
  unfold pow10
  simp only [Transc.rpow, Transc.log10]
  have h10 : (10.0 : ℝ) = 10 := by norm_num
  have hl : Real.log 10 ≠ 0 := by have := Real.log_pos (by norm_num : (1:ℝ) < 10); linarith
  rw [h10, Real.log_rpow (by norm_num : (0:ℝ) < 10)]
  field_simp

/-- REPRODUCTION BY INTERPOLATION (partial: one segment, not yet lifted to the lookup over the whole output). Take any two nodes the discretiser puts on
a segment of the input — fractions f1 ≠ f2 with diameters `10 ** logInterp(f)` as the code computes them. Log-linear interpolation between those two
nodes (what the diameter lookup does between neighbouring nodes: `C12_getDx_is_lookup` + C18) returns, at ANY fraction f, the value of the segment's own
log-line; in particular at the segment's lower given fraction it returns exactly log10 of the given diameter, although that point is not a node. -/
theorem C12_reproduction_between_nodes_partial (f1 f2 f : ℝ) (hseg : flow ≠ fnext) (h12 : f1 ≠ f2) :
    logInterp f1 (pow10 (logInterp flow dlow fnext dnext f1)) f2 (pow10 (logInterp flow dlow fnext dnext f2)) f
      = logInterp flow dlow fnext dnext f ∧
    logInterp f1 (pow10 (logInterp flow dlow fnext dnext f1)) f2 (pow10 (logInterp flow dlow fnext dnext f2)) flow
      = Real.log dlow / Real.log 10 := by
  have key : ∀ g, logInterp f1 (pow10 (logInterp flow dlow fnext dnext f1)) f2 (pow10 (logInterp flow dlow fnext dnext f2)) g
      = logInterp flow dlow fnext dnext g := by
    intro g
    conv_lhs => unfold logInterp
    rw [C12_log10_pow10, C12_log10_pow10]
    unfold logInterp
    have h1 : fnext - flow ≠ 0 := sub_ne_zero.2 (Ne.symm hseg)
    have h2 : f2 - f1 ≠ 0 := sub_ne_zero.2 (Ne.symm h12)
    field_simp
    ring
  exact ⟨key f, by rw [key flow]; exact (C12_interp_endpoints flow dlow fnext dnext hseg).2⟩

/-- the start node (X, limit) of the discretised grading lies on the log-line of the first remaining segment: X is the fraction at which that line
reaches the limiting diameter -/
theorem C12_start_node_on_line (dlim : ℝ) (hseg : flow ≠ fnext) (hd : Transc.log10 dnext ≠ Transc.log10 dlow) :
    logInterp flow dlow fnext dnext (fnext - (Transc.log10 dnext - Transc.log10 dlim) * (fnext - flow) / (Transc.log10 dnext - Transc.log10 dlow))
      = Transc.log10 dlim := by
  unfold logInterp
  have h1 : fnext - flow ≠ 0 := sub_ne_zero.2 (Ne.symm hseg)
  have h2 : Transc.log10 dnext - Transc.log10 dlow ≠ 0 := sub_ne_zero.2 hd
  field_simp
  ring

/-- the k-th subdivision fraction of a segment cut into (n+1) equal parts is strictly inside the segment -/
theorem C12_subdivision_inside (n k : Nat) (hf : flow < fnext) (hk1 : 1 ≤ k) (hkn : k ≤ n) :
    flow < flow + k * ((fnext - flow) / ((n : ℝ) + 1)) ∧ flow + k * ((fnext - flow) / ((n : ℝ) + 1)) < fnext := by
  have hn : (0:ℝ) < (n : ℝ) + 1 := by positivity
  have hw : 0 < fnext - flow := sub_pos.2 hf
  have hk : (0:ℝ) < k := by exact_mod_cast hk1
  have hkn' : (k : ℝ) < (n : ℝ) + 1 := by
    have : (k : ℝ) ≤ n := by exact_mod_cast hkn
    linarith
  have hs : 0 < (fnext - flow) / ((n : ℝ) + 1) := div_pos hw hn
  constructor
  · nlinarith
  · have : (k : ℝ) * ((fnext - flow) / ((n : ℝ) + 1)) < fnext - flow := by
      rw [← mul_div_assoc, div_lt_iff₀ hn]; nlinarith
    linarith

end

/-- the diameter-at-fraction lookup rejects every fraction outside (0,1) -/
theorem C12_getDx_rejects (gsd : FDict ℝ) (frac : ℝ) (h : frac ≤ 0 ∨ 1 ≤ frac) : getDx gsd frac = none := by
  unfold getDx
  simp only [sci_zero, sci_one, ge_iff_le, Bool.or_eq_true, decide_eq_true_eq]
  rw [if_pos h]

theorem getF_of_mem_head (k v : ℝ) (rest : FDict ℝ) : getF ((k, v) :: rest) k = v := by
  simp [getF, Interp.feq_self]

/-- at a tabulated fraction inside (0,1) it returns the tabulated diameter -/
theorem C12_getDx_tabulated (gsd : FDict ℝ) (frac : ℝ) (h0 : 0 < frac) (h1 : frac < 1)
    (hm : gsd.any (fun p => feq p.1 frac) = true) : getDx gsd frac = some (getF gsd frac) := by
  unfold getDx
  simp only [sci_zero, sci_one, ge_iff_le, Bool.or_eq_true, decide_eq_true_eq]
  rw [if_neg (by push_neg; exact ⟨h0, h1⟩), if_pos hm]

/-- between tabulated fractions it is the C18 lookup on (fraction, log10 diameter), extended at both ends -/
theorem C12_getDx_is_lookup (gsd : FDict ℝ) (frac : ℝ) (h0 : 0 < frac) (h1 : frac < 1)
    (hm : gsd.any (fun p => feq p.1 frac) = false) :
    getDx gsd frac = ((({ pts := gsd.map (fun p => (p.1, Transc.log10 p.2)), exLow := true, exHigh := true, tol := 0.001 } :
      InterpTable ℝ).lookup frac).map pow10) := by
  unfold getDx
  simp only [sci_zero, sci_one, ge_iff_le, Bool.or_eq_true, decide_eq_true_eq]
  rw [if_neg (by push_neg; exact ⟨h0, h1⟩), hm]
  simp only [Bool.false_eq_true, if_false]
  cases ({ pts := gsd.map (fun p => (p.1, Transc.log10 p.2)), exLow := true, exHigh := true, tol := 0.001 } : InterpTable ℝ).lookup frac <;> rfl



/-- the fractions of the discretised grading are STRICTLY INCREASING — for every input distribution, pipe and carrier, every requested count
(the dict overwrites on equal keys, `sorted` orders them; no hypothesis) -/
theorem C12_fractions_strictly_increasing (natTo : Nat → ℝ) (trunc : ℝ → Nat) (pts : List (ℝ × ℝ)) (Dp nu rhol rhos : ℝ) (n : Nat) :
    (createFracs natTo trunc pts Dp nu rhol rhos n).gsd.Pairwise (fun p q => p.1 < q.1) := by
  unfold createFracs
  match pts with
  | [] => exact List.Pairwise.nil
  | [_] => exact List.Pairwise.nil
  | lo :: nx :: rest =>
    simp only
    generalize skipBelow (framework.pseudo_dlim Dp nu rhol rhos) (lo :: nx :: rest).length lo nx rest ((lo :: nx :: rest).length - 1) = sk
    obtain ⟨lo', nx', rest', pl⟩ := sk
    exact afterSkip_strict natTo _ lo' nx' rest' pl n


/-- every fraction of the discretised grading lies in [0, 1): for every well-formed input (given points strictly increasing in fraction and in
diameter, first fraction ≥ 0, all fractions ≤ B < 1, positive diameters, the LAST given diameter not below the pseudo-liquid limit), every pipe and
carrier and every requested count -/
theorem C12_fractions_in_unit_interval (trunc : ℝ → Nat) (lo nx : ℝ × ℝ) (rest : List (ℝ × ℝ)) (Dp nu rhol rhos : ℝ) (n : Nat) (B : ℝ) (hB : B < 1)
    (h : InputOK (framework.pseudo_dlim Dp nu rhol rhos) lo nx rest B) :
    ∀ p ∈ (createFracs (fun k : Nat => (k : ℝ)) trunc (lo :: nx :: rest) Dp nu rhol rhos n).gsd, 0 ≤ p.1 ∧ p.1 < 1 := by
  intro p hp
  unfold createFracs at hp
  simp only at hp
  have hseg := skipBelow_ok (framework.pseudo_dlim Dp nu rhol rhos) B (lo :: nx :: rest).length lo nx rest ((lo :: nx :: rest).length - 1) h
    (by simp only [List.length_cons]; omega)
  have := afterSkip_keysIn (framework.pseudo_dlim Dp nu rhol rhos) _ _ _
    (skipBelow (framework.pseudo_dlim Dp nu rhol rhos) (lo :: nx :: rest).length lo nx rest ((lo :: nx :: rest).length - 1)).2.2.2 n B hseg p hp
  refine ⟨this.1, lt_of_le_of_lt this.2 ?_⟩
  exact max_lt hB (by norm_num)

/-- the diameters of the discretised grading are STRICTLY INCREASING along the fractions: for every well-formed input (as above, with the given
fractions below 0.999 and the last given diameter strictly above the pseudo-liquid limit), every pipe and carrier and every requested count -/
theorem C12_diameters_strictly_increasing (trunc : ℝ → Nat) (lo nx : ℝ × ℝ) (rest : List (ℝ × ℝ)) (Dp nu rhol rhos : ℝ) (n : Nat) (B : ℝ) (hB : B < 0.999)
    (h : InputOK (framework.pseudo_dlim Dp nu rhol rhos) lo nx rest B)
    (hne : framework.pseudo_dlim Dp nu rhol rhos < ((nx :: rest).getLast (List.cons_ne_nil _ _)).2) :
    (createFracs (fun k : Nat => (k : ℝ)) trunc (lo :: nx :: rest) Dp nu rhol rhos n).gsd.Pairwise (fun p q => p.2 < q.2) := by
  have hstrict := C12_fractions_strictly_increasing (fun k : Nat => (k : ℝ)) trunc (lo :: nx :: rest) Dp nu rhol rhos n
  unfold createFracs at hstrict ⊢
  simp only at hstrict ⊢
  have hseg := skipBelow_strict (framework.pseudo_dlim Dp nu rhol rhos) B hB (lo :: nx :: rest).length lo nx rest ((lo :: nx :: rest).length - 1) h hne
    (by simp only [List.length_cons]; omega)
  exact pairwise_diam _ hstrict (afterSkip_mono (framework.pseudo_dlim Dp nu rhol rhos) _ _ _ _ n B hseg)

/-- the grading never goes below the pseudo-liquid limiting diameter, and it STARTS at (X, limit) whenever the log-linear distribution reaches the limit
at a positive fraction X (X computed on the first segment that remains after the points below the limit have been discarded): that node is in the
grading and no node lies left of it -/
theorem C12_starts_at_limit (trunc : ℝ → Nat) (lo nx : ℝ × ℝ) (rest : List (ℝ × ℝ)) (Dp nu rhol rhos : ℝ) (n : Nat) (B : ℝ) (hB : B < 0.999)
    (h : InputOK (framework.pseudo_dlim Dp nu rhol rhos) lo nx rest B)
    (hne : framework.pseudo_dlim Dp nu rhol rhos < ((nx :: rest).getLast (List.cons_ne_nil _ _)).2) :
    let dlim := framework.pseudo_dlim Dp nu rhol rhos
    let sk := skipBelow dlim (lo :: nx :: rest).length lo nx rest ((lo :: nx :: rest).length - 1)
    let X := sk.2.1.1 - (Transc.log10 sk.2.1.2 - Transc.log10 dlim) * (sk.2.1.1 - sk.1.1) / (Transc.log10 sk.2.1.2 - Transc.log10 sk.1.2)
    let gsd := (createFracs (fun k : Nat => (k : ℝ)) trunc (lo :: nx :: rest) Dp nu rhol rhos n).gsd
    (∀ p ∈ gsd, dlim ≤ p.2) ∧ (0 < X → (X, dlim) ∈ gsd ∧ ∀ p ∈ gsd, X ≤ p.1) := by
  intro dlim sk X gsd
  have hseg := skipBelow_strict dlim B hB (lo :: nx :: rest).length lo nx rest ((lo :: nx :: rest).length - 1) h hne
    (by simp only [List.length_cons]; omega)
  obtain ⟨_, hab, hmem, _, _⟩ := afterSkip_facts dlim sk.1 sk.2.1 sk.2.2.1 sk.2.2.2 n B hseg
  have hg : gsd = (afterSkip (fun k : Nat => (k : ℝ)) dlim sk.1 sk.2.1 sk.2.2.1 sk.2.2.2 n).gsd := rfl
  rw [← hg] at hab hmem
  by_cases hx : X > (0.0:ℝ)
  · have hd : decide (X > (0.0:ℝ)) = true := decide_eq_true hx
    rw [if_pos hd, if_pos hd] at hab
    exact ⟨fun p hp => (hab p hp).2, fun _ => ⟨hmem hd, fun p hp => (hab p hp).1⟩⟩
  · have hd : ¬ decide (X > (0.0:ℝ)) = true := by simpa using hx
    rw [if_neg hd, if_neg hd] at hab
    have hX0 : X ≤ 0 := by have := not_lt.1 hx; rwa [sci_zero] at this
    have hge := dmin_ge_dlim hseg hX0
    refine ⟨fun p hp => le_trans hge (hab p hp).2, fun hpos => absurd hpos (not_lt.2 hX0)⟩

/-- every given point from the upper end of the first remaining segment onwards (all of them lie at or above the limit) is reproduced exactly: it is a
node of the discretised grading -/
theorem C12_given_points_are_nodes (trunc : ℝ → Nat) (lo nx : ℝ × ℝ) (rest : List (ℝ × ℝ)) (Dp nu rhol rhos : ℝ) (n : Nat) (B : ℝ) (hB : B < 0.999)
    (h : InputOK (framework.pseudo_dlim Dp nu rhol rhos) lo nx rest B)
    (hne : framework.pseudo_dlim Dp nu rhol rhos < ((nx :: rest).getLast (List.cons_ne_nil _ _)).2) :
    let dlim := framework.pseudo_dlim Dp nu rhol rhos
    let sk := skipBelow dlim (lo :: nx :: rest).length lo nx rest ((lo :: nx :: rest).length - 1)
    ∀ q ∈ sk.2.1 :: sk.2.2.1, q ∈ (createFracs (fun k : Nat => (k : ℝ)) trunc (lo :: nx :: rest) Dp nu rhol rhos n).gsd := by
  intro dlim sk
  have hseg := skipBelow_strict dlim B hB (lo :: nx :: rest).length lo nx rest ((lo :: nx :: rest).length - 1) h hne
    (by simp only [List.length_cons]; omega)
  exact (afterSkip_facts dlim sk.1 sk.2.1 sk.2.2.1 sk.2.2.2 n B hseg).2.2.2.1

/-- AT LEAST THE REQUESTED NUMBER OF FRACTIONS: the discretised grading has at least n nodes (n ≥ 3; the default is 10), for every well-formed input of
any length - the clause the rounding repair `647cf52` restored (with rounding to nearest an 8-point input gave 9) -/
theorem C12_at_least_requested_fractions (trunc : ℝ → Nat) (lo nx : ℝ × ℝ) (rest : List (ℝ × ℝ)) (Dp nu rhol rhos : ℝ) (n : Nat) (hn : 3 ≤ n) (B : ℝ) (hB : B < 0.999)
    (h : InputOK (framework.pseudo_dlim Dp nu rhol rhos) lo nx rest B)
    (hne : framework.pseudo_dlim Dp nu rhol rhos < ((nx :: rest).getLast (List.cons_ne_nil _ _)).2) :
    n ≤ (createFracs (fun k : Nat => (k : ℝ)) trunc (lo :: nx :: rest) Dp nu rhol rhos n).gsd.length := by
  have hseg := skipBelow_strict (framework.pseudo_dlim Dp nu rhol rhos) B hB (lo :: nx :: rest).length lo nx rest ((lo :: nx :: rest).length - 1) h hne
    (by simp only [List.length_cons]; omega)
  have hz : ∀ t ∈ rest, ¬ feq t.1 (0.0 : ℝ) = true := by
    intro t ht
    rw [feq_iff_eq]
    intro e
    have hc := List.isChain_cons_cons.1 h.chain
    have hrel : ∀ u ∈ rest, nx.1 < u.1 := by
      have htr : List.IsChain (fun p q : ℝ × ℝ => p.1 < q.1) (nx :: rest) := List.IsChain.imp (fun _ _ hab => hab.1) hc.2
      have hp := (List.isChain_iff_pairwise (R := fun p q : ℝ × ℝ => p.1 < q.1)).1 htr
      exact (List.pairwise_cons.1 hp).1
    have := hrel t ht
    rw [e] at this
    have : (0:ℝ) < 0.0 := by linarith [h.f0, hc.1.1]
    norm_num at this
  have hpl := skipBelow_pl (framework.pseudo_dlim Dp nu rhol rhos) (lo :: nx :: rest).length lo nx rest ((lo :: nx :: rest).length - 1)
    (by simp only [List.length_cons]; omega) hz
  exact (afterSkip_facts (framework.pseudo_dlim Dp nu rhol rhos) _ _ _ _ n B hseg).2.2.2.2 hpl hn

/-- the input the slurry object builds from D15 < D50 < D85 is well-formed whenever D85 lies above the pseudo-liquid limit -/
theorem slurry_input_ok (dlim d15 d50 d85 : ℝ) (h0 : 0 < d15) (h1 : d15 < d50) (h2 : d50 < d85) (hl0 : 0 < dlim) (hl : dlim < d85) :
    InputOK dlim (0.15, d15) (0.5, d50) [(0.85, d85)] 0.85 := by
  refine ⟨?_, by norm_num, h0, ?_, hl0, ?_⟩
  · simp only [List.isChain_cons_cons, List.isChain_singleton, and_true]
    exact ⟨⟨by norm_num, h1⟩, ⟨by norm_num, h2⟩⟩
  · intro p hp
    simp only [List.mem_cons, List.not_mem_nil, or_false] at hp
    rcases hp with rfl | rfl <;> norm_num
  · simp only [List.getLast_cons_cons, List.getLast_singleton]; exact hl.le

/-- C12 for the grading of a slurry object (D15 < D50 < D85 at fractions 0.15 / 0.5 / 0.85, D85 above the limit), in one
statement: at least ten nodes; fractions strictly increasing inside [0, 1); diameters strictly increasing and never below the limiting diameter; D85
itself is a node -/
theorem C12_slurry_grading (trunc : ℝ → Nat) (Dp nu rhol rhos d15 d50 d85 : ℝ) (h0 : 0 < d15) (h1 : d15 < d50) (h2 : d50 < d85)
    (hl0 : 0 < framework.pseudo_dlim Dp nu rhol rhos) (hl : framework.pseudo_dlim Dp nu rhol rhos < d85) :
    let gsd := (createFracs (fun k : Nat => (k : ℝ)) trunc [(0.15, d15), (0.5, d50), (0.85, d85)] Dp nu rhol rhos 10).gsd
    10 ≤ gsd.length ∧ gsd.Pairwise (fun p q => p.1 < q.1) ∧ (∀ p ∈ gsd, 0 ≤ p.1 ∧ p.1 < 1) ∧ gsd.Pairwise (fun p q => p.2 < q.2) ∧
      (∀ p ∈ gsd, framework.pseudo_dlim Dp nu rhol rhos ≤ p.2) ∧ (0.85, d85) ∈ gsd := by
  intro gsd
  have hin := slurry_input_ok _ d15 d50 d85 h0 h1 h2 hl0 hl
  have hne' : framework.pseudo_dlim Dp nu rhol rhos < (([((0.5:ℝ), d50), (0.85, d85)] : List (ℝ × ℝ)).getLast (List.cons_ne_nil _ _)).2 := by
    simp only [List.getLast_cons_cons, List.getLast_singleton]; exact hl
  have hB : (0.85:ℝ) < 0.999 := by norm_num
  refine ⟨C12_at_least_requested_fractions trunc _ _ _ Dp nu rhol rhos 10 (by norm_num) 0.85 hB hin hne',
    C12_fractions_strictly_increasing _ trunc _ Dp nu rhol rhos 10,
    C12_fractions_in_unit_interval trunc _ _ _ Dp nu rhol rhos 10 0.85 (by norm_num) hin,
    C12_diameters_strictly_increasing trunc _ _ _ Dp nu rhol rhos 10 0.85 hB hin hne',
    (C12_starts_at_limit trunc _ _ _ Dp nu rhol rhos 10 0.85 hB hin hne').1, ?_⟩
  have hn := C12_given_points_are_nodes trunc (0.15, d15) (0.5, d50) [(0.85, d85)] Dp nu rhol rhos 10 0.85 hB hin hne'
  simp only at hn
  -- (0.85, d85) is among the remaining points whatever the skip does (at most the D15 point is discarded, or D15 and D50)
  apply hn
  have h085 : ¬ feq (0.85:ℝ) (0.0:ℝ) = true := by rw [feq_iff_eq]; norm_num
  simp only [List.length_cons, List.length_nil, skipBelow]
  split_ifs <;> simp_all

/-! Non-vacuity: a D15/D50/D85 grading above a limit of 0.1 mm meets `InputOK` -/
example : InputOK (1e-4 : ℝ) (0.15, 2e-4) (0.5, 4e-4) [(0.85, 8e-4)] 0.85 := by
  refine ⟨?_, by norm_num, by norm_num, ?_, by norm_num, ?_⟩
  · simp only [List.isChain_cons_cons, List.isChain_singleton, and_true]; norm_num
  · intro p hp
    simp only [List.mem_cons, List.not_mem_nil, or_false] at hp
    rcases hp with rfl | rfl <;> norm_num
  · simp only [List.getLast_cons_cons, List.getLast_singleton]; norm_num


/-- REPRODUCTION BY INTERPOLATION, through the lookup over the whole output. When the grading starts at the limit (the first remaining segment reaches
the limiting diameter at a positive fraction X) and the lower given point of that segment lies above the limit, the diameter lookup at that point's
fraction returns exactly its diameter - although the point is not a node: all nodes of the first segment lie on the segment's own log-line
(`afterSkip_online`), the lookup interpolates log-linearly between the two nodes around the fraction (`F_line`), and `10 ** log10 d = d`. -/
theorem C12_reproduces_lower_point (trunc : ℝ → Nat) (lo nx : ℝ × ℝ) (rest : List (ℝ × ℝ)) (Dp nu rhol rhos : ℝ) (n : Nat) (B : ℝ) (hB : B < 0.999)
    (h : InputOK (framework.pseudo_dlim Dp nu rhol rhos) lo nx rest B)
    (hne : framework.pseudo_dlim Dp nu rhol rhos < ((nx :: rest).getLast (List.cons_ne_nil _ _)).2) :
    let dlim := framework.pseudo_dlim Dp nu rhol rhos
    let sk := skipBelow dlim (lo :: nx :: rest).length lo nx rest ((lo :: nx :: rest).length - 1)
    let X := sk.2.1.1 - (Transc.log10 sk.2.1.2 - Transc.log10 dlim) * (sk.2.1.1 - sk.1.1) / (Transc.log10 sk.2.1.2 - Transc.log10 sk.1.2)
    let gsd := (createFracs (fun k : Nat => (k : ℝ)) trunc (lo :: nx :: rest) Dp nu rhol rhos n).gsd
    0 < X → dlim < sk.1.2 → getDx gsd sk.1.1 = some sk.1.2 := by
  intro dlim sk X gsd hXpos hLabove
  have hseg := skipBelow_strict dlim B hB (lo :: nx :: rest).length lo nx rest ((lo :: nx :: rest).length - 1) h hne
    (by simp only [List.length_cons]; omega)
  set L := sk.1 with hL
  set N := sk.2.1 with hN
  obtain ⟨hmono, habove, hmemX, hnodes, _⟩ := afterSkip_facts dlim L N sk.2.2.1 sk.2.2.2 n B hseg
  have hstrict := afterSkip_strict (fun k : Nat => (k : ℝ)) dlim L N sk.2.2.1 sk.2.2.2 n
  have honline := afterSkip_online dlim L N sk.2.2.1 sk.2.2.2 n B hseg
  have hg : gsd = (afterSkip (fun k : Nat => (k : ℝ)) dlim L N sk.2.2.1 sk.2.2.2 n).gsd := rfl
  rw [← hg] at hmono habove hmemX hnodes hstrict honline
  have hdec : decide (X > (0.0:ℝ)) = true := by simpa [sci_zero] using hXpos
  rw [if_pos hdec, if_pos hdec] at habove
  have hXmem : (X, dlim) ∈ gsd := hmemX hdec
  have hNmem : N ∈ gsd := hnodes N List.mem_cons_self
  -- the lower point lies strictly between the start fraction and the upper end of the segment
  have hl2 : 0 < Transc.log10 N.2 - Transc.log10 L.2 := sub_pos.2 (log10_lt hseg.d0 hseg.d1)
  have hlm : Transc.log10 dlim < Transc.log10 L.2 := log10_lt hseg.lim0 hLabove
  have hw : 0 < N.1 - L.1 := sub_pos.2 hseg.f1
  have hXL : X < L.1 := by
    have : N.1 - L.1 < (Transc.log10 N.2 - Transc.log10 dlim) * (N.1 - L.1) / (Transc.log10 N.2 - Transc.log10 L.2) := by
      rw [lt_div_iff₀ hl2]; nlinarith
    show N.1 - (Transc.log10 N.2 - Transc.log10 dlim) * (N.1 - L.1) / (Transc.log10 N.2 - Transc.log10 L.2) < L.1
    linarith
  have hL0 : 0 < L.1 := lt_trans hXpos hXL
  have hL1 : L.1 < 1 := by
    have := hseg.le N List.mem_cons_self
    linarith [hseg.f1]
  have hPos : Pos gsd := fun p hp => lt_of_lt_of_le hseg.lim0 (habove p hp).2
  -- the segment's log-line as an affine function
  set Bc := (Transc.log10 N.2 - Transc.log10 L.2) / (N.1 - L.1) with hBc
  set A := Transc.log10 N.2 - Bc * N.1 with hA
  have hline : ∀ f, logInterp L.1 L.2 N.1 N.2 f = A + Bc * f := by
    intro f; unfold logInterp; rw [hA, hBc]; field_simp; ring
  have hLline : A + Bc * L.1 = Transc.log10 L.2 := by
    rw [hA, hBc]; field_simp; ring
  unfold getDx
  have hrej : ¬ (L.1 ≤ (0.0:ℝ) ∨ L.1 ≥ (1.0:ℝ)) := by
    rw [sci_zero, sci_one]; push Not; exact ⟨hL0, hL1⟩
  simp only [Bool.or_eq_true, decide_eq_true_eq]
  rw [if_neg hrej]
  by_cases hany : gsd.any (fun p => feq p.1 L.1) = true
  · -- the fraction happens to be a node: that node lies on the line
    rw [if_pos hany]
    have hm := getF_of_any gsd L.1 hany
    have hon := honline (L.1, getF gsd L.1) hm hseg.f1.le
    simp only at hon
    rw [hline, hLline] at hon
    have hv : 0 < getF gsd L.1 := hPos _ hm
    have := congrArg pow10 hon
    rw [pow10_log10 _ hv, pow10_log10 _ hseg.d0] at this
    rw [this]
  · rw [if_neg hany]
    -- split the sorted grading into its first two nodes and the rest
    match hgs : gsd, hXmem, hNmem, hstrict, hmono, hPos, honline with
    | [], hx, _, _, _, _, _ => exact absurd hx List.not_mem_nil
    | [p], hx, hn, _, _, _, _ =>
      exfalso
      simp only [List.mem_singleton] at hx hn
      have : N.1 = X := by rw [hn, ← hx]
      have := X_lt_fnext hseg
      linarith
    | p :: q :: rs, hx, hn, hst, hmo, hpo, hon =>
      have hinc := inc_map (q :: rs) p hst hmo hpo
      have hpX : p.1 ≤ X := by
        rcases List.mem_cons.1 hx with e | e
        · rw [← e]
        · exact ((List.pairwise_cons.1 hst).1 _ e).le
      have hlast : L.1 ≤ (Interp.lastPt (logPt p) ((q :: rs).map logPt)).1 := by
        have hmemN : logPt N ∈ logPt p :: (q :: rs).map logPt := by
          have : logPt N ∈ (p :: q :: rs).map logPt := List.mem_map_of_mem hn
          simpa using this
        have := Interp.lastPt_ge_mem _ _ hinc _ hmemN
        simp only [logPt] at this ⊢
        linarith [hseg.f1]
      have hF := Interp.F_line A Bc N.1 ((q :: rs).map logPt) (logPt p) L.1 hinc
        (by
          intro r hr hrb
          have hr' : r ∈ (p :: q :: rs).map logPt := by simpa using hr
          obtain ⟨r0, hr0, e⟩ := List.mem_map.1 hr'
          rw [← e] at hrb ⊢
          simp only [logPt] at hrb ⊢
          rw [hon r0 hr0 hrb, hline])
        ⟨logPt N, by
          have : logPt N ∈ (p :: q :: rs).map logPt := List.mem_map_of_mem hn
          simpa using this, rfl⟩
        (by simp only [logPt]; linarith) hseg.f1.le
      have hlook := Interp.lookup_eq_F_inc
        ({ pts := (p :: q :: rs).map (fun p => (p.1, Transc.log10 p.2)), exLow := true, exHigh := true, tol := 0.001 } : InterpTable ℝ)
        (logPt p) (logPt q) (rs.map logPt) (by simp [logPt]) (by simpa using hinc) L.1 (by simp only [logPt]; linarith) (by simpa using hlast)
      rw [hlook]
      have hF' : Interp.F (logPt p) (logPt q :: rs.map logPt) L.1 = some (A + Bc * L.1) := by simpa using hF
      rw [hF', hLline]
      simp only
      rw [pow10_log10 _ hseg.d0]

/-- the D15 clause for the grading of a slurry object: if D15 lies above the pseudo-liquid limit and the grading starts at the limit (its log-line
through D15 and D50 reaches the limit at a positive fraction), the diameter lookup returns exactly D15 at fraction 0.15 — although 0.15 is in general not
a node of the discretised grading (`hl50`: D50 is not within rounding of the limit, so the D15 point is not discarded) -/
theorem C12_slurry_D15_reproduced (trunc : ℝ → Nat) (Dp nu rhol rhos d15 d50 d85 : ℝ) (h1 : d15 < d50) (h2 : d50 < d85)
    (hl0 : 0 < framework.pseudo_dlim Dp nu rhol rhos) (hl15 : framework.pseudo_dlim Dp nu rhol rhos < d15)
    (hl50 : framework.pseudo_dlim Dp nu rhol rhos * ((1.0:ℝ) + 1e-12) < d50)
    (hX : 0 < (0.5:ℝ) - (Transc.log10 d50 - Transc.log10 (framework.pseudo_dlim Dp nu rhol rhos)) * ((0.5:ℝ) - 0.15) / (Transc.log10 d50 - Transc.log10 d15)) :
    getDx (createFracs (fun k : Nat => (k : ℝ)) trunc [(0.15, d15), (0.5, d50), (0.85, d85)] Dp nu rhol rhos 10).gsd 0.15 = some d15 := by
  have h0 : 0 < d15 := lt_trans hl0 hl15
  have hl : framework.pseudo_dlim Dp nu rhol rhos < d85 := lt_trans hl15 (lt_trans h1 h2)
  have hin := slurry_input_ok _ d15 d50 d85 h0 h1 h2 hl0 hl
  have hne' : framework.pseudo_dlim Dp nu rhol rhos < (([((0.5:ℝ), d50), (0.85, d85)] : List (ℝ × ℝ)).getLast (List.cons_ne_nil _ _)).2 := by
    simp only [List.getLast_cons_cons, List.getLast_singleton]; exact hl
  have hB : (0.85:ℝ) < 0.999 := by norm_num
  have hmain := C12_reproduces_lower_point trunc (0.15, d15) (0.5, d50) [(0.85, d85)] Dp nu rhol rhos 10 0.85 hB hin hne'
  have hsk : skipBelow (framework.pseudo_dlim Dp nu rhol rhos) ([((0.15:ℝ), d15), (0.5, d50), (0.85, d85)] : List (ℝ × ℝ)).length (0.15, d15) (0.5, d50) [(0.85, d85)]
      (([((0.15:ℝ), d15), (0.5, d50), (0.85, d85)] : List (ℝ × ℝ)).length - 1) = ((0.15, d15), (0.5, d50), [(0.85, d85)], 2) := by
    simp only [List.length_cons, List.length_nil, skipBelow]
    rw [if_neg (not_le.2 hl50)]
  simp only [hsk] at hmain
  exact hmain hX hl15
