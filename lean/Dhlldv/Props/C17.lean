import Dhlldv.Spec.Viewer
import Dhlldv.Gen.Effects
import Mathlib.Tactic.NormNum
import Mathlib.Tactic.SplitIfs
import Mathlib.Data.Rat.Defs
import Mathlib.Algebra.Order.Field.Rat

/-! # C17 — viewer session: the entry gate and the unit conversions
(the session-level clauses — no callback raises, echo of the model, plotted data of a fresh slurry, sections use the edited slurry — are
decided by driving the real callbacks against a stand-in widget API on every run; see DESIGN.md §5 C17) -/

open Spec.Viewer

section
variable (parse : String → Option Rat) (fmt : Rat → String) (text : String) (lo hi prev : Rat)

/-- an accepted entry becomes the model's value and the text is left alone; a rejected one (non-numeric or out of range) leaves the model
at its previous value and restores the previous text -/
theorem C17_check_value :
    (accepted parse text lo hi = true →
      ∃ v, parse text = some v ∧ checkValue parse fmt text lo hi prev = (v, text) ∧ lo ≤ v ∧ v ≤ hi) ∧
    (accepted parse text lo hi = false → checkValue parse fmt text lo hi prev = (prev, fmt prev)) := by
  unfold accepted checkValue
  constructor
  · intro h
    cases hp : parse text with
    | none => rw [hp] at h; exact absurd h (by simp)
    | some v =>
      rw [hp] at h
      simp only [Bool.and_eq_true, decide_eq_true_eq] at h
      exact ⟨v, rfl, by simp [h.1, h.2], h.1, h.2⟩
  · intro h
    cases hp : parse text with
    | none => rfl
    | some v =>
      rw [hp] at h
      simp only at h ⊢
      rw [h]; rfl

/-- the value handed to the model always lies within the documented bounds, provided the previous value did -/
theorem C17_bounds_preserved (hprev : lo ≤ prev ∧ prev ≤ hi) :
    lo ≤ (checkValue parse fmt text lo hi prev).1 ∧ (checkValue parse fmt text lo hi prev).1 ≤ hi := by
  unfold checkValue
  cases hp : parse text with
  | none => exact hprev
  | some v =>
    simp only
    split_ifs with h
    · simp only [Bool.and_eq_true, decide_eq_true_eq] at h; exact h
    · exact hprev

end

/-- the US-unit constants extracted from `unit_conv.py` are within 0.2 % of the exact conversions
(ft/m, in/m, yd³/m³, US gal/min per m³/s, hp/kW, psi per metre of water, rpm/Hz), and the SI pressure constant (kPa per metre of water) too -/
theorem C17_unit_constants :
    |Effects.unit_US_len - 1 / 0.3048| ≤ 0.002 * (1 / 0.3048) ∧
    |Effects.unit_US_dia - 12 / 0.3048| ≤ 0.002 * (12 / 0.3048) ∧
    |Effects.unit_US_vol - (1 / 0.9144) ^ 3| ≤ 0.002 * (1 / 0.9144) ^ 3 ∧
    |Effects.unit_US_flow - 60 / 0.003785411784| ≤ 0.002 * (60 / 0.003785411784) ∧
    |Effects.unit_US_power - 1 / 0.74569987158227022| ≤ 0.002 * (1 / 0.74569987158227022) ∧
    |Effects.unit_US_pressure - 9.80665 / 6.894757293168| ≤ 0.002 * (9.80665 / 6.894757293168) ∧
    Effects.unit_US_rot_speed = 60 ∧ Effects.unit_SI_dia = 1000 ∧
    |Effects.unit_SI_pressure - 9.80665| ≤ 0.002 * 9.80665 := by
  unfold Effects.unit_US_len Effects.unit_US_dia Effects.unit_US_vol Effects.unit_US_flow Effects.unit_US_power
    Effects.unit_US_pressure Effects.unit_US_rot_speed Effects.unit_SI_dia Effects.unit_SI_pressure
  refine ⟨?_, ?_, ?_, ?_, ?_, ?_, ?_, ?_, ?_⟩ <;> norm_num [abs_le]
