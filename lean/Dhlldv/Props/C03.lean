import Dhlldv.Real
import Dhlldv.Gen.WilsonV50
import Dhlldv.Spec.Graded
import Dhlldv.Lemmas.PySum
import Mathlib.Tactic.Ring
import Mathlib.Tactic.FieldSimp
import Mathlib.Tactic.Linarith

/-! # C03 — gradient, excess gradient and pressure loss are mutually consistent

For every regime model (generated definitions at `α := ℝ`, all real arguments):
`head = Erhg · Rsd · Cv + il` and `pressure = head · g · ρl`, with the argument lists written out. -/

section
variable (vls Dp d eps nu rhol rhos Cv : ℝ)

local notation "Rsd" => (rhos - rhol) / rhol
local notation "ILv" => homogeneous.fluid_head_loss vls Dp eps nu rhol
local notation "g" => (Cst.gravity : ℝ)

theorem C03_homogeneous :
    homogeneous.homogeneous_head_loss vls Dp d eps nu rhol rhos Cv
      = homogeneous.Erhg vls Dp d eps nu rhol rhos Cv true * Rsd * Cv + ILv ∧
    homogeneous.homogeneous_pressure_loss vls Dp d eps nu rhol rhos Cv
      = homogeneous.homogeneous_head_loss vls Dp d eps nu rhol rhos Cv * g * rhol := by
  constructor <;> rfl

theorem C03_heterogeneous (sf sq : Bool) :
    heterogeneous.heterogeneous_head_loss vls Dp d eps nu rhol rhos Cv sf sq
      = heterogeneous.Erhg vls Dp d eps nu rhol rhos Cv sf sq * Rsd * Cv + ILv ∧
    heterogeneous.heterogeneous_pressure_loss vls Dp d eps nu rhol rhos Cv sf sq
      = heterogeneous.heterogeneous_head_loss vls Dp d eps nu rhol rhos Cv sf sq * g * rhol := by
  constructor <;> rfl

theorem C03_sliding_bed (Cvb : ℝ) :
    stratified.sliding_bed_head_loss vls Dp d eps nu rhol rhos Cv Cvb
      = stratified.Erhg vls Dp d eps nu rhol rhos Cv * Rsd * Cv + ILv ∧
    stratified.sliding_bed_pressure_loss vls Dp d eps nu rhol rhos Cv
      = stratified.sliding_bed_head_loss vls Dp d eps nu rhol rhos Cv (0.6 : ℝ) * g * rhol := by
  constructor <;> rfl

/-- fixed bed: the code derives head and Erhg from the pressure loss; the stated relations follow when
the two divisors are non-zero (they are in E: ρl g > 0, Rsd Cvs > 0) -/
theorem C03_fixed_bed (h1 : rhol * g ≠ 0) (h2 : Rsd * Cv ≠ 0) :
    stratified.fb_head_loss vls Dp d eps nu rhol rhos Cv
      = stratified.fb_Erhg vls Dp d eps nu rhol rhos Cv * Rsd * Cv + ILv ∧
    stratified.fb_pressure_loss vls Dp d eps nu rhol rhos Cv
      = stratified.fb_head_loss vls Dp d eps nu rhol rhos Cv * g * rhol := by
  constructor
  · have e : stratified.fb_Erhg vls Dp d eps nu rhol rhos Cv
        = (stratified.fb_head_loss vls Dp d eps nu rhol rhos Cv - ILv) / (Rsd * Cv) := rfl
    rw [e, mul_assoc, div_mul_cancel₀ _ h2]; ring
  · have e : stratified.fb_head_loss vls Dp d eps nu rhol rhos Cv
        = stratified.fb_pressure_loss vls Dp d eps nu rhol rhos Cv / (rhol * g) := rfl
    rw [e, mul_assoc, mul_comm g rhol, div_mul_cancel₀ _ h1]

theorem C03_wilson_stratified (musf Cvb : ℝ) :
    wilson_stratified.stratified_head_loss vls Dp d eps nu rhol rhos musf Cv Cvb
      = wilson_stratified.Erhg vls Dp d eps nu rhol rhos musf Cv Cvb * Rsd * Cv + ILv ∧
    wilson_stratified.stratified_pressure_loss vls Dp d eps nu rhol rhos musf Cv Cvb
      = wilson_stratified.stratified_head_loss vls Dp d eps nu rhol rhos musf Cv (0.6 : ℝ) * g * rhol := by
  constructor
  · unfold wilson_stratified.stratified_head_loss
    simp only
    ring
  · rfl

/-- The pressure identity at full strength: for EVERY bed concentration handed in, pressure loss = head loss *at that bed concentration* · g · ρl
(the source passes the default 0.6 on; the statement holds because the head loss does not depend on the argument — if a change makes it depend
on it, this is the theorem that no longer checks). -/
theorem C03_wilson_stratified_any_bed (musf Cvb : ℝ) :
    wilson_stratified.stratified_pressure_loss vls Dp d eps nu rhol rhos musf Cv Cvb
      = wilson_stratified.stratified_head_loss vls Dp d eps nu rhol rhos musf Cv Cvb * g * rhol := by
  rfl

theorem C03_wilson_v50 (d85 musf : ℝ) :
    wilson_v50.heterogeneous_head_loss vls Dp d d85 eps nu rhol rhos Cv musf
      = wilson_v50.Erhg vls Dp d d85 eps nu rhol rhos musf * Rsd * Cv + ILv ∧
    wilson_v50.heterogeneous_pressure_loss vls Dp d d85 eps nu rhol rhos Cv musf
      = wilson_v50.heterogeneous_head_loss vls Dp d d85 eps nu rhol rhos Cv musf * g * rhol := by
  constructor <;> rfl

end

/-! ## Slurry-object tables and the graded-sand sum (Spec models, tied to the implementation by tie X) -/

section
open Spec

/-- every entry of a gradient table is `Erhg[i]·Rsd·Cv + il[i]` of the excess-gradient table, and the ELM entry is
`il[i]·ρm` -/
theorem C03_tables (erhg il : List ℝ) (Rsd Cv rhom : ℝ) (i : Nat) (h1 : i < erhg.length) (h2 : i < il.length) :
    (imCurve erhg il Rsd Cv)[i]? = some (erhg[i] * Rsd * Cv + il[i]) ∧
    (elmCurve il rhom)[i]? = some (il[i] * rhom) := by
  unfold imCurve elmCurve
  simp [h1, h2]

/-- the graded-sand result: pseudo-liquid-density-scaled, fraction-weighted sum divided by one minus the fines
fraction; and `im = Erhg·Rsd·Cv + il` for the graded result itself -/
theorem C03_graded (cvt sf sq : Bool) (gsd : List (ℝ × ℝ)) (vls Dp eps nu rhol rhos Cv : ℝ)
    (h : (rhos - rhol) / rhol * Cv ≠ 0) :
    let R := erhgGraded cvt sf sq gsd vls Dp eps nu rhol rhos Cv
    R.im = R.rhox * ((List.zipWith (· * ·) R.fracs R.ims).sum / (1 - R.X)) / rhol ∧
    R.im = R.erhg * ((rhos - rhol) / rhol) * Cv + R.il ∧
    R.il = homogeneous.fluid_head_loss vls Dp eps nu rhol ∧
    R.Cv_r = (1 - R.X) * Cv := by
  have hzip : ∀ (l : List (ℝ × ℝ × ℝ)),
      l.map (fun t => t.1 * t.2.2) = List.zipWith (· * ·) (l.map (·.1)) (l.map (·.2.2)) := by
    intro l
    induction l with
    | nil => rfl
    | cons x xs ih => simp only [List.map_cons, List.zipWith_cons_cons, ih]
  intro R
  refine ⟨?_, ?_, rfl, ?_⟩
  · show _ = _
    simp only [R, erhgGraded, weightedSum]
    rw [pySum_eq_sum, hzip]
    norm_num
  · have e : R.erhg = (R.im - R.il) / ((rhos - rhol) / rhol * Cv) := rfl
    rw [e, mul_assoc, div_mul_cancel₀ _ h]; ring
  · simp only [R, erhgGraded]; norm_num

/-- each fraction gradient is the selected uniform-sand excess gradient at the fraction's geometric-mean diameter
times Rsd_x·Cv_r plus the liquid gradient reported by the selector -/
theorem C03_fraction (sel : ℝ → PyDict ℝ) (Rsd_x Cv_r f0 d0 f1 d1 : ℝ) (rest : List (ℝ × ℝ)) :
    gradedFractions sel Rsd_x Cv_r ((f0, d0) :: (f1, d1) :: rest) =
      (let dx := (10 : ℝ) ^ ((Real.log d0 / Real.log 10 + Real.log d1 / Real.log 10) / 2)
       let D := sel dx
       (f1 - f0, dx, (D.get (D.get "regime").toStr).toNum * Rsd_x * Cv_r + (D.get "il").toNum))
      :: gradedFractions sel Rsd_x Cv_r ((f1, d1) :: rest) := by
  simp only [gradedFractions, Transc.log10, Transc.rpow]
  norm_num

end
