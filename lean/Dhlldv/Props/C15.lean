import Dhlldv.Spec.FileName
import Dhlldv.Gen.Effects
import Mathlib.Data.List.Basic

/-! # C15 — the file written by `store_to_excel` has a name made only of letters, digits, '-' and '_' plus ".xlsx"
(the round-trip clause is decided by the property oracle on the implementation, see DESIGN.md §5 C15) -/

open Spec.FileName

/-- whatever the input string, every character of the cleaned stem is in the whitelist -/
theorem C15_clean_whitelisted (repl valid : List Char) (s : String) :
    ∀ c ∈ (clean repl valid s).toList, c ∈ valid := by
  intro c hc
  unfold clean cleanL at hc
  simp only [String.toList_ofList, List.mem_filter] at hc
  simpa using hc.2

/-- the base name is a whitelisted stem followed by ".xlsx", for every requested name (any Unicode, separators, dots, empty) -/
theorem C15_name (repl valid : List Char) (requested : String) :
    ∃ stem : String, baseName repl valid requested = stem ++ ".xlsx" ∧ ∀ c ∈ stem.toList, c ∈ valid :=
  ⟨clean repl valid (stemOf requested), rfl, C15_clean_whitelisted repl valid _⟩

/-- no path separator or dot can survive in the stem, so the file stays inside the requested folder -/
theorem C15_no_separator (repl valid : List Char) (requested : String) (hv : '/' ∉ valid ∧ '\\' ∉ valid ∧ '.' ∉ valid) :
    ∀ c ∈ (clean repl valid (stemOf requested)).toList, c ≠ '/' ∧ c ≠ '\\' ∧ c ≠ '.' := by
  intro c hc
  have := C15_clean_whitelisted repl valid _ c hc
  refine ⟨?_, ?_, ?_⟩ <;> (intro h; subst h; simp_all)

/-- the whitelist extracted from the current source consists of ASCII letters, digits, '-' and '_' only (64 characters), and the
shapes of the sanitiser and of the file-name branch of `store_to_excel` are the ones the Spec models -/
theorem C15_extracted :
    (Effects.filenameValid.toList.all fun c => c.isAlphanum || c == '-' || c == '_') = true ∧
    Effects.filenameValid.length = 64 ∧
    (Effects.filenameReplace.all fun s => s.length == 1) = true ∧
    Effects.filename_sanitiser_shape_recognised = true ∧ Effects.filename_branch_recognised = true := by
  decide

/-! Non-vacuity -/
example : cleanL [' '] ['-', '_', 'a', 'b', 'm', 'y', 'f', 'i', 'l', 'e'] ['m', 'y', ' ', 'f', 'i', 'l', 'e', '/', '.', '.', '/', 'é'] =
    ['m', 'y', '_', 'f', 'i', 'l', 'e'] := by decide
