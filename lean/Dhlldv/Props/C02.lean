import Dhlldv.Lemmas.Envelope

/-! # C02 — all public results are finite real numbers on the engineering envelope
"Finite real" on ℝ is read as: every primitive is applied inside its real domain (positive argument of `log`, non-negative base of a
non-integer power, non-zero divisor), so that CPython neither raises nor produces a complex number. Proved here for the leaf models on E;
the iterative / derived-concentration paths are decided by the property oracle on the implementation on every run (DESIGN.md §5 C02). -/

section
variable {vls Dp d eps nu rhol rhos Cv : ℝ}

/-- Reynolds number: divisor ν ≠ 0, result positive (so `Re**0.9` has a positive base and `64/Re` a non-zero divisor) -/
theorem C02_reynolds (h : InE vls Dp d eps nu rhol rhos Cv) :
    nu ≠ 0 ∧ 0 < homogeneous.pipe_reynolds_number vls Dp nu :=
  ⟨ne_of_gt h.nu_pos, reynolds_pos vls Dp nu h.vls_pos h.Dp_pos h.nu_pos⟩

/-- Swamee–Jain in E: turbulent branch, 3.7·Dp ≠ 0, argument of the logarithm in (0,1), so the squared logarithm is a non-zero divisor
and the friction factor is positive -/
theorem C02_friction_factor (h : InE vls Dp d eps nu rhol rhos Cv) :
    let Re := homogeneous.pipe_reynolds_number vls Dp nu
    2320 < Re ∧ 3.7 * Dp ≠ 0 ∧
    0 < eps / (3.7 * Dp) + 5.75 / Re ^ (0.9 : ℝ) ∧ eps / (3.7 * Dp) + 5.75 / Re ^ (0.9 : ℝ) < 1 ∧
    Real.log (eps / (3.7 * Dp) + 5.75 / Re ^ (0.9 : ℝ)) ^ 2 ≠ 0 ∧
    0 < homogeneous.swamee_jain_ff Re Dp eps := by
  intro Re
  have hRe : 2320 < Re := lt_of_lt_of_le (by norm_num) h.reynolds_ge
  have h48 := rpow09_gt Re hRe
  have hc1 : 0 ≤ eps / (3.7 * Dp) := by have := h.eps_pos; have := h.Dp_pos; positivity
  have hc1' := h.rough_le
  have hc2 : 0 < 5.75 / Re ^ (0.9:ℝ) := by positivity
  have hc2' : 5.75 / Re ^ (0.9:ℝ) < 0.12 := by rw [div_lt_iff₀ (by linarith)]; nlinarith
  have hs : 0 < eps / (3.7 * Dp) + 5.75 / Re ^ (0.9:ℝ) := by linarith
  have hs1 : eps / (3.7 * Dp) + 5.75 / Re ^ (0.9:ℝ) < 1 := by linarith
  refine ⟨hRe, by have := h.Dp_pos; positivity, hs, hs1, ?_, ?_⟩
  · exact pow_ne_zero 2 (ne_of_lt (Real.log_neg hs hs1))
  · exact swamee_jain_pos Re Dp eps (by linarith) h.Dp_pos h.eps_pos.le h.rough_le

/-- liquid gradient: divisor 2 g Dp ≠ 0, result positive -/
theorem C02_liquid_gradient (h : InE vls Dp d eps nu rhol rhos Cv) :
    2 * (Cst.gravity : ℝ) * Dp ≠ 0 ∧ 0 < homogeneous.fluid_head_loss vls Dp eps nu rhol := by
  refine ⟨?_, h.il_pos⟩
  have hg : (0:ℝ) < Cst.gravity := by unfold Cst.gravity; norm_num
  have := h.Dp_pos; positivity

/-- settling velocity: divisors d, 100 ν² ≠ 0; base of the square root ≥ 1; result positive; particle Reynolds number positive -/
theorem C02_settling (h : InE vls Dp d eps nu rhol rhos Cv) :
    d ≠ 0 ∧ 100 * nu ^ 2 ≠ 0 ∧ 1 ≤ 1 + ((rhos - rhol) / rhol) * (Cst.gravity : ℝ) * d ^ 3 / (100 * nu ^ 2) ∧
    0 < heterogeneous.vt_ruby d ((rhos - rhol) / rhol) nu 0.26 ∧
    0 < heterogeneous.vt_ruby d ((rhos - rhol) / rhol) nu 0.26 * d / nu := by
  have hg : (0:ℝ) < Cst.gravity := by unfold Cst.gravity; norm_num
  have hd := h.d_pos; have hn := h.nu_pos; have hR := h.Rsd_pos
  have hv := vt_ruby_pos d ((rhos - rhol) / rhol) nu 0.26 hd hR hn
  refine ⟨ne_of_gt hd, by positivity, ?_, hv, by positivity⟩
  have : 0 ≤ ((rhos - rhol) / rhol) * (Cst.gravity : ℝ) * d ^ 3 / (100 * nu ^ 2) := by positivity
  linarith

/-- the hindered-settling exponent β = (4.7 + 0.41 Rep^0.75)/(1 + 0.175 Rep^0.75) lies in (2.34, 4.7] for Rep > 0, so KC = 0.175 (1 + β) > 0.58
exceeds every concentration of E: the base 1 − Cvs/KC of the hindered-settling power is positive -/
theorem C02_hindered_base (Rep Cvs : ℝ) (hR : 0 < Rep) (hC0 : 0 ≤ Cvs) (hC : Cvs ≤ 0.45) :
    let beta := (4.7 + 0.41 * Rep ^ (0.75 : ℝ)) / (1 + 0.175 * Rep ^ (0.75 : ℝ))
    2.34 < beta ∧ beta ≤ 4.7 ∧ 0.58 < 0.175 * (1 + beta) ∧ 0 < 1 - Cvs / (0.175 * (1 + beta)) := by
  intro beta
  have hx : 0 < Rep ^ (0.75 : ℝ) := Real.rpow_pos_of_pos hR _
  have hden : 0 < 1 + 0.175 * Rep ^ (0.75 : ℝ) := by positivity
  have h1 : 2.34 < beta := by
    show 2.34 < (4.7 + 0.41 * Rep ^ (0.75 : ℝ)) / (1 + 0.175 * Rep ^ (0.75 : ℝ))
    rw [lt_div_iff₀ hden]; nlinarith
  have h2 : beta ≤ 4.7 := by
    show (4.7 + 0.41 * Rep ^ (0.75 : ℝ)) / (1 + 0.175 * Rep ^ (0.75 : ℝ)) ≤ 4.7
    rw [div_le_iff₀ hden]; nlinarith
  have h3 : 0.58 < 0.175 * (1 + beta) := by nlinarith
  refine ⟨h1, h2, h3, ?_⟩
  have : Cvs / (0.175 * (1 + beta)) < 1 := by
    rw [div_lt_one (by linarith)]; linarith
  linarith

/-- pseudo-liquid limiting diameter: divisor ρs·7.5·Dp^0.4 ≠ 0 and non-negative base of the square root -/
theorem C02_pseudo_dlim (h : InE vls Dp d eps nu rhol rhos Cv) :
    rhos * 7.5 * Dp ^ (0.4 : ℝ) ≠ 0 ∧ 0 < (Cst.stk_fine : ℝ) * 9 * rhol * nu * Dp / (rhos * 7.5 * Dp ^ (0.4 : ℝ)) ∧
    0 < framework.pseudo_dlim Dp nu rhol rhos := by
  have hD := h.Dp_pos; have hn := h.nu_pos; have hl := h.rhol_pos
  have hs : 0 < rhos := by have := h.rhos_lo; linarith
  have hp : 0 < Dp ^ (0.4 : ℝ) := Real.rpow_pos_of_pos hD _
  have hk : (0:ℝ) < Cst.stk_fine := by unfold Cst.stk_fine; norm_num
  have hq : 0 < (Cst.stk_fine : ℝ) * 9 * rhol * nu * Dp / (rhos * 7.5 * Dp ^ (0.4 : ℝ)) := by positivity
  refine ⟨by positivity, hq, ?_⟩
  unfold framework.pseudo_dlim
  simp only [Transc.rpow]
  have e : (Cst.stk_fine : ℝ) * 9.0 * rhol * nu * Dp / (rhos * 7.5 * Dp ^ (0.4 : ℝ)) =
      (Cst.stk_fine : ℝ) * 9 * rhol * nu * Dp / (rhos * 7.5 * Dp ^ (0.4 : ℝ)) := by norm_num
  rw [e]
  exact Real.rpow_pos_of_pos hq _

end

/-! Non-vacuity: the default slurry at 3 m/s is a point of E -/
example : InE 3 0.762 0.001 4.5e-5 1.0508e-6 1.0248103 2.65 0.175 := by
  constructor <;> norm_num
