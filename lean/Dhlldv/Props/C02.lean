import Dhlldv.Lemmas.Envelope
import Dhlldv.Lemmas.FixedBedDomain

/-! # C02 — all public results are finite real numbers on the engineering envelope
"Finite real" on ℝ is read as: every primitive is applied inside its real domain (positive argument of `log`, non-negative base of a
non-integer power, non-zero divisor), so that CPython neither raises nor produces a complex number. Proved here for the leaf models on E;
the iterative / derived-concentration paths are decided by the property oracle on the implementation on every run (DESIGN.md §5 C02). -/

section
variable {vls Dp d eps nu rhol rhos Cv : ℝ}

/-- Reynolds number: divisor ν ≠ 0, result positive (so `Re**0.9` has a positive base and `64/Re` a non-zero divisor) -/
theorem C02_reynolds (h : InE vls Dp d eps nu rhol rhos Cv) :
    nu ≠ 0 ∧ 0 < homogeneous.pipe_reynolds_number vls Dp nu :=
  ⟨ne_of_gt h.nu_pos, reynolds_pos vls Dp nu h.vls_pos h.Dp_pos h.nu_pos⟩

/-- Swamee–Jain in E: turbulent branch, 3.7·Dp ≠ 0, argument of the logarithm in (0,1), so the squared logarithm is a non-zero divisor
and the friction factor is positive -/
theorem C02_friction_factor (h : InE vls Dp d eps nu rhol rhos Cv) :
    let Re := homogeneous.pipe_reynolds_number vls Dp nu
    2320 < Re ∧ 3.7 * Dp ≠ 0 ∧
    0 < eps / (3.7 * Dp) + 5.75 / Re ^ (0.9 : ℝ) ∧ eps / (3.7 * Dp) + 5.75 / Re ^ (0.9 : ℝ) < 1 ∧
    Real.log (eps / (3.7 * Dp) + 5.75 / Re ^ (0.9 : ℝ)) ^ 2 ≠ 0 ∧
    0 < homogeneous.swamee_jain_ff Re Dp eps := by
  intro Re
  have hRe : 2320 < Re := lt_of_lt_of_le (by norm_num) h.reynolds_ge
  have h48 := rpow09_gt Re hRe
  have hc1 : 0 ≤ eps / (3.7 * Dp) := by have := h.eps_pos; have := h.Dp_pos; positivity
  have hc1' := h.rough_le
  have hc2 : 0 < 5.75 / Re ^ (0.9:ℝ) := by positivity
  have hc2' : 5.75 / Re ^ (0.9:ℝ) < 0.12 := by rw [div_lt_iff₀ (by linarith)]; nlinarith
  have hs : 0 < eps / (3.7 * Dp) + 5.75 / Re ^ (0.9:ℝ) := by linarith
  have hs1 : eps / (3.7 * Dp) + 5.75 / Re ^ (0.9:ℝ) < 1 := by linarith
  refine ⟨hRe, by have := h.Dp_pos; positivity, hs, hs1, ?_, ?_⟩
  · exact pow_ne_zero 2 (ne_of_lt (Real.log_neg hs hs1))
  · exact swamee_jain_pos Re Dp eps (by linarith) h.Dp_pos h.eps_pos.le h.rough_le

/-- liquid gradient: divisor 2 g Dp ≠ 0, result positive -/
theorem C02_liquid_gradient (h : InE vls Dp d eps nu rhol rhos Cv) :
    2 * (Cst.gravity : ℝ) * Dp ≠ 0 ∧ 0 < homogeneous.fluid_head_loss vls Dp eps nu rhol := by
  refine ⟨?_, h.il_pos⟩
  have hg : (0:ℝ) < Cst.gravity := by unfold Cst.gravity; norm_num
  have := h.Dp_pos; positivity

/-- settling velocity: divisors d, 100 ν² ≠ 0; base of the square root ≥ 1; result positive; particle Reynolds number positive -/
theorem C02_settling (h : InE vls Dp d eps nu rhol rhos Cv) :
    d ≠ 0 ∧ 100 * nu ^ 2 ≠ 0 ∧ 1 ≤ 1 + ((rhos - rhol) / rhol) * (Cst.gravity : ℝ) * d ^ 3 / (100 * nu ^ 2) ∧
    0 < heterogeneous.vt_ruby d ((rhos - rhol) / rhol) nu 0.26 ∧
    0 < heterogeneous.vt_ruby d ((rhos - rhol) / rhol) nu 0.26 * d / nu := by
  have hg : (0:ℝ) < Cst.gravity := by unfold Cst.gravity; norm_num
  have hd := h.d_pos; have hn := h.nu_pos; have hR := h.Rsd_pos
  have hv := vt_ruby_pos d ((rhos - rhol) / rhol) nu 0.26 hd hR hn
  refine ⟨ne_of_gt hd, by positivity, ?_, hv, by positivity⟩
  have : 0 ≤ ((rhos - rhol) / rhol) * (Cst.gravity : ℝ) * d ^ 3 / (100 * nu ^ 2) := by positivity
  linarith

/-- the hindered-settling exponent β = (4.7 + 0.41 Rep^0.75)/(1 + 0.175 Rep^0.75) lies in (2.34, 4.7] for Rep > 0, so KC = 0.175 (1 + β) > 0.58
exceeds every concentration of E: the base 1 − Cvs/KC of the hindered-settling power is positive -/
theorem C02_hindered_base (Rep Cvs : ℝ) (hR : 0 < Rep) (hC0 : 0 ≤ Cvs) (hC : Cvs ≤ 0.45) :
    let beta := (4.7 + 0.41 * Rep ^ (0.75 : ℝ)) / (1 + 0.175 * Rep ^ (0.75 : ℝ))
    2.34 < beta ∧ beta ≤ 4.7 ∧ 0.58 < 0.175 * (1 + beta) ∧ 0 < 1 - Cvs / (0.175 * (1 + beta)) := by
  intro beta
  have hx : 0 < Rep ^ (0.75 : ℝ) := Real.rpow_pos_of_pos hR _
  have hden : 0 < 1 + 0.175 * Rep ^ (0.75 : ℝ) := by positivity
  have h1 : 2.34 < beta := by
    show 2.34 < (4.7 + 0.41 * Rep ^ (0.75 : ℝ)) / (1 + 0.175 * Rep ^ (0.75 : ℝ))
    rw [lt_div_iff₀ hden]; nlinarith
  have h2 : beta ≤ 4.7 := by
    show (4.7 + 0.41 * Rep ^ (0.75 : ℝ)) / (1 + 0.175 * Rep ^ (0.75 : ℝ)) ≤ 4.7
    rw [div_le_iff₀ hden]; nlinarith
  have h3 : 0.58 < 0.175 * (1 + beta) := by nlinarith
  refine ⟨h1, h2, h3, ?_⟩
  have : Cvs / (0.175 * (1 + beta)) < 1 := by
    rw [div_lt_one (by linarith)]; linarith
  linarith

/-- pseudo-liquid limiting diameter: divisor ρs·7.5·Dp^0.4 ≠ 0 and non-negative base of the square root -/
theorem C02_pseudo_dlim (h : InE vls Dp d eps nu rhol rhos Cv) :
    rhos * 7.5 * Dp ^ (0.4 : ℝ) ≠ 0 ∧ 0 < (Cst.stk_fine : ℝ) * 9 * rhol * nu * Dp / (rhos * 7.5 * Dp ^ (0.4 : ℝ)) ∧
    0 < framework.pseudo_dlim Dp nu rhol rhos := by
  have hD := h.Dp_pos; have hn := h.nu_pos; have hl := h.rhol_pos
  have hs : 0 < rhos := by have := h.rhos_lo; linarith
  have hp : 0 < Dp ^ (0.4 : ℝ) := Real.rpow_pos_of_pos hD _
  have hk : (0:ℝ) < Cst.stk_fine := by unfold Cst.stk_fine; norm_num
  have hq : 0 < (Cst.stk_fine : ℝ) * 9 * rhol * nu * Dp / (rhos * 7.5 * Dp ^ (0.4 : ℝ)) := by positivity
  refine ⟨by positivity, hq, ?_⟩
  unfold framework.pseudo_dlim
  simp only [Transc.rpow]
  have e : (Cst.stk_fine : ℝ) * 9.0 * rhol * nu * Dp / (rhos * 7.5 * Dp ^ (0.4 : ℝ)) =
      (Cst.stk_fine : ℝ) * 9 * rhol * nu * Dp / (rhos * 7.5 * Dp ^ (0.4 : ℝ)) := by norm_num
  rw [e]
  exact Real.rpow_pos_of_pos hq _

/-- fixed-bed force balance (the model behind the stationary-deposit limit and the fixed-bed regime), in-situ concentration up to 0.45 of a bed packed
at 0.6: the bed half-angle lies in (0, 2.5) rad, so free area, both perimeters above the bed and the hydraulic diameter are positive divisors; the
velocity above the bed is at least the line speed and its Reynolds number at least 1296; the arguments of both friction logarithms lie strictly
between 0 and 1 (non-zero squared logarithm as divisor); both bases of the sheet-flow powers are positive; all three friction factors and the
pressure loss are positive; the two remaining divisors ρl·g and Rsd·Cvs are non-zero -/
theorem C02_fixed_bed (h : InE vls Dp d eps nu rhol rhos Cv) :
    (0 < stratified.beta Cv ∧ stratified.beta Cv < 2.5) ∧ FBGeom Dp Cv ∧ FBFlow vls Dp d eps nu Cv ∧
    (let DH1 := 4 * (stratified.areas Dp Cv).2.1 / ((stratified.perimeters Dp Cv).2.1 + (stratified.perimeters Dp Cv).2.2.1)
     let v1 := vls * (stratified.areas Dp Cv).1 / (stratified.areas Dp Cv).2.1
     let Re := v1 * DH1 / nu
     (0 < 0.27 * eps / DH1 + 5.75 / Re ^ (0.9:ℝ) ∧ 0.27 * eps / DH1 + 5.75 / Re ^ (0.9:ℝ) < 1) ∧
     (0 < 0.27 * d / DH1 + 5.75 / Re ^ (0.9:ℝ) ∧ 0.27 * d / DH1 + 5.75 / Re ^ (0.9:ℝ) < 1) ∧
     0 < stratified.lambda1 DH1 v1 eps nu ∧ 0 < stratified.lambda12 DH1 d v1 0.0 nu ∧
     (0 < 2.0 * (Cst.gravity : ℝ) * DH1 * ((rhos - rhol) / rhol) ∧ 0 < rhos * (Real.pi / 6.0) * d ^ 3 / rhol ∧
       0 < stratified.lambda12_sf DH1 d v1 0.0 eps nu rhol rhos)) ∧
    0 < stratified.fb_pressure_loss vls Dp d eps nu rhol rhos Cv ∧
    rhol * (Cst.gravity : ℝ) ≠ 0 ∧ (rhos - rhol) / rhol * Cv ≠ 0 := by
  have g := fb_geom h
  have f := fb_flow h
  have hg : (0:ℝ) < Cst.gravity := by unfold Cst.gravity; norm_num
  have hl := h.rhol_pos; have hR := h.Rsd_pos; have hc := h.Cv_pos
  have hv1 : 0 < vls * (stratified.areas Dp Cv).1 / (stratified.areas Dp Cv).2.1 := lt_of_lt_of_le h.vls_pos f.v1_ge
  refine ⟨beta_range_on_E Cv h.Cv_pos h.Cv_hi, g, f, ?_, fb_pressure_loss_pos h, by positivity, by positivity⟩
  intro DH1 v1 Re
  exact ⟨log_arg_ok _ _ f.c1_wall.1 (le_trans f.c1_wall.2 (by norm_num)) f.Re_ge, log_arg_ok _ _ f.c1_bed.1 f.c1_bed.2 f.Re_ge,
    lambda1_pos _ _ eps nu f.c1_wall f.Re_ge, lambda12_pos _ d _ nu f.c1_bed f.Re_ge,
    lambda12_sf_pos _ d _ eps nu rhol rhos f.DH1_pos h.d_pos hv1 hl h.rhos_gt f.c1_wall f.Re_ge⟩

end

/-! Non-vacuity: the default slurry at 3 m/s is a point of E -/
example : InE 3 0.762 0.001 4.5e-5 1.0508e-6 1.0248103 2.65 0.175 := by
  constructor <;> norm_num
