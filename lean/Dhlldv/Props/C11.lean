import Dhlldv.Lemmas.Basic
import Dhlldv.Spec.Pump
import Mathlib.Tactic.SplitIfs

/-! # C11 — pump points obey the affinity laws and the driver limit
Theorems over `Spec.Pump.point` (hand-written model of `Pump.point` and its speed searches, tied to the implementation by a
bit-exact correspondence check). -/

open Spec.Pump

section
variable (p : P ℝ) (fuel : Nat) (curveSpeed Q : ℝ) (water : Bool)

/-- whatever the limit mode: the returned flow is the requested flow, and head and power are the affinity-law scalings of the design curves
at the RETURNED speed n and the pumped density: H = H₀(Q₀)(n/n₀)²(D/D₀)²ρ, P = P₀(Q₀)(n/n₀)³(D/D₀)⁵ρ with Q₀ = Q/((n/n₀)(D/D₀)²) -/
theorem C11_affinity (Q' H Pw n : ℝ) (h : point p fuel curveSpeed Q water = some (Q', H, Pw, n)) :
    Q' = Q ∧
    H = p.QH.at (Q / (n / p.designSpeed * (p.curImpeller / p.designImpeller) ^ 2)) * (n / p.designSpeed) ^ 2
          * (p.curImpeller / p.designImpeller) ^ 2 * rho p water ∧
    Pw = powerRequired p Q n water := by
  unfold point at h
  simp only at h
  split_ifs at h with hc
  · simp only [Option.some.injEq, Prod.mk.injEq] at h
    obtain ⟨rfl, rfl, rfl, rfl⟩ := h
    exact ⟨rfl, rfl, rfl⟩
  · split at h
    · exact absurd h (by simp)
    · simp only [Option.some.injEq, Prod.mk.injEq] at h
      obtain ⟨rfl, rfl, rfl, rfl⟩ := h
      exact ⟨rfl, rfl, rfl⟩

theorem C11_power_formula (n : ℝ) (hn : n ≠ 0) :
    powerRequired p Q n water =
      p.QP.at (Q / (n / p.designSpeed * (p.curImpeller / p.designImpeller) ^ 2)) * (n / p.designSpeed) ^ 3
        * (p.curImpeller / p.designImpeller) ^ 5 * rho p water := by
  unfold powerRequired
  have : feq n (0.0 : ℝ) = false := by
    cases h : feq n (0.0 : ℝ)
    · rfl
    · exact absurd ((feq_iff_eq n 0.0).1 h) (by simpa using hn)
  simp only [this, Bool.false_eq_true, if_false]
  rfl

/-- the returned speed equals the set speed whenever the driver can supply the required power there, or the pump is not limited -/
theorem C11_keeps_set_speed (hok : p.mode = 0 ∨ powerRequired p Q p.curSpeed water ≤ powerAvailable p p.curSpeed) :
    ∃ H Pw, point p fuel curveSpeed Q water = some (Q, H, Pw, p.curSpeed) := by
  unfold point
  simp only
  have : (p.mode == 0 || decide (powerRequired p Q p.curSpeed water ≤ powerAvailable p p.curSpeed)) = true := by
    rcases hok with h | h
    · simp [h]
    · simp [h]
  rw [if_pos this]
  exact ⟨_, _, rfl⟩

/-- torque search: on exit the available and the required power at the returned speed differ by less than 0.1 kW -/
theorem C11_torque_exit : ∀ (fuel : Nat) (n m : ℝ),
    torqueLoop p Q water fuel n (powerRequired p Q n water) (powerAvailable p n) = some m →
    |powerAvailable p m - powerRequired p Q m water| < 0.1 := by
  intro fuel
  induction fuel with
  | zero =>
    intro n m h
    unfold torqueLoop at h
    split_ifs at h with hc
    simp only [Option.some.injEq] at h; subst h
    simp only [Bool.and_eq_true, decide_eq_true_eq] at hc
    rw [abs_lt]; exact hc
  | succ k ih =>
    intro n m h
    unfold torqueLoop at h
    split_ifs at h with hc
    · simp only [Option.some.injEq] at h; subst h
      simp only [Bool.and_eq_true, decide_eq_true_eq] at hc
      rw [abs_lt]; exact hc
    · exact ih _ m h

/-- power search: on exit the available power and the required power at the returned speed differ by less than 0.1 kW -/
theorem C11_power_exit : ∀ (fuel : Nat) (n m : ℝ),
    powerLoop p Q water fuel n (powerRequired p Q n water) = some m →
    |p.availPower - powerRequired p Q m water| < 0.1 := by
  intro fuel
  induction fuel with
  | zero =>
    intro n m h
    unfold powerLoop at h
    split_ifs at h with hc
    simp only [Option.some.injEq] at h; subst h
    simp only [Bool.and_eq_true, decide_eq_true_eq] at hc
    rw [abs_lt]; exact hc
  | succ k ih =>
    intro n m h
    unfold powerLoop at h
    split_ifs at h with hc
    · simp only [Option.some.injEq] at h; subst h
      simp only [Bool.and_eq_true, decide_eq_true_eq] at hc
      rw [abs_lt]; exact hc
    · exact ih _ m h

/-- in torque and power mode, when the driver limits the pump, required power equals available power at the returned speed within 0.1 kW -/
theorem C11_limited_balance (hm : p.mode = 1 ∨ p.mode = 2)
    (hlim : ¬ powerRequired p Q p.curSpeed water ≤ powerAvailable p p.curSpeed)
    (Q' H Pw n : ℝ) (h : point p fuel curveSpeed Q water = some (Q', H, Pw, n)) :
    |powerAvailable p n - powerRequired p Q n water| < 0.1 := by
  unfold point at h
  simp only at h
  have hne : (p.mode == 0 || decide (powerRequired p Q p.curSpeed water ≤ powerAvailable p p.curSpeed)) = false := by
    rcases hm with h1 | h1 <;> simp [h1, hlim]
  rw [if_neg (by simp [hne])] at h
  rcases hm with h1 | h1
  · simp only [h1] at h
    unfold findTorqueSpeed at h
    simp only at h
    have hlt : ¬ powerAvailable p p.curSpeed ≥ powerRequired p Q p.curSpeed water := hlim
    rw [if_neg hlt] at h
    cases ht : torqueLoop p Q water fuel p.curSpeed (powerRequired p Q p.curSpeed water) (powerAvailable p p.curSpeed) with
    | none => rw [ht] at h; exact absurd h (by simp)
    | some m =>
      rw [ht] at h
      simp only [Option.some.injEq, Prod.mk.injEq] at h
      obtain ⟨_, _, _, rfl⟩ := h
      exact C11_torque_exit p Q water fuel _ _ ht
  · simp only [h1] at h
    unfold findPowerSpeed at h
    simp only at h
    have hav : powerAvailable p p.curSpeed = p.availPower := by unfold powerAvailable; simp [h1]
    have hlt : ¬ p.availPower ≥ powerRequired p Q p.curSpeed water := by rw [← hav]; exact hlim
    rw [if_neg hlt] at h
    cases ht : powerLoop p Q water fuel p.curSpeed (powerRequired p Q p.curSpeed water) with
    | none => rw [ht] at h; exact absurd h (by simp)
    | some m =>
      rw [ht] at h
      simp only [Option.some.injEq, Prod.mk.injEq] at h
      obtain ⟨_, _, _, rfl⟩ := h
      have : powerAvailable p m = p.availPower := by unfold powerAvailable; simp [h1]
      rw [this]
      exact C11_power_exit p Q water fuel _ _ ht

end
