import Dhlldv.Lemmas.Basic
import Dhlldv.Gen.Framework

/-! # C06 — limit deposit velocity: ignores its dummy argument (and, under hypotheses, is positive) -/

/-- the result does not depend on the line-speed argument, for every iteration budget of the model and of the code -/
theorem C06_dummy (fuel : Nat) (v1 v2 Dp d eps nu rhol rhos Cvs max_steps : ℝ) :
    framework.LDV fuel v1 Dp d eps nu rhol rhos Cvs max_steps = framework.LDV fuel v2 Dp d eps nu rhol rhos Cvs max_steps := by
  rfl
