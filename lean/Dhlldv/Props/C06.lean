import Dhlldv.Lemmas.LDV

/-! # C06 — limit deposit velocity: ignores its dummy argument and is positive on the envelope -/

/-- the result does not depend on the line-speed argument, for every iteration budget of the model and of the code -/
theorem C06_dummy (fuel : Nat) (v1 v2 Dp d eps nu rhol rhos Cvs max_steps : ℝ) :
    framework.LDV fuel v1 Dp d eps nu rhol rhos Cvs max_steps = framework.LDV fuel v2 Dp d eps nu rhol rhos Cvs max_steps := by
  rfl

/-- on the envelope the limit deposit velocity is positive — for any line-speed argument `v`, any step budget of the code and any model
budget that covers it (the four damped loops never exhaust it, the friction factor stays positive at every iterate, and the result is at
least the lower-limit velocity (B + √(B² + 4C))/2 > 0) -/
theorem C06_pos {vls Dp d eps nu rhol rhos Cvs : ℝ} (h : InE vls Dp d eps nu rhol rhos Cvs) (v max_steps : ℝ) (fuel : Nat)
    (hb : max_steps ≤ (fuel : ℝ)) :
    0 < framework.LDV fuel v Dp d eps nu rhol rhos Cvs max_steps :=
  LDV_pos fuel Cvs Dp d eps max_steps nu rhol rhos v h.Dp_pos h.nu_pos h.eps_pos.le h.rough_le h.d_pos h.Rsd_pos hb

/-- in particular with the default step budget 10 and the budget the model uses at its call sites -/
theorem C06_pos_default {vls Dp d eps nu rhol rhos Cvs : ℝ} (h : InE vls Dp d eps nu rhol rhos Cvs) (v : ℝ) :
    0 < framework.LDV 1000 v Dp d eps nu rhol rhos Cvs 10.0 :=
  C06_pos h v 10.0 1000 (by norm_num)
