import Dhlldv.Spec.Workbook
import Dhlldv.Gen.Effects
import Mathlib.Tactic.SplitIfs
import Mathlib.Logic.Basic
import Mathlib.Data.List.Basic

/-! # C16 — malformed workbooks are rejected with InvalidExcelError and nothing else; every well-formed workbook loads

Theorems over the abstract workbook model `Spec.Workbook.load` (tied to the loader by the correspondence check, which compares the outcome
class on every single fault) with the flags extracted from the source all set (which `C16_extracted` establishes for the current tree). -/

open Spec.Workbook

theorem isOk_firstErr_cons_ok (u : Unit) (rest : List (Except Err Unit)) :
    firstErr (Except.ok u :: rest) = firstErr rest := rfl

theorem firstErr_ok_iff (l : List (Except Err Unit)) : isOk (firstErr l) = true ↔ ∀ c ∈ l, isOk c = true := by
  induction l with
  | nil => simp [firstErr, ok, isOk]
  | cons c rest ih =>
    cases c with
    | ok u =>
      rw [isOk_firstErr_cons_ok, ih]
      constructor
      · intro h c hc
        rcases List.mem_cons.1 hc with rfl | hc
        · rfl
        · exact h c hc
      · intro h c hc; exact h c (List.mem_cons_of_mem _ hc)
    | error e =>
      constructor
      · intro h; exact absurd h (by simp [firstErr, isOk])
      · intro h; exact absurd (h _ (List.mem_cons_self)) (by simp [isOk])

theorem firstErr_mem (l : List (Except Err Unit)) : isOk (firstErr l) = true ∨ firstErr l ∈ l := by
  induction l with
  | nil => left; rfl
  | cons c rest ih =>
    cases c with
    | ok u =>
      rcases ih with h | h
      · left; rw [isOk_firstErr_cons_ok]; exact h
      · right; rw [isOk_firstErr_cons_ok]; exact List.mem_cons_of_mem _ h
    | error e => right; simp [firstErr]

/-- no required table name is bound to a single cell (no listed fault produces that; the loader raises TypeError there) -/
def TablesAreRanges (reqs : List Req) (wb : WB) : Prop :=
  ∀ s ∈ wb, ∀ r, typesOf reqs s.title = [r] → ∀ t ∈ r.tables, ∀ v, lookupName s t.1 ≠ some (Named.cell v)

/-- with the four conversions in place, every single check either passes or raises InvalidExcelError -/
theorem checks_never_other (reqs : List Req) (wb : WB) (hT : TablesAreRanges reqs wb) :
    ∀ c ∈ checks true true true true reqs wb, isOk c = true ∨ isInvalidExcel c = true := by
  intro c hc
  simp only [checks, List.mem_append] at hc
  rcases hc with ((hc | hc) | hc) | hc
  · simp only [tabChecks, List.mem_map] at hc
    obtain ⟨r, _, rfl⟩ := hc
    split_ifs <;> simp [isOk, isInvalidExcel, ok]
  · simp only [sheetChecks, List.mem_flatten, List.mem_map] at hc
    obtain ⟨l, ⟨s, hs, rfl⟩, hc⟩ := hc
    split at hc
    · rename_i r hr
      simp only [fieldChecks, List.mem_append, List.mem_map, List.mem_flatten] at hc
      rcases hc with ⟨f, _, rfl⟩ | ⟨l2, ⟨t, ht, rfl⟩, hc⟩
      · unfold scalarCheck
        split
        · simp [missing, isOk, isInvalidExcel]
        · simp [ok, isOk]
        · split_ifs <;> simp [ok, isOk, isInvalidExcel]
      · unfold tableCheck at hc
        split at hc
        · simp only [List.mem_singleton] at hc; subst hc; simp [missing, isOk, isInvalidExcel]
        · rename_i v hv
          exact absurd hv (hT s hs r hr t ht v)
        · simp only [List.mem_map] at hc
          obtain ⟨col, _, rfl⟩ := hc
          split_ifs <;> simp [ok, isOk, isInvalidExcel]
    · simp at hc
  · simp only [curveChecks, List.mem_map] at hc
    obtain ⟨s, _, rfl⟩ := hc
    split_ifs <;> simp [ok, isOk, isInvalidExcel]
  · simp only [refChecks, List.mem_flatten, List.mem_map] at hc
    obtain ⟨l, ⟨s, _, rfl⟩, hc⟩ := hc
    simp only [List.mem_map] at hc
    obtain ⟨ref, _, rfl⟩ := hc
    split_ifs <;> simp [ok, isOk, isInvalidExcel]

/-- the loader either returns a pipeline or raises InvalidExcelError — never another exception -/
theorem C16_total (reqs : List Req) (wb : WB) (hT : TablesAreRanges reqs wb) :
    isOk (load true true true true reqs wb) = true ∨ isInvalidExcel (load true true true true reqs wb) = true := by
  unfold load
  rcases firstErr_mem (checks true true true true reqs wb) with h | h
  · left; exact h
  · exact checks_never_other reqs wb hT _ h

/-- a workbook loads iff every check passes; hence any workbook in which ONE check fails — a missing required tab, a missing defined name,
a blank / non-numeric numeric field, a missing or duplicated table column, a curve-limited pump without driver tab, a pump reference
without pump tab — is rejected, and by `C16_total` with InvalidExcelError -/
theorem C16_loads_iff_all_checks (reqs : List Req) (wb : WB) :
    isOk (load true true true true reqs wb) = true ↔ ∀ c ∈ checks true true true true reqs wb, isOk c = true :=
  firstErr_ok_iff _

theorem C16_reject (reqs : List Req) (wb : WB) (hT : TablesAreRanges reqs wb)
    (c : Except Err Unit) (hc : c ∈ checks true true true true reqs wb) (hbad : isOk c = false) :
    isInvalidExcel (load true true true true reqs wb) = true := by
  rcases C16_total reqs wb hT with h | h
  · have := (C16_loads_iff_all_checks reqs wb).1 h c hc
    rw [hbad] at this; exact absurd this (by decide)
  · exact h

/-- the individual faults of the property each make one check fail -/
theorem C16_fault_missing_name (s : Sheet) (f : String × Bool) (h : lookupName s f.1 = none) :
    isOk (scalarCheck true s f) = false := by
  unfold scalarCheck; rw [h]; rfl

theorem C16_fault_non_numeric (s : Sheet) (f : String) (v : Val) (h : lookupName s f = some (Named.cell v)) (hv : v ≠ Val.num) :
    isOk (scalarCheck true s (f, true)) = false := by
  unfold scalarCheck
  simp only [h, Bool.true_and]
  have : (v != Val.num) = true := by simpa using hv
  simp [this, isOk]

theorem C16_fault_missing_table (s : Sheet) (t : String × List (List String)) (h : lookupName s t.1 = none) :
    ∃ c ∈ tableCheck true s t, isOk c = false := by
  unfold tableCheck; rw [h]; exact ⟨_, List.mem_singleton.2 rfl, rfl⟩

theorem C16_fault_column (s : Sheet) (t : String × List (List String)) (header : List String) (col : List String)
    (h : lookupName s t.1 = some (Named.table header)) (hc : col ∈ t.2) (hn : (matching header col).length ≠ 1) :
    ∃ c ∈ tableCheck true s t, isOk c = false := by
  unfold tableCheck; rw [h]
  refine ⟨_, List.mem_map.2 ⟨col, hc, rfl⟩, ?_⟩
  have : ((matching header col).length == 1) = false := by simpa using hn
  simp [this, isOk]

/-- the flags the theorems above assume are what the current source does; the table of required tabs / names / columns is the
extracted one (4 sheet types) -/
theorem C16_extracted :
    Effects.excelScalarLookupCatches.contains "KeyError" = true ∧ Effects.excelTableLookupCatches.contains "KeyError" = true ∧
    Effects.excel_dangling_pump_checked = true ∧ Effects.excel_curve_without_driver_checked = true ∧
    Effects.excel_validate_called_first = true ∧ Effects.excelRequireds.length = 4 := by
  decide

/-- sensitivity: without the KeyError conversion (the source before the repair) a missing defined name escapes as KeyError -/
theorem C16_counterexample_before_fix :
    scalarCheck false { title := "slurry", names := [], pumpRefs := [] } ("Cv", true) = .error (.other "KeyError") := by
  rfl
