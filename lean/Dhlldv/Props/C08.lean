import Dhlldv.Lemmas.MemoInv
import Dhlldv.Gen.Effects

/-! # C08 — computational functions depend only on their arguments and the two documented switches

`C08_sound`: a memoised function whose extracted condition holds (everything its body reads is part of the cache key, no cached
mutable container is handed out) returns, after ANY history of calls, switch toggles, caller mutations and cache clears,
exactly what the un-memoised body computes under the *current* switches.
`C08_extracted`: every `lru_cache`d function of the current source meets the condition and no module holds hidden mutable state. -/

open Spec.Memo

theorem C08_sound (f : Fn) (readsSwitches : Bool) (hs : Sound f readsSwitches = true)
    (hb : readsSwitches = false → ∀ sw sw' a, f.body sw a = f.body sw' a)
    (sw0 : Nat) (ops : List Op) (a : Nat) :
    (step f (run f { sw := sw0, memo := [] } ops) (Op.call a)).2 = some (f.body (run f { sw := sw0, memo := [] } ops).sw a) := by
  have hi : Inv f (run f { sw := sw0, memo := [] } ops) :=
    inv_run f readsSwitches hs hb ops _ (fun e he => by simp at he)
  generalize run f { sw := sw0, memo := [] } ops = s at hi
  simp only [step]
  by_cases hc : f.cached = true
  · simp only [hc, if_true]
    cases hl : lookup s.memo (key f s.sw a) with
    | some v =>
      have hm := lookup_mem _ _ _ hl
      have h2 : v = f.body s.sw a := hi _ hm s.sw rfl
      simp only [h2]
    | none => rfl
  · simp [hc]

/-- per cached function of the source: (uncovered switch reads = ∅) ∧ (no cached container handed out); no hidden module state; and no
function of the library rebinds a module-level name or assigns an attribute of an imported module (the two switches are written by the
caller only); every decorator in the library is one the model understands (`functools.lru_cache` with its extracted key, property /
setter, dataclass) — a home-made caching decorator is outside the memo model -/
theorem C08_extracted :
    (Effects.caches.all fun r => !r.2.1 || (r.2.2.2.1.isEmpty && !r.2.2.2.2)) = true ∧
    (Effects.caches.all fun r => !r.2.2.2.2) = true ∧
    Effects.hiddenModuleState = [] ∧ Effects.moduleStateWriters = [] ∧ Effects.unknownDecorators = [] := by
  decide

/-- sensitivity / non-vacuity: the state of the source before the repair (key without switches, container handed out) is not sound,
and both documented failure histories then return a wrong value -/
theorem C08_counterexample_before_fix :
    let f : Fn := { cached := true, keyHasSwitches := false, handsOut := true, body := fun sw a => 10 * sw + a }
    Sound f true = false ∧
    (step f (run f { sw := 1, memo := [] } [Op.call 5, Op.toggle 2]) (Op.call 5)).2 = some 15 ∧ f.body 2 5 = 25 ∧
    (step f (run f { sw := 1, memo := [] } [Op.call 5, Op.mutate 5 99]) (Op.call 5)).2 = some 99 := by
  decide
