import Dhlldv.Lemmas.Basic
import Dhlldv.Gen.Framework
import Dhlldv.Lemmas.Select
import Dhlldv.Lemmas.Slip
import Mathlib.Tactic.FieldSimp
import Mathlib.Tactic.Ring

/-! # C05 — slip ratio, derived spatial concentration and the delivered-concentration relation
Theorems over the generated `framework.Cvt_Erhg…`, `Cvs_from_Cvt`, `slip_ratio` at `α := ℝ`. -/

section
variable (sf sq : Bool) (vls Dp d eps nu rhol rhos Cvt : ℝ)

local notation "XI" => framework.slip_ratio vls Dp d eps nu rhol rhos Cvt
local notation "CVS" => framework.Cvs_from_Cvt vls Dp d eps nu rhol rhos Cvt
local notation "DS" => framework.Cvs_Erhg_dict sf sq vls Dp d eps nu rhol rhos CVS
local notation "DT" => framework.Cvt_Erhg_dict sf sq vls Dp d eps nu rhol rhos Cvt
local notation "RT" => PyVal.toStr (PyDict.get (framework.Cvt_Erhg_dict sf sq vls Dp d eps nu rhol rhos Cvt) "regime")

/-- the derived spatial concentration is Cvt/(1 − Xi) with Xi the slip ratio of the same eight arguments -/
theorem C05_derived_concentration : CVS = (1 / (1 - XI)) * Cvt := by
  unfold framework.Cvs_from_Cvt
  simp

/-- every regime entry of the delivered-concentration result is the spatial-concentration entry at the derived
concentration divided by (1 − Xi); the slip used is reported; the liquid gradient entry is unchanged -/
theorem C05_scale :
    PyVal.toNum (PyDict.get DT "FB") = PyVal.toNum (PyDict.get DS "FB") * 1 / (1 - XI) ∧
    PyVal.toNum (PyDict.get DT "SB") = PyVal.toNum (PyDict.get DS "SB") * 1 / (1 - XI) ∧
    PyVal.toNum (PyDict.get DT "He") = PyVal.toNum (PyDict.get DS "He") * 1 / (1 - XI) ∧
    PyVal.toNum (PyDict.get DT "Ho") = PyVal.toNum (PyDict.get DS "Ho") * 1 / (1 - XI) ∧
    PyVal.toNum (PyDict.get DT "Xi") = XI ∧
    PyVal.toNum (PyDict.get DT "il") = PyVal.toNum (PyDict.get DS "il") := by
  unfold framework.Cvt_Erhg_dict framework._Cvt_Erhg_obj
  dsimp only
  generalize CVS = cvs
  generalize XI = xi
  simp only [Cvs_Erhg_dict_eq]
  rcases selectCode_cases (stratified.fb_Erhg vls Dp d eps nu rhol rhos cvs) (stratified.Erhg vls Dp d eps nu rhol rhos cvs)
      (heterogeneous.Erhg vls Dp d eps nu rhol rhos cvs sf sq) (homogeneous.Erhg vls Dp d eps nu rhol rhos cvs true) with h | h | h | h <;>
    rw [h] <;>
    simp [PyDict.get, PyDict.set, PyVal.toNum, PyVal.toStr, strLookup, List.find?] <;>
    (try split_ifs) <;> simp_all [PyDict.get, PyDict.set, PyVal.toNum, PyVal.toStr, strLookup, List.find?] <;> (try linarith)

/-- the delivered-concentration result never reports the fixed-bed regime: its code is the spatial code with FB replaced by
the smaller of SB and He (after scaling); the reported value is the entry under that code; the long name follows -/
theorem C05_never_fixed_bed :
    RT = Spec.cvtCode (PyVal.toNum (PyDict.get DT "SB")) (PyVal.toNum (PyDict.get DT "He")) (PyVal.toStr (PyDict.get DS "regime")) ∧
    (RT = "SB" ∨ RT = "He" ∨ RT = "Ho") ∧
    framework.Cvt_Erhg sf sq vls Dp d eps nu rhol rhos Cvt = PyVal.toNum (PyDict.get DT RT) ∧
    framework.Cvt_regime sf sq vls Dp d eps nu rhol rhos Cvt = Spec.longName RT := by
  unfold framework.Cvt_regime framework.Cvt_Erhg framework.Cvt_Erhg_dict framework._Cvt_Erhg_obj Spec.cvtCode Spec.longName
  dsimp only
  generalize CVS = cvs
  generalize XI = xi
  simp only [Cvs_Erhg_dict_eq]
  rcases selectCode_cases (stratified.fb_Erhg vls Dp d eps nu rhol rhos cvs) (stratified.Erhg vls Dp d eps nu rhol rhos cvs)
      (heterogeneous.Erhg vls Dp d eps nu rhol rhos cvs sf sq) (homogeneous.Erhg vls Dp d eps nu rhol rhos cvs true) with h | h | h | h <;>
    rw [h] <;>
    simp [PyDict.get, PyDict.set, PyVal.toNum, PyVal.toStr, strLookup, List.find?] <;>
    (try split_ifs) <;> simp_all [PyDict.get, PyDict.set, PyVal.toNum, PyVal.toStr, strLookup, List.find?] <;> (try linarith)

end

/-- if the slip ratio lies in [0, 1 − Cvt/Cvb] then the derived spatial concentration lies between the delivered and the
bed concentration -/
theorem C05_concentration_bounds (Xi Cvt Cvb : ℝ) (hC : 0 < Cvt) (hb : 0 < Cvb) (h0 : 0 ≤ Xi) (h1 : Xi ≤ 1 - Cvt / Cvb) :
    Cvt ≤ (1 / (1 - Xi)) * Cvt ∧ (1 / (1 - Xi)) * Cvt ≤ Cvb := by
  have hr : 0 < Cvt / Cvb := div_pos hC hb
  have hx : 0 < 1 - Xi := by linarith
  constructor
  · rw [one_div, inv_mul_eq_div, le_div_iff₀ hx]; nlinarith
  · rw [one_div, inv_mul_eq_div, div_le_iff₀ hx]
    have : Cvt / Cvb * Cvb = Cvt := by field_simp
    nlinarith

/-- lower half of the slip-ratio clause, for ALL arguments: below the bed concentration the slip ratio is strictly positive (it is at least the
three-layer-model slip (1 − Cvr)·exp(…): convex combination with weight f ∈ [0,1] of max(·, Xi_3LM) and Xi_3LM) -/
theorem C05_slip_pos (vls Dp d eps nu rhol rhos Cvt : ℝ) (h : Cvt < 0.6) :
    0 < framework.slip_ratio vls Dp d eps nu rhol rhos Cvt := by
  apply slip_ratio_pos
  have e : (Cst.Cvb : ℝ) = 0.6 := rfl
  rw [e, div_lt_one (by norm_num)]; exact h

/-- hence the derived spatial concentration exceeds the delivered one whenever the slip stays below 1 (no hypothesis on the lower side any more) -/
theorem C05_Cvs_gt_Cvt (vls Dp d eps nu rhol rhos Cvt : ℝ) (hC : 0 < Cvt) (h : Cvt < 0.6)
    (h1 : framework.slip_ratio vls Dp d eps nu rhol rhos Cvt < 1) :
    Cvt < framework.Cvs_from_Cvt vls Dp d eps nu rhol rhos Cvt := by
  rw [C05_derived_concentration]
  have hp := C05_slip_pos vls Dp d eps nu rhol rhos Cvt h
  have hx : 0 < 1 - framework.slip_ratio vls Dp d eps nu rhol rhos Cvt := by linarith
  rw [one_div, inv_mul_eq_div, lt_div_iff₀ hx]; nlinarith

/-! Non-vacuity -/
example : (0:ℝ) < 0.2 ∧ (0:ℝ) < 0.6 ∧ (0:ℝ) ≤ 0.3 ∧ (0.3:ℝ) ≤ 1 - 0.2 / 0.6 := by norm_num
