import Dhlldv.Lemmas.Friction
import Dhlldv.Lemmas.Hetero
import Dhlldv.Lemmas.Homog
import Dhlldv.Props.C01
import Mathlib.Tactic.SplitIfs

/-! # C04 — the head-loss surface is physically ordered, monotone and free of jumps (proved clauses)
Theorems over the generated models at `α := ℝ` on the envelope `InE`. -/

open Real

section
variable {v1 v2 Dp d eps nu rhol rhos Cv : ℝ}

/-- the carrier-liquid gradient is positive on E -/
theorem C04_il_pos (h : InE v1 Dp d eps nu rhol rhos Cv) : 0 < homogeneous.fluid_head_loss v1 Dp eps nu rhol := h.il_pos

/-- the carrier-liquid gradient rises strictly with line speed on E -/
theorem C04_il_increasing (h1 : InE v1 Dp d eps nu rhol rhos Cv) (h2 : InE v2 Dp d eps nu rhol rhos Cv) (h12 : v1 < v2) :
    homogeneous.fluid_head_loss v1 Dp eps nu rhol < homogeneous.fluid_head_loss v2 Dp eps nu rhol := by
  have hD := h1.Dp_pos; have hn := h1.nu_pos
  have t1 : 2320 < homogeneous.pipe_reynolds_number v1 Dp nu := lt_of_lt_of_le (by norm_num) h1.reynolds_ge
  have t2 : 2320 < homogeneous.pipe_reynolds_number v2 Dp nu := lt_of_lt_of_le (by norm_num) h2.reynolds_ge
  rw [fluid_head_loss_canon, fluid_head_loss_canon]
  rw [swamee_jain_as_Lv v1 Dp eps nu h1.vls_pos hD hn t1, swamee_jain_as_Lv v2 Dp eps nu h2.vls_pos hD hn t2]
  set c1 := eps / (3.7 * Dp)
  set k := 5.75 * (nu / Dp) ^ (0.9:ℝ)
  have hc1 : 0 ≤ c1 := by have := h1.eps_pos; positivity
  have hk : 0 < k := by have := Real.rpow_pos_of_pos (div_pos hn hD) (0.9:ℝ); positivity
  -- the argument of the logarithm at v1 is below e^(-0.9)
  have hsmall : c1 + k * v1 ^ (-(0.9:ℝ)) ≤ Real.exp (-0.9) := by
    have h48 := rpow09_gt _ t1
    rw [reynolds_eq] at h48
    have e : k * v1 ^ (-(0.9:ℝ)) = 5.75 / (v1 * Dp / nu) ^ (0.9:ℝ) := (c2_as_k v1 Dp nu h1.vls_pos hD hn).symm
    rw [e]
    have hc2 : 5.75 / (v1 * Dp / nu) ^ (0.9:ℝ) < 0.12 := by rw [div_lt_iff₀ (by linarith)]; nlinarith
    have := h1.rough_le
    have := exp_neg09_gt
    have hc1' : c1 ≤ 0.0002 := by
      show eps / (3.7 * Dp) ≤ 0.0002
      rw [h1.eps_eq, div_le_iff₀ (by positivity)]; have := h1.Dp_lo; nlinarith
    linarith
  have hmono := sq_div_Lsq_strictMono c1 k v1 v2 hc1 hk h1.vls_pos h12 hsmall
  have hg : (0:ℝ) < Cst.gravity := by unfold Cst.gravity; norm_num
  have hden : (0:ℝ) < 2 * Cst.gravity * Dp := by positivity
  have e1 : 1.325 / Lv c1 k v1 ^ 2 * v1 ^ 2 / (2 * Cst.gravity * Dp) = 1.325 / (2 * Cst.gravity * Dp) * (v1 ^ 2 / Lv c1 k v1 ^ 2) := by ring
  have e2 : 1.325 / Lv c1 k v2 ^ 2 * v2 ^ 2 / (2 * Cst.gravity * Dp) = 1.325 / (2 * Cst.gravity * Dp) * (v2 ^ 2 / Lv c1 k v2 ^ 2) := by ring
  rw [e1, e2]
  exact mul_lt_mul_of_pos_left hmono (by positivity)

end

/-- the carrier-liquid gradient falls strictly with pipe diameter on E -/
theorem C04_il_decreasing_in_Dp {vls D1 D2 d eps nu rhol rhos Cv : ℝ} (h1 : InE vls D1 d eps nu rhol rhos Cv) (h2 : InE vls D2 d eps nu rhol rhos Cv)
    (h12 : D1 < D2) : homogeneous.fluid_head_loss vls D2 eps nu rhol < homogeneous.fluid_head_loss vls D1 eps nu rhol :=
  il_strictAnti_Dp h1 h2 h12

/-! ### settling velocities -/

/-- hindered settling is positive, below the free settling velocity and falls with concentration (0 < Cvs < 1) -/
theorem C04_hindered (d Rsd nu K c1 c2 : ℝ) (hd : 0 < d) (hR : 0 < Rsd) (hn : 0 < nu) (h0 : 0 < c1) (h12 : c1 < c2) (h1 : c2 < 1) :
    0 < heterogeneous.vth_RZ d Rsd nu c2 K ∧ heterogeneous.vth_RZ d Rsd nu c1 K < heterogeneous.vt_ruby d Rsd nu 0.26 ∧
    heterogeneous.vth_RZ d Rsd nu c2 K < heterogeneous.vth_RZ d Rsd nu c1 K := by
  have hvt := vt_ruby_pos d Rsd nu 0.26 hd hR hn
  unfold heterogeneous.vth_RZ
  simp only [Transc.rpow, sci_one]
  set vt := heterogeneous.vt_ruby d Rsd nu 0.26
  set Rep := vt * d / nu
  have hRep : 0 < Rep := by positivity
  have hx : 0 < Rep ^ (0.75:ℝ) := Real.rpow_pos_of_pos hRep _
  set beta := (4.7 + 0.41 * Rep ^ (0.75:ℝ)) / (1 + 0.175 * Rep ^ (0.75:ℝ))
  have hb : 0 < beta := by positivity
  have b1 : 0 < 1 - c1 := by linarith
  have b2 : 0 < 1 - c2 := by linarith
  refine ⟨by have := Real.rpow_pos_of_pos b2 beta; positivity, ?_, ?_⟩
  · have : (1 - c1) ^ beta < 1 := Real.rpow_lt_one b1.le (by linarith) hb
    nlinarith
  · have : (1 - c2) ^ beta < (1 - c1) ^ beta := Real.rpow_lt_rpow b2.le (by linarith) hb
    exact mul_lt_mul_of_pos_left this hvt

/-- the free settling velocity rises strictly with grain size and with the relative submerged density -/
theorem C04_settling_increasing (d1 d2 R1 R2 nu : ℝ) (hd : 0 < d1) (hd12 : d1 < d2) (hR : 0 < R1) (hR12 : R1 < R2) (hn : 0 < nu) :
    heterogeneous.vt_ruby d1 R1 nu 0.26 < heterogeneous.vt_ruby d2 R1 nu 0.26 ∧
    heterogeneous.vt_ruby d1 R1 nu 0.26 < heterogeneous.vt_ruby d1 R2 nu 0.26 :=
  ⟨vt_ruby_mono_d d1 d2 R1 nu 0.26 hd hd12 hR hn, vt_ruby_mono_Rsd d1 R1 R2 nu 0.26 hd hn hR.le hR12⟩

/-- the heterogeneous excess gradient falls strictly with line speed on E, for both settings of both correction switches -/
theorem C04_heterogeneous_decreasing {v1 v2 Dp d eps nu rhol rhos Cvs : ℝ} (sf sq : Bool)
    (h1 : InE v1 Dp d eps nu rhol rhos Cvs) (h2 : InE v2 Dp d eps nu rhol rhos Cvs) (h12 : v1 < v2) :
    heterogeneous.Erhg v2 Dp d eps nu rhol rhos Cvs sf sq < heterogeneous.Erhg v1 Dp d eps nu rhol rhos Cvs sf sq :=
  heterogeneous_Erhg_strictAnti sf sq h1 h2 h12

/-- the homogeneous excess gradient lies between zero and the liquid gradient on E below the sliding-flow onset (d < 0.015 Dp) or with the
correction off; above the onset the documented blend (Ho + (f−1) μsf)/f is still non-negative. Uses λ ≤ 8/225 on E (`InE.lambda_le`). -/
theorem C04_homogeneous_bounds {vls Dp d eps nu rhol rhos Cvs : ℝ} (h : InE vls Dp d eps nu rhol rhos Cvs) (sf : Bool) :
    0 ≤ homogeneous.Erhg vls Dp d eps nu rhol rhos Cvs sf ∧
    ((sf = false ∨ d / ((Cst.particle_ratio : ℝ) * Dp) < 1) →
      homogeneous.Erhg vls Dp d eps nu rhol rhos Cvs sf ≤ homogeneous.fluid_head_loss vls Dp eps nu rhol) :=
  h.ho_bounds sf

/-- the selected uniform-sand excess gradient for spatial-concentration input is never negative on E -/
theorem C04_selected_nonneg {vls Dp d eps nu rhol rhos Cvs : ℝ} (h : InE vls Dp d eps nu rhol rhos Cvs) (sf sq : Bool) :
    0 ≤ framework.Cvs_Erhg sf sq vls Dp d eps nu rhol rhos Cvs := by
  rw [C01_value]
  exact le_trans (h.ho_bounds true).1 (le_max_right _ _)

/-! ### no jumps at the branch thresholds -/

/-- at the sliding-flow onset f = d/(0.015 Dp) = 1 both branches of the homogeneous and of the heterogeneous model coincide -/
theorem C04_sliding_flow_onset_continuous (E musf : ℝ) : (E + (1 - 1) * musf) / 1 = E := by ring

theorem C04_homogeneous_branches_meet (vls Dp eps nu rhol rhos Cvs : ℝ) (hD : Dp ≠ 0) :
    homogeneous.Erhg vls Dp ((Cst.particle_ratio : ℝ) * Dp) eps nu rhol rhos Cvs true =
    homogeneous.Erhg vls Dp ((Cst.particle_ratio : ℝ) * Dp) eps nu rhol rhos Cvs false := by
  unfold homogeneous.Erhg
  have hp : (Cst.particle_ratio : ℝ) ≠ 0 := by unfold Cst.particle_ratio; norm_num
  have hf : (Cst.particle_ratio : ℝ) * Dp / ((Cst.particle_ratio : ℝ) * Dp) = 1 := div_self (mul_ne_zero hp hD)
  simp only [hf]
  norm_num

theorem C04_heterogeneous_branches_meet (vls Dp eps nu rhol rhos Cvs : ℝ) (sq : Bool) (hD : Dp ≠ 0) :
    heterogeneous.Erhg vls Dp ((Cst.particle_ratio : ℝ) * Dp) eps nu rhol rhos Cvs true sq =
    heterogeneous.Erhg vls Dp ((Cst.particle_ratio : ℝ) * Dp) eps nu rhol rhos Cvs false sq := by
  unfold heterogeneous.Erhg
  have hp : (Cst.particle_ratio : ℝ) ≠ 0 := by unfold Cst.particle_ratio; norm_num
  have hf : (Cst.particle_ratio : ℝ) * Dp / ((Cst.particle_ratio : ℝ) * Dp) = 1 := div_self (mul_ne_zero hp hD)
  simp only [hf]
  norm_num

/-- the two pieces of the corrected √Cx meet at both breakpoints (Gibert = 1.8 and Gibert = Wilson) -/
theorem C04_sqrtcx_pieces_meet (w : ℝ) :
    (1.8 : ℝ) * ((1.8 : ℝ) / 1.8) ^ (0.75 : ℝ) = 1.8 ∧ w * 0.6 + w * (1 - 0.6) = w := by
  constructor
  · norm_num
  · ring

/-- the selection max(min(min FB SB) He) Ho is 1-Lipschitz in the sup norm of its four inputs: it cannot amplify a change of the regime models -/
theorem C04_selection_lipschitz (a b c d a' b' c' d' : ℝ) :
    |max (min (min a b) c) d - max (min (min a' b') c') d'| ≤ max (max (max |a - a'| |b - b'|) |c - c'|) |d - d'| := by
  have h1 := abs_max_sub_max_le_max (min (min a b) c) d (min (min a' b') c') d'
  have h2 := abs_min_sub_min_le_max (min a b) c (min a' b') c'
  have h3 := abs_min_sub_min_le_max a b a' b'
  refine le_trans h1 (max_le_max (le_trans h2 (max_le_max h3 le_rfl)) le_rfl)

/-- with C01: the reported excess gradient of two slurries differs by at most the largest difference among their four regime values -/
theorem C04_reported_lipschitz (sf sq : Bool) (x y : Fin 8 → ℝ) :
    |framework.Cvs_Erhg sf sq (x 0) (x 1) (x 2) (x 3) (x 4) (x 5) (x 6) (x 7) -
     framework.Cvs_Erhg sf sq (y 0) (y 1) (y 2) (y 3) (y 4) (y 5) (y 6) (y 7)| ≤
    max (max (max
      |stratified.fb_Erhg (x 0) (x 1) (x 2) (x 3) (x 4) (x 5) (x 6) (x 7) - stratified.fb_Erhg (y 0) (y 1) (y 2) (y 3) (y 4) (y 5) (y 6) (y 7)|
      |stratified.Erhg (x 0) (x 1) (x 2) (x 3) (x 4) (x 5) (x 6) (x 7) - stratified.Erhg (y 0) (y 1) (y 2) (y 3) (y 4) (y 5) (y 6) (y 7)|)
      |heterogeneous.Erhg (x 0) (x 1) (x 2) (x 3) (x 4) (x 5) (x 6) (x 7) sf sq - heterogeneous.Erhg (y 0) (y 1) (y 2) (y 3) (y 4) (y 5) (y 6) (y 7) sf sq|)
      |homogeneous.Erhg (x 0) (x 1) (x 2) (x 3) (x 4) (x 5) (x 6) (x 7) true - homogeneous.Erhg (y 0) (y 1) (y 2) (y 3) (y 4) (y 5) (y 6) (y 7) true| := by
  rw [C01_value, C01_value]
  exact C04_selection_lipschitz _ _ _ _ _ _ _ _

/-- the two-piece form of the corrected √Cx, as a function of the Gibert value G and the Wilson value W -/
noncomputable def sqrtcxPieces (G W : ℝ) : ℝ :=
  let G' := if G > 1.8 then 1.8 * (G / 1.8) ^ (0.75 : ℝ) else G
  if G' < W then G' * 0.6 + W * (1 - 0.6) else G'

/-- the generated `sqrtcx` IS that two-piece function of G = 1/Fr^(10/9) and W = 0.226 (g/d)^0.1667 (so `C04_sqrtcx_pieces_meet` is about the code) -/
theorem C04_sqrtcx_is_pieces (vt d : ℝ) :
    heterogeneous.sqrtcx vt d =
      sqrtcxPieces (1 / (vt / ((Cst.gravity : ℝ) * d) ^ (0.5 : ℝ)) ^ ((10 : ℝ) / 9)) (0.226 * ((Cst.gravity : ℝ) / d) ^ (0.1667 : ℝ)) := by
  unfold heterogeneous.sqrtcx sqrtcxPieces
  simp only [Transc.rpow, gt_iff_lt, decide_eq_true_eq, sci_one]
  norm_num
