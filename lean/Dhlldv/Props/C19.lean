import Dhlldv.Real
import Dhlldv.Gen.Stratified
import Dhlldv.Lemmas.Interp
import Dhlldv.Lemmas.InterpMonoInc
import Dhlldv.Lemmas.SegmentArea
import Dhlldv.Lemmas.CanonGeom
import Mathlib.Analysis.Real.Pi.Bounds
import Mathlib.Tactic.Ring
import Mathlib.Tactic.NormNum
import Mathlib.Tactic.Linarith

/-! # C19 — stratified-flow cross-section geometry is consistent with a circular pipe

Identities over the *generated* `stratified.areas` / `stratified.perimeters` at `α := ℝ` for every `Dp`, `Cvs`
(the bed half-angle is whatever the table lookup returns), and facts about the regenerated 33-row table. -/

section
variable (Dp Cvs : ℝ)

/-- bed area + free area = pipe area; bed area = pipe area × Cvs/Cvb; pipe area = π (Dp/2)² -/
theorem C19_areas :
    (stratified.areas Dp Cvs).2.1 + (stratified.areas Dp Cvs).2.2 = (stratified.areas Dp Cvs).1 ∧
    (stratified.areas Dp Cvs).2.2 = (stratified.areas Dp Cvs).1 * (Cvs / (Cst.Cvb : ℝ)) ∧
    (stratified.areas Dp Cvs).1 = Real.pi * (Dp / 2) ^ 2 := by
  obtain ⟨h1, h2, h3⟩ := areas_canon Dp Cvs
  rw [h1, h2, h3]
  exact ⟨by ring, rfl, rfl⟩

/-- wetted perimeters above (O1) and below (O2) the bed sum to the circumference π Dp; bed width O12 = Dp sin β -/
theorem C19_perimeters :
    let P := stratified.perimeters Dp Cvs
    P.2.1 + P.2.2.2 = P.1 ∧ P.1 = Real.pi * Dp ∧ P.2.2.1 = Dp * Real.sin (stratified.beta Cvs) ∧
    P.2.1 = (Real.pi - stratified.beta Cvs) * Dp ∧ P.2.2.2 = stratified.beta Cvs * Dp := by
  obtain ⟨h1, h2, h3, h4⟩ := perimeters_canon Dp Cvs
  intro P
  show (stratified.perimeters Dp Cvs).2.1 + (stratified.perimeters Dp Cvs).2.2.2 = (stratified.perimeters Dp Cvs).1 ∧ _
  rw [h1, h2, h4]
  exact ⟨by ring, rfl, h3, rfl, rfl⟩

/-- the half-angle used is the table lookup at Cvs/Cvb -/
theorem C19_beta_is_lookup : stratified.beta Cvs = InterpTable.at (Tbl.Arel_to_beta : InterpTable ℝ) (Cvs / (Cst.Cvb : ℝ)) := rfl

end

/-- the table runs from (0, 0) to (1, 3.1415927), its keys and its values strictly increase, so by C18 the
tabulated half-angle increases monotonically from 0 to 3.1415927 -/
theorem C19_table_shape :
    (Tbl.Arel_to_beta (α := ℝ)).pts.length = 33 ∧
    (Tbl.Arel_to_beta (α := ℝ)).pts.head? = some (0, 0) ∧
    (Tbl.Arel_to_beta (α := ℝ)).pts.getLast? = some (1, 3.1415927) ∧
    (Tbl.Arel_to_beta (α := ℝ)).pts.Pairwise (fun p q => p.1 < q.1 ∧ p.2 < q.2) := by
  refine ⟨rfl, ?_, ?_, ?_⟩
  · simp only [Tbl.Arel_to_beta, List.head?_cons]; norm_num
  · simp only [Tbl.Arel_to_beta, List.getLast?_cons_cons, List.getLast?_singleton]; norm_num
  · simp only [Tbl.Arel_to_beta, List.pairwise_cons, List.mem_cons, List.not_mem_nil, or_false,
      forall_eq_or_imp, forall_eq, List.Pairwise.nil, and_true, IsEmpty.forall_iff, implies_true]
    norm_num

/-- the last tabulated angle is π to within 1e-7 -/
theorem C19_last_is_pi : |(3.1415927 : ℝ) - Real.pi| < 1e-7 := by
  have h1 := Real.pi_gt_d20
  have h2 := Real.pi_lt_d20
  rw [abs_lt]; constructor <;> norm_num <;> linarith

/-- the exact circular-segment area fraction is (β − sin β cos β)/π; at the table's ends it is 0 and 1 -/
theorem C19_segment_ends :
    ((0 : ℝ) - Real.sin 0 * Real.cos 0) / Real.pi = 0 ∧ (Real.pi - Real.sin Real.pi * Real.cos Real.pi) / Real.pi = 1 := by
  constructor
  · simp
  · simp [Real.pi_ne_zero]


/-- the regenerated table satisfies the monotone-table predicate (keys and half-angles strictly increasing row by row) -/
theorem C19_table_inc : ∃ p q rest, (Tbl.Arel_to_beta (α := ℝ)).pts = p :: q :: rest ∧ Interp.Inc p (q :: rest) ∧
    p = (0, 0) ∧ Interp.lastPt p (q :: rest) = (1, 3.1415927) := by
  refine ⟨_, _, _, rfl, ?_, ?_, ?_⟩
  · simp only [Interp.Inc]; norm_num
  · ext <;> norm_num
  · simp only [Interp.lastPt]; ext <;> norm_num

/-- the bed half-angle the code uses increases STRICTLY with the bed concentration over the whole range 0 ≤ Cvs ≤ Cvb (every pair of concentrations,
not only table nodes), and stays within [0, 3.1415927] -/
theorem C19_beta_strictMono (c1 c2 : ℝ) (h0 : 0 ≤ c1) (h12 : c1 < c2) (h1 : c2 ≤ 0.6) :
    stratified.beta c1 < stratified.beta c2 ∧ 0 ≤ stratified.beta c1 ∧ stratified.beta c2 ≤ 3.1415927 := by
  obtain ⟨p, q, rest, ht, hinc, hp, hl⟩ := C19_table_inc
  have hb : (Cst.Cvb : ℝ) = 0.6 := rfl
  have x0 : p.1 ≤ c1 / (Cst.Cvb : ℝ) := by rw [hp, hb]; exact div_nonneg h0 (by norm_num)
  have xy : c1 / (Cst.Cvb : ℝ) < c2 / (Cst.Cvb : ℝ) := by rw [hb]; exact div_lt_div_of_pos_right h12 (by norm_num)
  have y1 : c2 / (Cst.Cvb : ℝ) ≤ (Interp.lastPt p (q :: rest)).1 := by
    rw [hl, hb]; show c2 / 0.6 ≤ 1; rw [div_le_one (by norm_num)]; exact h1
  obtain ⟨vx, vy, ex, ey, hlt⟩ := Interp.lookup_strictMono _ p q rest ht hinc _ _ x0 xy y1
  obtain ⟨v1, e1, lo1, _⟩ := Interp.lookup_range_inc _ p q rest ht hinc _ x0 (le_trans xy.le y1)
  obtain ⟨v2, e2, _, hi2⟩ := Interp.lookup_range_inc _ p q rest ht hinc _ (le_trans x0 xy.le) y1
  rw [C19_beta_is_lookup, C19_beta_is_lookup]
  unfold InterpTable.at
  rw [ex, ey]
  rw [ex] at e1; rw [ey] at e2
  simp only [Option.some.injEq] at e1 e2
  subst e1; subst e2
  refine ⟨hlt, ?_, ?_⟩
  · rw [hp] at lo1; exact lo1
  · rw [hl] at hi2; exact hi2


/-! ## Accuracy of the tabulated half-angle against the exact circular segment — as theorems

`SegArea.segF β = (β − sin β cos β)/π`. At the 33 nodes `sin 2β` is enclosed by 14 terms of its series (`SinEncl.sin_encl`, error ≤ 2(2β)²⁸/28! < 2e-7)
and π by `3.141592 < π < 3.141593`; what is left per node are four inequalities between rationals. Between nodes the chord-error bound
`(Δβ)²/(4π)` of `Lemmas/SegmentArea` applies to every real argument (the property names a 1e-5 grid; the theorem covers the continuum). -/

open SinEncl in
set_option maxRecDepth 8000 in
/-- node clause: every row (A, β) of the regenerated table satisfies |A − (β − sin β cos β)/π| < 1e-5 -/
theorem C19_node_accuracy :
    ∀ p ∈ (Tbl.Arel_to_beta (α := ℝ)).pts, |p.1 - (p.2 - Real.sin p.2 * Real.cos p.2) / Real.pi| < 1e-5 := by
  simp only [Tbl.Arel_to_beta, List.mem_cons, List.not_mem_nil, or_false, forall_eq_or_imp, forall_eq]
  and_intros
  all_goals
    refine node_ok _ _ _ _ _ (sin_encl 14 _ ?_ ?_) ?_ ?_ ?_ ?_ <;>
      norm_num [sinPoly, Finset.sum_range_succ, Nat.factorial]

/-- the regenerated table meets the node predicate of `Lemmas/SegmentArea`: every node within 1e-5, neighbouring half-angles at most 0.2792527 apart -/
theorem C19_table_nodesOK : ∃ p q rest, (Tbl.Arel_to_beta (α := ℝ)).pts = p :: q :: rest ∧
    Interp.NodesOK SegArea.segF 1e-5 0.2792527 p (q :: rest) := by
  refine ⟨_, _, _, rfl, ?_⟩
  have hn : ∀ a b : ℝ, (a, b) ∈ (Tbl.Arel_to_beta (α := ℝ)).pts → |a - SegArea.segF b| ≤ 1e-5 :=
    fun a b h => (C19_node_accuracy (a, b) h).le
  simp only [Interp.NodesOK]
  and_intros
  all_goals first
    | (apply hn; simp [Tbl.Arel_to_beta])
    | norm_num

/-- between-nodes clause, for EVERY real area fraction x in [0, 1] (not only a grid): the table lookup is defined and the half-angle it returns
reproduces x within 0.0075 -/
theorem C19_between_nodes (x : ℝ) (h0 : 0 ≤ x) (h1 : x ≤ 1) :
    ∃ b, (Tbl.Arel_to_beta (α := ℝ)).lookup x = some b ∧ |x - (b - Real.sin b * Real.cos b) / Real.pi| < 0.0075 := by
  obtain ⟨p, q, rest, ht, hinc, hp, hl⟩ := C19_table_inc
  obtain ⟨p', q', rest', ht', hok⟩ := C19_table_nodesOK
  rw [ht] at ht'
  obtain ⟨rfl, rfl, rfl⟩ : p = p' ∧ q = q' ∧ rest = rest' := by
    simp only [List.cons.injEq] at ht'; exact ⟨ht'.1, ht'.2.1, ht'.2.2⟩
  have x0 : p.1 ≤ x := by rw [hp]; exact h0
  have x1 : x ≤ (Interp.lastPt p (q :: rest)).1 := by rw [hl]; exact h1
  obtain ⟨b, hF, hb⟩ := Interp.F_area 1e-5 0.2792527 (q :: rest) p x hinc hok x0 x1
  refine ⟨b, by rw [Interp.lookup_eq_F_inc _ p q rest ht hinc x x0 x1]; exact hF, ?_⟩
  have hpi := Real.pi_gt_d6
  have hw : (0.2792527 : ℝ) ^ 2 / (4 * Real.pi) < 0.00621 := by
    rw [div_lt_iff₀ (by positivity)]; norm_num; linarith
  have : |x - SegArea.segF b| < 0.0075 := by
    refine lt_of_le_of_lt hb ?_
    norm_num at hw ⊢; linarith
  exact this

/-- the same for the half-angle the code uses: for every bed concentration 0 ≤ Cvs ≤ Cvb, `stratified.beta Cvs` reproduces Cvs/Cvb within 0.0075 -/
theorem C19_beta_reproduces_area (c : ℝ) (h0 : 0 ≤ c) (h1 : c ≤ 0.6) :
    |c / (Cst.Cvb : ℝ) - (stratified.beta c - Real.sin (stratified.beta c) * Real.cos (stratified.beta c)) / Real.pi| < 0.0075 := by
  have hb : (Cst.Cvb : ℝ) = 0.6 := rfl
  have x0 : 0 ≤ c / (Cst.Cvb : ℝ) := by rw [hb]; exact div_nonneg h0 (by norm_num)
  have x1 : c / (Cst.Cvb : ℝ) ≤ 1 := by rw [hb, div_le_one (by norm_num)]; exact h1
  obtain ⟨b, e, hb'⟩ := C19_between_nodes _ x0 x1
  rw [C19_beta_is_lookup]
  unfold InterpTable.at
  rw [e]
  exact hb'
