import Dhlldv.Real
import Dhlldv.Gen.Stratified
import Dhlldv.Lemmas.Interp
import Dhlldv.Lemmas.InterpMonoInc
import Mathlib.Analysis.Real.Pi.Bounds
import Mathlib.Tactic.Ring
import Mathlib.Tactic.NormNum
import Mathlib.Tactic.Linarith

/-! # C19 — stratified-flow cross-section geometry is consistent with a circular pipe

Identities over the *generated* `stratified.areas` / `stratified.perimeters` at `α := ℝ` for every `Dp`, `Cvs`
(the bed half-angle is whatever the table lookup returns), and facts about the regenerated 33-row table. -/

section
variable (Dp Cvs : ℝ)

/-- bed area + free area = pipe area; bed area = pipe area × Cvs/Cvb; pipe area = π (Dp/2)² -/
theorem C19_areas :
    (stratified.areas Dp Cvs).2.1 + (stratified.areas Dp Cvs).2.2 = (stratified.areas Dp Cvs).1 ∧
    (stratified.areas Dp Cvs).2.2 = (stratified.areas Dp Cvs).1 * (Cvs / (Cst.Cvb : ℝ)) ∧
    (stratified.areas Dp Cvs).1 = Real.pi * (Dp / 2) ^ 2 := by
  have h2 : (2.0 : ℝ) = 2 := by norm_num
  simp only [stratified.areas, Transc.pi, Transc.npow, h2]
  refine ⟨by ring, trivial, trivial⟩

/-- wetted perimeters above (O1) and below (O2) the bed sum to the circumference π Dp; bed width O12 = Dp sin β -/
theorem C19_perimeters :
    let P := stratified.perimeters Dp Cvs
    P.2.1 + P.2.2.2 = P.1 ∧ P.1 = Real.pi * Dp ∧ P.2.2.1 = Dp * Real.sin (stratified.beta Cvs) ∧
    P.2.1 = (Real.pi - stratified.beta Cvs) * Dp ∧ P.2.2.2 = stratified.beta Cvs * Dp := by
  simp only [stratified.perimeters, Transc.pi, Transc.sin]
  refine ⟨by ring, trivial, trivial, trivial, by ring⟩

/-- the half-angle used is the table lookup at Cvs/Cvb -/
theorem C19_beta_is_lookup : stratified.beta Cvs = InterpTable.at (Tbl.Arel_to_beta : InterpTable ℝ) (Cvs / (Cst.Cvb : ℝ)) := rfl

end

/-- the table runs from (0, 0) to (1, 3.1415927), its keys and its values strictly increase, so by C18 the
tabulated half-angle increases monotonically from 0 to 3.1415927 -/
theorem C19_table_shape :
    (Tbl.Arel_to_beta (α := ℝ)).pts.length = 33 ∧
    (Tbl.Arel_to_beta (α := ℝ)).pts.head? = some (0, 0) ∧
    (Tbl.Arel_to_beta (α := ℝ)).pts.getLast? = some (1, 3.1415927) ∧
    (Tbl.Arel_to_beta (α := ℝ)).pts.Pairwise (fun p q => p.1 < q.1 ∧ p.2 < q.2) := by
  refine ⟨rfl, ?_, ?_, ?_⟩
  · simp only [Tbl.Arel_to_beta, List.head?_cons]; norm_num
  · simp only [Tbl.Arel_to_beta, List.getLast?_cons_cons, List.getLast?_singleton]; norm_num
  · simp only [Tbl.Arel_to_beta, List.pairwise_cons, List.mem_cons, List.not_mem_nil, or_false,
      forall_eq_or_imp, forall_eq, List.Pairwise.nil, and_true, IsEmpty.forall_iff, implies_true]
    norm_num

/-- the last tabulated angle is π to within 1e-7 -/
theorem C19_last_is_pi : |(3.1415927 : ℝ) - Real.pi| < 1e-7 := by
  have h1 := Real.pi_gt_d20
  have h2 := Real.pi_lt_d20
  rw [abs_lt]; constructor <;> norm_num <;> linarith

/-- the exact circular-segment area fraction is (β − sin β cos β)/π; at the table's ends it is 0 and 1 -/
theorem C19_segment_ends :
    ((0 : ℝ) - Real.sin 0 * Real.cos 0) / Real.pi = 0 ∧ (Real.pi - Real.sin Real.pi * Real.cos Real.pi) / Real.pi = 1 := by
  constructor
  · simp
  · simp [Real.pi_ne_zero]


/-- the regenerated table satisfies the monotone-table predicate (keys and half-angles strictly increasing row by row) -/
theorem C19_table_inc : ∃ p q rest, (Tbl.Arel_to_beta (α := ℝ)).pts = p :: q :: rest ∧ Interp.Inc p (q :: rest) ∧
    p = (0, 0) ∧ Interp.lastPt p (q :: rest) = (1, 3.1415927) := by
  refine ⟨_, _, _, rfl, ?_, ?_, ?_⟩
  · simp only [Interp.Inc]; norm_num
  · ext <;> norm_num
  · simp only [Interp.lastPt]; ext <;> norm_num

/-- the bed half-angle the code uses increases STRICTLY with the bed concentration over the whole range 0 ≤ Cvs ≤ Cvb (every pair of concentrations,
not only table nodes), and stays within [0, 3.1415927] -/
theorem C19_beta_strictMono (c1 c2 : ℝ) (h0 : 0 ≤ c1) (h12 : c1 < c2) (h1 : c2 ≤ 0.6) :
    stratified.beta c1 < stratified.beta c2 ∧ 0 ≤ stratified.beta c1 ∧ stratified.beta c2 ≤ 3.1415927 := by
  obtain ⟨p, q, rest, ht, hinc, hp, hl⟩ := C19_table_inc
  have hb : (Cst.Cvb : ℝ) = 0.6 := rfl
  have x0 : p.1 ≤ c1 / (Cst.Cvb : ℝ) := by rw [hp, hb]; exact div_nonneg h0 (by norm_num)
  have xy : c1 / (Cst.Cvb : ℝ) < c2 / (Cst.Cvb : ℝ) := by rw [hb]; exact div_lt_div_of_pos_right h12 (by norm_num)
  have y1 : c2 / (Cst.Cvb : ℝ) ≤ (Interp.lastPt p (q :: rest)).1 := by
    rw [hl, hb]; show c2 / 0.6 ≤ 1; rw [div_le_one (by norm_num)]; exact h1
  obtain ⟨vx, vy, ex, ey, hlt⟩ := Interp.lookup_strictMono _ p q rest ht hinc _ _ x0 xy y1
  obtain ⟨v1, e1, lo1, _⟩ := Interp.lookup_range_inc _ p q rest ht hinc _ x0 (le_trans xy.le y1)
  obtain ⟨v2, e2, _, hi2⟩ := Interp.lookup_range_inc _ p q rest ht hinc _ (le_trans x0 xy.le) y1
  rw [C19_beta_is_lookup, C19_beta_is_lookup]
  unfold InterpTable.at
  rw [ex, ey]
  rw [ex] at e1; rw [ey] at e2
  simp only [Option.some.injEq] at e1 e2
  subst e1; subst e2
  refine ⟨hlt, ?_, ?_⟩
  · rw [hp] at lo1; exact lo1
  · rw [hl] at hi2; exact hi2
