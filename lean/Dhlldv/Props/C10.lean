import Dhlldv.Lemmas.Basic
import Dhlldv.Spec.OpPoint
import Mathlib.Tactic.FieldSimp
import Mathlib.Tactic.Ring
import Mathlib.Tactic.SplitIfs

/-! # C10 — the operating-point search: decision logic and what a converged secant guarantees
Theorems over `Spec.OpPoint` (model of `find_operating_point` with scipy's scalar secant re-implemented from its source and
validated against scipy's own evaluation trace on every generated system). -/

open Spec.OpPoint

section
variable (heads : ℝ → ℝ × ℝ)

/-- pump head below system head at the minimum-friction flow ⇒ OperatingPointError -/
theorem C10_infeasible (s p qimin qlast : ℝ) (b : Outcome ℝ) (h : s > p) :
    (match findOp heads s p qimin qlast b with | .operatingPointError => True | .flow _ => False) := by
  unfold findOp; rw [if_pos h]; trivial

theorem headsOk_iff (r : ℝ) : headsOk heads r = true ↔
    |(heads r).1 - (heads r).2| ≤ 1e-6 * max (max |(heads r).1| |(heads r).2|) 1 := by
  simp only [headsOk, Transc.abs, pyMax_eq_max, sci_one, decide_eq_true_eq]

theorem fallback_shape (qlast : ℝ) (b : Outcome ℝ) :
    (match fallback heads qlast b with
     | .operatingPointError => True
     | .flow r => |(heads r).1 - (heads r).2| ≤ 1e-6 * max (max |(heads r).1| |(heads r).2|) 1 ∧
         b = Outcome.converged r ∧ (heads qlast).1 - (heads qlast).2 > 0) := by
  unfold fallback
  by_cases hg : (heads qlast).1 - (heads qlast).2 > 0.0
  · rw [if_pos hg]
    cases b with
    | converged r' =>
      simp only
      by_cases hr' : headsOk heads r' = true
      · rw [if_pos hr']; exact ⟨(headsOk_iff heads r').1 hr', rfl, by simpa [sci_zero] using hg⟩
      · rw [if_neg hr']; trivial
    | notConverged l => trivial
  · rw [if_neg hg]; trivial

/-- in every case the result is OperatingPointError, or a flow r at which system and pump head agree within 1e-6 relative, and r is either the root
of a CONVERGED secant run on the head gap started at qimin and the midpoint, or (only when that did not deliver and the system curve is above the
pump curve at the largest flow) the converged outcome of the bracketing solver -/
theorem C10_shape (s p qimin qlast : ℝ) (b : Outcome ℝ) :
    (match findOp heads s p qimin qlast b with
     | .operatingPointError => True
     | .flow r => ¬ s > p ∧ |(heads r).1 - (heads r).2| ≤ 1e-6 * max (max |(heads r).1| |(heads r).2|) 1 ∧
        (secant (fun q => (heads q).1 - (heads q).2) 1.48e-8 50 qimin ((qimin + qlast) / 2.0) = Outcome.converged r ∨
         (b = Outcome.converged r ∧ (heads qlast).1 - (heads qlast).2 > 0))) := by
  have fb := fallback_shape heads qlast b
  unfold findOp firstAttempt
  by_cases h : s > p
  · rw [if_pos h]; trivial
  · rw [if_neg h]
    cases hs : secant (fun q => (heads q).1 - (heads q).2) (1.48e-8) 50 qimin ((qimin + qlast) / 2.0) with
    | converged r =>
      simp only
      by_cases hr : headsOk heads r = true
      · rw [if_pos hr]; exact ⟨h, (headsOk_iff heads r).1 hr, Or.inl rfl⟩
      · rw [if_neg hr]; simp only
        cases hf : fallback heads qlast b with
        | operatingPointError => trivial
        | flow r' => rw [hf] at fb; exact ⟨h, fb.1, Or.inr fb.2⟩
    | notConverged l =>
      simp only
      cases hf : fallback heads qlast b with
      | operatingPointError => trivial
      | flow r' => rw [hf] at fb; exact ⟨h, fb.1, Or.inr fb.2⟩

/-- the bracketing outcome matters exactly when `consultsBracket` says the solver is called: otherwise the result does not depend on it -/
theorem C10_bracket_irrelevant (s p qimin qlast : ℝ) (b b' : Outcome ℝ) (h : consultsBracket heads s p qimin qlast = false) :
    findOp heads s p qimin qlast b = findOp heads s p qimin qlast b' := by
  unfold consultsBracket at h
  unfold findOp
  by_cases hsp : s > p
  · rw [if_pos hsp, if_pos hsp]
  · rw [if_neg hsp] at h
    rw [if_neg hsp, if_neg hsp]
    cases hf : firstAttempt heads qimin qlast with
    | some r => rfl
    | none =>
      rw [hf] at h
      simp only [decide_eq_false_iff_not] at h
      unfold fallback
      rw [if_neg h, if_neg h]

/-- the bracketing solver is consulted only after the secant failed: when the secant converges to a flow that passes the heads test, that flow is returned
whatever the bracketing outcome would be -/
theorem C10_secant_first (s p qimin qlast r : ℝ) (b : Outcome ℝ) (h : ¬ s > p)
    (hs : secant (fun q => (heads q).1 - (heads q).2) 1.48e-8 50 qimin ((qimin + qlast) / 2.0) = Outcome.converged r)
    (hr : |(heads r).1 - (heads r).2| ≤ 1e-6 * max (max |(heads r).1| |(heads r).2|) 1) :
    findOp heads s p qimin qlast b = .flow r := by
  unfold findOp firstAttempt
  rw [if_neg h, hs]
  simp only
  rw [if_pos ((headsOk_iff heads r).2 hr)]

end

section
variable (gap : ℝ → ℝ)

/-- both forms of the update are the secant formula p₁ − q₁ (p₁ − p₀)/(q₁ − q₀) -/
theorem secantStep_eq (p0 q0 p1 q1 : ℝ) (hq : q1 ≠ q0) (h0 : q0 ≠ 0 ∨ |q1| > |q0|) (h1 : q1 ≠ 0 ∨ ¬ |q1| > |q0|) :
    secantStep p0 q0 p1 q1 = p1 - q1 * (p1 - p0) / (q1 - q0) := by
  unfold secantStep
  simp only [Transc.abs, sci_one]
  have hd : q1 - q0 ≠ 0 := sub_ne_zero.2 hq
  split_ifs with h
  · have hq1 : q1 ≠ 0 := by
      rcases h1 with h1 | h1
      · exact h1
      · exact absurd h h1
    have : 1 - q0 / q1 ≠ 0 := by
      intro e; apply hq; field_simp at e; linarith
    field_simp
    ring
  · have hq0 : q0 ≠ 0 := by
      rcases h0 with h0 | h0
      · exact h0
      · exact absurd h0 h
    have : 1 - q1 / q0 ≠ 0 := by
      intro e; apply hq; field_simp at e; linarith
    field_simp
    ring

/-- a secant step accepted by the stopping test bounds the head gap at the last evaluated flow: |q₁| ≤ tol · |(q₁ − q₀)/(p₁ − p₀)|
(tolerance × secant slope) -/
theorem C10_residual (p0 q0 p1 q1 tol : ℝ) (hq : q1 ≠ q0) (hp : p1 ≠ p0) (h0 : q0 ≠ 0 ∨ |q1| > |q0|) (h1 : q1 ≠ 0 ∨ ¬ |q1| > |q0|)
    (hstop : |secantStep p0 q0 p1 q1 - p1| ≤ tol) :
    |q1| ≤ tol * |(q1 - q0) / (p1 - p0)| := by
  rw [secantStep_eq p0 q0 p1 q1 hq h0 h1] at hstop
  have hd : q1 - q0 ≠ 0 := sub_ne_zero.2 hq
  have hdp : p1 - p0 ≠ 0 := sub_ne_zero.2 hp
  have e : p1 - q1 * (p1 - p0) / (q1 - q0) - p1 = -(q1 * ((p1 - p0) / (q1 - q0))) := by ring
  rw [e, abs_neg, abs_mul] at hstop
  have hpos : 0 < |(q1 - q0) / (p1 - p0)| := abs_pos.2 (div_ne_zero hd hdp)
  have hinv : |(p1 - p0) / (q1 - q0)| * |(q1 - q0) / (p1 - p0)| = 1 := by
    rw [← abs_mul]; field_simp; simp
  calc |q1| = |q1| * (|(p1 - p0) / (q1 - q0)| * |(q1 - q0) / (p1 - p0)|) := by rw [hinv, mul_one]
    _ = (|q1| * |(p1 - p0) / (q1 - q0)|) * |(q1 - q0) / (p1 - p0)| := by ring
    _ ≤ tol * |(q1 - q0) / (p1 - p0)| := mul_le_mul_of_nonneg_right hstop hpos.le

/-- whenever the loop reports convergence, the accepted step satisfied the stopping test (so `C10_residual` applies to its last two iterates) -/
theorem C10_converged_means_stop (tol : ℝ) : ∀ (k : Nat) (p0 q0 p1 q1 r : ℝ),
    secantLoop gap tol k p0 q0 p1 q1 = Outcome.converged r →
    ∃ a qa b qb, qb ≠ qa ∧ r = secantStep a qa b qb ∧ |r - b| ≤ tol := by
  intro k
  induction k with
  | zero => intro p0 q0 p1 q1 r h; simp [secantLoop] at h
  | succ n ih =>
    intro p0 q0 p1 q1 r h
    unfold secantLoop at h
    by_cases he : feq q1 q0 = true
    · rw [if_pos he] at h; exact absurd h (by simp)
    · rw [if_neg he] at h
      simp only at h
      by_cases hs : Transc.abs (secantStep p0 q0 p1 q1 - p1) ≤ tol
      · rw [if_pos hs] at h
        simp only [Outcome.converged.injEq] at h
        subst h
        refine ⟨p0, q0, p1, q1, ?_, rfl, hs⟩
        intro e; rw [e] at he; exact he ((feq_iff_eq _ _).2 rfl)
      · rw [if_neg hs] at h
        exact ih _ _ _ _ _ h

end
