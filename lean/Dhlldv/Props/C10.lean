import Dhlldv.Lemmas.Basic
import Dhlldv.Spec.OpPoint
import Mathlib.Tactic.FieldSimp
import Mathlib.Tactic.Ring
import Mathlib.Tactic.SplitIfs

/-! # C10 — the operating-point search: decision logic and what a converged secant guarantees
Theorems over `Spec.OpPoint` (model of `find_operating_point` with scipy's scalar secant re-implemented from its source and
validated against scipy's own evaluation trace on every generated system). -/

open Spec.OpPoint

section
variable (heads : ℝ → ℝ × ℝ)

/-- pump head below system head at the minimum-friction flow ⇒ OperatingPointError -/
theorem C10_infeasible (s p qimin qlast : ℝ) (h : s > p) :
    (match findOp heads s p qimin qlast with | .operatingPointError => True | .flow _ => False) := by
  unfold findOp; simp only; rw [if_pos h]; trivial

/-- in every case the result is OperatingPointError, or a flow r that is the root of a CONVERGED secant run on the head gap started at qimin and
the midpoint AND at which system and pump head agree within 1e-6 relative -/
theorem C10_shape (s p qimin qlast : ℝ) :
    (match findOp heads s p qimin qlast with
     | .operatingPointError => True
     | .flow r => secant (fun q => (heads q).1 - (heads q).2) 1.48e-8 50 qimin ((qimin + qlast) / 2.0) = Outcome.converged r ∧ ¬ s > p ∧
        |(heads r).1 - (heads r).2| ≤ 1e-6 * max (max |(heads r).1| |(heads r).2|) 1) := by
  unfold findOp
  simp only
  split_ifs with h
  · trivial
  · cases hs : secant (fun q => (heads q).1 - (heads q).2) (1.48e-8) 50 qimin ((qimin + qlast) / 2.0) with
    | converged r =>
      simp only [Transc.abs, pyMax_eq_max, sci_one]
      split_ifs with hr
      · exact ⟨rfl, h, hr⟩
      · trivial
    | notConverged l => trivial

end

section
variable (gap : ℝ → ℝ)

/-- both forms of the update are the secant formula p₁ − q₁ (p₁ − p₀)/(q₁ − q₀) -/
theorem secantStep_eq (p0 q0 p1 q1 : ℝ) (hq : q1 ≠ q0) (h0 : q0 ≠ 0 ∨ |q1| > |q0|) (h1 : q1 ≠ 0 ∨ ¬ |q1| > |q0|) :
    secantStep p0 q0 p1 q1 = p1 - q1 * (p1 - p0) / (q1 - q0) := by
  unfold secantStep
  simp only [Transc.abs, sci_one]
  have hd : q1 - q0 ≠ 0 := sub_ne_zero.2 hq
  split_ifs with h
  · have hq1 : q1 ≠ 0 := by
      rcases h1 with h1 | h1
      · exact h1
      · exact absurd h h1
    have : 1 - q0 / q1 ≠ 0 := by
      intro e; apply hq; field_simp at e; linarith
    field_simp
    ring
  · have hq0 : q0 ≠ 0 := by
      rcases h0 with h0 | h0
      · exact h0
      · exact absurd h0 h
    have : 1 - q1 / q0 ≠ 0 := by
      intro e; apply hq; field_simp at e; linarith
    field_simp
    ring

/-- a secant step accepted by the stopping test bounds the head gap at the last evaluated flow: |q₁| ≤ tol · |(q₁ − q₀)/(p₁ − p₀)|
(tolerance × secant slope) -/
theorem C10_residual (p0 q0 p1 q1 tol : ℝ) (hq : q1 ≠ q0) (hp : p1 ≠ p0) (h0 : q0 ≠ 0 ∨ |q1| > |q0|) (h1 : q1 ≠ 0 ∨ ¬ |q1| > |q0|)
    (hstop : |secantStep p0 q0 p1 q1 - p1| ≤ tol) :
    |q1| ≤ tol * |(q1 - q0) / (p1 - p0)| := by
  rw [secantStep_eq p0 q0 p1 q1 hq h0 h1] at hstop
  have hd : q1 - q0 ≠ 0 := sub_ne_zero.2 hq
  have hdp : p1 - p0 ≠ 0 := sub_ne_zero.2 hp
  have e : p1 - q1 * (p1 - p0) / (q1 - q0) - p1 = -(q1 * ((p1 - p0) / (q1 - q0))) := by ring
  rw [e, abs_neg, abs_mul] at hstop
  have hpos : 0 < |(q1 - q0) / (p1 - p0)| := abs_pos.2 (div_ne_zero hd hdp)
  have hinv : |(p1 - p0) / (q1 - q0)| * |(q1 - q0) / (p1 - p0)| = 1 := by
    rw [← abs_mul]; field_simp; simp
  calc |q1| = |q1| * (|(p1 - p0) / (q1 - q0)| * |(q1 - q0) / (p1 - p0)|) := by rw [hinv, mul_one]
    _ = (|q1| * |(p1 - p0) / (q1 - q0)|) * |(q1 - q0) / (p1 - p0)| := by ring
    _ ≤ tol * |(q1 - q0) / (p1 - p0)| := mul_le_mul_of_nonneg_right hstop hpos.le

/-- whenever the loop reports convergence, the accepted step satisfied the stopping test (so `C10_residual` applies to its last two iterates) -/
theorem C10_converged_means_stop (tol : ℝ) : ∀ (k : Nat) (p0 q0 p1 q1 r : ℝ),
    secantLoop gap tol k p0 q0 p1 q1 = Outcome.converged r →
    ∃ a qa b qb, qb ≠ qa ∧ r = secantStep a qa b qb ∧ |r - b| ≤ tol := by
  intro k
  induction k with
  | zero => intro p0 q0 p1 q1 r h; simp [secantLoop] at h
  | succ n ih =>
    intro p0 q0 p1 q1 r h
    unfold secantLoop at h
    by_cases he : feq q1 q0 = true
    · rw [if_pos he] at h; exact absurd h (by simp)
    · rw [if_neg he] at h
      simp only at h
      by_cases hs : Transc.abs (secantStep p0 q0 p1 q1 - p1) ≤ tol
      · rw [if_pos hs] at h
        simp only [Outcome.converged.injEq] at h
        subst h
        refine ⟨p0, q0, p1, q1, ?_, rfl, hs⟩
        intro e; rw [e] at he; exact he ((feq_iff_eq _ _).2 rfl)
      · rw [if_neg hs] at h
        exact ih _ _ _ _ _ h

end
