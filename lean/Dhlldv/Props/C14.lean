import Dhlldv.Lemmas.Basic
import Dhlldv.Spec.Pipeline
import Dhlldv.Props.C09
import Mathlib.Data.List.Infix

/-! # C14 — the pressure grade line matches the pipeline and is computed without side effects
Theorems over `Spec.Pipe.gradeLine` (literal model of the pop-and-reverse loop of `hydraulic_gradient`). -/

open Spec.Pipe

/-- the proper non-empty prefixes of a section list, longest first (what the loop visits) -/
def properPrefixesDesc {β : Type} (l : List β) : List (List β) := l.inits.tail.dropLast.reverse

theorem properPrefixesDesc_snoc {β : Type} (init : List β) (x : β) (h : init ≠ []) :
    properPrefixesDesc (init ++ [x]) = init :: properPrefixesDesc init := by
  unfold properPrefixesDesc
  rw [List.inits_append]
  simp only [List.inits, List.tail_cons, List.map_cons, List.map_nil]
  have hne : init.inits ≠ [] := by
    intro h0; have := List.length_inits init; rw [h0] at this; simp at this
  have hlen : 2 ≤ init.inits.length := by
    rw [List.length_inits]
    cases init with
    | nil => exact absurd rfl h
    | cons a t => simp
  have htail : (init.inits ++ [init ++ [x]]).tail = init.inits.tail ++ [init ++ [x]] := by
    cases hi : init.inits with
    | nil => exact absurd hi hne
    | cons a t => simp
  rw [htail, List.dropLast_concat]
  -- the last non-empty prefix of `init` is `init` itself
  have hlast : init.inits.tail = init.inits.tail.dropLast ++ [init] := by
    have h1 : init.inits.tail ≠ [] := by
      intro h0
      have := congrArg List.length h0
      simp only [List.length_tail, List.length_nil] at this
      omega
    have h2 : init.inits.tail.getLast h1 = init := by
      rw [List.getLast_tail]
      have : init.inits.getLast hne = init := by
        have := List.inits_eq_tails init
        simp [List.getLast_eq_getElem, List.inits_eq_tails]
      exact this
    conv_lhs => rw [← List.dropLast_append_getLast h1, h2]
  conv_lhs => rw [hlast]
  simp

section
variable (rhol : ℝ) (headOf : List (Sec ℝ) → ℝ)

theorem gradeLoop_spec : ∀ (fuel : Nat) (cur : List (Sec ℝ)) (l h e : List ℝ), cur.length ≤ fuel + 1 →
    gradeLoop headOf fuel cur (l, h, e) =
      (l ++ (properPrefixesDesc cur).map (totalOf secLen), h ++ (properPrefixesDesc cur).map headOf,
       e ++ (properPrefixesDesc cur).map (totalOf secLift)) := by
  intro fuel
  induction fuel with
  | zero =>
    intro cur l h e hl
    have : properPrefixesDesc cur = [] := by
      cases cur with
      | nil => rfl
      | cons a t => cases t with
        | nil => rfl
        | cons b t' => simp at hl
    simp [gradeLoop, this]
  | succ n ih =>
    intro cur l h e hl
    rcases List.eq_nil_or_concat cur with rfl | ⟨init, x, rfl⟩
    · simp [gradeLoop, properPrefixesDesc]
    simp only [List.concat_eq_append] at *
    · by_cases hi : init = []
      · subst hi; simp [gradeLoop, properPrefixesDesc]
      · have hlen : (init ++ [x]).length > 1 := by
          cases init with
          | nil => exact absurd rfl hi
          | cons a t => simp
        simp only [gradeLoop, hlen, if_true, List.dropLast_concat]
        rw [ih init _ _ _ (by simp at hl; omega), properPrefixesDesc_snoc init x hi]
        simp

/-- facts about the non-empty prefixes in ascending order -/
theorem prefixes_facts {β : Type} (l : List β) (hne : l ≠ []) :
    l.inits.tail = l.inits.tail.dropLast ++ [l] ∧ l.inits.tail.head? = some (l.take 1) := by
  constructor
  · have hi : l.inits ≠ [] := by
      intro h0; have := List.length_inits l; rw [h0] at this; simp at this
    have h1 : l.inits.tail ≠ [] := by
      intro h0
      have := congrArg List.length h0
      simp only [List.length_tail, List.length_nil, List.length_inits] at this
      cases l with
      | nil => exact absurd rfl hne
      | cons a t => simp at this
    have h2 : l.inits.tail.getLast h1 = l := by
      rw [List.getLast_tail]
      simp [List.getLast_eq_getElem, List.inits_eq_tails]
    conv_lhs => rw [← List.dropLast_append_getLast h1, h2]
  · cases l with
    | nil => exact absurd rfl hne
    | cons a t =>
      rw [List.inits_cons]
      cases t <;> simp [List.inits]

/-- one point per section boundary: the three lists are (0 :: cumulative lengths), (hydrostatic inlet pressure :: pump − system head of each
truncated pipeline), (suction depth :: cumulative lifts), in order of the prefixes of length 1 … n; in particular the last pressure is the
head of the complete pipeline -/
theorem C14_grade_line (secs : List (Sec ℝ)) (hne : secs ≠ []) :
    gradeLine rhol headOf secs =
      ( 0 :: secs.inits.tail.map (totalOf secLen),
        (totalOf secLift (secs.take 1) * rhol * (-1)) :: secs.inits.tail.map headOf,
        totalOf secLift (secs.take 1) :: secs.inits.tail.map (totalOf secLift) ) := by
  obtain ⟨hP, hH⟩ := prefixes_facts secs hne
  unfold gradeLine
  rw [gradeLoop_spec headOf secs.length secs _ _ _ (by omega)]
  have hd : properPrefixesDesc secs = secs.inits.tail.dropLast.reverse := rfl
  generalize secs.inits.tail = P at *
  have hlast : ([totalOf secLift secs] ++ (properPrefixesDesc secs).map (totalOf secLift)).getLast? = some (totalOf secLift (secs.take 1)) := by
    rw [hd]
    have : [totalOf secLift secs] ++ (P.dropLast.reverse).map (totalOf secLift) = (P.map (totalOf secLift)).reverse := by
      conv_rhs => rw [hP]
      simp
    rw [this, List.getLast?_reverse, List.head?_map, hH]
    rfl
  simp only [hlast]
  rw [hd]
  conv_rhs => rw [hP]
  simp [sci_zero, sci_one]

/-- number of points = number of sections + 1, and the last pressure is the head of the whole pipeline -/
theorem C14_shape (secs : List (Sec ℝ)) (hne : secs ≠ []) :
    (gradeLine rhol headOf secs).1.length = secs.length + 1 ∧
    (gradeLine rhol headOf secs).2.1.length = secs.length + 1 ∧
    (gradeLine rhol headOf secs).2.2.length = secs.length + 1 ∧
    (gradeLine rhol headOf secs).2.1.getLast? = some (headOf secs) := by
  rw [C14_grade_line rhol headOf secs hne]
  obtain ⟨hP, _⟩ := prefixes_facts secs hne
  have hl : secs.inits.tail.length = secs.length := by simp [List.length_inits]
  refine ⟨by simp [hl], by simp [hl], by simp [hl], ?_⟩
  simp only
  rw [hP, List.map_append, List.map_singleton, ← List.cons_append, List.getLast?_append]
  simp

end

/-- computing the grade line builds a temporary pipeline around the SAME slurry object: its construction runs `update_slurries`, which
leaves the slurry parameters, its diameter, the per-diameter map and the section list unchanged whenever the slurry's diameter is one of
the pipeline's diameters (the convention every shipped setup follows) -/
theorem C14_no_side_effect (pl : PL) (hup : pl = updateSlurries pl) (hin : (lookupD pl.slurries pl.main.dp).isSome = true) :
    (updateSlurries { pl with slurries := [] }).main = pl.main ∧
    (updateSlurries { pl with slurries := [] }).slurries = pl.slurries := by
  have e : updateSlurries { pl with slurries := [] } = updateSlurries pl := rfl
  rw [e, ← hup]
  exact ⟨rfl, rfl⟩
