import Dhlldv.Lemmas.Basic
import Dhlldv.Lemmas.WilsonMono
import Dhlldv.Lemmas.WilsonPos
import Dhlldv.Gen.WilsonV50
import Mathlib.Tactic.Positivity
import Mathlib.Tactic.FieldSimp

/-! # C20 — Wilson models respect their own maxima, bounds and fixed points
Theorems over the generated `wilson_stratified.*` and `wilson_v50.*` at `α := ℝ`. -/

section stratified
variable (Dp d rhol rhos musf Cv Cvb f : ℝ)

/-- the deposit velocity never exceeds the maximum deposit velocity (any inputs, with or without friction factor) -/
theorem C20_Vsm_le_max :
    wilson_stratified.Vsm Dp d rhol rhos musf Cv Cvb f ≤ wilson_stratified.Vsm_max Dp d rhol rhos musf f := by
  unfold wilson_stratified.Vsm
  simp only [pyMin_eq_min]
  exact min_le_right _ _

/-- the reported location of the maximum is clamped to [0.05, 0.66] -/
theorem C20_Cvr_max_range :
    0.05 ≤ wilson_stratified.Cvr_max Dp d rhol rhos ∧ wilson_stratified.Cvr_max Dp d rhol rhos ≤ 0.66 := by
  unfold wilson_stratified.Cvr_max
  simp only [pyMin_eq_min, pyMax_eq_max]
  constructor
  · apply le_min
    · norm_num
    · exact le_max_left _ _
  · exact min_le_left _ _

/-- the maximum deposit velocity is non-negative for physical inputs (friction factor absent (0) or positive) -/
theorem C20_Vsm_max_nonneg (hDp : 0 < Dp) (hd : 0 < d) (hl : 0 < rhol) (hs : rhol < rhos) (hm : 0 < musf) (hf : 0 ≤ f) :
    0 ≤ wilson_stratified.Vsm_max Dp d rhol rhos musf f := by
  unfold wilson_stratified.Vsm_max
  simp only [Transc.rpow, Transc.npow, pyMin_eq_min]
  have hR : 0 < (rhos - rhol) / rhol := div_pos (sub_pos.2 hs) hl
  have hdm : 0 < d * (1000.0 : ℝ) := by positivity
  have h1 := Real.rpow_nonneg (le_of_lt (by positivity : 0 < musf * ((rhos - rhol) / rhol) / 0.66)) (0.55 : ℝ)
  have h2 := Real.rpow_nonneg hDp.le (0.7 : ℝ)
  have h3 := Real.rpow_nonneg hdm.le (1.75 : ℝ)
  have hq : 0 ≤ (8.8 : ℝ) * (musf * ((rhos - rhol) / rhol) / 0.66) ^ (0.55 : ℝ) * Dp ^ (0.7 : ℝ) * (d * 1000.0) ^ (1.75 : ℝ)
      / ((d * (1000.0 : ℝ)) ^ 2 + 0.11 * Dp ^ (0.7 : ℝ)) := by positivity
  split_ifs
  · apply le_min _ hq
    have hg : (0 : ℝ) ≤ 2.0 * Cst.gravity * Dp * (rhos - rhol) := by
      have : (0:ℝ) < Cst.gravity := by unfold Cst.gravity; norm_num
      have := sub_pos.2 hs
      positivity
    have h4 := Real.rpow_nonneg hg (0.5 : ℝ)
    have h5 := Real.rpow_nonneg (div_nonneg (by norm_num : (0:ℝ) ≤ 0.018) hf) (0.13 : ℝ)
    positivity
  · exact hq

/-- the deposit velocity is non-negative: physical inputs and a relative concentration Cv/Cvb in [0, 1] -/
theorem C20_Vsm_nonneg (hDp : 0 < Dp) (hd : 0 < d) (hl : 0 < rhol) (hs : rhol < rhos) (hm : 0 < musf) (hf : 0 ≤ f)
    (hc0 : 0 ≤ Cv / Cvb) (hc1 : Cv / Cvb ≤ 1) :
    0 ≤ wilson_stratified.Vsm Dp d rhol rhos musf Cv Cvb f := by
  have hmx := C20_Vsm_max_nonneg Dp d rhol rhos musf f hDp hd hl hs hm hf
  have hr := C20_Cvr_max_range Dp d rhol rhos
  unfold wilson_stratified.Vsm
  simp only [pyMin_eq_min, Transc.rpow, Transc.npow, Transc.log, sci_one, sci_two]
  apply le_min _ hmx
  split_ifs with h
  · have := Real.rpow_nonneg hc0 (Real.log 0.333 / Real.log (wilson_stratified.Cvr_max Dp d rhol rhos))
    positivity
  · have hx0 : 0 ≤ 1 - Cv / Cvb := by linarith
    have hx1 : 1 - Cv / Cvb ≤ 1 := by linarith
    have hb : 0 ≤ Real.log 0.666 / Real.log (1 - wilson_stratified.Cvr_max Dp d rhol rhos) := by
      apply div_nonneg_of_nonpos
      · exact (Real.log_neg (by norm_num) (by norm_num)).le
      · exact (Real.log_neg (by linarith [hr.2]) (by linarith [hr.1])).le
    have h1 := Real.rpow_nonneg hx0 (2 * (Real.log 0.666 / Real.log (1 - wilson_stratified.Cvr_max Dp d rhol rhos)))
    have h2 := Real.rpow_le_one hx0 hx1 hb
    have h3 : 0 ≤ 1 - (1 - Cv / Cvb) ^ (Real.log 0.666 / Real.log (1 - wilson_stratified.Cvr_max Dp d rhol rhos)) := by linarith
    positivity

/-- at the relative concentration the model reports as the location of the maximum, the deposit velocity equals the
maximum deposit velocity to within 0.2 % (exactly: 0.99999925 or 0.999996… of it) -/
theorem C20_Vsm_at_reported_max (hCvb : Cvb ≠ 0)
    (hmx : 0 ≤ wilson_stratified.Vsm_max Dp d rhol rhos musf f) :
    let c := wilson_stratified.Cvr_max Dp d rhol rhos
    let V := wilson_stratified.Vsm Dp d rhol rhos musf (c * Cvb) Cvb f
    0.998 * wilson_stratified.Vsm_max Dp d rhol rhos musf f ≤ V ∧ V ≤ wilson_stratified.Vsm_max Dp d rhol rhos musf f := by
  intro c V
  have hr := C20_Cvr_max_range Dp d rhol rhos
  refine ⟨?_, C20_Vsm_le_max Dp d rhol rhos musf (c * Cvb) Cvb f⟩
  show _ ≤ wilson_stratified.Vsm Dp d rhol rhos musf (c * Cvb) Cvb f
  unfold wilson_stratified.Vsm
  simp only [pyMin_eq_min, Transc.rpow, Transc.npow, Transc.log, sci_one, sci_two]
  have hcc : c * Cvb / Cvb = c := by field_simp
  rw [hcc]
  apply le_min _ (by nlinarith)
  split_ifs with h
  · have e : c ^ (Real.log 0.333 / Real.log c) = 0.333 :=
      rpow_log_div_log c 0.333 (by linarith [hr.1]) (by linarith [hr.2]) (by norm_num)
    rw [e]; nlinarith
  · have h1c : 0 < 1 - c := by linarith [hr.2]
    have e : (1 - c) ^ (Real.log 0.666 / Real.log (1 - c)) = 0.666 :=
      rpow_log_div_log (1 - c) 0.666 h1c (by linarith [hr.1]) (by norm_num)
    have e2 : (1 - c) ^ (2 * (Real.log 0.666 / Real.log (1 - c))) = 0.666 ^ 2 := by
      rw [mul_comm, Real.rpow_mul h1c.le, e]; norm_num
    rw [e, e2]; nlinarith

end stratified

section v50
variable (Dp d50 d85 eps nu rhol rhos musf Cvs : ℝ)

/-- the grading exponent stays within [0.25, 1.7] -/
theorem C20_M_bounds : 0.25 ≤ wilson_v50.M Dp d50 d85 nu rhol rhos ∧ wilson_v50.M Dp d50 d85 nu rhol rhos ≤ 1.7 := by
  unfold wilson_v50.M
  simp only [pyMin_eq_min, pyMax_eq_max]
  constructor
  · exact le_max_left _ _
  · apply max_le
    · norm_num
    · exact min_le_left _ _

/-- V50-model excess gradient does not rise with line speed (for a non-negative V50 and sliding-friction coefficient) -/
theorem C20_V50_Erhg_antitone (v1 v2 : ℝ) (hv1 : 0 < v1) (hv : v1 ≤ v2) (hm : 0 ≤ musf)
    (hV : 0 ≤ wilson_v50.V50 1000 Dp d50 d85 eps nu rhol rhos) :
    wilson_v50.Erhg v2 Dp d50 d85 eps nu rhol rhos musf ≤ wilson_v50.Erhg v1 Dp d50 d85 eps nu rhol rhos musf := by
  unfold wilson_v50.Erhg
  simp only [Transc.rpow, sci_two]
  have hM := (C20_M_bounds Dp d50 d85 nu rhol rhos).1
  have hv2 : 0 < v2 := lt_of_lt_of_le hv1 hv
  have hb : wilson_v50.V50 1000 Dp d50 d85 eps nu rhol rhos / v2 ≤ wilson_v50.V50 1000 Dp d50 d85 eps nu rhol rhos / v1 :=
    div_le_div_of_nonneg_left hV hv1 hv
  have := Real.rpow_le_rpow (div_nonneg hV hv2.le) hb (by linarith : (0:ℝ) ≤ wilson_v50.M Dp d50 d85 nu rhol rhos)
  have hm2 : 0 ≤ musf / 2 := by positivity
  exact mul_le_mul_of_nonneg_left this hm2

/-- on E the hypothesis of `C20_V50_Erhg_antitone` holds: V50 is non-negative whatever the friction-factor iteration does, so the V50-model
excess gradient does not rise with line speed for any physical grading -/
theorem C20_V50_Erhg_antitone_on_E (v1 v2 : ℝ) (hv1 : 0 < v1) (hv : v1 ≤ v2) (hm : 0 ≤ musf)
    (hd : 0 < d50) (hn : 0 < nu) (hl : 0 < rhol) (hs : rhol < rhos) :
    wilson_v50.Erhg v2 Dp d50 d85 eps nu rhol rhos musf ≤ wilson_v50.Erhg v1 Dp d50 d85 eps nu rhol rhos musf :=
  C20_V50_Erhg_antitone Dp d50 d85 eps nu rhol rhos musf v1 v2 hv1 hv hm (V50_nonneg 1000 Dp d50 d85 eps nu rhol rhos hd hn hl hs)

/-- both Wilson gradients exceed the water gradient whenever their excess gradient is positive -/
theorem C20_heads_exceed_water (vls d Cv Cvb : ℝ) (hR : rhol < rhos) (hl : 0 < rhol) (hC : 0 < Cv) :
    (0 < wilson_stratified.Erhg vls Dp d eps nu rhol rhos musf Cv Cvb →
      homogeneous.fluid_head_loss vls Dp eps nu rhol < wilson_stratified.stratified_head_loss vls Dp d eps nu rhol rhos musf Cv Cvb) ∧
    (0 < wilson_v50.Erhg vls Dp d50 d85 eps nu rhol rhos musf →
      homogeneous.fluid_head_loss vls Dp eps nu rhol < wilson_v50.heterogeneous_head_loss vls Dp d50 d85 eps nu rhol rhos Cv musf) := by
  have hRsd : 0 < (rhos - rhol) / rhol := div_pos (sub_pos.2 hR) hl
  constructor
  · intro h
    unfold wilson_stratified.stratified_head_loss
    simp only
    have : 0 < (rhos - rhol) / rhol * Cv * wilson_stratified.Erhg vls Dp d eps nu rhol rhos musf Cv Cvb := by positivity
    linarith
  · intro h
    unfold wilson_v50.heterogeneous_head_loss
    simp only
    have : 0 < wilson_v50.Erhg vls Dp d50 d85 eps nu rhol rhos musf * ((rhos - rhol) / rhol) * Cv := by positivity
    linarith

end v50

/-- the Wilson stratified excess gradient does not rise with line speed on E (the friction-limited deposit velocity divided by the line speed
falls because L(v)^0.26 / v does — friction lemma shared with C04) -/
theorem C20_stratified_Erhg_antitone {v1 v2 Dp d eps nu rhol rhos Cv : ℝ} (musf Cvb : ℝ)
    (h1 : InE v1 Dp d eps nu rhol rhos Cv) (h2 : InE v2 Dp d eps nu rhol rhos Cv) (h12 : v1 < v2) (hm : 0 < musf) :
    wilson_stratified.Erhg v2 Dp d eps nu rhol rhos musf Cv Cvb ≤ wilson_stratified.Erhg v1 Dp d eps nu rhol rhos musf Cv Cvb :=
  wilson_stratified_Erhg_antitone musf Cvb h1 h2 h12 hm

/-- the Wilson stratified deposit velocity is STRICTLY positive for physical inputs, a positive friction factor and 0 < Cv/Cvb < 1 -/
theorem C20_Vsm_pos (Dp d rhol rhos musf Cv Cvb f : ℝ) (hDp : 0 < Dp) (hd : 0 < d) (hl : 0 < rhol) (hs : rhol < rhos) (hm : 0 < musf) (hf : 0 < f)
    (hc0 : 0 < Cv / Cvb) (hc1 : Cv / Cvb < 1) : 0 < wilson_stratified.Vsm Dp d rhol rhos musf Cv Cvb f :=
  Vsm_pos Dp d rhol rhos musf Cv Cvb f hDp hd hl hs hm hf hc0 hc1

/-- on E the Wilson stratified excess gradient is strictly positive, so — with no positivity hypothesis — the Wilson stratified gradient exceeds the
water gradient at every point of E -/
theorem C20_stratified_exceeds_water {v Dp d eps nu rhol rhos Cv : ℝ} (musf Cvb : ℝ)
    (h : InE v Dp d eps nu rhol rhos Cv) (hm : 0 < musf) :
    0 < wilson_stratified.Erhg v Dp d eps nu rhol rhos musf Cv Cvb ∧
    homogeneous.fluid_head_loss v Dp eps nu rhol < wilson_stratified.stratified_head_loss v Dp d eps nu rhol rhos musf Cv Cvb := by
  have hp := wilson_stratified_Erhg_pos musf Cvb h hm
  exact ⟨hp, (C20_heads_exceed_water Dp d d eps nu rhol rhos musf v d Cv Cvb h.rhos_gt h.rhol_pos h.Cv_pos).1 hp⟩

/-! Non-vacuity: the hypotheses of `C20_Vsm_at_reported_max` / `C20_Vsm_nonneg` are met by a concrete sand. -/
example : (0:ℝ) < 0.5 ∧ (0:ℝ) < 0.001 ∧ (0:ℝ) < 1.0 ∧ (1.0:ℝ) < 2.65 ∧ (0:ℝ) < 0.4 ∧ (0:ℝ) ≤ 0.012 ∧ (0:ℝ) ≤ 0.2 / 0.6 ∧ (0.2:ℝ) / 0.6 ≤ 1 := by
  norm_num

/-- water pressure loss = water head loss · g · ρl (any arguments with a non-zero pipe diameter) -/
theorem fluid_pressure_eq_head (v Dp eps nu rhol : ℝ) (hD : Dp ≠ 0) :
    homogeneous.fluid_pressure_loss v Dp eps nu rhol = homogeneous.fluid_head_loss v Dp eps nu rhol * (Cst.gravity : ℝ) * rhol := by
  have hg : (Cst.gravity : ℝ) ≠ 0 := by unfold Cst.gravity; norm_num
  unfold homogeneous.fluid_pressure_loss homogeneous.fluid_head_loss
  simp only
  field_simp

/-- the same clause at the entry points a caller uses: on E the excess of the Wilson stratified head loss over the water gradient (per unit
length, not divided by Rsd·Cv) does not rise with the line speed, and neither does the excess of the pressure loss over the water pressure loss —
a floor or cap applied in `stratified_head_loss` / `stratified_pressure_loss` rather than in `Erhg` breaks this theorem, not the one above -/
theorem C20_stratified_excess_antitone_at_entry_points {v1 v2 Dp d eps nu rhol rhos Cv : ℝ} (musf Cvb : ℝ)
    (h1 : InE v1 Dp d eps nu rhol rhos Cv) (h2 : InE v2 Dp d eps nu rhol rhos Cv) (h12 : v1 < v2) (hm : 0 < musf) :
    wilson_stratified.stratified_head_loss v2 Dp d eps nu rhol rhos musf Cv Cvb - homogeneous.fluid_head_loss v2 Dp eps nu rhol
      ≤ wilson_stratified.stratified_head_loss v1 Dp d eps nu rhol rhos musf Cv Cvb - homogeneous.fluid_head_loss v1 Dp eps nu rhol ∧
    wilson_stratified.stratified_pressure_loss v2 Dp d eps nu rhol rhos musf Cv Cvb - homogeneous.fluid_pressure_loss v2 Dp eps nu rhol
      ≤ wilson_stratified.stratified_pressure_loss v1 Dp d eps nu rhol rhos musf Cv Cvb - homogeneous.fluid_pressure_loss v1 Dp eps nu rhol := by
  have ha := wilson_stratified_Erhg_antitone musf (0.6 : ℝ) h1 h2 h12 hm
  have hb := wilson_stratified_Erhg_antitone musf Cvb h1 h2 h12 hm
  have hk : 0 ≤ (rhos - rhol) / rhol * Cv :=
    mul_nonneg (div_nonneg (sub_nonneg.mpr h1.rhos_gt.le) h1.rhol_pos.le) h1.Cv_pos.le
  have hg : 0 ≤ (Cst.gravity : ℝ) * rhol := mul_nonneg (by unfold Cst.gravity; norm_num) h1.rhol_pos.le
  constructor
  · unfold wilson_stratified.stratified_head_loss
    simp only
    nlinarith [mul_le_mul_of_nonneg_left hb hk]
  · rw [fluid_pressure_eq_head v1 Dp eps nu rhol h1.Dp_pos.ne', fluid_pressure_eq_head v2 Dp eps nu rhol h1.Dp_pos.ne']
    unfold wilson_stratified.stratified_pressure_loss wilson_stratified.stratified_head_loss
    simp only
    have := mul_le_mul_of_nonneg_left (mul_le_mul_of_nonneg_left ha hk) hg
    nlinarith [this]

/-- the V50 model at its entry points: the excess of the head loss (and of the pressure loss) over the water gradient does not rise with the line
speed, for every physical grading, non-negative concentration and non-zero pipe diameter -/
theorem C20_V50_excess_antitone_at_entry_points (Dp d50 d85 eps nu rhol rhos musf Cv v1 v2 : ℝ) (hv1 : 0 < v1) (hv : v1 ≤ v2) (hm : 0 ≤ musf)
    (hd : 0 < d50) (hn : 0 < nu) (hl : 0 < rhol) (hs : rhol < rhos) (hC : 0 ≤ Cv) (hD : Dp ≠ 0) :
    wilson_v50.heterogeneous_head_loss v2 Dp d50 d85 eps nu rhol rhos Cv musf - homogeneous.fluid_head_loss v2 Dp eps nu rhol
      ≤ wilson_v50.heterogeneous_head_loss v1 Dp d50 d85 eps nu rhol rhos Cv musf - homogeneous.fluid_head_loss v1 Dp eps nu rhol ∧
    wilson_v50.heterogeneous_pressure_loss v2 Dp d50 d85 eps nu rhol rhos Cv musf - homogeneous.fluid_pressure_loss v2 Dp eps nu rhol
      ≤ wilson_v50.heterogeneous_pressure_loss v1 Dp d50 d85 eps nu rhol rhos Cv musf - homogeneous.fluid_pressure_loss v1 Dp eps nu rhol := by
  have ha := C20_V50_Erhg_antitone_on_E Dp d50 d85 eps nu rhol rhos musf v1 v2 hv1 hv hm hd hn hl hs
  have hk : 0 ≤ (rhos - rhol) / rhol * Cv := mul_nonneg (div_nonneg (sub_nonneg.mpr hs.le) hl.le) hC
  have hg : 0 ≤ (Cst.gravity : ℝ) * rhol := mul_nonneg (by unfold Cst.gravity; norm_num) hl.le
  have hx := mul_le_mul_of_nonneg_left ha hk
  constructor
  · unfold wilson_v50.heterogeneous_head_loss
    simp only
    nlinarith [hx]
  · rw [fluid_pressure_eq_head v1 Dp eps nu rhol hD, fluid_pressure_eq_head v2 Dp eps nu rhol hD]
    unfold wilson_v50.heterogeneous_pressure_loss wilson_v50.heterogeneous_head_loss
    simp only
    have := mul_le_mul_of_nonneg_left hx hg
    nlinarith [this]
