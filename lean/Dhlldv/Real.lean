import Dhlldv.Prim
import Mathlib.Analysis.SpecialFunctions.Pow.Real
import Mathlib.Analysis.SpecialFunctions.Log.Basic
import Mathlib.Analysis.SpecialFunctions.Trigonometric.Basic
import Mathlib.Analysis.SpecialFunctions.Trigonometric.DerivHyp

/-! The real-number reading of the primitives.  Theorems are about the generated definitions at `α := ℝ`
with this instance; the executable reading uses the `Float` instance of `Prim.lean`. -/

noncomputable instance : Transc ℝ where
  log := Real.log
  exp := Real.exp
  log10 := fun x => Real.log x / Real.log 10
  sin := Real.sin
  cosh := Real.cosh
  sqrt := Real.sqrt
  rpow := fun x y => x ^ y
  npow := fun x n => x ^ n
  abs := fun x => |x|
  trunc := fun x => if x < 0 then (⌈x⌉ : ℝ) else (⌊x⌋ : ℝ)
  pi := Real.pi
  nan := 0
