import Dhlldv.Prim
import Dhlldv.Gen.Dispatch
import Dhlldv.Spec.Select

/-! Line-protocol dispatcher over the hand-written Spec models. -/
namespace Spec

def dispatch (op : String) (a : Array String) : Option String :=
  match op with
  | "spec.select" =>
    if a.size == 4 then
      let fb := Gen.fOfBits a[0]!; let sb := Gen.fOfBits a[1]!; let he := Gen.fOfBits a[2]!; let ho := Gen.fOfBits a[3]!
      some ("s:" ++ Spec.selectCode fb sb he ho ++ " " ++ Gen.bitsOf (Spec.selectVal fb sb he ho))
    else none
  | "spec.lookup" =>
    -- spec.lookup <exLow> <exHigh> <tol> <n> k1 v1 … kn vn <query>
    if a.size < 5 then none else
    let n := (a[3]!).toNat!
    if a.size != 5 + 2 * n then none else
    let pts := (List.range n).map fun i => (Gen.fOfBits a[4 + 2 * i]!, Gen.fOfBits a[5 + 2 * i]!)
    let t : InterpTable Float := { pts := pts, exLow := Gen.bOf a[0]!, exHigh := Gen.bOf a[1]!, tol := Gen.fOfBits a[2]! }
    some (match t.lookup (Gen.fOfBits a[4 + 2 * n]!) with
      | some v => Gen.bitsOf v
      | none => "IndexError")
  | _ => none

end Spec
