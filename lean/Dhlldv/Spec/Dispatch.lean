import Dhlldv.Prim
import Dhlldv.Gen.Dispatch
import Dhlldv.Spec.Select

/-! Line-protocol dispatcher over the hand-written Spec models. -/
namespace Spec

def dispatch (op : String) (a : Array String) : Option String :=
  match op with
  | "spec.select" =>
    if a.size == 4 then
      let fb := Gen.fOfBits a[0]!; let sb := Gen.fOfBits a[1]!; let he := Gen.fOfBits a[2]!; let ho := Gen.fOfBits a[3]!
      some ("s:" ++ Spec.selectCode fb sb he ho ++ " " ++ Gen.bitsOf (Spec.selectVal fb sb he ho))
    else none
  | _ => none

end Spec
