import Dhlldv.Prim
import Dhlldv.Gen.Dispatch
import Dhlldv.Spec.Select
import Dhlldv.Spec.Graded
import Dhlldv.Spec.SlurryObj
import Dhlldv.Spec.Memo
import Dhlldv.Spec.Pipeline
import Dhlldv.Spec.Fracs
import Dhlldv.Spec.Workbook
import Dhlldv.Spec.FileName
import Dhlldv.Spec.Pump
import Dhlldv.Spec.OpPoint
import Dhlldv.Spec.Viewer
import Dhlldv.Gen.Effects

/-! Line-protocol dispatcher over the hand-written Spec models. -/
namespace Spec

/-- the slurry-object configuration extracted from the current source (tie A) -/
def extractedSlurryCfg : Spec.Slurry.Cfg where
  raises := Effects.slurryRaises
  readsGsd := Effects.slurryReadsGsd
  readsCurves := Effects.slurryReadsCurves
  gsdRaisesCurves := Effects.gsd_raises_curves
  curvesChecksGsd := Effects.curves_checks_gsd

/-- parse `n` sections: `P D L K dz im il` | `U hL hM`; returns the sections and the unread tokens -/
def parseSecsRest : List String → Nat → List (Spec.Pipe.Sec Float) → Option (List (Spec.Pipe.Sec Float) × List String)
  | rest, 0, acc => some (acc.reverse, rest)
  | "P" :: d :: l :: k :: dz :: im :: il :: rest, n + 1, acc =>
    parseSecsRest rest n (Spec.Pipe.Sec.pipe (Gen.fOfBits d) (Gen.fOfBits l) (Gen.fOfBits k) (Gen.fOfBits dz) (Gen.fOfBits im) (Gen.fOfBits il) :: acc)
  | "U" :: hl :: hm :: rest, n + 1, acc => parseSecsRest rest n (Spec.Pipe.Sec.pump (Gen.fOfBits hl) (Gen.fOfBits hm) :: acc)
  | _, _, _ => none

/-- sections of the abstract `update_slurries` model: `P <d>` (pipe with diameter code d) | `U` (pump, holding some other slurry before the call) -/
def parsePSecs : List String → List Spec.Pipe.PSec → Option (List Spec.Pipe.PSec)
  | [], acc => some acc.reverse
  | "P" :: d :: rest, acc => match d.toNat? with
    | some n => parsePSecs rest (Spec.Pipe.PSec.pipe n :: acc)
    | none => none
  | "U" :: rest, acc => parsePSecs rest (Spec.Pipe.PSec.pump { p := 0, dp := 0 } :: acc)
  | _, _ => none

/-- a rational written `n/d` (d > 0) -/
def parseRat (t : String) : Option Rat :=
  match t.splitOn "/" with
  | [n, d] => match n.toInt?, d.toNat? with
    | some n, some d => if d == 0 then none else some (mkRat n d)
    | _, _ => none
  | _ => none

def parseSecs (ts : List String) (n : Nat) (acc : List (Spec.Pipe.Sec Float)) : Option (List (Spec.Pipe.Sec Float)) :=
  match parseSecsRest ts n acc with
  | some (s, []) => some s
  | _ => none

def unhex (s : String) : String :=
  let cs := s.toList
  let rec go : List Char → List Char → List Char
    | a :: b :: rest, acc =>
      let d := fun (c : Char) => if c.isDigit then c.toNat - 48 else c.toNat - 87
      go rest (Char.ofNat (d a * 16 + d b) :: acc)
    | _, acc => acc.reverse
  String.ofList (go cs [])

def hexNibble (c : Char) : Nat := if c.isDigit then c.toNat - 48 else c.toNat - 87

def unhexBytes (s : String) : ByteArray :=
  let rec go : List Char → ByteArray → ByteArray
    | a :: b :: rest, acc => go rest (acc.push (UInt8.ofNat (hexNibble a * 16 + hexNibble b)))
    | _, acc => acc
  go s.toList ByteArray.empty

def hexOfString (s : String) : String :=
  let digit := fun (n : Nat) => Char.ofNat (if n < 10 then 48 + n else 87 + n)
  String.ofList (s.toUTF8.toList.flatMap fun b => [digit (b.toNat / 16), digit (b.toNat % 16)])

/-- parse `<exLow> <exHigh> <n> k1 v1 … kn vn` into a table; returns the table and the unread tokens -/
def parseTable (ts : List String) : Option (InterpTable Float × List String) :=
  match ts with
  | lo :: hi :: n :: rest =>
    let n := n.toNat!
    if rest.length < 2 * n then none else
    let pts := (List.range n).map fun i => (Gen.fOfBits (rest.getD (2 * i) "0"), Gen.fOfBits (rest.getD (2 * i + 1) "0"))
    some ({ pts := pts, exLow := Gen.bOf lo, exHigh := Gen.bOf hi, tol := 0.001 }, rest.drop (2 * n))
  | _ => none

def mkPump (f : Nat → Float) (mode : Nat) (qh qp drv : InterpTable Float) : Spec.Pump.P Float where
  designSpeed := f 0
  designImpeller := f 1
  curSpeed := f 2
  curImpeller := f 3
  maxDriverSpeed := f 4
  availPower := f 5
  gearRatio := f 6
  qpMax := f 7
  rhom := f 8
  rhol := f 9
  mode := mode
  QH := qh
  QP := qp
  driver := drv

def extractedReqs : List Spec.Workbook.Req :=
  Effects.excelRequireds.map fun r => { type := r.1, required := r.2.1, scalars := r.2.2.1, tables := r.2.2.2 }

/-- tokens → workbook: per sheet `S <title> <k>` then k names (`C <name> num|blank|s<hex>` or `T <name> <m> <hdr>…`), then `R <m> <ref>…` -/
partial def parseWB : List String → List Spec.Workbook.Sheet → Option (List Spec.Workbook.Sheet)
  | [], acc => some acc.reverse
  | "S" :: title :: k :: rest, acc =>
    let rec names : Nat → List String → List (String × Spec.Workbook.Named) → Option (List (String × Spec.Workbook.Named) × List String)
      | 0, ts, nm => some (nm.reverse, ts)
      | n + 1, "C" :: name :: v :: ts, nm =>
        let val := if v == "num" then Spec.Workbook.Val.num else if v == "blank" then Spec.Workbook.Val.blank
          else Spec.Workbook.Val.str (unhex (v.drop 1).toString)
        names n ts ((unhex name, .cell val) :: nm)
      | n + 1, "T" :: name :: m :: ts, nm =>
        let m := m.toNat!
        names n (ts.drop m) ((unhex name, .table ((ts.take m).map unhex)) :: nm)
      | _, _, _ => none
    match names k.toNat! rest [] with
    | some (nm, "R" :: m :: ts) =>
      let m := m.toNat!
      parseWB (ts.drop m) ({ title := unhex title, names := nm, pumpRefs := (ts.take m).map unhex } :: acc)
    | _ => none
  | _, _ => none

def dispatch (op : String) (a : Array String) : Option String :=
  match op with
  | "spec.select" =>
    if a.size == 4 then
      let fb := Gen.fOfBits a[0]!; let sb := Gen.fOfBits a[1]!; let he := Gen.fOfBits a[2]!; let ho := Gen.fOfBits a[3]!
      some ("s:" ++ Spec.selectCode fb sb he ho ++ " " ++ Gen.bitsOf (Spec.selectVal fb sb he ho))
    else none
  | "spec.lookup" =>
    -- spec.lookup <exLow> <exHigh> <tol> <n> k1 v1 … kn vn <query>
    if a.size < 5 then none else
    let n := (a[3]!).toNat!
    if a.size != 5 + 2 * n then none else
    let pts := (List.range n).map fun i => (Gen.fOfBits a[4 + 2 * i]!, Gen.fOfBits a[5 + 2 * i]!)
    let t : InterpTable Float := { pts := pts, exLow := Gen.bOf a[0]!, exHigh := Gen.bOf a[1]!, tol := Gen.fOfBits a[2]! }
    some (match t.lookup (Gen.fOfBits a[4 + 2 * n]!) with
      | some v => Gen.bitsOf v
      | none => "IndexError")
  | "spec.graded" =>
    -- spec.graded <cvt> <sf> <sq> vls Dp eps nu rhol rhos Cv <n> f1 d1 … fn dn
    if a.size < 11 then none else
    let n := (a[10]!).toNat!
    if a.size != 11 + 2 * n then none else
    let gsd := (List.range n).map fun i => (Gen.fOfBits a[11 + 2 * i]!, Gen.fOfBits a[12 + 2 * i]!)
    let f := fun i => Gen.fOfBits a[i]!
    let R := Spec.erhgGraded (α := Float) (Gen.bOf a[0]!) (Gen.bOf a[1]!) (Gen.bOf a[2]!) gsd (f 3) (f 4) (f 5) (f 6) (f 7) (f 8) (f 9)
    let scal := [R.im_x, R.X, R.rhox, R.Cv_x, R.Cv_r, R.mu_x, R.nu_x, R.Rsd_x, R.erhg_x, R.erhg, R.il]
    some (" ".intercalate ((scal ++ R.ims ++ R.dxs ++ R.fracs).map Gen.bitsOf))
  | "spec.slurry" =>
    -- spec.slurry <op> … with op = s:<param>:<nat> | g:<nat> | g:- | rg | rc ; the configuration is the one extracted
    -- from the current source (Gen/Effects.lean).  Output per op: dG dC regenGsd regenCurves
    let c : Spec.Slurry.Cfg := extractedSlurryCfg
    let parse : String → Option Spec.Slurry.Op := fun t =>
      match t.splitOn ":" with
      | ["s", p, v] => some (.set p v.toNat!)
      | ["g", "-"] => some (.genGsd none)
      | ["g", v] => some (.genGsd (some v.toNat!))
      | ["rg"] => some .readGsd
      | ["rc"] => some .readCurves
      | _ => none
    let b := fun (x : Bool) => if x then "1" else "0"
    let rec go (s : Spec.Slurry.St) (ts : List String) (acc : List String) : Option (List String) :=
      match ts with
      | [] => some acc.reverse
      | t :: rest =>
        match parse t with
        | none => none
        | some op =>
          let s' := Spec.Slurry.step c s op
          let rG := match op with
            | .genGsd _ => true
            | .readGsd => s.dG
            | .readCurves => s.dC && s.dG && c.curvesChecksGsd
            | _ => false
          let rC := match op with
            | .readCurves => s.dC
            | _ => false
          go s' rest ((b s'.dG ++ b s'.dC ++ b rG ++ b rC) :: acc)
    (go (Spec.Slurry.init (fun _ => 0) 0) a.toList []).map (" ".intercalate ·)
  | "spec.memo" =>
    -- spec.memo <keyHasSwitches> <handsOut> <op> … with op = c:<a> | t:<sw> | m:<a>:<v> | x ; per call: 1 = served from the memo, 0 = computed
    if a.size < 2 then none else
    let f : Spec.Memo.Fn := { cached := true, keyHasSwitches := Gen.bOf a[0]!, handsOut := Gen.bOf a[1]!, body := fun sw x => 1000 * sw + x }
    let rec goM (s : Spec.Memo.St) (ts : List String) (acc : List String) : Option (List String) :=
      match ts with
      | [] => some acc.reverse
      | t :: rest =>
        match t.splitOn ":" with
        | ["c", x] =>
          let hit := (Spec.Memo.lookup s.memo (Spec.Memo.key f s.sw x.toNat!)).isSome
          goM (Spec.Memo.step f s (.call x.toNat!)).1 rest ((if hit then "1" else "0") :: acc)
        | ["t", x] => goM (Spec.Memo.step f s (.toggle x.toNat!)).1 rest acc
        | ["m", x, v] => goM (Spec.Memo.step f s (.mutate x.toNat! v.toNat!)).1 rest acc
        | ["x"] => goM (Spec.Memo.step f s .clear).1 rest acc
        | _ => none
    (goM { sw := 3, memo := [] } (a.toList.drop 2) []).map (" ".intercalate ·)
  | "spec.syshead" =>
    -- spec.syshead g rhom rhol Q <n> then per section: P D L K dz im il | U hL hM
    if a.size < 5 then none else
    match parseSecs (a.toList.drop 5) (a[4]!).toNat! [] with
    | none => none
    | some secs =>
      let f := fun i => Gen.fOfBits a[i]!
      let (hm, hl, pl, pm) := Spec.Pipe.sysHead (α := Float) (f 0) (f 1) (f 2) (f 3) secs
      some (" ".intercalate ([hm, hl, pl, pm].map Gen.bitsOf))
  | "spec.updslur" =>
    -- spec.updslur <code of the pipeline slurry's diameter before the call> then the sections; answer: main.dp | d:p:dp of every per-diameter copy in
    -- insertion order | p:dp of the slurry every pump holds afterwards (the pipeline slurry's parameter set is coded 1)
    if a.size < 1 then none else
    match (a[0]!).toNat?, parsePSecs (a.toList.drop 1) [] with
    | some d0, some secs =>
      let r := Spec.Pipe.updateSlurries { secs := secs, main := { p := 1, dp := d0 }, slurries := [] }
      let pumps := r.secs.filterMap fun s => match s with
        | .pump sl => some (toString sl.p ++ ":" ++ toString sl.dp)
        | .pipe _ => none
      some (" ".intercalate ([toString r.main.dp, "|"] ++ (r.slurries.map fun e => toString e.1 ++ ":" ++ toString e.2.p ++ ":" ++ toString e.2.dp) ++ ["|"] ++ pumps))
    | _, _ => none
  | "spec.bindpumps" =>
    -- spec.bindpumps <code of the pipeline slurry's diameter> then the sections (pumps hold some other slurry, coded 0:0, before the call);
    -- answer: p:dp of the slurry every pump holds after the binding step of calc_system_head | number of sections
    if a.size < 1 then none else
    match (a[0]!).toNat?, parsePSecs (a.toList.drop 1) [] with
    | some d0, some secs =>
      let r := Spec.Pipe.bindPumps { secs := secs, main := { p := 1, dp := d0 }, slurries := [] }
      let pumps := r.secs.filterMap fun s => match s with
        | .pump sl => some (toString sl.p ++ ":" ++ toString sl.dp)
        | .pipe _ => none
      some (" ".intercalate (pumps ++ ["|", toString r.secs.length]))
    | _, _ => none
  | "spec.checkvalue" =>
    -- spec.checkvalue <what float(text) gives: none | n/d> <min> <max> <prev>   (exact rationals of the doubles involved); answer: which of the two
    -- texts is left in the box (T = the entry, P = the previous value re-rendered) and the value the model gets
    if a.size != 4 then none else
    match parseRat a[1]!, parseRat a[2]!, parseRat a[3]! with
    | some lo, some hi, some prev =>
      let parsed : Option Rat := if a[0]! == "none" then none else parseRat a[0]!
      if a[0]! != "none" && parsed.isNone then none else
      let (v, txt) := Spec.Viewer.checkValue (fun _ => parsed) (fun _ => "P") "T" lo hi prev
      some (txt ++ " " ++ toString v.num ++ "/" ++ toString v.den ++ " " ++ (if Spec.Viewer.accepted (fun _ => parsed) "T" lo hi then "1" else "0"))
    | _, _, _ => none
  | "spec.gradeline" =>
    -- spec.gradeline rhol <n> sections… then n heads (pump − system head of the prefix of length 1 … n)
    if a.size < 2 then none else
    let n := (a[1]!).toNat!
    match parseSecsRest (a.toList.drop 2) n [] with
    | none => none
    | some (secs, rest) =>
      if rest.length != n then none else
      let heads := rest.map Gen.fOfBits
      let headOf : List (Spec.Pipe.Sec Float) → Float := fun pre => heads.getD (pre.length - 1) (0.0 / 0.0)
      let (locs, hs, elevs) := Spec.Pipe.gradeLine (α := Float) (Gen.fOfBits a[0]!) headOf secs
      some (" ".intercalate ((locs ++ hs ++ elevs).map Gen.bitsOf))
  | "spec.fracs" =>
    -- spec.fracs Dp nu rhol rhos <numFracs> <n> f1 d1 … fn dn   (input points sorted by fraction)
    if a.size < 6 then none else
    let n := (a[5]!).toNat!
    if a.size != 6 + 2 * n then none else
    let pts := (List.range n).map fun i => (Gen.fOfBits a[6 + 2 * i]!, Gen.fOfBits a[7 + 2 * i]!)
    let f := fun i => Gen.fOfBits a[i]!
    let R := Spec.Fracs.createFracs (α := Float) Nat.toFloat (fun x => x.floor.toUInt64.toNat) pts (f 0) (f 1) (f 2) (f 3) (a[4]!).toNat!
    some (" ".intercalate ([Gen.bitsOf R.X, toString R.between, (if R.branchXpos then "1" else "0")] ++
      (R.gsd.map fun p => Gen.bitsOf p.1 ++ ":" ++ Gen.bitsOf p.2)))
  | "spec.getdx" =>
    -- spec.getdx <n> f1 d1 … fn dn frac
    if a.size < 2 then none else
    let n := (a[0]!).toNat!
    if a.size != 2 + 2 * n then none else
    let gsd := (List.range n).map fun i => (Gen.fOfBits a[1 + 2 * i]!, Gen.fOfBits a[2 + 2 * i]!)
    some (match Spec.Fracs.getDx (α := Float) gsd (Gen.fOfBits a[1 + 2 * n]!) with
      | some v => Gen.bitsOf v
      | none => "ValueError")
  | "spec.wbload" =>
    match parseWB a.toList [] with
    | none => none
    | some wb =>
      let sc := Effects.excelScalarLookupCatches.contains "KeyError"
      let tc := Effects.excelTableLookupCatches.contains "KeyError"
      some (match Spec.Workbook.load sc tc Effects.excel_dangling_pump_checked Effects.excel_curve_without_driver_checked extractedReqs wb with
        | .ok _ => "ok"
        | .error (.invalidExcel _) => "InvalidExcelError"
        | .error (.other c) => "other:" ++ c)
  | "spec.filename" =>
    -- spec.filename <hex utf-8 of the requested name | -> : hex utf-8 of the base name store_to_excel writes
    if a.size != 1 then none else
    let req := if a[0]! == "-" then "" else String.fromUTF8! (unhexBytes a[0]!)
    let repl := Effects.filenameReplace.flatMap fun s => s.toList
    some ("h" ++ hexOfString (Spec.FileName.baseName repl Effects.filenameValid.toList req))
  | "spec.pump" =>
    -- spec.pump designSpeed designImpeller curSpeed curImpeller maxDriverSpeed availPower gearRatio qpMax rhom rhol  <mode> <fuel> curveSpeed Q <water>  QH QP driver
    if a.size < 15 then none else
    let f := fun i => Gen.fOfBits a[i]!
    match parseTable (a.toList.drop 15) with
    | none => none
    | some (qh, r1) =>
      match parseTable r1 with
      | none => none
      | some (qp, r2) =>
        match parseTable r2 with
        | none => none
        | some (drv, _) =>
          let p : Spec.Pump.P Float := mkPump f (a[10]!).toNat! qh qp drv
          some (match Spec.Pump.point p (a[11]!).toNat! (f 12) (f 13) (Gen.bOf a[14]!) with
            | none => "none"
            | some (q, h, pw, n) => " ".intercalate ([q, h, pw, n].map Gen.bitsOf))
  | "spec.findop" =>
    -- spec.findop sysAtQimin pumpAtQimin qimin qlast <bracket: bits | none> <n> then n triples q hs hp   (the tape of scipy's evaluations of calc_system_head)
    if a.size < 6 then none else
    let n := (a[5]!).toNat!
    if a.size != 6 + 3 * n then none else
    let tape := (List.range n).map fun i => (a[6 + 3 * i]!, Gen.fOfBits a[7 + 3 * i]!, Gen.fOfBits a[8 + 3 * i]!)
    let heads : Float → Float × Float := fun q => match tape.find? (fun e => e.1 == Gen.bitsOf q) with
      | some e => e.2
      | none => (0.0 / 0.0, 0.0 / 0.0)
    let f := fun i => Gen.fOfBits a[i]!
    -- a[4]: "unconsulted" (the implementation made no bracketing call) | "none" (called, not converged) | bits of the root it returned
    let bracket : Spec.OpPoint.Outcome Float := if a[4]! == "none" || a[4]! == "unconsulted" then .notConverged (0.0 / 0.0) else .converged (f 4)
    if Spec.OpPoint.consultsBracket (α := Float) heads (f 0) (f 1) (f 2) (f 3) != (a[4]! != "unconsulted") then
      some (if a[4]! == "unconsulted" then "bracketing-call-expected" else "bracketing-call-unexpected") else
    some (match Spec.OpPoint.findOp (α := Float) heads (f 0) (f 1) (f 2) (f 3) bracket with
      | .flow q => "flow " ++ Gen.bitsOf q
      | .operatingPointError => "OperatingPointError")
  | _ => none

end Spec
