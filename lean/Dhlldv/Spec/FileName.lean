/-! Spec (hand-written, executable, no imports): `store_pump_excel.remove_disallowed_filename_chars` and the file-name branch of
`store_to_excel`, parametrised by the replace list and the whitelist extracted from the source. -/

namespace Spec.FileName

/-- replace every character of `repl` by '_' (the source loops over one-character strings), keep only whitelisted characters -/
def cleanL (repl valid : List Char) (s : List Char) : List Char :=
  (s.map fun c => if repl.contains c then '_' else c).filter fun c => valid.contains c

def clean (repl valid : List Char) (s : String) : String := String.ofList (cleanL repl valid s.toList)

/-- `remove_disallowed_filename_chars(candidate, '.xlsx')` -/
def sanitise (repl valid : List Char) (s : String) : String := clean repl valid s ++ ".xlsx"

/-- the stem `store_to_excel` sanitises: a trailing ".xlsx" of the requested name is stripped first -/
def stemOf (requested : String) : String :=
  if requested.endsWith ".xlsx" then (requested.dropEnd 5).toString else requested

/-- base name of the file `store_to_excel` writes for a requested file name -/
def baseName (repl valid : List Char) (requested : String) : String := sanitise repl valid (stemOf requested)

end Spec.FileName
