import Dhlldv.Prim

/-! Spec (hand-written, executable): `PumpObj.Pump.power_required`, `power_available`, the two damped speed searches and `point`.
The bracketed scipy solve of the curve-limited mode is not modelled: its result is a parameter (`curveSpeed`), so everything the
property says about head / power / flow at the *returned* speed is still stated and proved for that mode. -/

namespace Spec.Pump

structure P (α : Type) where
  designSpeed : α
  designImpeller : α
  curSpeed : α
  curImpeller : α
  maxDriverSpeed : α
  availPower : α
  gearRatio : α
  QH : InterpTable α
  QP : InterpTable α
  qpMax : α                     -- max(self.design_QP_curve.values())
  driver : InterpTable α        -- speed (Hz at the driver shaft) ↦ kW; unused unless mode = 3
  mode : Nat                    -- 0 'none', 1 'torque', 2 'power', 3 'curve'
  rhom : α
  rhol : α

section
variable {α : Type} [Add α] [Sub α] [Mul α] [Div α] [Neg α] [LT α] [LE α]
  [DecidableLT α] [DecidableLE α] [OfScientific α] [Transc α]

def rho (p : P α) (water : Bool) : α := if water then p.rhol else p.rhom

/-- `power_required(Q, n, water)` -/
def powerRequired (p : P α) (Q n : α) (water : Bool) : α :=
  if feq n (0.0 : α) then (0.0 : α) else
  let sr := n / p.designSpeed
  let ir := p.curImpeller / p.designImpeller
  let Q0 := Q / (sr * Transc.npow ir 2)
  let P0 := p.QP.at Q0
  P0 * Transc.npow sr 3 * Transc.npow ir 5 * rho p water

/-- `power_available(n)` -/
def powerAvailable (p : P α) (n : α) : α :=
  match p.mode with
  | 1 => p.availPower * n / p.maxDriverSpeed
  | 2 => p.availPower
  | 3 => p.driver.at (n * p.gearRatio)
  | _ =>
    let sr := n / p.maxDriverSpeed
    let ir := p.curImpeller / p.designImpeller
    p.qpMax * Transc.npow sr 3 * Transc.npow ir 5 * p.rhom + (1.0 : α)

/-- `while not (-0.1 < Pavail - P < 0.1)` of `find_torque_limited_speed`; `none` = iteration budget of the model exhausted -/
def torqueLoop (p : P α) (Q : α) (water : Bool) : Nat → α → α → α → Option α
  | 0, n, Pr, Pa => if decide (-(0.1 : α) < Pa - Pr) && decide (Pa - Pr < (0.1 : α)) then some n else none
  | fuel + 1, n, Pr, Pa =>
    if decide (-(0.1 : α) < Pa - Pr) && decide (Pa - Pr < (0.1 : α)) then some n else
    let n := n * Transc.rpow (Pa / Pr) (0.5 : α)
    let Pr := powerRequired p Q n water
    let Pa := powerAvailable p n
    torqueLoop p Q water fuel n Pr Pa

def findTorqueSpeed (p : P α) (fuel : Nat) (Q : α) (water : Bool) : Option α :=
  let n := p.curSpeed
  let Pr := powerRequired p Q p.curSpeed water
  let Pa := powerAvailable p n
  if Pa ≥ Pr then some n else torqueLoop p Q water fuel n Pr Pa

/-- `find_power_limited_speed`: same loop with the available power held at `avail_power` -/
def powerLoop (p : P α) (Q : α) (water : Bool) : Nat → α → α → Option α
  | 0, n, Pr => if decide (-(0.1 : α) < p.availPower - Pr) && decide (p.availPower - Pr < (0.1 : α)) then some n else none
  | fuel + 1, n, Pr =>
    if decide (-(0.1 : α) < p.availPower - Pr) && decide (p.availPower - Pr < (0.1 : α)) then some n else
    let n := n * Transc.rpow (p.availPower / Pr) (0.5 : α)
    powerLoop p Q water fuel n (powerRequired p Q n water)

def findPowerSpeed (p : P α) (fuel : Nat) (Q : α) (water : Bool) : Option α :=
  let Pr := powerRequired p Q p.curSpeed water
  if p.availPower ≥ Pr then some p.curSpeed else powerLoop p Q water fuel p.curSpeed Pr

/-- head at flow Q and speed n: affinity scaling of the design curve -/
def headAt (p : P α) (Q n : α) (water : Bool) : α :=
  let sr := n / p.designSpeed
  let ir := p.curImpeller / p.designImpeller
  let Q0 := Q / (sr * Transc.npow ir 2)
  p.QH.at Q0 * Transc.npow sr 2 * Transc.npow ir 2 * rho p water

/-- `point(Q, water)`: (Q, H, P, n); `none` = a speed search of the model ran out of budget. `curveSpeed` is what the bracketed scipy solve returned. -/
def point (p : P α) (fuel : Nat) (curveSpeed : α) (Q : α) (water : Bool) : Option (α × α × α × α) :=
  let Pr := powerRequired p Q p.curSpeed water
  if p.mode == 0 || decide (Pr ≤ powerAvailable p p.curSpeed) then
    some (Q, headAt p Q p.curSpeed water, Pr, p.curSpeed)
  else
    let n? := match p.mode with
      | 1 => findTorqueSpeed p fuel Q water
      | 2 => findPowerSpeed p fuel Q water
      | _ => some curveSpeed
    match n? with
    | none => none
    | some n => some (Q, headAt p Q n water, powerRequired p Q n water, n)

end
end Spec.Pump
