import Dhlldv.Prim

/-! Spec (hand-written, executable): `Pipeline.find_operating_point` around scipy's scalar secant iteration
(`scipy.optimize._zeros_py.newton` with `fprime=None`, as called by `root_scalar(f, x0=, x1=)`), re-implemented from its source.
`gap` is the head-gap function (system head − pump head); in the executable reading it is a tape of the evaluations scipy made. -/

namespace Spec.OpPoint

section
variable {α : Type} [Add α] [Sub α] [Mul α] [Div α] [Neg α] [LT α] [LE α]
  [DecidableLT α] [DecidableLE α] [OfScientific α] [Transc α]

/-- one secant update from (p0,q0), (p1,q1), in the two algebraically equal forms scipy chooses between -/
def secantStep (p0 q0 p1 q1 : α) : α :=
  if Transc.abs q1 > Transc.abs q0 then (-q0 / q1 * p1 + p0) / ((1.0 : α) - q0 / q1)
  else (-q1 / q0 * p0 + p1) / ((1.0 : α) - q1 / q0)

inductive Outcome (α : Type) where
  | converged (root : α)
  | notConverged (last : α)

/-- the `for itr in range(maxiter)` loop; `tol` = 1.48e-8 (absolute, rtol = 0) -/
def secantLoop (gap : α → α) (tol : α) : Nat → α → α → α → α → Outcome α
  | 0, _, _, p1, _ => .notConverged p1
  | k + 1, p0, q0, p1, q1 =>
    if feq q1 q0 then .notConverged ((p1 + p0) / (2.0 : α))
    else
      let p := secantStep p0 q0 p1 q1
      if Transc.abs (p - p1) ≤ tol then .converged p
      else secantLoop gap tol k p1 q1 p (gap p)

def secant (gap : α → α) (tol : α) (maxiter : Nat) (x0 x1 : α) : Outcome α :=
  let q0 := gap x0
  let q1 := gap x1
  if Transc.abs q1 < Transc.abs q0 then secantLoop gap tol maxiter x1 q1 x0 q0
  else secantLoop gap tol maxiter x0 q0 x1 q1

inductive Result (α : Type) where
  | flow (q : α)
  | operatingPointError

/-- the acceptance test applied to every candidate flow: system and pump head agree within 1e-6 relative -/
def headsOk (heads : α → α × α) (r : α) : Bool :=
  let hs := (heads r).1
  let hp := (heads r).2
  decide (Transc.abs (hs - hp) ≤ (1e-6 : α) * pyMax (pyMax (Transc.abs hs) (Transc.abs hp)) (1.0 : α))

/-- the second attempt: only if the system curve is above the pump curve at the largest flow; `bracket` = outcome of scipy's brentq on [qimin, qlast] -/
def fallback (heads : α → α × α) (qlast : α) (bracket : Outcome α) : Result α :=
  if (heads qlast).1 - (heads qlast).2 > 0.0 then
    match bracket with
    | .converged r => if headsOk heads r then .flow r else .operatingPointError
    | .notConverged _ => .operatingPointError
  else .operatingPointError

/-- `find_operating_point`: infeasible at the minimum-friction flow ⇒ OperatingPointError; otherwise the secant on the head gap from qimin and
the midpoint to the largest flow; a converged flow is returned only if it passes `headsOk` (the secant stops on the flow step, which is
also met on a jump of the pump curve). If the secant did not deliver (not converged, left the curve range, heads differ) and the system curve is
above the pump curve at the largest flow, scipy's bracketing solver (brentq on [qimin, qlast]) is asked; its outcome is the parameter `bracket`
(external library, not modelled) and is again returned only if it passes `headsOk`.
`heads q` = (system head, pump head) for slurry at flow q. -/
def firstAttempt (heads : α → α × α) (qimin qlast : α) : Option α :=
  match secant (fun q => (heads q).1 - (heads q).2) (1.48e-8 : α) 50 qimin ((qimin + qlast) / (2.0 : α)) with
  | .converged r => if headsOk heads r then some r else none
  | .notConverged _ => none

def findOp (heads : α → α × α) (sysAtQimin pumpAtQimin qimin qlast : α) (bracket : Outcome α) : Result α :=
  if sysAtQimin > pumpAtQimin then .operatingPointError
  else
    match firstAttempt heads qimin qlast with
    | some r => .flow r
    | none => fallback heads qlast bracket

/-- does `find_operating_point` call the bracketing solver at all? (compared with the recorded calls of the implementation) -/
def consultsBracket (heads : α → α × α) (sysAtQimin pumpAtQimin qimin qlast : α) : Bool :=
  if sysAtQimin > pumpAtQimin then false
  else match firstAttempt heads qimin qlast with
    | some _ => false
    | none => decide ((heads qlast).1 - (heads qlast).2 > 0.0)

end
end Spec.OpPoint
