/-! Spec (hand-written, executable, no imports): a memoised function under switch toggles and caller mutation.

`body sw a` is what the un-memoised code computes under switch setting `sw` for arguments `a` (callees assumed correct).
The memo table is keyed on the arguments and — if `keyHasSwitches` — the switch setting at the time of the call.
If `handsOut`, callers receive the stored container itself and `mutate` changes the stored value. -/

namespace Spec.Memo

structure Fn where
  cached : Bool
  keyHasSwitches : Bool
  handsOut : Bool
  body : Nat → Nat → Nat

structure St where
  sw : Nat
  memo : List ((Nat × Nat) × Nat)

inductive Op where
  | call (a : Nat)
  | toggle (sw : Nat)
  | mutate (a : Nat) (v : Nat)     -- the caller overwrites the container returned for arguments `a` (current switches)
  | clear

def key (f : Fn) (sw a : Nat) : Nat × Nat := (a, if f.keyHasSwitches then sw else 0)

def lookup (m : List ((Nat × Nat) × Nat)) (k : Nat × Nat) : Option Nat :=
  match m.find? (fun e => e.1 == k) with
  | some e => some e.2
  | none => none

/-- returns the new state and, for `call`, the value handed to the caller -/
def step (f : Fn) (s : St) : Op → St × Option Nat
  | .call a =>
    if f.cached then
      match lookup s.memo (key f s.sw a) with
      | some v => (s, some v)
      | none => let v := f.body s.sw a; ({ s with memo := (key f s.sw a, v) :: s.memo }, some v)
    else (s, some (f.body s.sw a))
  | .toggle sw => ({ s with sw := sw }, none)
  | .mutate a v =>
    if f.cached && f.handsOut then
      ({ s with memo := s.memo.map (fun e => if e.1 == key f s.sw a then (e.1, v) else e) }, none)
    else (s, none)
  | .clear => ({ s with memo := [] }, none)

def run (f : Fn) (s : St) : List Op → St
  | [] => s
  | op :: ops => run f (step f s op).1 ops

/-- the condition extracted per cached function: everything the body reads is in the key, nothing mutable is handed out -/
def Sound (f : Fn) (readsSwitches : Bool) : Bool :=
  !f.cached || ((f.keyHasSwitches || !readsSwitches) && !f.handsOut)

end Spec.Memo
