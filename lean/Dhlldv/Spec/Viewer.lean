/-! Spec (hand-written, executable, no imports): `main.check_value` — the gatekeeper of every text box of the viewer.

`parse` is `float(widget.value)` (`none` = ValueError), `fmt` renders the previous value in the box's display format. -/

namespace Spec.Viewer

/-- returns (value the model gets, text left in the box) -/
def checkValue (parse : String → Option Rat) (fmt : Rat → String) (text : String) (minVal maxVal prev : Rat) : Rat × String :=
  match parse text with
  | none => (prev, fmt prev)
  | some v => if minVal ≤ v && v ≤ maxVal then (v, text) else (prev, fmt prev)

def accepted (parse : String → Option Rat) (text : String) (minVal maxVal : Rat) : Bool :=
  match parse text with
  | none => false
  | some v => minVal ≤ v && v ≤ maxVal

end Spec.Viewer
