import Dhlldv.Prim
import Dhlldv.Gen.Framework

/-! Spec (hand-written, executable): `DHLLDV_framework.create_fracs` and `Slurry.get_dx`.

The float-keyed dict `new_GSD` is an association list with overwrite-on-equal-key (`setF`), which is what a Python dict does when two
computed fractions coincide. Everything is in the operation order of the source; tied by bit-exact correspondence (tie X). -/

namespace Spec.Fracs

section
variable {α : Type} [Add α] [Sub α] [Mul α] [Div α] [Neg α] [LT α] [LE α]
  [DecidableLT α] [DecidableLE α] [OfScientific α] [Transc α]

abbrev FDict (α : Type) := List (α × α)

def setF (d : FDict α) (k v : α) : FDict α :=
  match d with
  | [] => [(k, v)]
  | (k', v') :: rest => if feq k' k then (k', v) :: rest else (k', v') :: setF rest k v

def getF (d : FDict α) (k : α) : α :=
  match d with
  | [] => Transc.nan
  | (k', v') :: rest => if feq k' k then v' else getF rest k

/-- insertion sort by key (Python `sorted(d.keys())` then lookup) -/
def insertSorted (p : α × α) : FDict α → FDict α
  | [] => [p]
  | q :: rest => if p.1 < q.1 then p :: q :: rest else q :: insertSorted p rest

def sortF (d : FDict α) : FDict α := d.foldl (fun acc p => insertSorted p acc) []

/-- log-linear interpolation on the segment (flow, dlow)–(fnext, dnext), in the source's operation order -/
def logInterp (flow dlow fnext dnext fthis : α) : α :=
  Transc.log10 dnext - (Transc.log10 dnext - Transc.log10 dlow) * (fnext - fthis) / (fnext - flow)

def pow10 (x : α) : α := Transc.rpow (10.0 : α) x

/-- the inner `for i in range(1, between_points+1)` loop: returns the dict and the running `fthis` -/
def subdivide (flow dlow fnext dnext fracSize : α) : Nat → α → FDict α → FDict α
  | 0, _, d => d
  | k + 1, fthis, d =>
    let fthis := fthis + fracSize
    subdivide flow dlow fnext dnext fracSize k fthis (setF d fthis (pow10 (logInterp flow dlow fnext dnext fthis)))

/-- skip input points at or below the limit, or within rounding above it: `while dnext <= dmin * (1 + 1e-12)` with the truthiness test of `next(fracs, None)` -/
def skipBelow (dmin : α) : Nat → (α × α) → (α × α) → List (α × α) → Nat → ((α × α) × (α × α) × List (α × α) × Nat)
  | 0, lo, nx, rest, pl => (lo, nx, rest, pl)
  | fuel + 1, lo, nx, rest, pl =>
    if nx.2 ≤ dmin * ((1.0 : α) + (1e-12 : α)) then
      match rest with
      | [] => (lo, nx, rest, pl)
      | t :: rest' => if feq t.1 (0.0 : α) then (lo, nx, rest', pl) else skipBelow dmin fuel nx t rest' (pl - 1)
    else (lo, nx, rest, pl)

/-- the main `while fnext:` loop over the remaining input points; returns the dict and the last `frac_size` -/
def segments (between : Nat) (natToα : Nat → α) : Nat → α → α → (α × α) → List (α × α) → FDict α → α → FDict α × α
  | 0, _, _, _, _, d, fs => (d, fs)
  | fuel + 1, flow, dlow, nx, rest, d, _ =>
    let fnext := nx.1
    let dnext := nx.2
    let fracSize := (fnext - flow) / (natToα (between + 1))
    let d := subdivide flow dlow fnext dnext fracSize between flow d
    let d := setF d fnext dnext
    match rest with
    | [] => (d, fracSize)
    | t :: rest' => if feq t.1 (0.0 : α) then (d, fracSize) else segments between natToα fuel fnext dnext t rest' d fracSize

structure Out (α : Type) where
  gsd : FDict α        -- sorted by fraction
  X : α
  between : Nat
  branchXpos : Bool

/-- everything `create_fracs` does after the given points below the limit have been discarded: (lo, nx) is the first remaining segment -/
def afterSkip (natToα : Nat → α) (dlim : α) (lo nx : α × α) (rest : List (α × α)) (pointsLeft numFracs : Nat) : Out α :=
  let flow := lo.1
  let dlow := lo.2
  let fnext := nx.1
  let dnext := nx.2
  let X := fnext - (Transc.log10 dnext - Transc.log10 dlim) * (fnext - flow) / (Transc.log10 dnext - Transc.log10 dlow)
  let pos := decide (X > (0.0 : α))
  let d0 : FDict α := if pos then [(X, dlim)] else []
  let dmin := if pos then dlim else
    pow10 (Transc.log10 dnext - (Transc.log10 dnext - Transc.log10 dlow) * (fnext - (0.0 : α)) / (fnext - flow))
  let X := if pos then X else (0.0 : α)
  let numDivs := numFracs - pointsLeft - 1
  -- `ceil(num_divs / points_left)`: a negative quotient (more points than fractions) is above -1, so it rounds up to 0 = truncated subtraction
  let between := (numDivs + pointsLeft - 1) / pointsLeft
  let (d, fracSize) := segments between natToα (rest.length + 1) X dmin nx rest d0 (0.0 : α)
  let s := sortF d
  match s.reverse with
  | top :: below :: _ =>
    let fthis := pyMin (top.1 + fracSize) (0.999 : α)
    let logd := logInterp below.1 below.2 top.1 top.2 fthis
    { gsd := sortF (setF d fthis (pow10 logd)), X := X, between := between, branchXpos := pos }
  | _ => { gsd := s, X := X, between := between, branchXpos := pos }

/-- `create_fracs(GSD, Dp, nu, rhol, rhos, num_fracs)` for an input distribution given sorted by fraction (≥ 2 points).
`natToα` converts small naturals (`truncNat`, Python's `int()`, is no longer used since the rounding repair). -/
def createFracs (natToα : Nat → α) (truncNat : α → Nat) (pts : List (α × α)) (Dp nu rhol rhos : α) (numFracs : Nat) : Out α :=
  let _ := truncNat
  match pts with
  | lo :: nx :: rest =>
    let dlim := framework.pseudo_dlim Dp nu rhol rhos
    let sk := skipBelow dlim pts.length lo nx rest (pts.length - 1)
    afterSkip natToα dlim sk.1 sk.2.1 sk.2.2.1 sk.2.2.2 numFracs
  | _ => { gsd := [], X := Transc.nan, between := 0, branchXpos := false }

/-- `Slurry.get_dx(frac)` on a discretised grading: `none` = ValueError (fraction outside (0,1)) -/
def getDx (gsd : FDict α) (frac : α) : Option α :=
  if frac ≤ (0.0 : α) || frac ≥ (1.0 : α) then none
  else if gsd.any (fun p => feq p.1 frac) then some (getF gsd frac)
  else
    let t : InterpTable α := { pts := gsd.map (fun p => (p.1, Transc.log10 p.2)), exLow := true, exHigh := true, tol := (0.001 : α) }
    match t.lookup frac with
    | some l => some (pow10 l)
    | none => none

end
end Spec.Fracs
