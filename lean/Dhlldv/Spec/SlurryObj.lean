/-! Spec (hand-written, executable, no imports): the invalidation logic of `SlurryObj.Slurry` as a state machine.

A state holds the current parameters, the ghost grading shape (D15/D50 and D85/D50 ratios, coded as one number), two
cached artefacts — each stored as the *snapshot of the inputs it was computed from* — and the two dirty flags.
The machine is parametrised by the tables extracted from the class source on every run (tie A):
which flags each setter raises, which parameters each artefact is computed from. -/

namespace Spec.Slurry

structure Cfg where
  raises : List (String × List String)     -- parameter ↦ flags its setter raises ("gsd", "curves")
  readsGsd : List String
  readsCurves : List String
  gsdRaisesCurves : Bool                   -- generate_GSD ends with curves_dirty = True
  curvesChecksGsd : Bool                   -- generate_curves starts with `if GSD_curves_dirty: generate_GSD()`

def Cfg.flags (c : Cfg) (p : String) : List String :=
  match c.raises.find? (fun e => e.1 == p) with
  | some e => e.2
  | none => []

abbrev Vals := String → Nat

def update (f : Vals) (p : String) (v : Nat) : Vals := fun q => if q = p then v else f q

structure St where
  vals : Vals
  shape : Nat                       -- ghost: the grading shape a freshly built object would be given
  gsd : Vals × Nat                  -- inputs the stored grading was computed from (parameters, shape)
  curves : Vals × (Vals × Nat)      -- inputs the stored curves were computed from (parameters, grading inputs)
  dG : Bool
  dC : Bool

inductive Op where
  | set (p : String) (v : Nat)
  | genGsd (shape : Option Nat)      -- generate_GSD(d15_ratio, d85_ratio) / generate_GSD()
  | readGsd                          -- GSD, get_dx, Dmean, pointwise Erhg/im (they go through the guarded getter)
  | readCurves                       -- vls_list, Erhg_curves, im_curves, LDV_curves, LDV85_curves

/-- `generate_GSD`: clears its flag, recovers the shape from the stored grading unless given, rebuilds, dirties the curves -/
def genGsd (c : Cfg) (s : St) (sh : Option Nat) : St :=
  let shape := sh.getD s.gsd.2
  { s with dG := false, shape := shape, gsd := (s.vals, shape), dC := s.dC || c.gsdRaisesCurves }

def ensureGsd (c : Cfg) (s : St) : St := if s.dG then genGsd c s none else s

/-- `generate_curves` -/
def genCurves (c : Cfg) (s : St) : St :=
  let s1 := if c.curvesChecksGsd then ensureGsd c s else s
  { s1 with dC := false, curves := (s1.vals, s1.gsd) }

def step (c : Cfg) (s : St) : Op → St
  | .set p v => { s with vals := update s.vals p v,
                         dG := s.dG || (c.flags p).contains "gsd",
                         dC := s.dC || (c.flags p).contains "curves" }
  | .genGsd sh => genGsd c s sh
  | .readGsd => ensureGsd c s
  | .readCurves => if s.dC then genCurves c s else s

def run (c : Cfg) (s : St) (ops : List Op) : St := ops.foldl (step c) s

/-- the state right after `Slurry(...)`: grading generated from the constructor arguments, curves not yet -/
def init (vals : Vals) (shape : Nat) : St :=
  { vals := vals, shape := shape, gsd := (vals, shape), curves := (vals, (vals, shape)), dG := false, dC := true }

/-- every parameter an artefact is computed from raises that artefact's flag (and the curves flag if the grading reads it),
generate_GSD dirties the curves, generate_curves refreshes a dirty grading first -/
def Adequate (c : Cfg) : Bool :=
  c.readsGsd.all (fun p => (c.flags p).contains "gsd" && (c.flags p).contains "curves") &&
  c.readsCurves.all (fun p => (c.flags p).contains "curves") &&
  c.gsdRaisesCurves && c.curvesChecksGsd

end Spec.Slurry
