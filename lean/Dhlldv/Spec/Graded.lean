import Dhlldv.Prim
import Dhlldv.Gen.Framework

/-! Spec (hand-written, executable) of `DHLLDV_framework.Erhg_graded` for an already discretised grading
(`num_fracs=None`, as the slurry object calls it) and of the slurry object's gradient tables.
Line by line in the operation order of the source; tied to the implementation by the correspondence check (tie X);
the per-fraction uniform-sand selectors are the *generated* `framework.Cvs_Erhg_dict` / `Cvt_Erhg_dict`. -/

namespace Spec

section
variable {α : Type} [Add α] [Sub α] [Mul α] [Div α] [Neg α] [LT α] [LE α]
  [DecidableLT α] [DecidableLE α] [OfScientific α] [Transc α]

structure GradedOut (α : Type) where
  ims : List α
  dxs : List α
  fracs : List α
  im_x : α
  X : α
  rhox : α
  Cv_x : α
  Cv_r : α
  mu_x : α
  nu_x : α
  Rsd_x : α
  erhg_x : α
  erhg : α
  il : α
  im : α

/-- one entry (fraction width, geometric-mean diameter, fraction gradient) per pair of neighbouring nodes -/
def gradedFractions (sel : α → PyDict α) (Rsd_x Cv_r : α) : List (α × α) → List (α × α × α)
  | [] => []
  | [_] => []
  | (f0, d0) :: (f1, d1) :: rest =>
    let logdx := (Transc.log10 d0 + Transc.log10 d1) / (2.0 : α)
    let dx := Transc.rpow (10.0 : α) logdx
    let D := sel dx
    let regime := (D.get "regime").toStr
    let il_x := (D.get "il").toNum
    let i_mxi := (D.get regime).toNum * Rsd_x * Cv_r + il_x
    (f1 - f0, dx, i_mxi) :: gradedFractions sel Rsd_x Cv_r ((f1, d1) :: rest)

/-- Python `sum(f * imxi for …)` (compensated summation of the products, see `pySum`) -/
def weightedSum (l : List (α × α × α)) : α := pySum (l.map fun t => t.1 * t.2.2)

def erhgGraded (cvt use_sf use_sqrtcx : Bool) (gsd : List (α × α)) (vls Dp epsilon nu rhol rhos Cv : α) : GradedOut α :=
  let Rsd := (rhos - rhol) / rhol
  let X := match gsd with
    | [] => Transc.nan
    | p :: _ => p.1
  let rhox := rhol + rhol * (X * Cv * Rsd) / ((1.0 : α) - Cv + Cv * X)
  let Cv_x := (X * Cv) / ((1.0 : α) - Cv + Cv * X)
  let Cv_r := ((1.0 : α) - X) * Cv
  let mu_l := nu * rhol
  let mu_x := mu_l * ((1.0 : α) + (2.5 : α) * Cv_x + (10.05 : α) * Transc.npow Cv_x 2 + (0.00273 : α) * Transc.exp ((16.6 : α) * Cv_x))
  let nu_x := mu_x / rhox
  let Rsd_x := (rhos - rhox) / rhox
  let sel : α → PyDict α := fun dx =>
    if cvt then framework.Cvt_Erhg_dict use_sf use_sqrtcx vls Dp dx epsilon nu_x rhox rhos Cv_r
    else framework.Cvs_Erhg_dict use_sf use_sqrtcx vls Dp dx epsilon nu_x rhox rhos Cv_r
  let frs := gradedFractions sel Rsd_x Cv_r gsd
  let im_x := weightedSum frs / ((1.0 : α) - X)
  let il_x := homogeneous.fluid_head_loss vls Dp epsilon nu_x rhox
  let im := rhox * im_x / rhol
  let il := homogeneous.fluid_head_loss vls Dp epsilon nu rhol
  let erhg := (im - il) / (Rsd * Cv)
  { ims := frs.map (·.2.2), dxs := frs.map (·.2.1), fracs := frs.map (·.1), im_x := im_x, X := X, rhox := rhox,
    Cv_x := Cv_x, Cv_r := Cv_r, mu_x := mu_x, nu_x := nu_x, Rsd_x := Rsd_x,
    erhg_x := (im_x - il_x) / (Rsd_x * Cv_r), erhg := erhg, il := il, im := im }

/-- `Slurry.generate_im_curves`: one gradient table from an excess-gradient table -/
def imCurve (erhg il : List α) (Rsd Cv : α) : List α := List.zipWith (fun e i => e * Rsd * Cv + i) erhg il

/-- the ELM table -/
def elmCurve (il : List α) (rhom : α) : List α := il.map (fun i => i * rhom)

end
end Spec
