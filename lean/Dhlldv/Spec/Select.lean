import Dhlldv.Prim

/-! Spec of the regime selection (hand-written, order-only): the three comparisons of
`DHLLDV_framework.Cvs_Erhg`, over any type with a decidable `<`. -/

namespace Spec

variable {α : Type} [LT α] [DecidableLT α]

/-- regime code chosen from the four model values, with CPython's tie-breaking -/
def selectCode (fb sb he ho : α) : String :=
  let r := if fb < sb then "FB" else "SB"
  let vr := if fb < sb then fb else sb
  let r2 := if vr > he then "He" else r
  let v2 := if vr > he then he else vr
  if v2 < ho then "Ho" else r2

/-- the value of the chosen regime -/
def selectVal (fb sb he ho : α) : α :=
  let vr := if fb < sb then fb else sb
  let v2 := if vr > he then he else vr
  if v2 < ho then ho else v2

def valueOf (fb sb he ho : α) (code : String) : α :=
  if code == "FB" then fb else if code == "SB" then sb else if code == "He" then he else ho

def longName (code : String) : String :=
  strLookup [("FB", "fixed bed"), ("SB", "sliding bed"), ("He", "heterogeneous"), ("Ho", "homogeneous")] code

/-- delivered-concentration adjustment of the regime: never fixed bed -/
def cvtCode (sb he : α) (code : String) : String :=
  if code == "FB" then (if sb < he then "SB" else "He") else code

end Spec
