import Dhlldv.Prim

/-! Spec (hand-written, executable): `PipeObj.Pipeline.calc_system_head`, `update_slurries` and `hydraulic_gradient`.

A pipe section carries, besides its geometry, the two friction gradients the per-diameter slurry returns at this section's
velocity (they are evaluated by the implementation / the generated models; the Spec is about the bookkeeping around them);
a pump carries its two heads at the flow. The accumulation mirrors the source statement by statement. -/

namespace Spec.Pipe

inductive Sec (α : Type) where
  | pipe (D L K dz imv ilv : α)
  | pump (hL hM : α)

section
variable {α : Type} [Add α] [Sub α] [Mul α] [Div α] [Neg α] [LT α] [LE α]
  [DecidableLT α] [DecidableLE α] [OfScientific α] [Transc α]

structure Acc (α : Type) where
  fitM : α
  fitL : α
  fricM : α
  fricL : α
  zM : α
  zL : α
  pM : α
  pL : α
  hv : α

/-- `Pipe.velocity` -/
def velocity (D Q : α) : α := Q / (Transc.npow (D / (2.0 : α)) 2 * Transc.pi)

/-- `Pipe.flow` -/
def flow (D v : α) : α := v * Transc.npow (D / (2.0 : α)) 2 * Transc.pi

def velHead (g D Q : α) : α := Transc.npow (velocity D Q) 2 / ((2.0 : α) * g)

/-- one pass of the `for p in self.pipesections` loop body -/
def stepSec (g rhom rhol Q : α) (a : Acc α) : Sec α → Acc α
  | .pipe D L K dz imv ilv =>
    let hv := velHead g D Q
    let a := { a with fitM := a.fitM + K * hv * rhom, fitL := a.fitL + K * hv * rhol, hv := hv }
    if L > (0.0 : α) then
      { a with zM := a.zM + dz * rhom, zL := a.zL + dz * rhol, fricM := a.fricM + imv * L, fricL := a.fricL + ilv * L }
    else a
  | .pump hL hM => { a with pL := a.pL + hL, pM := a.pM + hM }

/-- suction submergence of a zero-length entrance -/
def z0 (rhol : α) : List (Sec α) → α
  | .pipe _ L _ dz _ _ :: _ => if feq L (0.0 : α) then dz * rhol else (0.0 : α)
  | _ => (0.0 : α)

def accInit (z : α) : Acc α :=
  { fitM := (0.0 : α), fitL := (0.0 : α), fricM := (0.0 : α), fricL := (0.0 : α), zM := z, zL := z,
    pM := (0.0 : α), pL := (0.0 : α), hv := (0.0 : α) }

/-- `calc_system_head`: (system head slurry, system head water, pump head water, pump head slurry) -/
def sysHead (g rhom rhol Q : α) (secs : List (Sec α)) : α × α × α × α :=
  let a := secs.foldl (stepSec g rhom rhol Q) (accInit (z0 rhol secs))
  (a.fricM + a.fitM + a.zM + a.hv * rhom, a.fricL + a.fitL + a.zL + a.hv * rhol, a.pL, a.pM)

/-! ### `hydraulic_gradient` -/

def secLen : Sec α → α
  | .pipe _ L _ _ _ _ => L
  | .pump _ _ => (0.0 : α)

def secLift : Sec α → α
  | .pipe _ _ _ dz _ _ => dz
  | .pump _ _ => (0.0 : α)

/-- Python `sum([...])` of the lengths / lifts of the pipe sections (pumps contribute nothing) -/
def totalOf (f : Sec α → α) (secs : List (Sec α)) : α :=
  pySum ((secs.filter fun s => match s with | .pipe .. => true | .pump .. => false).map f)

/-- the pop-and-append loop of `hydraulic_gradient`, literally: `cur` is the truncated section list (`temp_pl.pipesections`),
the three accumulators are `loc_list`, `head_list_m`, `elev_list` in the order the code appends -/
def gradeLoop (headOf : List (Sec α) → α) : Nat → List (Sec α) → List α × List α × List α → List α × List α × List α
  | 0, _, acc => acc
  | fuel + 1, cur, (locs, heads, elevs) =>
    if cur.length > 1 then
      let cur := cur.dropLast
      gradeLoop headOf fuel cur (locs ++ [totalOf secLen cur], heads ++ [headOf cur], elevs ++ [totalOf secLift cur])
    else (locs, heads, elevs)

/-- `hydraulic_gradient(Q)` for Q > 0: `headOf prefix` = pump head − system head (slurry) of the truncated pipeline -/
def gradeLine (rhol : α) (headOf : List (Sec α) → α) (secs : List (Sec α)) : List α × List α × List α :=
  let (locs, heads, elevs) := gradeLoop headOf secs.length secs ([totalOf secLen secs], [headOf secs], [totalOf secLift secs])
  let lastElev := match elevs.getLast? with
    | some x => x
    | none => Transc.nan
  let locs := locs ++ [(0.0 : α)]
  let heads := heads ++ [lastElev * rhol * (-(1.0 : α))]
  let elevs := elevs ++ [lastElev]
  (locs.reverse, heads.reverse, elevs.reverse)

end

/-! ### `update_slurries` (over abstract slurry parameter sets) -/

/-- a slurry is its parameter set `p` (everything but the pipe diameter) and its diameter, coded as naturals -/
structure Slurry where
  p : Nat
  dp : Nat
deriving DecidableEq, Repr

inductive PSec where
  | pipe (d : Nat)
  | pump (slurry : Slurry)
deriving DecidableEq, Repr

structure PL where
  secs : List PSec
  main : Slurry
  slurries : List (Nat × Slurry)      -- per-diameter copies, in insertion order
deriving DecidableEq, Repr

def lookupD (m : List (Nat × Slurry)) (d : Nat) : Option Slurry :=
  match m.find? (fun e => e.1 == d) with
  | some e => some e.2
  | none => none

/-- the dict built by the loop of `update_slurries` -/
def buildSlurries (main : Slurry) : List PSec → List (Nat × Slurry) → List (Nat × Slurry)
  | [], m => m
  | .pipe d :: rest, m => if (lookupD m d).isSome then buildSlurries main rest m else buildSlurries main rest (m ++ [(d, { main with dp := d })])
  | .pump _ :: rest, m => buildSlurries main rest m

def lastDia : List PSec → Option Nat
  | [] => none
  | [.pipe d] => some d
  | [.pump _] => none
  | _ :: rest => lastDia rest

/-- `update_slurries`: per-diameter copies, every pump pointed at the pipeline slurry, and the pipeline slurry's own diameter moved to the
last section's diameter if it is not one of the pipeline's diameters -/
def updateSlurries (pl : PL) : PL :=
  let m := buildSlurries pl.main pl.secs []
  let secs : List PSec := pl.secs.map fun s => match s with
    | .pipe d => PSec.pipe d
    | .pump _ => PSec.pump pl.main
  let main := if (lookupD m pl.main.dp).isSome then pl.main else
    match lastDia pl.secs with
    | some d => { pl.main with dp := d }
    | none => pl.main
  -- pumps hold a reference to the pipeline slurry object, so they see the diameter change too
  let secs : List PSec := secs.map fun s => match s with
    | .pipe d => PSec.pipe d
    | .pump _ => PSec.pump main
  { secs := secs, main := main, slurries := m }

/-- what `calc_system_head` does to the objects before it sums: every pump in the line is pointed at the pipeline slurry (a pump object may also be
part of another pipeline, whose slurry it held until now); nothing else changes -/
def bindPumps (pl : PL) : PL :=
  { pl with secs := pl.secs.map fun s => match s with
      | .pipe d => PSec.pipe d
      | .pump _ => PSec.pump pl.main }

/-- `Pipeline.Cv = c` / `Pipeline.slurry = s` (the parameter set changes, then `update_slurries`) -/
def setParams (pl : PL) (p : Nat) : PL := updateSlurries { pl with main := { pl.main with p := p } }
def setSlurry (pl : PL) (s : Slurry) : PL := updateSlurries { pl with main := s }

end Spec.Pipe
