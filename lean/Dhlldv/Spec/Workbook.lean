/-! Spec (hand-written, executable, no imports): the abstract workbook and the decision logic of
`load_pump_excel.validate_excel` / `load_pipeline_from_workbook`.

A workbook is what openpyxl exposes to the loader, abstracted: per sheet its title, its worksheet-scope defined names (each a single cell
with a value class, or a table with its header row), the pump references in its pipe table and the value of its `limited` cell.
`load` mirrors the order of the checks in the source; `Conforms` is the declarative statement of "well-formed". The table of required
sheets / fields / columns is the one extracted from the source on every run. -/

namespace Spec.Workbook

/-- value class of a single cell -/
inductive Val where
  | num            -- int or float (bool is an int in Python)
  | str (s : String)
  | blank
deriving DecidableEq, Repr

inductive Named where
  | cell (v : Val)
  | table (header : List String)        -- lower-cased header row
deriving DecidableEq, Repr

structure Sheet where
  title : String                          -- lower-cased
  names : List (String × Named)
  pumpRefs : List String                  -- lower-cased entries of the pipe table's name column that contain "pump"
deriving DecidableEq, Repr

abbrev WB := List Sheet

structure Req where
  type : String
  required : Bool
  scalars : List (String × Bool)          -- field, numeric?
  tables : List (String × List (List String))

inductive Err where
  | invalidExcel (why : String)
  | other (cls : String)                  -- an exception class the validator does not convert
deriving DecidableEq, Repr

/-- substring test -/
def has (s sub : String) : Bool := (s.splitOn sub).length > 1

def typesOf (reqs : List Req) (title : String) : List Req := reqs.filter (fun r => has title r.type)

def lookupName (s : Sheet) (n : String) : Option Named :=
  match s.names.find? (fun e => e.1 == n) with
  | some e => some e.2
  | none => none

def ok : Except Err Unit := .ok ()

/-- first error in source order (what a sequence of raising checks does) -/
def firstErr : List (Except Err Unit) → Except Err Unit
  | [] => ok
  | .ok _ :: rest => firstErr rest
  | .error e :: _ => .error e

def missing (caught : Bool) (what : String) : Except Err Unit :=
  .error (if caught then .invalidExcel ("missing " ++ what) else .other "KeyError")

/-- one single-value field of `validate_excel_fields`; `caught`: does the validator convert the container's KeyError for a missing
name into InvalidExcelError (extracted from the `except` clause)? -/
def scalarCheck (caught : Bool) (s : Sheet) (f : String × Bool) : Except Err Unit :=
  match lookupName s f.1 with
  | none => missing caught f.1
  | some (.table _) => ok            -- a range where a cell is expected: only numeric single cells are type-checked
  | some (.cell v) => if f.2 && v != .num then .error (.invalidExcel ("non-numeric " ++ f.1)) else ok

def matching (header : List String) (c : List String) : List String := header.filter (fun h => c.all (fun sub => has h sub))

/-- one table of `validate_excel_fields`: exactly one header cell per required column -/
def tableCheck (caught : Bool) (s : Sheet) (t : String × List (List String)) : List (Except Err Unit) :=
  match lookupName s t.1 with
  | none => [missing caught t.1]
  | some (.cell _) => [.error (.other "TypeError")]
  | some (.table header) => t.2.map fun c =>
      if (matching header c).length == 1 then ok else .error (.invalidExcel "missing or duplicated column")

def fieldChecks (sc tc : Bool) (r : Req) (s : Sheet) : List (Except Err Unit) :=
  r.scalars.map (scalarCheck sc s) ++ (r.tables.map (tableCheck tc s)).flatten

def tabChecks (reqs : List Req) (wb : WB) : List (Except Err Unit) :=
  reqs.map fun r => if r.required && (wb.filter (fun s => has s.title r.type)).length != 1
    then .error (.invalidExcel ("missing tab " ++ r.type)) else ok

def sheetChecks (sc tc : Bool) (reqs : List Req) (wb : WB) : List (Except Err Unit) :=
  (wb.map fun s => match typesOf reqs s.title with
    | [r] => fieldChecks sc tc r s
    | _ => []).flatten

def removeSuffix (s suf : String) : String := if s.endsWith suf then (s.dropEnd suf.length).toString else s

/-- the loader's own sheet classification (first match of pipeline / pump / driver / slurry) -/
def isPumpSheet (s : Sheet) : Bool := !has s.title "pipeline" && has s.title "pump"
def pumpKeys (wb : WB) : List String := (wb.filter isPumpSheet).map (fun s => removeSuffix s.title "pump")
def driverKeys (wb : WB) : List String :=
  (wb.filter (fun s => !has s.title "pipeline" && !has s.title "pump" && has s.title "driver")).map (fun s => removeSuffix s.title "driver")

def limitedOf (s : Sheet) : String :=
  match lookupName s "limited" with
  | some (.cell (.str v)) => v
  | _ => ""

/-- load-time: a curve-limited pump needs its driver tab (`checked`: the source raises InvalidExcelError; otherwise it loads silently) -/
def curveChecks (checked : Bool) (wb : WB) : List (Except Err Unit) :=
  (wb.filter isPumpSheet).map fun s =>
    if limitedOf s == "curve" && !(driverKeys wb).contains (removeSuffix s.title "pump") && checked
    then .error (.invalidExcel "curve-limited pump without driver tab") else ok

/-- load-time: every pump named in the pipe table needs a pump tab -/
def refChecks (checked : Bool) (wb : WB) : List (Except Err Unit) :=
  ((wb.filter (fun s => has s.title "pipeline")).map fun s => s.pumpRefs.map fun ref =>
    if (pumpKeys wb).contains (removeSuffix ref "pump") then ok
    else .error (if checked then .invalidExcel "pump without tab" else .other "KeyError")).flatten

/-- all checks of `load_pipeline_from_workbook` in source order: validation (tabs, then fields per sheet), then the load-time checks -/
def checks (sc tc dangling curve : Bool) (reqs : List Req) (wb : WB) : List (Except Err Unit) :=
  tabChecks reqs wb ++ sheetChecks sc tc reqs wb ++ curveChecks curve wb ++ refChecks dangling wb

def load (sc tc dangling curve : Bool) (reqs : List Req) (wb : WB) : Except Err Unit :=
  firstErr (checks sc tc dangling curve reqs wb)

def isInvalidExcel : Except Err Unit → Bool
  | .error (.invalidExcel _) => true
  | _ => false

def isOk : Except Err Unit → Bool
  | .ok _ => true
  | _ => false

/-! ### declarative well-formedness -/

def fieldsOk (r : Req) (s : Sheet) : Bool :=
  r.scalars.all (fun f => match lookupName s f.1 with
    | none => false
    | some (.table _) => true
    | some (.cell v) => !(f.2 && v != .num)) &&
  r.tables.all (fun t => match lookupName s t.1 with
    | some (.table header) => t.2.all (fun c => (matching header c).length == 1)
    | _ => false)

/-- a workbook is well-formed iff: every required tab exists exactly once; every sheet of a single type has every required defined name,
numeric single-value fields hold numbers, every table has exactly one column per required header; every curve-limited pump has its
driver tab; every pump named in the pipe table has its pump tab -/
def Conforms (reqs : List Req) (wb : WB) : Bool :=
  reqs.all (fun r => !(r.required && (wb.filter (fun s => has s.title r.type)).length != 1)) &&
  wb.all (fun s => match typesOf reqs s.title with
    | [r] => fieldsOk r s
    | _ => true) &&
  (wb.filter isPumpSheet).all (fun s => !(limitedOf s == "curve" && !(driverKeys wb).contains (removeSuffix s.title "pump"))) &&
  (wb.filter (fun s => has s.title "pipeline")).all (fun s => s.pumpRefs.all (fun ref => (pumpKeys wb).contains (removeSuffix ref "pump")))

end Spec.Workbook
