import Mathlib.Analysis.Complex.Trigonometric
import Mathlib.Analysis.Real.Pi.Bounds
import Mathlib.Tactic.Ring
import Mathlib.Tactic.NormNum
import Mathlib.Tactic.Linarith

/-! # A certified enclosure of `Real.sin` by the partial sums of its series

`|sin t − Σ_{k<n} (−1)^k t^(2k+1)/(2k+1)!| ≤ 2 |t|^(2n)/(2n)!` whenever `|t| ≤ (2n+1)/2` — from Mathlib's bound on the
exponential series (`Complex.exp_bound'`) at `x = t·i`. Used by `Props/C19` to decide the table-node accuracy clause as a theorem about
the regenerated table (33 evaluations at rational points). -/

open Finset

namespace SinEncl

/-- partial sum of the sine series -/
noncomputable def sinPoly (n : ℕ) (t : ℝ) : ℝ := ∑ k ∈ range n, (-1) ^ k * t ^ (2 * k + 1) / ((2 * k + 1).factorial : ℝ)

theorem even_term (n : ℕ) (t : ℝ) : ((((t : ℂ) * Complex.I) ^ (2 * n)) / ((2 * n).factorial : ℂ)).im = 0 := by
  have : (((t : ℂ) * Complex.I) ^ (2 * n)) / ((2 * n).factorial : ℂ) = (((-1) ^ n * t ^ (2 * n) / ((2 * n).factorial : ℝ) : ℝ) : ℂ) := by
    rw [mul_pow, pow_mul Complex.I, Complex.I_sq]; push_cast; ring
  rw [this, Complex.ofReal_im]

theorem odd_term (n : ℕ) (t : ℝ) :
    ((((t : ℂ) * Complex.I) ^ (2 * n + 1)) / ((2 * n + 1).factorial : ℂ)).im = (-1) ^ n * t ^ (2 * n + 1) / ((2 * n + 1).factorial : ℝ) := by
  have : (((t : ℂ) * Complex.I) ^ (2 * n + 1)) / ((2 * n + 1).factorial : ℂ)
      = (((-1) ^ n * t ^ (2 * n + 1) / ((2 * n + 1).factorial : ℝ) : ℝ) : ℂ) * Complex.I := by
    rw [mul_pow, pow_succ Complex.I, pow_mul Complex.I, Complex.I_sq]; push_cast; ring
  rw [this, Complex.mul_im, Complex.ofReal_re, Complex.ofReal_im, Complex.I_im, Complex.I_re]; ring

theorem im_sum (n : ℕ) (t : ℝ) :
    (∑ m ∈ range (2 * n), ((t : ℂ) * Complex.I) ^ m / (m.factorial : ℂ)).im = sinPoly n t := by
  induction n with
  | zero => simp [sinPoly]
  | succ n ih =>
    rw [show 2 * (n + 1) = 2 * n + 1 + 1 by ring, sum_range_succ, sum_range_succ, Complex.add_im, Complex.add_im, ih,
      even_term, odd_term, sinPoly, sinPoly, sum_range_succ]
    ring

/-- the enclosure -/
theorem sin_sub_sinPoly_le (n : ℕ) (t : ℝ) (h : |t| / ((2 * n : ℕ).succ : ℝ) ≤ 1 / 2) :
    |Real.sin t - sinPoly n t| ≤ |t| ^ (2 * n) / ((2 * n).factorial : ℝ) * 2 := by
  have hn : ‖(t : ℂ) * Complex.I‖ = |t| := by simp
  have hb := Complex.exp_bound' (x := (t : ℂ) * Complex.I) (n := 2 * n) (by rw [hn]; exact h)
  rw [hn] at hb
  have him : (Complex.exp ((t : ℂ) * Complex.I) - ∑ m ∈ range (2 * n), ((t : ℂ) * Complex.I) ^ m / (m.factorial : ℂ)).im
      = Real.sin t - sinPoly n t := by
    rw [Complex.sub_im, im_sum, Complex.exp_ofReal_mul_I_im]
  rw [← him]
  exact (Complex.abs_im_le_norm _).trans hb

end SinEncl

namespace SinEncl

/-- the enclosure for a non-negative argument, in the form the node check uses -/
theorem sin_encl (n : ℕ) (t : ℝ) (h0 : 0 ≤ t) (h : t / ((2 * n : ℕ).succ : ℝ) ≤ 1 / 2) :
    |Real.sin t - sinPoly n t| ≤ t ^ (2 * n) / ((2 * n).factorial : ℝ) * 2 := by
  have := sin_sub_sinPoly_le n t (by rwa [abs_of_nonneg h0])
  rwa [abs_of_nonneg h0] at this

theorem mul_between (c lo hi p x : ℝ) (hlo : lo < p) (hhi : p < hi) (h1 : c * lo < x) (h2 : c * hi < x) : c * p < x := by
  rcases le_total 0 c with h | h
  · nlinarith
  · nlinarith

theorem between_mul (c lo hi p x : ℝ) (hlo : lo < p) (hhi : p < hi) (h1 : x < c * lo) (h2 : x < c * hi) : x < c * p := by
  rcases le_total 0 c with h | h
  · nlinarith
  · nlinarith

/-- one table node: the tabulated half-angle `b` reproduces the area fraction `a` of the circular segment within `tol`, given an enclosure
`s ± e` of `sin (2 b)` and four rational inequalities (π enters through 3.141592 < π < 3.141593) -/
theorem node_ok (a b s e tol : ℝ) (hs : |Real.sin (2 * b) - s| ≤ e)
    (h1 : (a - tol) * 3.141592 < b - (s + e) / 2) (h2 : (a - tol) * 3.141593 < b - (s + e) / 2)
    (h3 : b - (s - e) / 2 < (a + tol) * 3.141592) (h4 : b - (s - e) / 2 < (a + tol) * 3.141593) :
    |a - (b - Real.sin b * Real.cos b) / Real.pi| < tol := by
  have hpi := Real.pi_pos
  have hlo := Real.pi_gt_d6
  have hhi := Real.pi_lt_d6
  have h2b : Real.sin b * Real.cos b = Real.sin (2 * b) / 2 := by rw [Real.sin_two_mul]; ring
  obtain ⟨hs1, hs2⟩ := abs_le.mp hs
  have hA := mul_between (a - tol) 3.141592 3.141593 Real.pi (b - (s + e) / 2) hlo hhi h1 h2
  have hB := between_mul (a + tol) 3.141592 3.141593 Real.pi (b - (s - e) / 2) hlo hhi h3 h4
  have hN1 : (a - tol) < (b - Real.sin (2 * b) / 2) / Real.pi := by rw [lt_div_iff₀ hpi]; linarith
  have hN2 : (b - Real.sin (2 * b) / 2) / Real.pi < a + tol := by rw [div_lt_iff₀ hpi]; linarith
  rw [h2b, abs_lt]
  constructor <;> linarith

end SinEncl
