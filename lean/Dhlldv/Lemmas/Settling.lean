import Dhlldv.Lemmas.Envelope
import Mathlib.Tactic.FieldSimp
import Mathlib.Tactic.Ring

/-! Monotonicity of the Ruby & Zanke settling velocity in grain size and in relative density. -/

open Real

/-- closed form used for the analysis: vt = 10 ν (√(1 + a d³) − 1)/d with a = Rsd g / (100 ν²) -/
theorem vt_ruby_form (d Rsd nu K : ℝ) :
    heterogeneous.vt_ruby d Rsd nu K = 10 * nu / d * (Real.sqrt (1 + Rsd * (Cst.gravity : ℝ) * d ^ 3 / (100 * nu ^ 2)) - 1) := by
  rw [vt_ruby_canon]
  have h05 : (0.5:ℝ) = 1 / 2 := by norm_num
  rw [h05, ← Real.sqrt_eq_rpow]

/-- strictly increasing in the relative submerged density -/
theorem vt_ruby_mono_Rsd (d R1 R2 nu K : ℝ) (hd : 0 < d) (hn : 0 < nu) (h0 : 0 ≤ R1) (h12 : R1 < R2) :
    heterogeneous.vt_ruby d R1 nu K < heterogeneous.vt_ruby d R2 nu K := by
  rw [vt_ruby_form, vt_ruby_form]
  have hg : (0:ℝ) < Cst.gravity := by unfold Cst.gravity; norm_num
  have hc : 0 < 10 * nu / d := by positivity
  have hlt : 1 + R1 * (Cst.gravity : ℝ) * d ^ 3 / (100 * nu ^ 2) < 1 + R2 * (Cst.gravity : ℝ) * d ^ 3 / (100 * nu ^ 2) := by
    have : R1 * (Cst.gravity : ℝ) * d ^ 3 / (100 * nu ^ 2) < R2 * (Cst.gravity : ℝ) * d ^ 3 / (100 * nu ^ 2) := by
      apply div_lt_div_of_pos_right _ (by positivity)
      have : 0 < (Cst.gravity : ℝ) * d ^ 3 := by positivity
      nlinarith
    linarith
  have hs := Real.sqrt_lt_sqrt (by positivity) hlt
  nlinarith

/-- strictly increasing in the grain size -/
theorem vt_ruby_mono_d (d1 d2 Rsd nu K : ℝ) (h1 : 0 < d1) (h12 : d1 < d2) (hR : 0 < Rsd) (hn : 0 < nu) :
    heterogeneous.vt_ruby d1 Rsd nu K < heterogeneous.vt_ruby d2 Rsd nu K := by
  rw [vt_ruby_form, vt_ruby_form]
  have hg : (0:ℝ) < Cst.gravity := by unfold Cst.gravity; norm_num
  have h2 : 0 < d2 := lt_trans h1 h12
  set a := Rsd * (Cst.gravity : ℝ) / (100 * nu ^ 2) with ha
  have hapos : 0 < a := by positivity
  have e1 : 1 + Rsd * (Cst.gravity : ℝ) * d1 ^ 3 / (100 * nu ^ 2) = 1 + a * d1 ^ 3 := by rw [ha]; ring
  have e2 : 1 + Rsd * (Cst.gravity : ℝ) * d2 ^ 3 / (100 * nu ^ 2) = 1 + a * d2 ^ 3 := by rw [ha]; ring
  rw [e1, e2]
  set t1 := Real.sqrt (1 + a * d1 ^ 3) with ht1
  set t2 := Real.sqrt (1 + a * d2 ^ 3) with ht2
  have s1 : t1 ^ 2 = 1 + a * d1 ^ 3 := Real.sq_sqrt (by positivity)
  have s2 : t2 ^ 2 = 1 + a * d2 ^ 3 := Real.sq_sqrt (by positivity)
  have p1 : 0 < a * d1 ^ 3 := by positivity
  have p2 : 0 < a * d2 ^ 3 := by positivity
  have t1ge : 1 < t1 := by
    rw [ht1, Real.lt_sqrt (by norm_num)]; linarith
  have t2ge : 1 < t2 := by
    rw [ht2, Real.lt_sqrt (by norm_num)]; linarith
  -- (t − 1)/d = a d² / (t + 1)
  have f1 : (t1 - 1) / d1 = a * d1 ^ 2 / (t1 + 1) := by
    rw [div_eq_div_iff h1.ne' (by linarith)]; nlinarith
  have f2 : (t2 - 1) / d2 = a * d2 ^ 2 / (t2 + 1) := by
    rw [div_eq_div_iff h2.ne' (by linarith)]; nlinarith
  have goal : (t1 - 1) / d1 < (t2 - 1) / d2 := by
    rw [f1, f2, div_lt_div_iff₀ (by linarith) (by linarith)]
    -- a d1² (t2 + 1) < a d2² (t1 + 1)
    have key : d1 ^ 2 * (t2 + 1) < d2 ^ 2 * (t1 + 1) := by
      -- suffices t2 < R with R = (d2/d1)² (t1+1) − 1, compare squares
      by_contra hcon
      push_neg at hcon
      -- from hcon: d2² (t1+1) ≤ d1² (t2+1); square-free argument via the polynomial identity
      have hA : d2 ^ 2 * (t1 + 1) - d1 ^ 2 ≤ d1 ^ 2 * t2 := by linarith
      have hApos : 0 < d2 ^ 2 * (t1 + 1) - d1 ^ 2 := by nlinarith [sq_pos_of_pos h1, sq_pos_of_pos h2, mul_pos h1 h2]
      have hsq : (d2 ^ 2 * (t1 + 1) - d1 ^ 2) ^ 2 ≤ (d1 ^ 2 * t2) ^ 2 := by
        apply sq_le_sq' <;> nlinarith [sq_nonneg t2]
      -- (d1² t2)² = d1⁴ (1 + a d2³); left side expands; contradiction with (r−1)(t1 r + r + 2) > 0
      have ex : (d1 ^ 2 * t2) ^ 2 = d1 ^ 4 * (1 + a * d2 ^ 3) := by rw [mul_pow, s2]; ring
      rw [ex] at hsq
      have a1 : a * d1 ^ 3 = t1 ^ 2 - 1 := by linarith
      -- multiply the target inequality through by d1^3 to eliminate a
      have hd1 : 0 < d1 ^ 3 := by positivity
      have : d1 ^ 3 * (d2 ^ 2 * (t1 + 1) - d1 ^ 2) ^ 2 ≤ d1 ^ 3 * (d1 ^ 4 * (1 + a * d2 ^ 3)) := mul_le_mul_of_nonneg_left hsq hd1.le
      have e3 : d1 ^ 3 * (d1 ^ 4 * (1 + a * d2 ^ 3)) = d1 ^ 4 * (d1 ^ 3 + (t1 ^ 2 - 1) * d2 ^ 3) := by rw [← a1]; ring
      rw [e3] at this
      -- difference = d1³ d2² (t1+1) (d2 − d1) (t1 d2 + d2 + 2 d1) > 0
      have pos : 0 < d1 ^ 3 * d2 ^ 2 * (t1 + 1) * (d2 - d1) * (t1 * d2 + d2 + 2 * d1) := by
        have : 0 < d2 - d1 := by linarith
        positivity
      nlinarith [pos]
    have : a * d1 ^ 2 * (t2 + 1) = a * (d1 ^ 2 * (t2 + 1)) := by ring
    have : a * d2 ^ 2 * (t1 + 1) = a * (d2 ^ 2 * (t1 + 1)) := by ring
    nlinarith
  have hc : 0 < 10 * nu := by positivity
  have e : ∀ (d t : ℝ), 10 * nu / d * (t - 1) = 10 * nu * ((t - 1) / d) := by intro d t; ring
  rw [e, e]
  exact mul_lt_mul_of_pos_left goal hc
