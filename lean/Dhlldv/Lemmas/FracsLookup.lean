import Dhlldv.Lemmas.FracsLine
import Dhlldv.Lemmas.InterpMonoInc

/-! The lookup over a sorted table whose nodes up to some key b lie on one straight line returns the value of that line everywhere up to b.
Together with `afterSkip_online` this lifts the one-segment reproduction lemma to the lookup over the whole discretised grading. -/

namespace Interp

/-- a straight line through two points of an affine function is that function -/
theorem lineAt_affine (A Bc x1 x2 x : ℝ) (h : x1 ≠ x2) : lineAt x1 (A + Bc * x1) x2 (A + Bc * x2) x = A + Bc * x := by
  unfold lineAt
  have : x2 - x1 ≠ 0 := sub_ne_zero.2 (Ne.symm h)
  field_simp
  ring

/-- along an increasing chain every later key exceeds the head key -/
theorem last_ge_mem (l : List (ℝ × ℝ)) : ∀ (q : ℝ × ℝ), Inc q l → ∀ r ∈ l, q.1 < r.1 := by
  induction l with
  | nil => intro q _ r hr; simp at hr
  | cons t rest ih =>
    intro q h r hr
    obtain ⟨h1, _, h3⟩ := h
    rcases List.mem_cons.1 hr with e | e
    · rw [e]; exact h1
    · exact lt_trans h1 (ih t h3 r e)

theorem F_line (A Bc b : ℝ) (l : List (ℝ × ℝ)) : ∀ (p : ℝ × ℝ) (x : ℝ), Inc p l →
    (∀ q ∈ p :: l, q.1 ≤ b → q.2 = A + Bc * q.1) → (∃ q ∈ p :: l, q.1 = b) → p.1 ≤ x → x ≤ b →
    F p l x = some (A + Bc * x) := by
  induction l with
  | nil =>
    intro p x _ hon hkey h1 h2
    obtain ⟨q, hq, hqb⟩ := hkey
    simp only [List.mem_singleton] at hq
    rw [hq] at hqb
    have hx : x = p.1 := le_antisymm (by linarith) h1
    have := hon p List.mem_cons_self (by linarith)
    simp [F, hx, this]
  | cons q rest ih =>
    intro p x hinc hon hkey h1 h2
    obtain ⟨hk, hv, hd⟩ := hinc
    have hp2 : p.2 = A + Bc * p.1 := hon p List.mem_cons_self (by linarith)
    by_cases hxq : x ≤ q.1
    · rw [F_first_segment p q rest x hk h1 hxq]
      by_cases hqb : q.1 ≤ b
      · have hq2 : q.2 = A + Bc * q.1 := hon q (List.mem_cons_of_mem _ List.mem_cons_self) hqb
        rw [hp2, hq2, lineAt_affine A Bc p.1 q.1 x (ne_of_lt hk)]
      · -- the key b lies left of q.1: it is p.1, so x = p.1
        push Not at hqb
        obtain ⟨r, hr, hrb⟩ := hkey
        have hrp : r = p := by
          rcases List.mem_cons.1 hr with e | e
          · exact e
          · exfalso
            have : q.1 ≤ r.1 := by
              rcases List.mem_cons.1 e with e2 | e2
              · rw [e2]
              · have := (last_ge_mem rest q hd r e2); linarith
            linarith
        rw [hrp] at hrb
        have hx : x = p.1 := le_antisymm (by linarith) h1
        rw [hx, lineAt_left, hp2]
    · push Not at hxq
      rw [F_tail p q rest x hk hxq.le]
      apply ih q x hd (fun r hr hrb => hon r (List.mem_cons_of_mem _ hr) hrb) _ hxq.le h2
      obtain ⟨r, hr, hrb⟩ := hkey
      rcases List.mem_cons.1 hr with e | e
      · exfalso; rw [e] at hrb; linarith
      · exact ⟨r, e, hrb⟩

/-- the last point of an increasing chain has the largest key -/
theorem lastPt_ge_mem (l : List (ℝ × ℝ)) : ∀ (p : ℝ × ℝ), Inc p l → ∀ r ∈ p :: l, r.1 ≤ (lastPt p l).1 := by
  induction l with
  | nil => intro p _ r hr; simp only [List.mem_singleton] at hr; rw [hr]; simp [lastPt]
  | cons q rest ih =>
    intro p h r hr
    obtain ⟨h1, _, h3⟩ := h
    simp only [lastPt]
    rcases List.mem_cons.1 hr with e | e
    · rw [e]; exact le_trans h1.le (ih q h3 q List.mem_cons_self)
    · exact ih q h3 r e

end Interp

namespace Spec.Fracs

/-- the table the diameter lookup interpolates in: (fraction, log10 diameter) -/
noncomputable def logPt (p : ℝ × ℝ) : ℝ × ℝ := (p.1, Transc.log10 p.2)

theorem inc_map (l : FDict ℝ) : ∀ (p : ℝ × ℝ), StrictKeys (p :: l) → Mono (p :: l) → Pos (p :: l) → Interp.Inc (logPt p) (l.map logPt) := by
  induction l with
  | nil => intro p _ _ _; simp [Interp.Inc]
  | cons q rest ih =>
    intro p hs hm hp
    have hs' := List.pairwise_cons.1 hs
    have hpq : p.1 < q.1 := hs'.1 q List.mem_cons_self
    simp only [List.map_cons, Interp.Inc, logPt]
    refine ⟨hpq, log10_lt (hp p List.mem_cons_self) (hm p List.mem_cons_self q (List.mem_cons_of_mem _ List.mem_cons_self) hpq), ?_⟩
    exact ih q hs'.2 (fun a ha b hb hab => hm a (List.mem_cons_of_mem _ ha) b (List.mem_cons_of_mem _ hb) hab) (fun a ha => hp a (List.mem_cons_of_mem _ ha))

/-- a tabulated fraction: the stored diameter of a node with that fraction is returned -/
theorem getF_of_any (d : FDict ℝ) (k : ℝ) (h : d.any (fun p => feq p.1 k) = true) : (k, getF d k) ∈ d := by
  induction d with
  | nil => simp at h
  | cons a rest ih =>
    obtain ⟨k', v'⟩ := a
    unfold getF
    by_cases hk : feq k' k = true
    · rw [if_pos hk]
      have : k' = k := (feq_iff_eq k' k).1 hk
      rw [this]; exact List.mem_cons_self
    · rw [if_neg hk]
      have hrest : rest.any (fun p => feq p.1 k) = true := by
        simp only [List.any_cons, Bool.or_eq_true] at h
        rcases h with h | h
        · exact absurd h hk
        · exact h
      exact List.mem_cons_of_mem _ (ih hrest)

end Spec.Fracs
