import Dhlldv.Lemmas.FracsMono

/-! The discretised grading has at least the requested number of nodes: every key the loops insert is new, so the dict grows by one node per
insertion; the rounded-up number of interpolated points per segment makes (points left) × (between + 1) ≥ num_fracs − 1. -/

namespace Spec.Fracs

theorem setF_length_new (d : FDict ℝ) (k v c w : ℝ) (hb : Below d c w) (hk : c < k) : (setF d k v).length = d.length + 1 := by
  induction d with
  | nil => simp [setF]
  | cons a rest ih =>
    unfold setF
    have hne : ¬ feq a.1 k = true := by
      rw [feq_iff_eq]; intro e
      have := (hb a List.mem_cons_self).1
      rw [e] at this; linarith
    rw [if_neg hne]
    simp only [List.length_cons]
    rw [ih (fun p hp => hb p (List.mem_cons_of_mem _ hp))]

theorem subdivide_len (flow dlow fnext dnext fs : ℝ) (hg : StrictMono (seg flow dlow fnext dnext)) (hfs : 0 < fs) :
    ∀ (n : Nat) (fthis : ℝ) (d : FDict ℝ), Mono d → Below d fthis (seg flow dlow fnext dnext fthis) →
      (subdivide flow dlow fnext dnext fs n fthis d).length = d.length + n := by
  intro n
  induction n with
  | zero => intro fthis d _ _; simp [subdivide]
  | succ k ih =>
    intro fthis d hm hb
    unfold subdivide
    have hstep := setF_mono_below d (fthis + fs) (seg flow dlow fnext dnext (fthis + fs)) fthis (seg flow dlow fnext dnext fthis) hm hb
      (by linarith) (hg (by linarith))
    have hl := setF_length_new d (fthis + fs) (seg flow dlow fnext dnext (fthis + fs)) fthis _ hb (by linarith)
    have := ih (fthis + fs) _ hstep.1 hstep.2
    show (subdivide flow dlow fnext dnext fs k (fthis + fs) (setF d (fthis + fs) (seg flow dlow fnext dnext (fthis + fs)))).length = d.length + (k + 1)
    rw [this, hl]; omega

theorem segments_len (between : Nat) : ∀ (fuel : Nat) (flow dlow : ℝ) (nx : ℝ × ℝ) (rest : List (ℝ × ℝ)) (d : FDict ℝ) (fs : ℝ),
    rest.length < fuel → 0 ≤ flow → Mono d → Below d flow dlow → StrictOK flow dlow nx rest →
    (segments between (fun n : Nat => (n : ℝ)) fuel flow dlow nx rest d fs).1.length = d.length + (rest.length + 1) * (between + 1) := by
  intro fuel
  induction fuel with
  | zero => intro flow dlow nx rest d fs hl _ _ _ _; exact absurd hl (Nat.not_lt_zero _)
  | succ k ih =>
    intro flow dlow nx rest d fs hl h0 hm hb hok
    obtain ⟨hf, hd, hd0, hch⟩ := hok
    unfold segments
    have hb1 : (0:ℝ) < ((between + 1 : ℕ) : ℝ) := by positivity
    have hfs : 0 < (nx.1 - flow) / ((between + 1 : ℕ) : ℝ) := div_pos (by linarith) hb1
    have hg := seg_strictMono flow dlow nx.1 nx.2 hf hd0 hd
    have hb' : Below d flow (seg flow dlow nx.1 nx.2 flow) := by rw [seg_left flow dlow nx.1 nx.2 hf hd0]; exact hb
    have hsub := subdivide_mono flow dlow nx.1 nx.2 _ hg hfs between flow d hm hb'
    have hsl := subdivide_len flow dlow nx.1 nx.2 _ hg hfs between flow d hm hb'
    have hlast : flow + (between : ℝ) * ((nx.1 - flow) / ((between + 1 : ℕ) : ℝ)) < nx.1 := by
      have : (between : ℝ) * ((nx.1 - flow) / ((between + 1 : ℕ) : ℝ)) < nx.1 - flow := by
        rw [mul_div_assoc', div_lt_iff₀ hb1]
        push_cast
        nlinarith
      linarith
    have hval : seg flow dlow nx.1 nx.2 (flow + (between : ℝ) * ((nx.1 - flow) / ((between + 1 : ℕ) : ℝ))) < nx.2 := by
      have := hg hlast
      rw [seg_right flow dlow nx.1 nx.2 (by linarith)] at this
      exact this
    have hnode := setF_mono_below _ nx.1 nx.2 _ _ hsub.1 hsub.2 hlast hval
    have hnl := setF_length_new _ nx.1 nx.2 _ _ hsub.2 hlast
    cases rest with
    | nil =>
      simp only [List.length_nil, zero_add, one_mul]
      rw [hnl, hsl]; omega
    | cons t rest' =>
      simp only
      have hch' := List.isChain_cons_cons.1 hch
      have ht0 : ¬ feq t.1 (0.0 : ℝ) = true := by
        rw [feq_iff_eq]
        intro e
        have : 0 < t.1 := by linarith [hch'.1.1]
        rw [e] at this; norm_num at this
      rw [if_neg ht0]
      rw [ih nx.1 nx.2 t rest' _ _ (by simp only [List.length_cons] at hl; omega) (by linarith) hnode.1 hnode.2
        ⟨hch'.1.1, hch'.1.2, by linarith, hch'.2⟩, hnl, hsl]
      simp only [List.length_cons]
      ring

theorem insertSorted_length (p : ℝ × ℝ) (l : FDict ℝ) : (insertSorted p l).length = l.length + 1 := by
  induction l with
  | nil => simp [insertSorted]
  | cons a rest ih =>
    unfold insertSorted
    by_cases h : p.1 < a.1
    · rw [if_pos h]; simp
    · rw [if_neg h]; simp [ih]

theorem foldl_insert_length : ∀ (d acc : FDict ℝ), (d.foldl (fun acc p => insertSorted p acc) acc).length = acc.length + d.length := by
  intro d
  induction d with
  | nil => intro acc; simp
  | cons a rest ih => intro acc; simp only [List.foldl_cons, List.length_cons]; rw [ih, insertSorted_length]; omega

theorem sortF_length (d : FDict ℝ) : (sortF d).length = d.length := by
  unfold sortF; rw [foldl_insert_length]; simp

/-- rounding up: (points left) × (between + 1) ≥ num_fracs − 1 -/
theorem ceil_enough (n pl : Nat) (hpl : 0 < pl) : n - 1 ≤ pl * ((n - pl - 1 + pl - 1) / pl + 1) := by
  have h := Nat.div_add_mod (n - pl - 1 + pl - 1) pl
  have hm := Nat.mod_lt (n - pl - 1 + pl - 1) hpl
  have : pl * ((n - pl - 1 + pl - 1) / pl + 1) = pl * ((n - pl - 1 + pl - 1) / pl) + pl := by ring
  omega

end Spec.Fracs
