import Dhlldv.Real
import Mathlib.Tactic.Ring
import Mathlib.Tactic.SplitIfs
import Mathlib.Algebra.BigOperators.Group.List.Basic

/-! In exact arithmetic CPython's compensated `sum()` is the plain sum (the compensation term stays 0). -/

theorem pySum_fold (l : List ℝ) (f : ℝ) :
    l.foldl pySumStep (f, (0 : ℝ)) = (f + l.sum, 0) := by
  induction l generalizing f with
  | nil => simp
  | cons x xs ih =>
    simp only [List.foldl_cons, List.sum_cons]
    have : pySumStep (f, (0 : ℝ)) x = (f + x, 0) := by
      unfold pySumStep
      simp only
      split_ifs <;> (congr 1; ring)
    rw [this, ih]
    congr 1
    ring

theorem pySum_eq_sum (l : List ℝ) : pySum l = l.sum := by
  unfold pySum
  have h : ((0.0 : ℝ), (0.0 : ℝ)) = ((0 : ℝ), (0 : ℝ)) := by norm_num
  rw [h, pySum_fold]
  simp [feq]
