import Dhlldv.Lemmas.Basic
import Dhlldv.Gen.Framework
import Dhlldv.Spec.Select

/-! Closed form of the generated spatial-concentration selector dict: the five model values and the Spec's regime code. -/

theorem Cvs_Erhg_dict_eq (sf sq : Bool) (vls Dp d eps nu rhol rhos Cvs : ℝ) :
    framework.Cvs_Erhg_dict sf sq vls Dp d eps nu rhol rhos Cvs =
      [("il", PyVal.num (homogeneous.fluid_head_loss vls Dp eps nu rhol)),
       ("FB", PyVal.num (stratified.fb_Erhg vls Dp d eps nu rhol rhos Cvs)),
       ("SB", PyVal.num (stratified.Erhg vls Dp d eps nu rhol rhos Cvs)),
       ("He", PyVal.num (heterogeneous.Erhg vls Dp d eps nu rhol rhos Cvs sf sq)),
       ("Ho", PyVal.num (homogeneous.Erhg vls Dp d eps nu rhol rhos Cvs true)),
       ("regime", PyVal.str (Spec.selectCode (stratified.fb_Erhg vls Dp d eps nu rhol rhos Cvs)
          (stratified.Erhg vls Dp d eps nu rhol rhos Cvs) (heterogeneous.Erhg vls Dp d eps nu rhol rhos Cvs sf sq)
          (homogeneous.Erhg vls Dp d eps nu rhol rhos Cvs true)))] := by
  unfold framework.Cvs_Erhg_dict Spec.selectCode
  generalize stratified.fb_Erhg vls Dp d eps nu rhol rhos Cvs = fb
  generalize stratified.Erhg vls Dp d eps nu rhol rhos Cvs = sb
  generalize heterogeneous.Erhg vls Dp d eps nu rhol rhos Cvs sf sq = he
  generalize homogeneous.Erhg vls Dp d eps nu rhol rhos Cvs true = ho
  generalize homogeneous.fluid_head_loss vls Dp eps nu rhol = il
  simp only [gt_iff_lt, decide_eq_true_eq]
  split_ifs <;> simp_all [PyDict.get, PyDict.set, PyVal.toNum, PyVal.toStr]

theorem selectCode_cases {β : Type} [LT β] [DecidableLT β] (fb sb he ho : β) :
    Spec.selectCode fb sb he ho = "FB" ∨ Spec.selectCode fb sb he ho = "SB" ∨
    Spec.selectCode fb sb he ho = "He" ∨ Spec.selectCode fb sb he ho = "Ho" := by
  unfold Spec.selectCode
  simp only [gt_iff_lt]
  split_ifs <;> simp
