import Dhlldv.Lemmas.FracsFacts

/-! Nodes of the first remaining segment lie on that segment's log-line: an invariant carried through the start node, the subdivision loop, the segment
loop (later segments only add nodes to the right), `sorted()` and the extrapolated top node. Used for the reproduction-by-interpolation clause of C12. -/

namespace Spec.Fracs

/-- every node with fraction ≤ b has its log10-diameter on the line ℓ -/
def OnLine (ℓ : ℝ → ℝ) (b : ℝ) (d : FDict ℝ) : Prop := ∀ p ∈ d, p.1 ≤ b → Transc.log10 p.2 = ℓ p.1

theorem log10_pow10 (x : ℝ) : Transc.log10 (pow10 x) = x := by
  unfold pow10
  simp only [Transc.rpow, Transc.log10]
  have h10 : (10.0 : ℝ) = 10 := by norm_num
  have hl : Real.log 10 ≠ 0 := by have := Real.log_pos (by norm_num : (1:ℝ) < 10); linarith
  rw [h10, Real.log_rpow (by norm_num : (0:ℝ) < 10)]
  field_simp

theorem setF_online (ℓ : ℝ → ℝ) (b : ℝ) (d : FDict ℝ) (k v : ℝ) (h : OnLine ℓ b d) (hk : k ≤ b → Transc.log10 v = ℓ k) :
    OnLine ℓ b (setF d k v) := by
  intro p hp hpb
  rcases mem_setF d k v p hp with e | hmem
  · rw [e] at hpb ⊢; exact hk hpb
  · exact h p hmem hpb

theorem subdivide_online (ℓ : ℝ → ℝ) (b flow dlow fnext dnext fs f0 : ℝ) (hfs : 0 < fs)
    (H : ∀ f, f0 < f → f ≤ b → logInterp flow dlow fnext dnext f = ℓ f) :
    ∀ (n : Nat) (fthis : ℝ) (d : FDict ℝ), f0 ≤ fthis → OnLine ℓ b d → OnLine ℓ b (subdivide flow dlow fnext dnext fs n fthis d) := by
  intro n
  induction n with
  | zero => intro fthis d _ h; exact h
  | succ k ih =>
    intro fthis d hf h
    unfold subdivide
    apply ih (fthis + fs) _ (by linarith)
    apply setF_online ℓ b d _ _ h
    intro hb
    rw [log10_pow10]
    exact H _ (by linarith) hb

/-- the segment loop: if the current segment's log-line is ℓ up to b (or starts at or right of b), nodes up to b stay on ℓ -/
theorem segments_online (ℓ : ℝ → ℝ) (b : ℝ) (between : Nat) : ∀ (fuel : Nat) (flow dlow : ℝ) (nx : ℝ × ℝ) (rest : List (ℝ × ℝ)) (d : FDict ℝ) (fs : ℝ),
    OnLine ℓ b d → StrictOK flow dlow nx rest → b ≤ nx.1 →
    (∀ f, flow < f → f ≤ b → logInterp flow dlow nx.1 nx.2 f = ℓ f) →
    OnLine ℓ b (segments between (fun n : Nat => (n : ℝ)) fuel flow dlow nx rest d fs).1 := by
  intro fuel
  induction fuel with
  | zero => intro flow dlow nx rest d fs h _ _ _; exact h
  | succ k ih =>
    intro flow dlow nx rest d fs h hok hb H
    obtain ⟨hf, hd, hd0, hch⟩ := hok
    unfold segments
    have hb1 : (0:ℝ) < ((between + 1 : ℕ) : ℝ) := by positivity
    have hfs : 0 < (nx.1 - flow) / ((between + 1 : ℕ) : ℝ) := div_pos (by linarith) hb1
    have hsub := subdivide_online ℓ b flow dlow nx.1 nx.2 _ flow hfs H between flow d (le_refl _) h
    have hnode : OnLine ℓ b (setF (subdivide flow dlow nx.1 nx.2 ((nx.1 - flow) / ((between + 1 : ℕ) : ℝ)) between flow d) nx.1 nx.2) := by
      apply setF_online ℓ b _ _ _ hsub
      intro hle
      have := H nx.1 hf hle
      unfold logInterp at this
      simp only [sub_self, mul_zero, zero_div, sub_zero] at this
      exact this
    cases rest with
    | nil => exact hnode
    | cons t rest' =>
      simp only
      by_cases ht : feq t.1 (0.0 : ℝ) = true
      · rw [if_pos ht]; exact hnode
      · rw [if_neg ht]
        have hch' := List.isChain_cons_cons.1 hch
        apply ih nx.1 nx.2 t rest' _ _ hnode ⟨hch'.1.1, hch'.1.2, by linarith, hch'.2⟩ (by linarith [hch'.1.1])
        intro f hf1 hf2
        linarith

/-- a log-line through a point of ℓ and the upper end of the segment is ℓ itself -/
theorem line_through (flow dlow fnext dnext a da : ℝ) (hseg : flow ≠ fnext) (ha : a ≠ fnext)
    (hda : Transc.log10 da = logInterp flow dlow fnext dnext a) (f : ℝ) :
    logInterp a da fnext dnext f = logInterp flow dlow fnext dnext f := by
  unfold logInterp at hda ⊢
  rw [hda]
  have h1 : fnext - flow ≠ 0 := sub_ne_zero.2 (Ne.symm hseg)
  have h2 : fnext - a ≠ 0 := sub_ne_zero.2 (Ne.symm ha)
  field_simp
  ring

/-- in the grading produced after the skip, every node up to the upper end of the first remaining segment lies on that segment's log-line -/
theorem afterSkip_online (dlim : ℝ) (lo nx : ℝ × ℝ) (rest : List (ℝ × ℝ)) (pl n : Nat) (B : ℝ) (h : StrictSeg dlim lo nx rest B) :
    OnLine (logInterp lo.1 lo.2 nx.1 nx.2) nx.1 (afterSkip (fun k : Nat => (k : ℝ)) dlim lo nx rest pl n).gsd := by
  have hXlt := X_lt_fnext h
  have hdmin := dmin_lt h
  have hl2 : Transc.log10 nx.2 - Transc.log10 lo.2 ≠ 0 := ne_of_gt (sub_pos.2 (log10_lt h.d0 h.d1))
  have hw : nx.1 - lo.1 ≠ 0 := ne_of_gt (sub_pos.2 h.f1)
  have hnx0 : 0 < nx.1 := by linarith [h.f0, h.f1]
  unfold afterSkip
  simp only
  set ℓ := logInterp lo.1 lo.2 nx.1 nx.2 with hℓ
  set X := nx.1 - (Transc.log10 nx.2 - Transc.log10 dlim) * (nx.1 - lo.1) / (Transc.log10 nx.2 - Transc.log10 lo.2) with hX
  set dmin := pow10 (Transc.log10 nx.2 - (Transc.log10 nx.2 - Transc.log10 lo.2) * (nx.1 - (0.0:ℝ)) / (nx.1 - lo.1)) with hdm
  have hXline : Transc.log10 dlim = ℓ X := by
    rw [hℓ, hX]; unfold logInterp; field_simp; ring
  have hdline : Transc.log10 dmin = ℓ (0.0:ℝ) := by
    rw [hdm, log10_pow10, hℓ]; rfl
  have hdec : decide (X > (0.0:ℝ)) = true → 0 < X := by
    intro hd; simpa [sci_zero] using hd
  set fl0 := (if decide (X > (0.0:ℝ)) = true then X else (0.0:ℝ)) with hfl0
  set dl0 := (if decide (X > (0.0:ℝ)) = true then dlim else dmin) with hdl0
  set dd0 : FDict ℝ := (if decide (X > (0.0:ℝ)) = true then [(X, dlim)] else []) with hdd0
  -- the start state
  have hst : StrictOK fl0 dl0 nx rest ∧ Pos dd0 ∧ KeysNodup dd0 ∧ KeysIn dd0 0 B ∧ 0 ≤ fl0 ∧ OnLine ℓ nx.1 dd0 ∧ Transc.log10 dl0 = ℓ fl0 ∧ fl0 < nx.1 := by
    by_cases hb : decide (X > (0.0:ℝ)) = true
    · have hx := hdec hb
      rw [hfl0, hdl0, hdd0, if_pos hb, if_pos hb, if_pos hb]
      refine ⟨⟨hXlt, h.lim1, h.lim0, h.chain⟩, ?_, by simp [KeysNodup], ?_, hx.le, ?_, hXline, hXlt⟩
      · intro p hp; simp only [List.mem_singleton] at hp; rw [hp]; exact h.lim0
      · intro p hp; simp only [List.mem_singleton] at hp; rw [hp]; exact ⟨hx.le, le_trans hXlt.le (h.le nx List.mem_cons_self)⟩
      · intro p hp _; simp only [List.mem_singleton] at hp; rw [hp]; exact hXline
    · rw [hfl0, hdl0, hdd0, if_neg hb, if_neg hb, if_neg hb]
      refine ⟨⟨by rw [sci_zero]; exact hnx0, hdmin, pow10_pos _, h.chain⟩, ?_, by simp [KeysNodup], by simp [keysIn_nil], by simp, ?_, hdline, by rw [sci_zero]; exact hnx0⟩
      · intro p hp; simp at hp
      · intro p hp; simp at hp
  obtain ⟨hok0, hp0, hnd0, hk0, hf0, ho0, hline0, hfl⟩ := hst
  have hfrok : FracsOK fl0 nx rest B := ⟨hok0.1.le, List.IsChain.imp (fun _ _ hab => hab.1.le) h.chain, h.le⟩
  have H0 : ∀ f, fl0 < f → f ≤ nx.1 → logInterp fl0 dl0 nx.1 nx.2 f = ℓ f := by
    intro f _ _
    exact line_through lo.1 lo.2 nx.1 nx.2 fl0 dl0 (ne_of_lt h.f1) (ne_of_lt hfl) hline0 f
  have hO := segments_online ℓ nx.1 ((n - pl - 1 + pl - 1) / pl) (rest.length + 1) fl0 dl0 nx rest dd0 (0.0:ℝ) ho0 hok0 (le_refl _) H0
  have hP := segments_pos_fs ((n - pl - 1 + pl - 1) / pl) (rest.length + 1) fl0 dl0 nx rest dd0 (0.0:ℝ) hp0 hok0
  have hN := segments_nodup ((n - pl - 1 + pl - 1) / pl) (fun k : Nat => (k : ℝ)) (rest.length + 1) fl0 dl0 nx rest dd0 (0.0:ℝ) hnd0
  have hK := segments_keysIn ((n - pl - 1 + pl - 1) / pl) (rest.length + 1) fl0 dl0 nx rest dd0 (0.0:ℝ) 0 B hk0 hf0 (by norm_num) hfrok
  have hNodes := segments_nodes ((n - pl - 1 + pl - 1) / pl) (rest.length + 1) fl0 dl0 nx rest dd0 (0.0:ℝ) (Nat.lt_succ_self _) hf0 hok0
  generalize hseg : segments ((n - pl - 1 + pl - 1) / pl) (fun k : Nat => (k : ℝ)) (rest.length + 1) fl0 dl0 nx rest dd0 (0.0 : ℝ) = sg
  rw [hseg] at hO hP hN hK hNodes
  obtain ⟨d, fs⟩ := sg
  simp only at hO hP hN hK hNodes ⊢
  have hfs : 0 < fs := hP.2 (Nat.succ_pos _)
  have hsorted : OnLine ℓ nx.1 (sortF d) := fun p hp hpb => hO p (mem_sortF d hN p hp) hpb
  cases hr : (sortF d).reverse with
  | nil => simp only; exact hsorted
  | cons top tl =>
    cases tl with
    | nil => simp only; exact hsorted
    | cons below tl' =>
      simp only
      have hs := sortF_strict d hN
      have htop : top ∈ d := by
        apply mem_sortF d hN
        have : top ∈ (sortF d).reverse := by rw [hr]; exact List.mem_cons_self
        exact List.mem_reverse.1 this
      have hnxd : nx ∈ d := hNodes nx List.mem_cons_self
      have hnxtop : nx.1 ≤ top.1 := by
        rcases last_is_max (sortF d) top (below :: tl') hs hr nx (mem_sortF_of_mem d nx hnxd) with e | e
        · rw [e]
        · exact e.le
      have htopB : top.1 ≤ B := (hK.1 top htop).2
      have hkey : top.1 < pyMin (top.1 + fs) (0.999 : ℝ) := by
        rw [pyMin_eq_min]
        exact lt_min (by linarith) (by linarith [h.B999])
      intro p hp hpb
      have hp' := mem_sortF _ (setF_nodup _ _ _ hN) p hp
      rcases mem_setF d _ _ p hp' with e | hmem
      · rw [e] at hpb; simp only at hpb; linarith
      · exact hO p hmem hpb

end Spec.Fracs
