import Dhlldv.Real
import Mathlib.Tactic.Linarith
import Mathlib.Tactic.SplitIfs
import Mathlib.Tactic.NormNum

/-! Small bridge lemmas between the primitives of `Prim.lean` at `α := ℝ` and Mathlib. -/

theorem pyMin_eq_min (a b : ℝ) : pyMin a b = min a b := by
  unfold pyMin; simp only [min_def]; split_ifs <;> first | rfl | linarith

theorem pyMax_eq_max (a b : ℝ) : pyMax a b = max a b := by
  unfold pyMax; simp only [max_def, gt_iff_lt]; split_ifs <;> first | rfl | linarith

theorem feq_iff_eq (a b : ℝ) : feq a b = true ↔ a = b := by
  unfold feq
  simp only [Bool.and_eq_true, decide_eq_true_eq]
  constructor
  · rintro ⟨h1, h2⟩; exact le_antisymm h1 h2
  · rintro rfl; exact ⟨le_refl _, le_refl _⟩

@[simp] theorem sci_one : (1.0 : ℝ) = 1 := by norm_num
@[simp] theorem sci_two : (2.0 : ℝ) = 2 := by norm_num
@[simp] theorem sci_zero : (0.0 : ℝ) = 0 := by norm_num

/-- `x ^ (log a / log x) = a` for `0 < x`, `x ≠ 1`, `0 < a` -/
theorem rpow_log_div_log (x a : ℝ) (hx : 0 < x) (hx1 : x ≠ 1) (ha : 0 < a) :
    x ^ (Real.log a / Real.log x) = a := by
  have hl : Real.log x ≠ 0 := by
    intro h
    rcases Real.log_eq_zero.1 h with h | h | h
    · linarith
    · exact hx1 h
    · linarith
  rw [Real.rpow_def_of_pos hx, mul_div_cancel₀ _ hl, Real.exp_log ha]
