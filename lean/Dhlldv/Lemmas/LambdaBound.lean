import Dhlldv.Lemmas.Friction
import Mathlib.Analysis.SpecialFunctions.Exp

/-! On the envelope the friction factor is at most 8/225 (needed for 0 ≤ Ho ≤ il): Re ≥ 7142 gives Re^0.9 ≥ 2900, so the argument of the
logarithm is ≤ 0.002105 ≤ e^(−6.105), hence L ≥ 6.105 and λ = 1.325/L² ≤ 8/225. -/

open Real

theorem rpow09_ge_2900 (Re : ℝ) (hRe : 7142 ≤ Re) : 2900 ≤ Re ^ (0.9:ℝ) := by
  have h0 : (0:ℝ) ≤ 7142 := by norm_num
  have h1 : (7142:ℝ) ^ (0.9:ℝ) ≤ Re ^ (0.9:ℝ) := Real.rpow_le_rpow h0 hRe (by norm_num)
  have h2 : (2900:ℝ) ≤ (7142:ℝ) ^ (0.9:ℝ) := by
    have e1 : (7142:ℝ) ^ (0.9:ℝ) = ((7142:ℝ) ^ (9:ℕ)) ^ ((1:ℝ) / 10) := by
      rw [← Real.rpow_natCast, ← Real.rpow_mul h0]; norm_num
    have e2 : (2900:ℝ) = ((2900:ℝ) ^ (10:ℕ)) ^ ((1:ℝ) / 10) := by
      rw [← Real.rpow_natCast, ← Real.rpow_mul (by norm_num)]; norm_num
    rw [e1, e2]
    apply Real.rpow_le_rpow (by positivity) _ (by norm_num)
    norm_num
  linarith

/-- e^6.105 < 475 -/
theorem exp_6105_lt : Real.exp 6.105 < 475 := by
  have h1 : Real.exp 6.105 = Real.exp 1 ^ 6 * Real.exp 0.105 := by
    rw [← Real.exp_nat_mul, ← Real.exp_add]; norm_num
  have he := Real.exp_one_lt_d9
  have he0 : 0 < Real.exp 1 := Real.exp_pos _
  have h6 : Real.exp 1 ^ 6 < 2.7182818286 ^ 6 := pow_lt_pow_left₀ he he0.le (by norm_num)
  have hb := Real.exp_bound (x := 0.105) (by norm_num [abs_le]) (n := 3) (by norm_num)
  simp only [Finset.sum_range_succ, Finset.sum_range_zero, Nat.factorial] at hb
  have hs : Real.exp 0.105 ≤ 1.1108 := by
    have := abs_le.1 hb
    norm_num at this ⊢
    linarith [this.2]
  have hpos : 0 < Real.exp 0.105 := Real.exp_pos _
  rw [h1]
  have : Real.exp 1 ^ 6 * Real.exp 0.105 < 2.7182818286 ^ 6 * 1.1108 := mul_lt_mul h6 hs hpos (by positivity)
  have h475 : (2.7182818286:ℝ) ^ 6 * 1.1108 < 475 := by norm_num
  linarith

/-- on E: the argument of the logarithm is at most 0.002105, so L ≥ 6.105 and the friction factor is at most 8/225 -/
theorem InE.lambda_le {vls Dp d eps nu rhol rhos Cv : ℝ} (h : InE vls Dp d eps nu rhol rhos Cv) :
    homogeneous.swamee_jain_ff (homogeneous.pipe_reynolds_number vls Dp nu) Dp eps ≤ 8 / 225 := by
  have hD := h.Dp_pos; have hn := h.nu_pos
  have t1 : 2320 < homogeneous.pipe_reynolds_number vls Dp nu := lt_of_lt_of_le (by norm_num) h.reynolds_ge
  rw [swamee_jain_as_Lv vls Dp eps nu h.vls_pos hD hn t1]
  have h29 := rpow09_ge_2900 _ h.reynolds_ge
  rw [reynolds_eq] at h29
  have hx : eps / (3.7 * Dp) + 5.75 * (nu / Dp) ^ (0.9:ℝ) * vls ^ (-(0.9:ℝ)) ≤ 0.002105 := by
    rw [← c2_as_k vls Dp nu h.vls_pos hD hn]
    have hc2 : 5.75 / (vls * Dp / nu) ^ (0.9:ℝ) ≤ 5.75 / 2900 := div_le_div_of_nonneg_left (by norm_num) (by norm_num) h29
    have hc1 : eps / (3.7 * Dp) ≤ 0.0001217 := by
      rw [h.eps_eq, div_le_iff₀ (by positivity)]; have := h.Dp_lo; nlinarith
    have : (5.75:ℝ) / 2900 ≤ 0.0019828 := by norm_num
    linarith
  have hxpos : 0 < eps / (3.7 * Dp) + 5.75 * (nu / Dp) ^ (0.9:ℝ) * vls ^ (-(0.9:ℝ)) := by
    have := h.eps_pos
    have a := Real.rpow_pos_of_pos (div_pos hn hD) (0.9:ℝ)
    have b := Real.rpow_pos_of_pos h.vls_pos (-(0.9:ℝ))
    positivity
  have hL : 6.105 ≤ Lv (eps / (3.7 * Dp)) (5.75 * (nu / Dp) ^ (0.9:ℝ)) vls := by
    unfold Lv
    have h1 : Real.log (eps / (3.7 * Dp) + 5.75 * (nu / Dp) ^ (0.9:ℝ) * vls ^ (-(0.9:ℝ))) ≤ Real.log 0.002105 :=
      Real.log_le_log hxpos hx
    have h2 : Real.log 0.002105 ≤ -6.105 := by
      rw [Real.log_le_iff_le_exp (by norm_num), Real.exp_neg]
      have := exp_6105_lt
      have hp : 0 < Real.exp 6.105 := Real.exp_pos _
      rw [le_inv_comm₀ (by norm_num) hp]
      have : (0.002105:ℝ)⁻¹ > 475 := by norm_num
      linarith
    linarith
  have hLp : 0 < Lv (eps / (3.7 * Dp)) (5.75 * (nu / Dp) ^ (0.9:ℝ)) vls := by linarith
  rw [div_le_div_iff₀ (by positivity) (by norm_num)]
  nlinarith
