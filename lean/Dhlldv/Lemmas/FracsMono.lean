import Dhlldv.Lemmas.FracsRange
import Mathlib.Analysis.SpecialFunctions.Pow.Real

/-! The diameters of the discretised grading increase strictly with the fraction: every stored node lies on a strictly increasing
log-linear curve, and every new node is placed to the right of and above all nodes stored before it. -/

namespace Spec.Fracs

/-- diameter strictly increasing in the fraction across the whole dict -/
def Mono (d : FDict ℝ) : Prop := ∀ p ∈ d, ∀ q ∈ d, p.1 < q.1 → p.2 < q.2

/-- every node is at or below fraction c and diameter v -/
def Below (d : FDict ℝ) (c v : ℝ) : Prop := ∀ p ∈ d, p.1 ≤ c ∧ p.2 ≤ v

theorem mem_setF (d : FDict ℝ) (k v : ℝ) : ∀ p ∈ setF d k v, p = (k, v) ∨ p ∈ d := by
  induction d with
  | nil => intro p hp; simp [setF] at hp; left; exact hp
  | cons a rest ih =>
    intro p hp
    unfold setF at hp
    by_cases h : feq a.1 k = true
    · rw [if_pos h] at hp
      rcases List.mem_cons.1 hp with e | e
      · left; rw [e, (feq_iff_eq _ _).1 h]
      · right; exact List.mem_cons_of_mem _ e
    · rw [if_neg h] at hp
      rcases List.mem_cons.1 hp with e | e
      · right; rw [e]; exact List.mem_cons_self
      · rcases ih p e with e1 | e1
        · left; exact e1
        · right; exact List.mem_cons_of_mem _ e1

theorem setF_mono_below (d : FDict ℝ) (k v c w : ℝ) (hm : Mono d) (hb : Below d c w) (hk : c < k) (hv : w < v) :
    Mono (setF d k v) ∧ Below (setF d k v) k v := by
  constructor
  · intro p hp q hq hpq
    rcases mem_setF d k v p hp with ep | ep <;> rcases mem_setF d k v q hq with eq | eq
    · rw [ep, eq] at hpq; exact absurd hpq (lt_irrefl _)
    · rw [ep] at hpq; have := (hb q eq).1; simp only at hpq; linarith
    · rw [eq]; have := (hb p ep).2; simp only; linarith
    · exact hm p ep q eq hpq
  · intro p hp
    rcases mem_setF d k v p hp with ep | ep
    · rw [ep]; exact ⟨le_refl _, le_refl _⟩
    · have := hb p ep; exact ⟨by linarith, by linarith⟩

/-- the curve on which the nodes of one segment lie -/
noncomputable def seg (flow dlow fnext dnext : ℝ) (x : ℝ) : ℝ := pow10 (logInterp flow dlow fnext dnext x)

theorem pow10_strictMono : StrictMono (pow10 : ℝ → ℝ) := by
  intro a b hab
  unfold pow10
  simp only [Transc.rpow]
  have h10 : (10.0 : ℝ) = 10 := by norm_num
  rw [h10]
  exact Real.rpow_lt_rpow_of_exponent_lt (by norm_num) hab

theorem pow10_log10 (d : ℝ) (hd : 0 < d) : pow10 (Transc.log10 d) = d := by
  unfold pow10
  simp only [Transc.rpow, Transc.log10]
  have h10 : (10.0 : ℝ) = 10 := by norm_num
  rw [h10, Real.rpow_def_of_pos (by norm_num : (0:ℝ) < 10), mul_div_cancel₀ _ (by
    have := Real.log_pos (by norm_num : (1:ℝ) < 10); linarith), Real.exp_log hd]

theorem log10_lt {a b : ℝ} (ha : 0 < a) (hab : a < b) : Transc.log10 a < Transc.log10 b := by
  show Real.log a / Real.log 10 < Real.log b / Real.log 10
  exact div_lt_div_of_pos_right (Real.log_lt_log ha hab) (Real.log_pos (by norm_num))

theorem seg_strictMono (flow dlow fnext dnext : ℝ) (hf : flow < fnext) (hd0 : 0 < dlow) (hd : dlow < dnext) :
    StrictMono (seg flow dlow fnext dnext) := by
  intro a b hab
  unfold seg
  apply pow10_strictMono
  unfold logInterp
  have hw : 0 < fnext - flow := sub_pos.2 hf
  have hl := log10_lt hd0 hd
  have h1 : (Transc.log10 dnext - Transc.log10 dlow) * (fnext - b) / (fnext - flow) <
      (Transc.log10 dnext - Transc.log10 dlow) * (fnext - a) / (fnext - flow) := by
    apply div_lt_div_of_pos_right _ hw
    apply mul_lt_mul_of_pos_left _ (sub_pos.2 hl)
    linarith
  linarith

theorem seg_left (flow dlow fnext dnext : ℝ) (hf : flow < fnext) (hd0 : 0 < dlow) : seg flow dlow fnext dnext flow = dlow := by
  unfold seg logInterp
  have hw : fnext - flow ≠ 0 := ne_of_gt (sub_pos.2 hf)
  rw [mul_div_assoc, div_self hw, mul_one]
  have : Transc.log10 dnext - (Transc.log10 dnext - Transc.log10 dlow) = Transc.log10 dlow := by ring
  rw [this, pow10_log10 dlow hd0]

theorem seg_right (flow dlow fnext dnext : ℝ) (hd1 : 0 < dnext) : seg flow dlow fnext dnext fnext = dnext := by
  unfold seg logInterp
  simp only [sub_self, mul_zero, zero_div, sub_zero]
  exact pow10_log10 dnext hd1

/-- the inner loop keeps the nodes ordered: it walks to the right along the segment's curve -/
theorem subdivide_mono (flow dlow fnext dnext fs : ℝ) (hg : StrictMono (seg flow dlow fnext dnext)) (hfs : 0 < fs) :
    ∀ (n : Nat) (fthis : ℝ) (d : FDict ℝ), Mono d → Below d fthis (seg flow dlow fnext dnext fthis) →
      Mono (subdivide flow dlow fnext dnext fs n fthis d) ∧
      Below (subdivide flow dlow fnext dnext fs n fthis d) (fthis + n * fs) (seg flow dlow fnext dnext (fthis + n * fs)) := by
  intro n
  induction n with
  | zero => intro fthis d hm hb; simp only [subdivide, Nat.cast_zero, zero_mul, add_zero]; exact ⟨hm, hb⟩
  | succ k ih =>
    intro fthis d hm hb
    unfold subdivide
    have hstep := setF_mono_below d (fthis + fs) (seg flow dlow fnext dnext (fthis + fs)) fthis (seg flow dlow fnext dnext fthis) hm hb
      (by linarith) (hg (by linarith))
    have e : fthis + ((k + 1 : ℕ) : ℝ) * fs = fthis + fs + k * fs := by push_cast; ring
    rw [e]
    exact ih (fthis + fs) _ hstep.1 hstep.2

/-- the remaining given points: strictly to the right of and above the current node, strictly increasing in both coordinates, positive diameters -/
def StrictOK (flow dlow : ℝ) (nx : ℝ × ℝ) (rest : List (ℝ × ℝ)) : Prop :=
  flow < nx.1 ∧ dlow < nx.2 ∧ 0 < dlow ∧ List.IsChain (fun p q : ℝ × ℝ => p.1 < q.1 ∧ p.2 < q.2) (nx :: rest)

theorem segments_mono (between : Nat) : ∀ (fuel : Nat) (flow dlow : ℝ) (nx : ℝ × ℝ) (rest : List (ℝ × ℝ)) (d : FDict ℝ) (fs : ℝ),
    Mono d → Below d flow dlow → StrictOK flow dlow nx rest →
    Mono (segments between (fun n : Nat => (n : ℝ)) fuel flow dlow nx rest d fs).1 := by
  intro fuel
  induction fuel with
  | zero => intro flow dlow nx rest d fs hm _ _; exact hm
  | succ k ih =>
    intro flow dlow nx rest d fs hm hb hok
    obtain ⟨hf, hd, hd0, hch⟩ := hok
    unfold segments
    have hb1 : (0:ℝ) < ((between + 1 : ℕ) : ℝ) := by positivity
    have hfs : 0 < (nx.1 - flow) / ((between + 1 : ℕ) : ℝ) := div_pos (by linarith) hb1
    have hg := seg_strictMono flow dlow nx.1 nx.2 hf hd0 hd
    have hb' : Below d flow (seg flow dlow nx.1 nx.2 flow) := by rw [seg_left flow dlow nx.1 nx.2 hf hd0]; exact hb
    have hsub := subdivide_mono flow dlow nx.1 nx.2 _ hg hfs between flow d hm hb'
    -- the given node (fnext, dnext) lies to the right of and above the last interpolated node
    have hlast : flow + (between : ℝ) * ((nx.1 - flow) / ((between + 1 : ℕ) : ℝ)) < nx.1 := by
      have : (between : ℝ) * ((nx.1 - flow) / ((between + 1 : ℕ) : ℝ)) < nx.1 - flow := by
        rw [mul_div_assoc', div_lt_iff₀ hb1]
        push_cast
        nlinarith
      linarith
    have hval : seg flow dlow nx.1 nx.2 (flow + (between : ℝ) * ((nx.1 - flow) / ((between + 1 : ℕ) : ℝ))) < nx.2 := by
      have := hg hlast
      rw [seg_right flow dlow nx.1 nx.2 (by linarith)] at this
      exact this
    have hnode := setF_mono_below _ nx.1 nx.2 _ _ hsub.1 hsub.2 hlast hval
    cases rest with
    | nil => exact hnode.1
    | cons t rest' =>
      simp only
      by_cases ht : feq t.1 (0.0 : ℝ) = true
      · rw [if_pos ht]; exact hnode.1
      · rw [if_neg ht]
        have hch' := List.isChain_cons_cons.1 hch
        exact ih nx.1 nx.2 t rest' _ _ hnode.1 hnode.2 ⟨hch'.1.1, hch'.1.2, by linarith, hch'.2⟩

/-! ### the start node persists, and no node lies below the start diameter -/

/-- every node is at or above fraction c and diameter v -/
def Above (d : FDict ℝ) (c v : ℝ) : Prop := ∀ p ∈ d, c ≤ p.1 ∧ v ≤ p.2

theorem setF_keeps (d : FDict ℝ) (k v : ℝ) (p : ℝ × ℝ) (hp : p ∈ d) (hk : p.1 ≠ k) : p ∈ setF d k v := by
  induction d with
  | nil => exact absurd hp List.not_mem_nil
  | cons a rest ih =>
    unfold setF
    by_cases h : feq a.1 k = true
    · rw [if_pos h]
      rcases List.mem_cons.1 hp with e | e
      · exfalso; apply hk; rw [e]; exact (feq_iff_eq _ _).1 h
      · exact List.mem_cons_of_mem _ e
    · rw [if_neg h]
      rcases List.mem_cons.1 hp with e | e
      · rw [e]; exact List.mem_cons_self
      · exact List.mem_cons_of_mem _ (ih e)

theorem setF_above (d : FDict ℝ) (k v c w : ℝ) (h : Above d c w) (hk : c ≤ k) (hv : w ≤ v) : Above (setF d k v) c w := by
  intro p hp
  rcases mem_setF d k v p hp with e | e
  · rw [e]; exact ⟨hk, hv⟩
  · exact h p e

theorem subdivide_keeps_above (flow dlow fnext dnext fs : ℝ) (hg : StrictMono (seg flow dlow fnext dnext)) (hfs : 0 < fs) (c w : ℝ) (p0 : ℝ × ℝ) :
    ∀ (n : Nat) (fthis : ℝ) (d : FDict ℝ), Above d c w → c ≤ fthis → w ≤ seg flow dlow fnext dnext fthis → (p0 ∈ d ∧ p0.1 ≤ fthis) →
      Above (subdivide flow dlow fnext dnext fs n fthis d) c w ∧ p0 ∈ subdivide flow dlow fnext dnext fs n fthis d := by
  intro n
  induction n with
  | zero => intro fthis d ha _ _ hp; exact ⟨ha, hp.1⟩
  | succ k ih =>
    intro fthis d ha hc hw hp
    unfold subdivide
    have hlt : seg flow dlow fnext dnext fthis < seg flow dlow fnext dnext (fthis + fs) := hg (by linarith)
    apply ih (fthis + fs)
    · exact setF_above d _ _ c w ha (by linarith) (le_of_lt (lt_of_le_of_lt hw hlt))
    · linarith
    · exact le_of_lt (lt_of_le_of_lt hw hlt)
    · exact ⟨setF_keeps d _ _ p0 hp.1 (by linarith [hp.2]), by linarith [hp.2]⟩

theorem segments_keeps_above (between : Nat) (c w : ℝ) (p0 : ℝ × ℝ) : ∀ (fuel : Nat) (flow dlow : ℝ) (nx : ℝ × ℝ) (rest : List (ℝ × ℝ)) (d : FDict ℝ) (fs : ℝ),
    Above d c w → c ≤ flow → w ≤ dlow → (p0 ∈ d ∧ p0.1 ≤ flow) → StrictOK flow dlow nx rest →
    Above (segments between (fun n : Nat => (n : ℝ)) fuel flow dlow nx rest d fs).1 c w ∧
    p0 ∈ (segments between (fun n : Nat => (n : ℝ)) fuel flow dlow nx rest d fs).1 := by
  intro fuel
  induction fuel with
  | zero => intro flow dlow nx rest d fs ha _ _ hp _; exact ⟨ha, hp.1⟩
  | succ k ih =>
    intro flow dlow nx rest d fs ha hc hw hp hok
    obtain ⟨hf, hd, hd0, hch⟩ := hok
    unfold segments
    have hb1 : (0:ℝ) < ((between + 1 : ℕ) : ℝ) := by positivity
    have hfs : 0 < (nx.1 - flow) / ((between + 1 : ℕ) : ℝ) := div_pos (by linarith) hb1
    have hg := seg_strictMono flow dlow nx.1 nx.2 hf hd0 hd
    have hsub := subdivide_keeps_above flow dlow nx.1 nx.2 _ hg hfs c w p0 between flow d ha hc
      (by rw [seg_left flow dlow nx.1 nx.2 hf hd0]; exact hw) hp
    have hnode : Above (setF (subdivide flow dlow nx.1 nx.2 ((nx.1 - flow) / ((between + 1 : ℕ) : ℝ)) between flow d) nx.1 nx.2) c w ∧
        p0 ∈ setF (subdivide flow dlow nx.1 nx.2 ((nx.1 - flow) / ((between + 1 : ℕ) : ℝ)) between flow d) nx.1 nx.2 :=
      ⟨setF_above _ _ _ c w hsub.1 (by linarith) (by linarith), setF_keeps _ _ _ p0 hsub.2 (by linarith [hp.2])⟩
    cases rest with
    | nil => exact hnode
    | cons t rest' =>
      simp only
      by_cases ht : feq t.1 (0.0 : ℝ) = true
      · rw [if_pos ht]; exact hnode
      · rw [if_neg ht]
        have hch' := List.isChain_cons_cons.1 hch
        exact ih nx.1 nx.2 t rest' _ _ hnode.1 (by linarith) (by linarith) ⟨hnode.2, by linarith [hp.2]⟩
          ⟨hch'.1.1, hch'.1.2, by linarith, hch'.2⟩

theorem subdivide_above (flow dlow fnext dnext fs : ℝ) (hg : StrictMono (seg flow dlow fnext dnext)) (hfs : 0 < fs) (c w : ℝ) :
    ∀ (n : Nat) (fthis : ℝ) (d : FDict ℝ), Above d c w → c ≤ fthis → w ≤ seg flow dlow fnext dnext fthis →
      Above (subdivide flow dlow fnext dnext fs n fthis d) c w := by
  intro n
  induction n with
  | zero => intro fthis d ha _ _; exact ha
  | succ k ih =>
    intro fthis d ha hc hw
    unfold subdivide
    have hlt : seg flow dlow fnext dnext fthis < seg flow dlow fnext dnext (fthis + fs) := hg (by linarith)
    apply ih (fthis + fs)
    · exact setF_above d _ _ c w ha (by linarith) (le_of_lt (lt_of_le_of_lt hw hlt))
    · linarith
    · exact le_of_lt (lt_of_le_of_lt hw hlt)

theorem segments_above (between : Nat) (c w : ℝ) : ∀ (fuel : Nat) (flow dlow : ℝ) (nx : ℝ × ℝ) (rest : List (ℝ × ℝ)) (d : FDict ℝ) (fs : ℝ),
    Above d c w → c ≤ flow → w ≤ dlow → StrictOK flow dlow nx rest →
    Above (segments between (fun n : Nat => (n : ℝ)) fuel flow dlow nx rest d fs).1 c w := by
  intro fuel
  induction fuel with
  | zero => intro flow dlow nx rest d fs ha _ _ _; exact ha
  | succ k ih =>
    intro flow dlow nx rest d fs ha hc hw hok
    obtain ⟨hf, hd, hd0, hch⟩ := hok
    unfold segments
    have hb1 : (0:ℝ) < ((between + 1 : ℕ) : ℝ) := by positivity
    have hfs : 0 < (nx.1 - flow) / ((between + 1 : ℕ) : ℝ) := div_pos (by linarith) hb1
    have hg := seg_strictMono flow dlow nx.1 nx.2 hf hd0 hd
    have hsub := subdivide_above flow dlow nx.1 nx.2 _ hg hfs c w between flow d ha hc
      (by rw [seg_left flow dlow nx.1 nx.2 hf hd0]; exact hw)
    have hnode := setF_above _ nx.1 nx.2 c w hsub (by linarith) (by linarith)
    cases rest with
    | nil => exact hnode
    | cons t rest' =>
      simp only
      by_cases ht : feq t.1 (0.0 : ℝ) = true
      · rw [if_pos ht]; exact hnode
      · rw [if_neg ht]
        have hch' := List.isChain_cons_cons.1 hch
        exact ih nx.1 nx.2 t rest' _ _ hnode (by linarith) (by linarith) ⟨hch'.1.1, hch'.1.2, by linarith, hch'.2⟩

theorem mem_setF_self (d : FDict ℝ) (k v : ℝ) : (k, v) ∈ setF d k v := by
  induction d with
  | nil => simp [setF]
  | cons a r ih =>
    unfold setF
    by_cases hh : feq a.1 k = true
    · rw [if_pos hh, ← (feq_iff_eq _ _).1 hh]; exact List.mem_cons_self
    · rw [if_neg hh]; exact List.mem_cons_of_mem _ ih

theorem subdivide_keeps (flow dlow fnext dnext fs : ℝ) (hfs : 0 < fs) (p0 : ℝ × ℝ) :
    ∀ (n : Nat) (fthis : ℝ) (d : FDict ℝ), p0 ∈ d → p0.1 ≤ fthis → p0 ∈ subdivide flow dlow fnext dnext fs n fthis d := by
  intro n
  induction n with
  | zero => intro fthis d hp _; exact hp
  | succ k ih =>
    intro fthis d hp hle
    unfold subdivide
    exact ih (fthis + fs) _ (setF_keeps d _ _ p0 hp (by linarith)) (by linarith)

theorem segments_keeps (between : Nat) (p0 : ℝ × ℝ) : ∀ (fuel : Nat) (flow dlow : ℝ) (nx : ℝ × ℝ) (rest : List (ℝ × ℝ)) (d : FDict ℝ) (fs : ℝ),
    p0 ∈ d → p0.1 ≤ flow → StrictOK flow dlow nx rest →
    p0 ∈ (segments between (fun n : Nat => (n : ℝ)) fuel flow dlow nx rest d fs).1 := by
  intro fuel
  induction fuel with
  | zero => intro flow dlow nx rest d fs hp _ _; exact hp
  | succ k ih =>
    intro flow dlow nx rest d fs hp hle hok
    obtain ⟨hf, hd, hd0, hch⟩ := hok
    unfold segments
    have hb1 : (0:ℝ) < ((between + 1 : ℕ) : ℝ) := by positivity
    have hfs : 0 < (nx.1 - flow) / ((between + 1 : ℕ) : ℝ) := div_pos (by linarith) hb1
    have h1 := subdivide_keeps flow dlow nx.1 nx.2 _ hfs p0 between flow d hp hle
    have h2 := setF_keeps _ nx.1 nx.2 p0 h1 (by linarith)
    cases rest with
    | nil => exact h2
    | cons t rest' =>
      simp only
      by_cases ht : feq t.1 (0.0 : ℝ) = true
      · rw [if_pos ht]; exact h2
      · rw [if_neg ht]
        have hch' := List.isChain_cons_cons.1 hch
        exact ih nx.1 nx.2 t rest' _ _ h2 (by linarith) ⟨hch'.1.1, hch'.1.2, by linarith, hch'.2⟩

/-- every remaining given point becomes a node of the dict built by the segment loop (and stays one) -/
theorem segments_nodes (between : Nat) : ∀ (fuel : Nat) (flow dlow : ℝ) (nx : ℝ × ℝ) (rest : List (ℝ × ℝ)) (d : FDict ℝ) (fs : ℝ),
    rest.length < fuel → 0 ≤ flow → StrictOK flow dlow nx rest →
    ∀ q ∈ nx :: rest, q ∈ (segments between (fun n : Nat => (n : ℝ)) fuel flow dlow nx rest d fs).1 := by
  intro fuel
  induction fuel with
  | zero => intro flow dlow nx rest d fs hl _ _; exact absurd hl (Nat.not_lt_zero _)
  | succ k ih =>
    intro flow dlow nx rest d fs hl h0 hok q hq
    obtain ⟨hf, hd, hd0, hch⟩ := hok
    have hnx : nx ∈ setF (subdivide flow dlow nx.1 nx.2 ((nx.1 - flow) / ((between + 1 : ℕ) : ℝ)) between flow d) nx.1 nx.2 :=
      mem_setF_self _ nx.1 nx.2
    unfold segments
    cases rest with
    | nil =>
      simp only [List.mem_singleton] at hq
      rw [hq]; exact hnx
    | cons t rest' =>
      simp only
      have hch' := List.isChain_cons_cons.1 hch
      have ht0 : ¬ feq t.1 (0.0 : ℝ) = true := by
        rw [feq_iff_eq]
        intro e
        have : 0 < t.1 := by linarith [hch'.1.1]
        rw [e] at this; norm_num at this
      rw [if_neg ht0]
      have hok' : StrictOK nx.1 nx.2 t rest' := ⟨hch'.1.1, hch'.1.2, by linarith, hch'.2⟩
      rcases List.mem_cons.1 hq with e | e
      · rw [e]; exact segments_keeps between nx k nx.1 nx.2 t rest' _ _ hnx (le_refl _) hok'
      · exact ih nx.1 nx.2 t rest' _ _ (by simp only [List.length_cons] at hl; omega) (by linarith) hok' q e

/-! ### positivity of the stored diameters and of the last subdivision step -/

def Pos (d : FDict ℝ) : Prop := ∀ p ∈ d, 0 < p.2

theorem pow10_pos (x : ℝ) : 0 < pow10 x := by
  unfold pow10
  simp only [Transc.rpow]
  exact Real.rpow_pos_of_pos (by norm_num) _

theorem setF_pos (d : FDict ℝ) (k v : ℝ) (h : Pos d) (hv : 0 < v) : Pos (setF d k v) := by
  intro p hp
  rcases mem_setF d k v p hp with e | e
  · rw [e]; exact hv
  · exact h p e

theorem subdivide_pos (flow dlow fnext dnext fs : ℝ) : ∀ (n : Nat) (fthis : ℝ) (d : FDict ℝ), Pos d →
    Pos (subdivide flow dlow fnext dnext fs n fthis d) := by
  intro n
  induction n with
  | zero => intro fthis d h; exact h
  | succ k ih => intro fthis d h; unfold subdivide; exact ih _ _ (setF_pos _ _ _ h (pow10_pos _))

theorem segments_pos_fs (between : Nat) : ∀ (fuel : Nat) (flow dlow : ℝ) (nx : ℝ × ℝ) (rest : List (ℝ × ℝ)) (d : FDict ℝ) (fs : ℝ),
    Pos d → StrictOK flow dlow nx rest →
    Pos (segments between (fun n : Nat => (n : ℝ)) fuel flow dlow nx rest d fs).1 ∧
    (0 < fuel → 0 < (segments between (fun n : Nat => (n : ℝ)) fuel flow dlow nx rest d fs).2) := by
  intro fuel
  induction fuel with
  | zero => intro flow dlow nx rest d fs h _; exact ⟨h, fun h0 => absurd h0 (lt_irrefl 0)⟩
  | succ k ih =>
    intro flow dlow nx rest d fs h hok
    obtain ⟨hf, hd, hd0, hch⟩ := hok
    unfold segments
    have hb1 : (0:ℝ) < ((between + 1 : ℕ) : ℝ) := by positivity
    have hfs : 0 < (nx.1 - flow) / ((between + 1 : ℕ) : ℝ) := div_pos (by linarith) hb1
    have hp := setF_pos _ nx.1 nx.2 (subdivide_pos flow dlow nx.1 nx.2 ((nx.1 - flow) / ((between + 1 : ℕ) : ℝ)) between flow d h) (by linarith)
    cases rest with
    | nil => exact ⟨hp, fun _ => hfs⟩
    | cons t rest' =>
      simp only
      by_cases ht : feq t.1 (0.0 : ℝ) = true
      · rw [if_pos ht]; exact ⟨hp, fun _ => hfs⟩
      · rw [if_neg ht]
        have hch' := List.isChain_cons_cons.1 hch
        have hchain : List.IsChain (fun p q : ℝ × ℝ => p.1 < q.1 ∧ p.2 < q.2) (t :: rest') := hch'.2
        have r := ih nx.1 nx.2 t rest' _ ((nx.1 - flow) / ((between + 1 : ℕ) : ℝ)) hp ⟨hch'.1.1, hch'.1.2, by linarith, hchain⟩
        refine ⟨r.1, fun _ => ?_⟩
        cases k with
        | zero => simp only [segments]; exact hfs
        | succ k' => exact r.2 (Nat.succ_pos _)

/-! ### sorting keeps the members; the last element of a strictly sorted list carries the largest key -/

theorem mem_insertSorted_of (p : ℝ × ℝ) (l : FDict ℝ) : ∀ q, (q = p ∨ q ∈ l) → q ∈ insertSorted p l := by
  induction l with
  | nil =>
    intro q hq
    rcases hq with e | e
    · simp [insertSorted, e]
    · exact absurd e List.not_mem_nil
  | cons a rest ih =>
    intro q hq
    unfold insertSorted
    by_cases h : p.1 < a.1
    · rw [if_pos h]
      rcases hq with e | e
      · rw [e]; exact List.mem_cons_self
      · exact List.mem_cons_of_mem _ e
    · rw [if_neg h]
      rcases hq with e | e
      · exact List.mem_cons_of_mem _ (ih q (Or.inl e))
      · rcases List.mem_cons.1 e with e1 | e1
        · rw [e1]; exact List.mem_cons_self
        · exact List.mem_cons_of_mem _ (ih q (Or.inr e1))

theorem mem_foldl_insert : ∀ (d acc : FDict ℝ) (q : ℝ × ℝ), (q ∈ acc ∨ q ∈ d) → q ∈ d.foldl (fun acc p => insertSorted p acc) acc := by
  intro d
  induction d with
  | nil =>
    intro acc q hq
    rcases hq with e | e
    · exact e
    · exact absurd e List.not_mem_nil
  | cons a rest ih =>
    intro acc q hq
    simp only [List.foldl_cons]
    apply ih
    rcases hq with e | e
    · left; exact mem_insertSorted_of a acc q (Or.inr e)
    · rcases List.mem_cons.1 e with e1 | e1
      · left; exact mem_insertSorted_of a acc q (Or.inl e1)
      · right; exact e1

theorem mem_sortF_of_mem (d : FDict ℝ) (q : ℝ × ℝ) (h : q ∈ d) : q ∈ sortF d := by
  unfold sortF; exact mem_foldl_insert d [] q (Or.inr h)

theorem last_is_max (l : FDict ℝ) (top : ℝ × ℝ) (tl : FDict ℝ) (hs : StrictKeys l) (hr : l.reverse = top :: tl) :
    ∀ p ∈ l, p = top ∨ p.1 < top.1 := by
  have e : l = tl.reverse ++ [top] := by
    have := congrArg List.reverse hr
    simpa using this
  intro p hp
  rw [e] at hp hs
  unfold StrictKeys at hs
  rw [List.pairwise_append] at hs
  rcases List.mem_append.1 hp with h1 | h1
  · right; exact hs.2.2 p h1 top (List.mem_singleton.2 rfl)
  · left; exact List.mem_singleton.1 h1

theorem rev_tail_lt (l : FDict ℝ) (top : ℝ × ℝ) (tl : FDict ℝ) (hs : StrictKeys l) (hr : l.reverse = top :: tl) :
    ∀ p ∈ tl, p.1 < top.1 := by
  have e : l = tl.reverse ++ [top] := by
    have := congrArg List.reverse hr
    simpa using this
  intro p hp
  rw [e] at hs
  unfold StrictKeys at hs
  rw [List.pairwise_append] at hs
  exact hs.2.2 p (List.mem_reverse.2 hp) top (List.mem_singleton.2 rfl)

theorem mono_sortF (d : FDict ℝ) (hnd : KeysNodup d) (hm : Mono d) : Mono (sortF d) :=
  fun p hp q hq hpq => hm p (mem_sortF d hnd p hp) q (mem_sortF d hnd q hq) hpq

end Spec.Fracs
