import Dhlldv.Lemmas.FracsRange
import Mathlib.Analysis.SpecialFunctions.Pow.Real

/-! The diameters of the discretised grading increase strictly with the fraction: every stored node lies on a strictly increasing
log-linear curve, and every new node is placed to the right of and above all nodes stored before it. -/

namespace Spec.Fracs

/-- diameter strictly increasing in the fraction across the whole dict -/
def Mono (d : FDict ℝ) : Prop := ∀ p ∈ d, ∀ q ∈ d, p.1 < q.1 → p.2 < q.2

/-- every node is at or below fraction c and diameter v -/
def Below (d : FDict ℝ) (c v : ℝ) : Prop := ∀ p ∈ d, p.1 ≤ c ∧ p.2 ≤ v

theorem mem_setF (d : FDict ℝ) (k v : ℝ) : ∀ p ∈ setF d k v, p = (k, v) ∨ p ∈ d := by
  induction d with
  | nil => intro p hp; simp [setF] at hp; left; exact hp
  | cons a rest ih =>
    intro p hp
    unfold setF at hp
    by_cases h : feq a.1 k = true
    · rw [if_pos h] at hp
      rcases List.mem_cons.1 hp with e | e
      · left; rw [e, (feq_iff_eq _ _).1 h]
      · right; exact List.mem_cons_of_mem _ e
    · rw [if_neg h] at hp
      rcases List.mem_cons.1 hp with e | e
      · right; rw [e]; exact List.mem_cons_self
      · rcases ih p e with e1 | e1
        · left; exact e1
        · right; exact List.mem_cons_of_mem _ e1

theorem setF_mono_below (d : FDict ℝ) (k v c w : ℝ) (hm : Mono d) (hb : Below d c w) (hk : c < k) (hv : w < v) :
    Mono (setF d k v) ∧ Below (setF d k v) k v := by
  constructor
  · intro p hp q hq hpq
    rcases mem_setF d k v p hp with ep | ep <;> rcases mem_setF d k v q hq with eq | eq
    · rw [ep, eq] at hpq; exact absurd hpq (lt_irrefl _)
    · rw [ep] at hpq; have := (hb q eq).1; simp only at hpq; linarith
    · rw [eq]; have := (hb p ep).2; simp only; linarith
    · exact hm p ep q eq hpq
  · intro p hp
    rcases mem_setF d k v p hp with ep | ep
    · rw [ep]; exact ⟨le_refl _, le_refl _⟩
    · have := hb p ep; exact ⟨by linarith, by linarith⟩

/-- the curve on which the nodes of one segment lie -/
noncomputable def seg (flow dlow fnext dnext : ℝ) (x : ℝ) : ℝ := pow10 (logInterp flow dlow fnext dnext x)

theorem pow10_strictMono : StrictMono (pow10 : ℝ → ℝ) := by
  intro a b hab
  unfold pow10
  simp only [Transc.rpow]
  have h10 : (10.0 : ℝ) = 10 := by norm_num
  rw [h10]
  exact Real.rpow_lt_rpow_of_exponent_lt (by norm_num) hab

theorem pow10_log10 (d : ℝ) (hd : 0 < d) : pow10 (Transc.log10 d) = d := by
  unfold pow10
  simp only [Transc.rpow, Transc.log10]
  have h10 : (10.0 : ℝ) = 10 := by norm_num
  rw [h10, Real.rpow_def_of_pos (by norm_num : (0:ℝ) < 10), mul_div_cancel₀ _ (by
    have := Real.log_pos (by norm_num : (1:ℝ) < 10); linarith), Real.exp_log hd]

theorem log10_lt {a b : ℝ} (ha : 0 < a) (hab : a < b) : Transc.log10 a < Transc.log10 b := by
  show Real.log a / Real.log 10 < Real.log b / Real.log 10
  exact div_lt_div_of_pos_right (Real.log_lt_log ha hab) (Real.log_pos (by norm_num))

theorem seg_strictMono (flow dlow fnext dnext : ℝ) (hf : flow < fnext) (hd0 : 0 < dlow) (hd : dlow < dnext) :
    StrictMono (seg flow dlow fnext dnext) := by
  intro a b hab
  unfold seg
  apply pow10_strictMono
  unfold logInterp
  have hw : 0 < fnext - flow := sub_pos.2 hf
  have hl := log10_lt hd0 hd
  have h1 : (Transc.log10 dnext - Transc.log10 dlow) * (fnext - b) / (fnext - flow) <
      (Transc.log10 dnext - Transc.log10 dlow) * (fnext - a) / (fnext - flow) := by
    apply div_lt_div_of_pos_right _ hw
    apply mul_lt_mul_of_pos_left _ (sub_pos.2 hl)
    linarith
  linarith

theorem seg_left (flow dlow fnext dnext : ℝ) (hf : flow < fnext) (hd0 : 0 < dlow) : seg flow dlow fnext dnext flow = dlow := by
  unfold seg logInterp
  have hw : fnext - flow ≠ 0 := ne_of_gt (sub_pos.2 hf)
  rw [mul_div_assoc, div_self hw, mul_one]
  have : Transc.log10 dnext - (Transc.log10 dnext - Transc.log10 dlow) = Transc.log10 dlow := by ring
  rw [this, pow10_log10 dlow hd0]

theorem seg_right (flow dlow fnext dnext : ℝ) (hd1 : 0 < dnext) : seg flow dlow fnext dnext fnext = dnext := by
  unfold seg logInterp
  simp only [sub_self, mul_zero, zero_div, sub_zero]
  exact pow10_log10 dnext hd1

/-- the inner loop keeps the nodes ordered: it walks to the right along the segment's curve -/
theorem subdivide_mono (flow dlow fnext dnext fs : ℝ) (hg : StrictMono (seg flow dlow fnext dnext)) (hfs : 0 < fs) :
    ∀ (n : Nat) (fthis : ℝ) (d : FDict ℝ), Mono d → Below d fthis (seg flow dlow fnext dnext fthis) →
      Mono (subdivide flow dlow fnext dnext fs n fthis d) ∧
      Below (subdivide flow dlow fnext dnext fs n fthis d) (fthis + n * fs) (seg flow dlow fnext dnext (fthis + n * fs)) := by
  intro n
  induction n with
  | zero => intro fthis d hm hb; simp only [subdivide, Nat.cast_zero, zero_mul, add_zero]; exact ⟨hm, hb⟩
  | succ k ih =>
    intro fthis d hm hb
    unfold subdivide
    have hstep := setF_mono_below d (fthis + fs) (seg flow dlow fnext dnext (fthis + fs)) fthis (seg flow dlow fnext dnext fthis) hm hb
      (by linarith) (hg (by linarith))
    have e : fthis + ((k + 1 : ℕ) : ℝ) * fs = fthis + fs + k * fs := by push_cast; ring
    rw [e]
    exact ih (fthis + fs) _ hstep.1 hstep.2

/-- the remaining given points: strictly to the right of and above the current node, strictly increasing in both coordinates, positive diameters -/
def StrictOK (flow dlow : ℝ) (nx : ℝ × ℝ) (rest : List (ℝ × ℝ)) : Prop :=
  flow < nx.1 ∧ dlow < nx.2 ∧ 0 < dlow ∧ List.IsChain (fun p q : ℝ × ℝ => p.1 < q.1 ∧ p.2 < q.2) (nx :: rest)

theorem segments_mono (between : Nat) : ∀ (fuel : Nat) (flow dlow : ℝ) (nx : ℝ × ℝ) (rest : List (ℝ × ℝ)) (d : FDict ℝ) (fs : ℝ),
    Mono d → Below d flow dlow → StrictOK flow dlow nx rest →
    Mono (segments between (fun n : Nat => (n : ℝ)) fuel flow dlow nx rest d fs).1 := by
  intro fuel
  induction fuel with
  | zero => intro flow dlow nx rest d fs hm _ _; exact hm
  | succ k ih =>
    intro flow dlow nx rest d fs hm hb hok
    obtain ⟨hf, hd, hd0, hch⟩ := hok
    unfold segments
    have hb1 : (0:ℝ) < ((between + 1 : ℕ) : ℝ) := by positivity
    have hfs : 0 < (nx.1 - flow) / ((between + 1 : ℕ) : ℝ) := div_pos (by linarith) hb1
    have hg := seg_strictMono flow dlow nx.1 nx.2 hf hd0 hd
    have hb' : Below d flow (seg flow dlow nx.1 nx.2 flow) := by rw [seg_left flow dlow nx.1 nx.2 hf hd0]; exact hb
    have hsub := subdivide_mono flow dlow nx.1 nx.2 _ hg hfs between flow d hm hb'
    -- the given node (fnext, dnext) lies to the right of and above the last interpolated node
    have hlast : flow + (between : ℝ) * ((nx.1 - flow) / ((between + 1 : ℕ) : ℝ)) < nx.1 := by
      have : (between : ℝ) * ((nx.1 - flow) / ((between + 1 : ℕ) : ℝ)) < nx.1 - flow := by
        rw [mul_div_assoc', div_lt_iff₀ hb1]
        push_cast
        nlinarith
      linarith
    have hval : seg flow dlow nx.1 nx.2 (flow + (between : ℝ) * ((nx.1 - flow) / ((between + 1 : ℕ) : ℝ))) < nx.2 := by
      have := hg hlast
      rw [seg_right flow dlow nx.1 nx.2 (by linarith)] at this
      exact this
    have hnode := setF_mono_below _ nx.1 nx.2 _ _ hsub.1 hsub.2 hlast hval
    cases rest with
    | nil => exact hnode.1
    | cons t rest' =>
      simp only
      by_cases ht : feq t.1 (0.0 : ℝ) = true
      · rw [if_pos ht]; exact hnode.1
      · rw [if_neg ht]
        have hch' := List.isChain_cons_cons.1 hch
        exact ih nx.1 nx.2 t rest' _ _ hnode.1 hnode.2 ⟨hch'.1.1, hch'.1.2, by linarith, hch'.2⟩

/-! ### the start node persists, and no node lies below the start diameter -/

/-- every node is at or above fraction c and diameter v -/
def Above (d : FDict ℝ) (c v : ℝ) : Prop := ∀ p ∈ d, c ≤ p.1 ∧ v ≤ p.2

theorem setF_keeps (d : FDict ℝ) (k v : ℝ) (p : ℝ × ℝ) (hp : p ∈ d) (hk : p.1 ≠ k) : p ∈ setF d k v := by
  induction d with
  | nil => exact absurd hp List.not_mem_nil
  | cons a rest ih =>
    unfold setF
    by_cases h : feq a.1 k = true
    · rw [if_pos h]
      rcases List.mem_cons.1 hp with e | e
      · exfalso; apply hk; rw [e]; exact (feq_iff_eq _ _).1 h
      · exact List.mem_cons_of_mem _ e
    · rw [if_neg h]
      rcases List.mem_cons.1 hp with e | e
      · rw [e]; exact List.mem_cons_self
      · exact List.mem_cons_of_mem _ (ih e)

theorem setF_above (d : FDict ℝ) (k v c w : ℝ) (h : Above d c w) (hk : c ≤ k) (hv : w ≤ v) : Above (setF d k v) c w := by
  intro p hp
  rcases mem_setF d k v p hp with e | e
  · rw [e]; exact ⟨hk, hv⟩
  · exact h p e

theorem subdivide_keeps_above (flow dlow fnext dnext fs : ℝ) (hg : StrictMono (seg flow dlow fnext dnext)) (hfs : 0 < fs) (c w : ℝ) (p0 : ℝ × ℝ) :
    ∀ (n : Nat) (fthis : ℝ) (d : FDict ℝ), Above d c w → c ≤ fthis → w ≤ seg flow dlow fnext dnext fthis → (p0 ∈ d ∧ p0.1 ≤ fthis) →
      Above (subdivide flow dlow fnext dnext fs n fthis d) c w ∧ p0 ∈ subdivide flow dlow fnext dnext fs n fthis d := by
  intro n
  induction n with
  | zero => intro fthis d ha _ _ hp; exact ⟨ha, hp.1⟩
  | succ k ih =>
    intro fthis d ha hc hw hp
    unfold subdivide
    have hlt : seg flow dlow fnext dnext fthis < seg flow dlow fnext dnext (fthis + fs) := hg (by linarith)
    apply ih (fthis + fs)
    · exact setF_above d _ _ c w ha (by linarith) (le_of_lt (lt_of_le_of_lt hw hlt))
    · linarith
    · exact le_of_lt (lt_of_le_of_lt hw hlt)
    · exact ⟨setF_keeps d _ _ p0 hp.1 (by linarith [hp.2]), by linarith [hp.2]⟩

theorem segments_keeps_above (between : Nat) (c w : ℝ) (p0 : ℝ × ℝ) : ∀ (fuel : Nat) (flow dlow : ℝ) (nx : ℝ × ℝ) (rest : List (ℝ × ℝ)) (d : FDict ℝ) (fs : ℝ),
    Above d c w → c ≤ flow → w ≤ dlow → (p0 ∈ d ∧ p0.1 ≤ flow) → StrictOK flow dlow nx rest →
    Above (segments between (fun n : Nat => (n : ℝ)) fuel flow dlow nx rest d fs).1 c w ∧
    p0 ∈ (segments between (fun n : Nat => (n : ℝ)) fuel flow dlow nx rest d fs).1 := by
  intro fuel
  induction fuel with
  | zero => intro flow dlow nx rest d fs ha _ _ hp _; exact ⟨ha, hp.1⟩
  | succ k ih =>
    intro flow dlow nx rest d fs ha hc hw hp hok
    obtain ⟨hf, hd, hd0, hch⟩ := hok
    unfold segments
    have hb1 : (0:ℝ) < ((between + 1 : ℕ) : ℝ) := by positivity
    have hfs : 0 < (nx.1 - flow) / ((between + 1 : ℕ) : ℝ) := div_pos (by linarith) hb1
    have hg := seg_strictMono flow dlow nx.1 nx.2 hf hd0 hd
    have hsub := subdivide_keeps_above flow dlow nx.1 nx.2 _ hg hfs c w p0 between flow d ha hc
      (by rw [seg_left flow dlow nx.1 nx.2 hf hd0]; exact hw) hp
    have hnode : Above (setF (subdivide flow dlow nx.1 nx.2 ((nx.1 - flow) / ((between + 1 : ℕ) : ℝ)) between flow d) nx.1 nx.2) c w ∧
        p0 ∈ setF (subdivide flow dlow nx.1 nx.2 ((nx.1 - flow) / ((between + 1 : ℕ) : ℝ)) between flow d) nx.1 nx.2 :=
      ⟨setF_above _ _ _ c w hsub.1 (by linarith) (by linarith), setF_keeps _ _ _ p0 hsub.2 (by linarith [hp.2])⟩
    cases rest with
    | nil => exact hnode
    | cons t rest' =>
      simp only
      by_cases ht : feq t.1 (0.0 : ℝ) = true
      · rw [if_pos ht]; exact hnode
      · rw [if_neg ht]
        have hch' := List.isChain_cons_cons.1 hch
        exact ih nx.1 nx.2 t rest' _ _ hnode.1 (by linarith) (by linarith) ⟨hnode.2, by linarith [hp.2]⟩
          ⟨hch'.1.1, hch'.1.2, by linarith, hch'.2⟩

theorem subdivide_above (flow dlow fnext dnext fs : ℝ) (hg : StrictMono (seg flow dlow fnext dnext)) (hfs : 0 < fs) (c w : ℝ) :
    ∀ (n : Nat) (fthis : ℝ) (d : FDict ℝ), Above d c w → c ≤ fthis → w ≤ seg flow dlow fnext dnext fthis →
      Above (subdivide flow dlow fnext dnext fs n fthis d) c w := by
  intro n
  induction n with
  | zero => intro fthis d ha _ _; exact ha
  | succ k ih =>
    intro fthis d ha hc hw
    unfold subdivide
    have hlt : seg flow dlow fnext dnext fthis < seg flow dlow fnext dnext (fthis + fs) := hg (by linarith)
    apply ih (fthis + fs)
    · exact setF_above d _ _ c w ha (by linarith) (le_of_lt (lt_of_le_of_lt hw hlt))
    · linarith
    · exact le_of_lt (lt_of_le_of_lt hw hlt)

theorem segments_above (between : Nat) (c w : ℝ) : ∀ (fuel : Nat) (flow dlow : ℝ) (nx : ℝ × ℝ) (rest : List (ℝ × ℝ)) (d : FDict ℝ) (fs : ℝ),
    Above d c w → c ≤ flow → w ≤ dlow → StrictOK flow dlow nx rest →
    Above (segments between (fun n : Nat => (n : ℝ)) fuel flow dlow nx rest d fs).1 c w := by
  intro fuel
  induction fuel with
  | zero => intro flow dlow nx rest d fs ha _ _ _; exact ha
  | succ k ih =>
    intro flow dlow nx rest d fs ha hc hw hok
    obtain ⟨hf, hd, hd0, hch⟩ := hok
    unfold segments
    have hb1 : (0:ℝ) < ((between + 1 : ℕ) : ℝ) := by positivity
    have hfs : 0 < (nx.1 - flow) / ((between + 1 : ℕ) : ℝ) := div_pos (by linarith) hb1
    have hg := seg_strictMono flow dlow nx.1 nx.2 hf hd0 hd
    have hsub := subdivide_above flow dlow nx.1 nx.2 _ hg hfs c w between flow d ha hc
      (by rw [seg_left flow dlow nx.1 nx.2 hf hd0]; exact hw)
    have hnode := setF_above _ nx.1 nx.2 c w hsub (by linarith) (by linarith)
    cases rest with
    | nil => exact hnode
    | cons t rest' =>
      simp only
      by_cases ht : feq t.1 (0.0 : ℝ) = true
      · rw [if_pos ht]; exact hnode
      · rw [if_neg ht]
        have hch' := List.isChain_cons_cons.1 hch
        exact ih nx.1 nx.2 t rest' _ _ hnode (by linarith) (by linarith) ⟨hch'.1.1, hch'.1.2, by linarith, hch'.2⟩

theorem mem_setF_self (d : FDict ℝ) (k v : ℝ) : (k, v) ∈ setF d k v := by
  induction d with
  | nil => simp [setF]
  | cons a r ih =>
    unfold setF
    by_cases hh : feq a.1 k = true
    · rw [if_pos hh, ← (feq_iff_eq _ _).1 hh]; exact List.mem_cons_self
    · rw [if_neg hh]; exact List.mem_cons_of_mem _ ih

theorem subdivide_keeps (flow dlow fnext dnext fs : ℝ) (hfs : 0 < fs) (p0 : ℝ × ℝ) :
    ∀ (n : Nat) (fthis : ℝ) (d : FDict ℝ), p0 ∈ d → p0.1 ≤ fthis → p0 ∈ subdivide flow dlow fnext dnext fs n fthis d := by
  intro n
  induction n with
  | zero => intro fthis d hp _; exact hp
  | succ k ih =>
    intro fthis d hp hle
    unfold subdivide
    exact ih (fthis + fs) _ (setF_keeps d _ _ p0 hp (by linarith)) (by linarith)

theorem segments_keeps (between : Nat) (p0 : ℝ × ℝ) : ∀ (fuel : Nat) (flow dlow : ℝ) (nx : ℝ × ℝ) (rest : List (ℝ × ℝ)) (d : FDict ℝ) (fs : ℝ),
    p0 ∈ d → p0.1 ≤ flow → StrictOK flow dlow nx rest →
    p0 ∈ (segments between (fun n : Nat => (n : ℝ)) fuel flow dlow nx rest d fs).1 := by
  intro fuel
  induction fuel with
  | zero => intro flow dlow nx rest d fs hp _ _; exact hp
  | succ k ih =>
    intro flow dlow nx rest d fs hp hle hok
    obtain ⟨hf, hd, hd0, hch⟩ := hok
    unfold segments
    have hb1 : (0:ℝ) < ((between + 1 : ℕ) : ℝ) := by positivity
    have hfs : 0 < (nx.1 - flow) / ((between + 1 : ℕ) : ℝ) := div_pos (by linarith) hb1
    have h1 := subdivide_keeps flow dlow nx.1 nx.2 _ hfs p0 between flow d hp hle
    have h2 := setF_keeps _ nx.1 nx.2 p0 h1 (by linarith)
    cases rest with
    | nil => exact h2
    | cons t rest' =>
      simp only
      by_cases ht : feq t.1 (0.0 : ℝ) = true
      · rw [if_pos ht]; exact h2
      · rw [if_neg ht]
        have hch' := List.isChain_cons_cons.1 hch
        exact ih nx.1 nx.2 t rest' _ _ h2 (by linarith) ⟨hch'.1.1, hch'.1.2, by linarith, hch'.2⟩

/-- every remaining given point becomes a node of the dict built by the segment loop (and stays one) -/
theorem segments_nodes (between : Nat) : ∀ (fuel : Nat) (flow dlow : ℝ) (nx : ℝ × ℝ) (rest : List (ℝ × ℝ)) (d : FDict ℝ) (fs : ℝ),
    rest.length < fuel → 0 ≤ flow → StrictOK flow dlow nx rest →
    ∀ q ∈ nx :: rest, q ∈ (segments between (fun n : Nat => (n : ℝ)) fuel flow dlow nx rest d fs).1 := by
  intro fuel
  induction fuel with
  | zero => intro flow dlow nx rest d fs hl _ _; exact absurd hl (Nat.not_lt_zero _)
  | succ k ih =>
    intro flow dlow nx rest d fs hl h0 hok q hq
    obtain ⟨hf, hd, hd0, hch⟩ := hok
    have hnx : nx ∈ setF (subdivide flow dlow nx.1 nx.2 ((nx.1 - flow) / ((between + 1 : ℕ) : ℝ)) between flow d) nx.1 nx.2 :=
      mem_setF_self _ nx.1 nx.2
    unfold segments
    cases rest with
    | nil =>
      simp only [List.mem_singleton] at hq
      rw [hq]; exact hnx
    | cons t rest' =>
      simp only
      have hch' := List.isChain_cons_cons.1 hch
      have ht0 : ¬ feq t.1 (0.0 : ℝ) = true := by
        rw [feq_iff_eq]
        intro e
        have : 0 < t.1 := by linarith [hch'.1.1]
        rw [e] at this; norm_num at this
      rw [if_neg ht0]
      have hok' : StrictOK nx.1 nx.2 t rest' := ⟨hch'.1.1, hch'.1.2, by linarith, hch'.2⟩
      rcases List.mem_cons.1 hq with e | e
      · rw [e]; exact segments_keeps between nx k nx.1 nx.2 t rest' _ _ hnx (le_refl _) hok'
      · exact ih nx.1 nx.2 t rest' _ _ (by simp only [List.length_cons] at hl; omega) (by linarith) hok' q e

/-! ### positivity of the stored diameters and of the last subdivision step -/

def Pos (d : FDict ℝ) : Prop := ∀ p ∈ d, 0 < p.2

theorem pow10_pos (x : ℝ) : 0 < pow10 x := by
  unfold pow10
  simp only [Transc.rpow]
  exact Real.rpow_pos_of_pos (by norm_num) _

theorem setF_pos (d : FDict ℝ) (k v : ℝ) (h : Pos d) (hv : 0 < v) : Pos (setF d k v) := by
  intro p hp
  rcases mem_setF d k v p hp with e | e
  · rw [e]; exact hv
  · exact h p e

theorem subdivide_pos (flow dlow fnext dnext fs : ℝ) : ∀ (n : Nat) (fthis : ℝ) (d : FDict ℝ), Pos d →
    Pos (subdivide flow dlow fnext dnext fs n fthis d) := by
  intro n
  induction n with
  | zero => intro fthis d h; exact h
  | succ k ih => intro fthis d h; unfold subdivide; exact ih _ _ (setF_pos _ _ _ h (pow10_pos _))

theorem segments_pos_fs (between : Nat) : ∀ (fuel : Nat) (flow dlow : ℝ) (nx : ℝ × ℝ) (rest : List (ℝ × ℝ)) (d : FDict ℝ) (fs : ℝ),
    Pos d → StrictOK flow dlow nx rest →
    Pos (segments between (fun n : Nat => (n : ℝ)) fuel flow dlow nx rest d fs).1 ∧
    (0 < fuel → 0 < (segments between (fun n : Nat => (n : ℝ)) fuel flow dlow nx rest d fs).2) := by
  intro fuel
  induction fuel with
  | zero => intro flow dlow nx rest d fs h _; exact ⟨h, fun h0 => absurd h0 (lt_irrefl 0)⟩
  | succ k ih =>
    intro flow dlow nx rest d fs h hok
    obtain ⟨hf, hd, hd0, hch⟩ := hok
    unfold segments
    have hb1 : (0:ℝ) < ((between + 1 : ℕ) : ℝ) := by positivity
    have hfs : 0 < (nx.1 - flow) / ((between + 1 : ℕ) : ℝ) := div_pos (by linarith) hb1
    have hp := setF_pos _ nx.1 nx.2 (subdivide_pos flow dlow nx.1 nx.2 ((nx.1 - flow) / ((between + 1 : ℕ) : ℝ)) between flow d h) (by linarith)
    cases rest with
    | nil => exact ⟨hp, fun _ => hfs⟩
    | cons t rest' =>
      simp only
      by_cases ht : feq t.1 (0.0 : ℝ) = true
      · rw [if_pos ht]; exact ⟨hp, fun _ => hfs⟩
      · rw [if_neg ht]
        have hch' := List.isChain_cons_cons.1 hch
        have hchain : List.IsChain (fun p q : ℝ × ℝ => p.1 < q.1 ∧ p.2 < q.2) (t :: rest') := hch'.2
        have r := ih nx.1 nx.2 t rest' _ ((nx.1 - flow) / ((between + 1 : ℕ) : ℝ)) hp ⟨hch'.1.1, hch'.1.2, by linarith, hchain⟩
        refine ⟨r.1, fun _ => ?_⟩
        cases k with
        | zero => simp only [segments]; exact hfs
        | succ k' => exact r.2 (Nat.succ_pos _)

/-! ### sorting keeps the members; the last element of a strictly sorted list carries the largest key -/

theorem mem_insertSorted_of (p : ℝ × ℝ) (l : FDict ℝ) : ∀ q, (q = p ∨ q ∈ l) → q ∈ insertSorted p l := by
  induction l with
  | nil =>
    intro q hq
    rcases hq with e | e
    · simp [insertSorted, e]
    · exact absurd e List.not_mem_nil
  | cons a rest ih =>
    intro q hq
    unfold insertSorted
    by_cases h : p.1 < a.1
    · rw [if_pos h]
      rcases hq with e | e
      · rw [e]; exact List.mem_cons_self
      · exact List.mem_cons_of_mem _ e
    · rw [if_neg h]
      rcases hq with e | e
      · exact List.mem_cons_of_mem _ (ih q (Or.inl e))
      · rcases List.mem_cons.1 e with e1 | e1
        · rw [e1]; exact List.mem_cons_self
        · exact List.mem_cons_of_mem _ (ih q (Or.inr e1))

theorem mem_foldl_insert : ∀ (d acc : FDict ℝ) (q : ℝ × ℝ), (q ∈ acc ∨ q ∈ d) → q ∈ d.foldl (fun acc p => insertSorted p acc) acc := by
  intro d
  induction d with
  | nil =>
    intro acc q hq
    rcases hq with e | e
    · exact e
    · exact absurd e List.not_mem_nil
  | cons a rest ih =>
    intro acc q hq
    simp only [List.foldl_cons]
    apply ih
    rcases hq with e | e
    · left; exact mem_insertSorted_of a acc q (Or.inr e)
    · rcases List.mem_cons.1 e with e1 | e1
      · left; exact mem_insertSorted_of a acc q (Or.inl e1)
      · right; exact e1

theorem mem_sortF_of_mem (d : FDict ℝ) (q : ℝ × ℝ) (h : q ∈ d) : q ∈ sortF d := by
  unfold sortF; exact mem_foldl_insert d [] q (Or.inr h)

theorem last_is_max (l : FDict ℝ) (top : ℝ × ℝ) (tl : FDict ℝ) (hs : StrictKeys l) (hr : l.reverse = top :: tl) :
    ∀ p ∈ l, p = top ∨ p.1 < top.1 := by
  have e : l = tl.reverse ++ [top] := by
    have := congrArg List.reverse hr
    simpa using this
  intro p hp
  rw [e] at hp hs
  unfold StrictKeys at hs
  rw [List.pairwise_append] at hs
  rcases List.mem_append.1 hp with h1 | h1
  · right; exact hs.2.2 p h1 top (List.mem_singleton.2 rfl)
  · left; exact List.mem_singleton.1 h1

theorem rev_tail_lt (l : FDict ℝ) (top : ℝ × ℝ) (tl : FDict ℝ) (hs : StrictKeys l) (hr : l.reverse = top :: tl) :
    ∀ p ∈ tl, p.1 < top.1 := by
  have e : l = tl.reverse ++ [top] := by
    have := congrArg List.reverse hr
    simpa using this
  intro p hp
  rw [e] at hs
  unfold StrictKeys at hs
  rw [List.pairwise_append] at hs
  exact hs.2.2 p (List.mem_reverse.2 hp) top (List.mem_singleton.2 rfl)

theorem mono_sortF (d : FDict ℝ) (hnd : KeysNodup d) (hm : Mono d) : Mono (sortF d) :=
  fun p hp q hq hpq => hm p (mem_sortF d hnd p hp) q (mem_sortF d hnd q hq) hpq

/-- strict version of `SegOK`: the limit lies strictly below the upper diameter of the first remaining segment, the remaining points increase
strictly in fraction and in diameter, and the given fractions stay below 0.999 -/
structure StrictSeg (dlim : ℝ) (lo nx : ℝ × ℝ) (rest : List (ℝ × ℝ)) (B : ℝ) : Prop where
  f0 : 0 ≤ lo.1
  f1 : lo.1 < nx.1
  d0 : 0 < lo.2
  d1 : lo.2 < nx.2
  lim0 : 0 < dlim
  lim1 : dlim < nx.2
  chain : List.IsChain (fun p q : ℝ × ℝ => p.1 < q.1 ∧ p.2 < q.2) (nx :: rest)
  le : ∀ p ∈ nx :: rest, p.1 ≤ B
  B999 : B < 0.999

theorem StrictSeg.toSegOK {dlim : ℝ} {lo nx : ℝ × ℝ} {rest : List (ℝ × ℝ)} {B : ℝ} (h : StrictSeg dlim lo nx rest B) : SegOK dlim lo nx rest B :=
  { f0 := h.f0, f1 := h.f1, d0 := h.d0, d1 := h.d1, lim0 := h.lim0, lim1 := h.lim1.le,
    chain := List.IsChain.imp (fun _ _ hab => hab.1.le) h.chain, le := h.le }

theorem X_lt_fnext {dlim : ℝ} {lo nx : ℝ × ℝ} {rest : List (ℝ × ℝ)} {B : ℝ} (h : StrictSeg dlim lo nx rest B) :
    nx.1 - (Transc.log10 nx.2 - Transc.log10 dlim) * (nx.1 - lo.1) / (Transc.log10 nx.2 - Transc.log10 lo.2) < nx.1 := by
  have h1 : 0 < Transc.log10 nx.2 - Transc.log10 dlim := sub_pos.2 (log10_lt h.lim0 h.lim1)
  have h2 : 0 < Transc.log10 nx.2 - Transc.log10 lo.2 := sub_pos.2 (log10_lt h.d0 h.d1)
  have h3 : 0 < nx.1 - lo.1 := sub_pos.2 h.f1
  have : 0 < (Transc.log10 nx.2 - Transc.log10 dlim) * (nx.1 - lo.1) / (Transc.log10 nx.2 - Transc.log10 lo.2) :=
    div_pos (mul_pos h1 h3) h2
  linarith

/-- the diameter extrapolated to fraction 0 along the first segment lies below the segment's upper diameter -/
theorem dmin_lt {dlim : ℝ} {lo nx : ℝ × ℝ} {rest : List (ℝ × ℝ)} {B : ℝ} (h : StrictSeg dlim lo nx rest B) :
    pow10 (Transc.log10 nx.2 - (Transc.log10 nx.2 - Transc.log10 lo.2) * (nx.1 - (0.0:ℝ)) / (nx.1 - lo.1)) < nx.2 := by
  have h2 : 0 < Transc.log10 nx.2 - Transc.log10 lo.2 := sub_pos.2 (log10_lt h.d0 h.d1)
  have h3 : 0 < nx.1 - lo.1 := sub_pos.2 h.f1
  have h4 : 0 < nx.1 - (0.0:ℝ) := by rw [sci_zero]; linarith [h.f0, h.f1]
  have : 0 < (Transc.log10 nx.2 - Transc.log10 lo.2) * (nx.1 - (0.0:ℝ)) / (nx.1 - lo.1) := div_pos (mul_pos h2 h4) h3
  have hlt : Transc.log10 nx.2 - (Transc.log10 nx.2 - Transc.log10 lo.2) * (nx.1 - (0.0:ℝ)) / (nx.1 - lo.1) < Transc.log10 nx.2 := by linarith
  have := pow10_strictMono hlt
  rwa [pow10_log10 nx.2 (lt_trans h.d0 h.d1)] at this

/-- after the skip: (1) the diameters of the discretised grading increase strictly with the fraction; (2) no node lies left of the start fraction
or below the start diameter (start = (X, dlim) if the first segment reaches the limit at a positive fraction X, else (0, the diameter extrapolated to
fraction 0)); (3) in the first case the start node (X, dlim) is a node of the grading; (4) every remaining given point is a node of the grading -/
theorem afterSkip_facts (dlim : ℝ) (lo nx : ℝ × ℝ) (rest : List (ℝ × ℝ)) (pl n : Nat) (B : ℝ) (h : StrictSeg dlim lo nx rest B) :
    Mono (afterSkip (fun k : Nat => (k : ℝ)) dlim lo nx rest pl n).gsd ∧
    Above (afterSkip (fun k : Nat => (k : ℝ)) dlim lo nx rest pl n).gsd
      (if decide (nx.1 - (Transc.log10 nx.2 - Transc.log10 dlim) * (nx.1 - lo.1) / (Transc.log10 nx.2 - Transc.log10 lo.2) > (0.0:ℝ)) = true
        then nx.1 - (Transc.log10 nx.2 - Transc.log10 dlim) * (nx.1 - lo.1) / (Transc.log10 nx.2 - Transc.log10 lo.2) else (0.0:ℝ))
      (if decide (nx.1 - (Transc.log10 nx.2 - Transc.log10 dlim) * (nx.1 - lo.1) / (Transc.log10 nx.2 - Transc.log10 lo.2) > (0.0:ℝ)) = true
        then dlim else pow10 (Transc.log10 nx.2 - (Transc.log10 nx.2 - Transc.log10 lo.2) * (nx.1 - (0.0:ℝ)) / (nx.1 - lo.1))) ∧
    (decide (nx.1 - (Transc.log10 nx.2 - Transc.log10 dlim) * (nx.1 - lo.1) / (Transc.log10 nx.2 - Transc.log10 lo.2) > (0.0:ℝ)) = true →
      (nx.1 - (Transc.log10 nx.2 - Transc.log10 dlim) * (nx.1 - lo.1) / (Transc.log10 nx.2 - Transc.log10 lo.2), dlim) ∈
        (afterSkip (fun k : Nat => (k : ℝ)) dlim lo nx rest pl n).gsd) ∧
    (∀ q ∈ nx :: rest, q ∈ (afterSkip (fun k : Nat => (k : ℝ)) dlim lo nx rest pl n).gsd) := by
  have hXlt := X_lt_fnext h
  have hdmin := dmin_lt h
  unfold afterSkip
  simp only
  set X := nx.1 - (Transc.log10 nx.2 - Transc.log10 dlim) * (nx.1 - lo.1) / (Transc.log10 nx.2 - Transc.log10 lo.2) with hX
  set dmin := pow10 (Transc.log10 nx.2 - (Transc.log10 nx.2 - Transc.log10 lo.2) * (nx.1 - (0.0:ℝ)) / (nx.1 - lo.1)) with hdm
  have hnx0 : 0 < nx.1 := by linarith [h.f0, h.f1]
  have hstart : ∀ (b : Bool), (b = true → 0 < X) →
      Mono (if b = true then [(X, dlim)] else []) ∧
      Below (if b = true then [(X, dlim)] else []) (if b = true then X else (0.0:ℝ)) (if b = true then dlim else dmin) ∧
      StrictOK (if b = true then X else (0.0:ℝ)) (if b = true then dlim else dmin) nx rest ∧
      Pos (if b = true then [(X, dlim)] else []) ∧ KeysNodup (if b = true then [(X, dlim)] else []) ∧
      KeysIn (if b = true then [(X, dlim)] else []) 0 B ∧ 0 ≤ (if b = true then X else (0.0:ℝ)) ∧
      Above (if b = true then [(X, dlim)] else []) (if b = true then X else (0.0:ℝ)) (if b = true then dlim else dmin) := by
    intro b hb
    cases b with
    | false =>
      refine ⟨?_, ?_, ?_, ?_, ?_, ?_, ?_, ?_⟩
      · intro p hp; simp at hp
      · intro p hp; simp at hp
      · simp only [Bool.false_eq_true, if_false]
        exact ⟨by rw [sci_zero]; exact hnx0, hdmin, pow10_pos _, h.chain⟩
      · intro p hp; simp at hp
      · simp [KeysNodup]
      · simp [keysIn_nil]
      · simp
      · intro p hp; simp at hp
    | true =>
      have hx := hb rfl
      simp only [if_true]
      refine ⟨?_, ?_, ⟨hXlt, h.lim1, h.lim0, h.chain⟩, ?_, by simp [KeysNodup], ?_, hx.le, ?_⟩
      · intro p hp q hq hpq
        simp only [List.mem_singleton] at hp hq
        rw [hp, hq] at hpq; exact absurd hpq (lt_irrefl _)
      · intro p hp
        simp only [List.mem_singleton] at hp
        rw [hp]; exact ⟨le_refl _, le_refl _⟩
      · intro p hp
        simp only [List.mem_singleton] at hp
        rw [hp]; exact h.lim0
      · intro p hp
        simp only [List.mem_singleton] at hp
        rw [hp]; exact ⟨hx.le, le_trans hXlt.le (h.le nx List.mem_cons_self)⟩
      · intro p hp
        simp only [List.mem_singleton] at hp
        rw [hp]; exact ⟨le_refl _, le_refl _⟩
  have hdec : decide (X > (0.0:ℝ)) = true → 0 < X := by
    intro hd; simpa [sci_zero] using hd
  obtain ⟨hm0, hb0, hok0, hp0, hnd0, hk0, hf0, ha0⟩ := hstart (decide (X > (0.0:ℝ))) hdec
  have hfrok : FracsOK (if decide (X > (0.0:ℝ)) = true then X else (0.0:ℝ)) nx rest B :=
    ⟨hok0.1.le, List.IsChain.imp (fun _ _ hab => hab.1.le) h.chain, h.le⟩
  set fl0 := (if decide (X > (0.0:ℝ)) = true then X else (0.0:ℝ)) with hfl0
  set dl0 := (if decide (X > (0.0:ℝ)) = true then dlim else dmin) with hdl0
  set dd0 : FDict ℝ := (if decide (X > (0.0:ℝ)) = true then [(X, dlim)] else []) with hdd0
  have hM := segments_mono ((n - pl - 1 + pl - 1) / pl) (rest.length + 1) fl0 dl0 nx rest dd0 (0.0:ℝ) hm0 hb0 hok0
  have hP := segments_pos_fs ((n - pl - 1 + pl - 1) / pl) (rest.length + 1) fl0 dl0 nx rest dd0 (0.0:ℝ) hp0 hok0
  have hN := segments_nodup ((n - pl - 1 + pl - 1) / pl) (fun k : Nat => (k : ℝ)) (rest.length + 1) fl0 dl0 nx rest dd0 (0.0:ℝ) hnd0
  have hK := segments_keysIn ((n - pl - 1 + pl - 1) / pl) (rest.length + 1) fl0 dl0 nx rest dd0 (0.0:ℝ) 0 B hk0 hf0 (by norm_num) hfrok
  have hA := segments_above ((n - pl - 1 + pl - 1) / pl) fl0 dl0 (rest.length + 1) fl0 dl0 nx rest dd0 (0.0:ℝ) ha0 (le_refl _) (le_refl _) hok0
  have hNodes := segments_nodes ((n - pl - 1 + pl - 1) / pl) (rest.length + 1) fl0 dl0 nx rest dd0 (0.0:ℝ) (Nat.lt_succ_self _) hf0 hok0
  have hMem : decide (X > (0.0:ℝ)) = true →
      (X, dlim) ∈ (segments ((n - pl - 1 + pl - 1) / pl) (fun k : Nat => (k : ℝ)) (rest.length + 1) fl0 dl0 nx rest dd0 (0.0 : ℝ)).1 ∧ fl0 = X := by
    intro hb
    have e1 : fl0 = X := by rw [hfl0, if_pos hb]
    have e3 : (X, dlim) ∈ dd0 := by rw [hdd0, if_pos hb]; exact List.mem_singleton.2 rfl
    exact ⟨(segments_keeps_above ((n - pl - 1 + pl - 1) / pl) fl0 dl0 (X, dlim) (rest.length + 1) fl0 dl0 nx rest dd0 (0.0:ℝ) ha0 (le_refl _) (le_refl _)
      ⟨e3, by rw [e1]⟩ hok0).2, e1⟩
  generalize hseg : segments ((n - pl - 1 + pl - 1) / pl) (fun k : Nat => (k : ℝ)) (rest.length + 1) fl0 dl0 nx rest dd0 (0.0 : ℝ) = sg
  rw [hseg] at hM hP hN hK hA hMem hNodes
  obtain ⟨d, fs⟩ := sg
  simp only at hM hP hN hK hA hMem hNodes ⊢
  have hfs : 0 < fs := hP.2 (Nat.succ_pos _)
  cases hr : (sortF d).reverse with
  | nil =>
    simp only
    exact ⟨mono_sortF d hN hM, fun p hp => hA p (mem_sortF d hN p hp), fun hb => mem_sortF_of_mem d _ (hMem hb).1,
        fun q hq => mem_sortF_of_mem d q (hNodes q hq)⟩
  | cons top tl =>
    cases tl with
    | nil =>
      simp only
      exact ⟨mono_sortF d hN hM, fun p hp => hA p (mem_sortF d hN p hp), fun hb => mem_sortF_of_mem d _ (hMem hb).1,
        fun q hq => mem_sortF_of_mem d q (hNodes q hq)⟩
    | cons below tl' =>
      simp only
      have hs := sortF_strict d hN
      have htop : top ∈ d := by
        apply mem_sortF d hN
        have : top ∈ (sortF d).reverse := by rw [hr]; exact List.mem_cons_self
        exact List.mem_reverse.1 this
      have hbel : below ∈ d := by
        apply mem_sortF d hN
        have : below ∈ (sortF d).reverse := by rw [hr]; exact List.mem_cons_of_mem _ List.mem_cons_self
        exact List.mem_reverse.1 this
      have hbt : below.1 < top.1 := rev_tail_lt (sortF d) top (below :: tl') hs hr below List.mem_cons_self
      have hbt2 : below.2 < top.2 := hM below hbel top htop hbt
      have hbelow : Below d top.1 top.2 := by
        intro p hp
        rcases last_is_max (sortF d) top (below :: tl') hs hr p (mem_sortF_of_mem d p hp) with e | e
        · rw [e]; exact ⟨le_refl _, le_refl _⟩
        · exact ⟨e.le, (hM p hp top htop e).le⟩
      have htopB : top.1 ≤ B := (hK.1 top htop).2
      have hkey : top.1 < pyMin (top.1 + fs) (0.999 : ℝ) := by
        rw [pyMin_eq_min]
        exact lt_min (by linarith) (by linarith [h.B999])
      have hg := seg_strictMono below.1 below.2 top.1 top.2 hbt (hP.1 below hbel) hbt2
      have hval : top.2 < pow10 (logInterp below.1 below.2 top.1 top.2 (pyMin (top.1 + fs) (0.999 : ℝ))) := by
        have := hg hkey
        rwa [seg_right below.1 below.2 top.1 top.2 (hP.1 top htop)] at this
      have hfin := setF_mono_below d _ _ top.1 top.2 hM hbelow hkey hval
      have hAt := hA top htop
      have hAfin := setF_above d (pyMin (top.1 + fs) (0.999 : ℝ)) (pow10 (logInterp below.1 below.2 top.1 top.2 (pyMin (top.1 + fs) (0.999 : ℝ))))
        fl0 dl0 hA (by linarith [hAt.1]) (by linarith [hAt.2])
      refine ⟨mono_sortF _ (setF_nodup _ _ _ hN) hfin.1, fun p hp => hAfin p (mem_sortF _ (setF_nodup _ _ _ hN) p hp), fun hb => ?_, fun q hq => ?_⟩
      · apply mem_sortF_of_mem
        apply setF_keeps d _ _ _ (hMem hb).1
        have : X ≤ top.1 := by rw [← (hMem hb).2]; exact hAt.1
        simp only
        linarith
      · apply mem_sortF_of_mem
        apply setF_keeps d _ _ q (hNodes q hq)
        have := (hbelow q (hNodes q hq)).1
        linarith

/-- the diameters of the grading produced after the skip increase strictly with the fraction -/
theorem afterSkip_mono (dlim : ℝ) (lo nx : ℝ × ℝ) (rest : List (ℝ × ℝ)) (pl n : Nat) (B : ℝ) (h : StrictSeg dlim lo nx rest B) :
    Mono (afterSkip (fun k : Nat => (k : ℝ)) dlim lo nx rest pl n).gsd := (afterSkip_facts dlim lo nx rest pl n B h).1

/-- if the first segment reaches the limit only at a fraction ≤ 0, the diameter extrapolated to fraction 0 is not below the limit -/
theorem dmin_ge_dlim {dlim : ℝ} {lo nx : ℝ × ℝ} {rest : List (ℝ × ℝ)} {B : ℝ} (h : StrictSeg dlim lo nx rest B)
    (hX : nx.1 - (Transc.log10 nx.2 - Transc.log10 dlim) * (nx.1 - lo.1) / (Transc.log10 nx.2 - Transc.log10 lo.2) ≤ 0) :
    dlim ≤ pow10 (Transc.log10 nx.2 - (Transc.log10 nx.2 - Transc.log10 lo.2) * (nx.1 - (0.0:ℝ)) / (nx.1 - lo.1)) := by
  have h2 : 0 < Transc.log10 nx.2 - Transc.log10 lo.2 := sub_pos.2 (log10_lt h.d0 h.d1)
  have h3 : 0 < nx.1 - lo.1 := sub_pos.2 h.f1
  set ld := Transc.log10 nx.2
  set ll := Transc.log10 lo.2
  set lm := Transc.log10 dlim
  have hfn : nx.1 ≤ (ld - lm) * (nx.1 - lo.1) / (ld - ll) := by linarith
  rw [le_div_iff₀ h2] at hfn
  have hle : lm ≤ ld - (ld - ll) * (nx.1 - (0.0:ℝ)) / (nx.1 - lo.1) := by
    rw [sci_zero, sub_zero]
    have : (ld - ll) * nx.1 / (nx.1 - lo.1) ≤ ld - lm := by
      rw [div_le_iff₀ h3]; nlinarith
    linarith
  have := pow10_strictMono.monotone hle
  rwa [pow10_log10 dlim h.lim0] at this

/-- discarding the points below the limit leaves a first segment that satisfies `StrictSeg` when no given diameter coincides with the limit -/
theorem skipBelow_strict (dlim B : ℝ) (hB : B < 0.999) : ∀ (fuel : Nat) (lo nx : ℝ × ℝ) (rest : List (ℝ × ℝ)) (pl : Nat),
    InputOK dlim lo nx rest B → (∀ p ∈ nx :: rest, p.2 ≠ dlim) → rest.length < fuel →
    StrictSeg dlim (skipBelow dlim fuel lo nx rest pl).1 (skipBelow dlim fuel lo nx rest pl).2.1 (skipBelow dlim fuel lo nx rest pl).2.2.1 B := by
  intro fuel
  induction fuel with
  | zero => intro lo nx rest pl _ _ hl; exact absurd hl (Nat.not_lt_zero _)
  | succ k ih =>
    intro lo nx rest pl h hne hl
    obtain ⟨hc, hf0, hd0, hle, hlim0, hlast⟩ := h
    have hc' := List.isChain_cons_cons.1 hc
    unfold skipBelow
    by_cases hgt : dlim > nx.2
    · rw [if_pos hgt]
      cases rest with
      | nil =>
        simp only [List.getLast_singleton] at hlast
        exact absurd hlast (not_le.2 hgt)
      | cons t rest' =>
        simp only
        have hc'' := List.isChain_cons_cons.1 hc'.2
        have ht0 : ¬ feq t.1 (0.0 : ℝ) = true := by
          rw [feq_iff_eq]
          intro e
          have : 0 < t.1 := by linarith [hc'.1.1, hc''.1.1]
          rw [e] at this; norm_num at this
        rw [if_neg ht0]
        apply ih nx t rest' (pl - 1)
        · refine ⟨hc'.2, by linarith [hc'.1.1], by linarith [hc'.1.2], fun p hp => hle p (List.mem_cons_of_mem _ hp), hlim0, ?_⟩
          rw [List.getLast_cons (List.cons_ne_nil _ _)] at hlast
          exact hlast
        · exact fun p hp => hne p (List.mem_cons_of_mem _ hp)
        · simp only [List.length_cons] at hl; omega
    · rw [if_neg hgt]
      exact
        { f0 := hf0, f1 := hc'.1.1, d0 := hd0, d1 := hc'.1.2, lim0 := hlim0,
          lim1 := lt_of_le_of_ne (not_lt.1 hgt) (Ne.symm (hne nx List.mem_cons_self)),
          chain := hc'.2, le := hle, B999 := hB }

/-- ordered by fraction and monotone ⇒ the diameters are strictly increasing along the sorted grading -/
theorem pairwise_diam (l : FDict ℝ) (hs : StrictKeys l) (hm : Mono l) : l.Pairwise (fun p q => p.2 < q.2) :=
  List.Pairwise.imp_of_mem (fun {a b} ha hb hab => hm a ha b hb hab) hs

end Spec.Fracs
