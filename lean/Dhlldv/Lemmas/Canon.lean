import Dhlldv.Lemmas.Basic
import Dhlldv.Gen.Framework
import Mathlib.Analysis.SpecialFunctions.Pow.Real
import Mathlib.Analysis.SpecialFunctions.Log.Basic
import Mathlib.Tactic.Ring
import Mathlib.Tactic.FieldSimp
import Mathlib.Tactic.NormNum
import Mathlib.Tactic.SplitIfs

/-! Canonical closed forms of the most-used generated leaf functions.

Every other lemma reasons about these closed forms, not about the shape of the regenerated definition. The closed forms are re-proved against
the regenerated code on every run by `canon_close`, which is insensitive to the names of local variables, to `x*x` versus `x**2`, to the association
and order of commutative operations and to extracted sub-expressions - so a harmless rewrite of the source does not break the proofs downstream,
while a change of the formula does. -/

theorem sci_2320 : (2320.0 : ℝ) = 2320 := by norm_num
theorem sci_64 : (64.0 : ℝ) = 64 := by norm_num
theorem sci_10 : (10.0 : ℝ) = 10 := by norm_num
theorem sci_100 : (100.0 : ℝ) = 100 := by norm_num
theorem sci_3 : (3.0 : ℝ) = 3 := by norm_num
theorem sci_4 : (4.0 : ℝ) = 4 := by norm_num
theorem sci_5 : (5.0 : ℝ) = 5 := by norm_num
theorem sci_8 : (8.0 : ℝ) = 8 := by norm_num
theorem sci_9 : (9.0 : ℝ) = 9 := by norm_num

/-- open the primitives, then close the equation up to ring / field normalisation, branch by branch -/
macro "canon_open" : tactic =>
  `(tactic| simp only [Transc.rpow, Transc.npow, Transc.log, Transc.exp, decide_eq_true_eq, sci_one, sci_two, sci_zero, sci_2320, sci_64, sci_10, sci_100, sci_3, sci_4, sci_5, sci_8, sci_9])

macro "canon_finish" : tactic =>
  `(tactic| first
             | rfl
             | ring1
             | (ring_nf; done)
             | (split_ifs <;> first | rfl | ring1 | (ring_nf; done) | (field_simp; done) | (field_simp; ring1) | (field_simp; ring_nf; done)))

macro "canon_close" : tactic =>
  `(tactic| first
             | (canon_open; done)
             | (canon_open; canon_finish)
             | canon_finish)

theorem reynolds_eq (vls Dp nu : ℝ) : homogeneous.pipe_reynolds_number vls Dp nu = vls * Dp / nu := by
  unfold homogeneous.pipe_reynolds_number; canon_close

/-- Swamee–Jain: 64/Re in the laminar branch, 1.325 / ln(ε/(3.7 Dp) + 5.75/Re^0.9)² otherwise -/
theorem swamee_jain_canon (Re Dp eps : ℝ) :
    homogeneous.swamee_jain_ff Re Dp eps =
      if Re ≤ 2320 then 64 / Re else 1.325 / (Real.log (eps / (3.7 * Dp) + 5.75 / Re ^ (0.9:ℝ))) ^ 2 := by
  unfold homogeneous.swamee_jain_ff; canon_close

/-- Darcy–Weisbach: il = λ v² / (2 g Dp) with λ the Swamee–Jain factor at Re = v Dp / ν -/
theorem fluid_head_loss_canon (vls Dp eps nu rhol : ℝ) :
    homogeneous.fluid_head_loss vls Dp eps nu rhol =
      homogeneous.swamee_jain_ff (homogeneous.pipe_reynolds_number vls Dp nu) Dp eps * vls ^ 2 / (2 * (Cst.gravity : ℝ) * Dp) := by
  unfold homogeneous.fluid_head_loss; canon_close

/-- Ruby & Zanke: vt = 10 ν / d · ((1 + Rsd g d³ / (100 ν²))^0.5 − 1) -/
theorem vt_ruby_canon (d Rsd nu K : ℝ) :
    heterogeneous.vt_ruby d Rsd nu K =
      10 * nu / d * ((1 + Rsd * (Cst.gravity : ℝ) * d ^ 3 / (100 * nu ^ 2)) ^ (0.5:ℝ) - 1) := by
  unfold heterogeneous.vt_ruby; canon_close


/-! ### Heterogeneous model -/

/-- Richardson–Zaki exponent as the code computes it from the particle Reynolds number vt d / ν -/
noncomputable def hetBeta (vt d nu : ℝ) : ℝ := (4.7 + 0.41 * (vt * d / nu) ^ (0.75:ℝ)) / (1 + 0.175 * (vt * d / nu) ^ (0.75:ℝ))

/-- potential-energy term: vt · max(1 − Cvs/κC, 0)^β / v -/
theorem Shr_canon (v Dp d eps nu rhol rhos Cvs : ℝ) :
    heterogeneous.Shr v Dp d eps nu rhol rhos Cvs =
      heterogeneous.vt_ruby d ((rhos - rhol) / rhol) nu 0.26 *
        (pyMax (1 - Cvs / (0.175 * (1 + hetBeta (heterogeneous.vt_ruby d ((rhos - rhol) / rhol) nu 0.26) d nu))) 0) ^
          (hetBeta (heterogeneous.vt_ruby d ((rhos - rhol) / rhol) nu 0.26) d nu) / v := by
  unfold heterogeneous.Shr hetBeta; canon_close


/-- kinetic-energy term: 8.5² / λ · X · ((ν g)^(1/3) / v)², X = (vt/√(g d))^(10/3) or (1/√Cx)³ -/
theorem Srs_canon (v Dp d eps nu rhol rhos : ℝ) (sq : Bool) :
    heterogeneous.Srs v Dp d eps nu rhol rhos sq =
      (8.5:ℝ) ^ 2 / homogeneous.swamee_jain_ff (homogeneous.pipe_reynolds_number v Dp nu) Dp eps *
        (if (!sq) = true then (heterogeneous.vt_ruby d ((rhos - rhol) / rhol) nu 0.26 / ((Cst.gravity : ℝ) * d) ^ (0.5:ℝ)) ^ ((10:ℝ) / 3)
         else (1 / heterogeneous.sqrtcx (heterogeneous.vt_ruby d ((rhos - rhol) / rhol) nu 0.26) d) ^ (3:ℝ)) *
        ((nu * (Cst.gravity : ℝ)) ^ ((1:ℝ) / 3) / v) ^ 2 := by
  unfold heterogeneous.Srs; canon_close

/-- the heterogeneous excess gradient: Shr + Srs, blended with μsf for d ≥ particle_ratio · Dp when the sliding-flow switch is on -/
theorem het_Erhg_canon (v Dp d eps nu rhol rhos Cvs : ℝ) (sf sq : Bool) :
    heterogeneous.Erhg v Dp d eps nu rhol rhos Cvs sf sq =
      if ((!sf) || decide (d / ((Cst.particle_ratio : ℝ) * Dp) < 1)) = true then
        heterogeneous.Shr v Dp d eps nu rhol rhos Cvs + heterogeneous.Srs v Dp d eps nu rhol rhos sq
      else (heterogeneous.Shr v Dp d eps nu rhol rhos Cvs + heterogeneous.Srs v Dp d eps nu rhol rhos sq +
              (d / ((Cst.particle_ratio : ℝ) * Dp) - 1) * (Cst.musf : ℝ)) / (d / ((Cst.particle_ratio : ℝ) * Dp)) := by
  unfold heterogeneous.Erhg; canon_close


/-! ### Homogeneous model -/

/-- Talmon's viscosity-corrected homogeneous excess gradient, before the sliding-flow blend -/
noncomputable def talmon (vls Dp d eps nu rhol rhos Cvs : ℝ) : ℝ :=
  homogeneous.fluid_head_loss vls Dp eps nu rhol *
    (1 - (1 - ((1 + (rhos - rhol) / rhol * Cvs) -
                ((Cst.homogeneous_Acv : ℝ) / (Cst.homogeneous_kvK : ℝ) * Real.log ((rhol + Cvs * (rhos - rhol)) / rhol) *
                  (homogeneous.swamee_jain_ff (homogeneous.pipe_reynolds_number vls Dp nu) Dp eps / 8) ^ (0.5:ℝ) + 1) ^ 2) /
               ((rhos - rhol) / rhol * Cvs *
                ((Cst.homogeneous_Acv : ℝ) / (Cst.homogeneous_kvK : ℝ) * Real.log ((rhol + Cvs * (rhos - rhol)) / rhol) *
                  (homogeneous.swamee_jain_ff (homogeneous.pipe_reynolds_number vls Dp nu) Dp eps / 8) ^ (0.5:ℝ) + 1) ^ 2)) *
         (1 - pyMin (11.6 * nu / ((homogeneous.swamee_jain_ff (homogeneous.pipe_reynolds_number vls Dp nu) Dp eps / 8) ^ (0.5:ℝ) * vls * d)) 1))

/-- the homogeneous excess gradient: Talmon's form, blended with μsf for d ≥ particle_ratio · Dp when the sliding-flow switch is on -/
theorem homo_Erhg_canon (vls Dp d eps nu rhol rhos Cvs : ℝ) (sf : Bool) :
    homogeneous.Erhg vls Dp d eps nu rhol rhos Cvs sf =
      if ((!sf) || decide (d / ((Cst.particle_ratio : ℝ) * Dp) < 1)) = true then talmon vls Dp d eps nu rhol rhos Cvs
      else (talmon vls Dp d eps nu rhol rhos Cvs + (d / ((Cst.particle_ratio : ℝ) * Dp) - 1) * (Cst.musf : ℝ)) / (d / ((Cst.particle_ratio : ℝ) * Dp)) := by
  unfold homogeneous.Erhg talmon; canon_close
