import Dhlldv.Spec.Memo
import Mathlib.Tactic.SplitIfs
import Mathlib.Logic.Basic

namespace Spec.Memo

/-- every stored entry is what the body computes under any switch setting that maps to the entry's key -/
def Inv (f : Fn) (s : St) : Prop :=
  ∀ e ∈ s.memo, ∀ sw, key f sw e.1.1 = e.1 → e.2 = f.body sw e.1.1

theorem lookup_mem (m : List ((Nat × Nat) × Nat)) (k : Nat × Nat) (v : Nat) (h : lookup m k = some v) :
    (k, v) ∈ m := by
  unfold lookup at h
  cases hf : m.find? (fun e => e.1 == k) with
  | none => rw [hf] at h; exact absurd h (by simp)
  | some e =>
    rw [hf] at h
    have h1 := List.find?_some hf
    have h2 := List.mem_of_find?_eq_some hf
    simp only [beq_iff_eq] at h1
    simp only [Option.some.injEq] at h
    have : e = (k, v) := by cases e; simp_all
    rw [← this]; exact h2

theorem inv_step (f : Fn) (rs : Bool) (hs : Sound f rs = true)
    (hb : rs = false → ∀ sw sw' a, f.body sw a = f.body sw' a) (s : St) (op : Op) (hi : Inv f s) :
    Inv f (step f s op).1 := by
  unfold Sound at hs
  cases op with
  | call a =>
    simp only [step]
    by_cases hc : f.cached = true
    · simp only [hc, if_true]
      cases hl : lookup s.memo (key f s.sw a) with
      | some v => exact hi
      | none =>
        intro e he sw hk
        simp only at he
        rcases List.mem_cons.1 he with h | h
        · subst h
          simp only at hk ⊢
          unfold key at hk
          simp only [Prod.mk.injEq, true_and] at hk
          by_cases hks : f.keyHasSwitches = true
          · simp only [hks, if_true] at hk; rw [hk]; rfl
          · simp only [hc, hks, Bool.not_true, Bool.false_or, Bool.and_eq_true, Bool.not_eq_true',
              Bool.or_eq_true, false_or] at hs
            exact hb hs.1 _ _ _
        · exact hi e h sw hk
    · simp only [hc, if_false]; exact hi
  | toggle sw => exact hi
  | mutate a v =>
    simp only [step]
    by_cases hc : (f.cached && f.handsOut) = true
    · exfalso
      simp only [Bool.and_eq_true] at hc
      simp [hc.1, hc.2] at hs
    · simp only [hc, if_false]; exact hi
  | clear => intro e he; simp [step] at he

theorem inv_run (f : Fn) (rs : Bool) (hs : Sound f rs = true)
    (hb : rs = false → ∀ sw sw' a, f.body sw a = f.body sw' a) (ops : List Op) (s : St) (hi : Inv f s) :
    Inv f (run f s ops) := by
  induction ops generalizing s with
  | nil => exact hi
  | cons op ops ih => exact ih _ (inv_step f rs hs hb s op hi)

end Spec.Memo
