import Dhlldv.Lemmas.Envelope
import Mathlib.Tactic.FieldSimp
import Mathlib.Tactic.Ring
import Mathlib.Analysis.Complex.ExponentialBounds

/-! Analysis of the turbulent Swamee–Jain friction factor as a function of the line speed:
`L(v) = −log(c1 + k·v^(−0.9))`, `λ = 1.325 / L²`. Key fact: `L(v)/v` is strictly decreasing wherever `c1 + k v^(−0.9) ≤ e^(−0.9)`. -/

open Real

/-- L(v) = -log (c1 + k * v^(-0.9)) -/
noncomputable def Lv (c1 k v : ℝ) : ℝ := - Real.log (c1 + k * v ^ (-(0.9:ℝ)))

theorem Lv_key (c1 k v1 v2 : ℝ) (hc : 0 ≤ c1) (hk : 0 < k) (h1 : 0 < v1) (h12 : v1 < v2)
    (hsmall : c1 + k * v1 ^ (-(0.9:ℝ)) ≤ Real.exp (-0.9)) :
    v1 * Lv c1 k v2 < v2 * Lv c1 k v1 := by
  have h2 : 0 < v2 := lt_trans h1 h12
  set s1 := v1 ^ (-(0.9:ℝ)) with hs1
  set s2 := v2 ^ (-(0.9:ℝ)) with hs2
  have s1pos : 0 < s1 := Real.rpow_pos_of_pos h1 _
  have s2pos : 0 < s2 := Real.rpow_pos_of_pos h2 _
  have x1pos : 0 < c1 + k * s1 := by positivity
  have x2pos : 0 < c1 + k * s2 := by positivity
  have s21 : s2 < s1 := by
    simpa [hs1, hs2] using Real.rpow_lt_rpow_of_neg h1 h12 (by norm_num : (-(0.9:ℝ)) < 0)
  set r := v2 / v1 with hr
  have hr1 : 1 < r := by rw [hr, lt_div_iff₀ h1]; linarith
  have rpos : 0 < r := by linarith
  have hs : s1 / s2 = r ^ (0.9:ℝ) := by
    rw [hs1, hs2, hr, Real.div_rpow h2.le h1.le, Real.rpow_neg h1.le, Real.rpow_neg h2.le]
    field_simp
  have hratio : (c1 + k * s1) / (c1 + k * s2) ≤ s1 / s2 := by
    rw [div_le_div_iff₀ x2pos s2pos]
    nlinarith [mul_nonneg hc (sub_nonneg.mpr s21.le)]
  have e1 : Lv c1 k v1 = -Real.log (c1 + k * s1) := rfl
  have e2 : Lv c1 k v2 = -Real.log (c1 + k * s2) := rfl
  have hL1 : 0.9 ≤ Lv c1 k v1 := by
    rw [e1]
    have := Real.log_le_log x1pos hsmall
    rw [Real.log_exp] at this
    linarith
  have hdiff : Lv c1 k v2 - Lv c1 k v1 ≤ 0.9 * Real.log r := by
    rw [e1, e2]
    have : Real.log ((c1 + k * s1) / (c1 + k * s2)) ≤ Real.log (r ^ (0.9:ℝ)) := by
      apply Real.log_le_log (by positivity)
      rw [← hs]; exact hratio
    rw [Real.log_div x1pos.ne' x2pos.ne', Real.log_rpow rpos] at this
    linarith
  have hlog : Real.log r < r - 1 := by
    have := Real.log_lt_sub_one_of_pos rpos (by linarith : r ≠ 1)
    linarith
  have hvr : v1 * r = v2 := by rw [hr]; field_simp
  have : Lv c1 k v2 < r * Lv c1 k v1 := by
    have h3 : Lv c1 k v2 ≤ Lv c1 k v1 + 0.9 * Real.log r := by linarith
    have h4 : 0.9 * Real.log r < 0.9 * (r - 1) := by nlinarith
    have h5 : 0.9 * (r - 1) ≤ Lv c1 k v1 * (r - 1) := by nlinarith
    nlinarith
  calc v1 * Lv c1 k v2 < v1 * (r * Lv c1 k v1) := mul_lt_mul_of_pos_left this h1
    _ = v2 * Lv c1 k v1 := by rw [← hvr]; ring

/-- e^(−0.9) > 0.36 -/
theorem exp_neg09_gt : (0.36 : ℝ) < Real.exp (-0.9) := by
  have h1 : Real.exp 0.9 < Real.exp 1 := Real.exp_lt_exp.2 (by norm_num)
  have h2 := Real.exp_one_lt_d9
  have hpos : 0 < Real.exp 0.9 := Real.exp_pos _
  rw [Real.exp_neg, lt_inv_comm₀ (by norm_num) hpos]
  have : Real.exp 0.9 < 2.7182818286 := lt_trans h1 h2
  have : (0.36:ℝ)⁻¹ > 2.7182818286 := by norm_num
  linarith

/-- L(v) is positive and the bound L ≥ 0.9 holds whenever the argument is below e^(−0.9) -/
theorem Lv_pos (c1 k v : ℝ) (hx : 0 < c1 + k * v ^ (-(0.9:ℝ))) (hs : c1 + k * v ^ (-(0.9:ℝ)) ≤ Real.exp (-0.9)) :
    0.9 ≤ Lv c1 k v := by
  unfold Lv
  have := Real.log_le_log hx hs
  rw [Real.log_exp] at this
  linarith

/-- v ↦ v²/L(v)² is strictly increasing (so the Darcy–Weisbach gradient rises with line speed), v ↦ L(v)²/v² strictly decreasing -/
theorem sq_div_Lsq_strictMono (c1 k v1 v2 : ℝ) (hc : 0 ≤ c1) (hk : 0 < k) (h1 : 0 < v1) (h12 : v1 < v2)
    (hsmall : c1 + k * v1 ^ (-(0.9:ℝ)) ≤ Real.exp (-0.9)) :
    v1 ^ 2 / Lv c1 k v1 ^ 2 < v2 ^ 2 / Lv c1 k v2 ^ 2 := by
  have h2 : 0 < v2 := lt_trans h1 h12
  have hx1 : 0 < c1 + k * v1 ^ (-(0.9:ℝ)) := by have := Real.rpow_pos_of_pos h1 (-(0.9:ℝ)); positivity
  have hx2 : 0 < c1 + k * v2 ^ (-(0.9:ℝ)) := by have := Real.rpow_pos_of_pos h2 (-(0.9:ℝ)); positivity
  have hmono : c1 + k * v2 ^ (-(0.9:ℝ)) ≤ c1 + k * v1 ^ (-(0.9:ℝ)) := by
    have := (Real.rpow_lt_rpow_of_neg h1 h12 (by norm_num : (-(0.9:ℝ)) < 0)).le
    nlinarith
  have hL1 := Lv_pos c1 k v1 hx1 hsmall
  have hL2 := Lv_pos c1 k v2 hx2 (le_trans hmono hsmall)
  have key := Lv_key c1 k v1 v2 hc hk h1 h12 hsmall
  have hL1p : 0 < Lv c1 k v1 := by linarith
  have hL2p : 0 < Lv c1 k v2 := by linarith
  rw [div_lt_div_iff₀ (by positivity) (by positivity)]
  have : v1 * Lv c1 k v2 < v2 * Lv c1 k v1 := key
  have hp1 : 0 < v1 * Lv c1 k v2 := by positivity
  nlinarith [mul_pos hp1 hp1, mul_lt_mul'' this this hp1.le hp1.le]

/-- 5.75 / Re^0.9 as k·v^(−0.9) with k = 5.75 (ν/Dp)^0.9 -/
theorem c2_as_k (v Dp nu : ℝ) (hv : 0 < v) (hD : 0 < Dp) (hn : 0 < nu) :
    5.75 / (v * Dp / nu) ^ (0.9:ℝ) = 5.75 * (nu / Dp) ^ (0.9:ℝ) * v ^ (-(0.9:ℝ)) := by
  have h1 : v * Dp / nu = v * (Dp / nu) := by ring
  rw [h1, Real.mul_rpow hv.le (by positivity), Real.rpow_neg hv.le, Real.div_rpow hn.le hD.le, Real.div_rpow hD.le hn.le]
  have a : 0 < v ^ (0.9:ℝ) := Real.rpow_pos_of_pos hv _
  have b : 0 < Dp ^ (0.9:ℝ) := Real.rpow_pos_of_pos hD _
  have c : 0 < nu ^ (0.9:ℝ) := Real.rpow_pos_of_pos hn _
  field_simp

/-- in the turbulent branch the generated friction factor is 1.325 / L(v)² with c1 = ε/(3.7 Dp), k = 5.75 (ν/Dp)^0.9 -/
theorem swamee_jain_as_Lv (v Dp eps nu : ℝ) (hv : 0 < v) (hD : 0 < Dp) (hn : 0 < nu)
    (hturb : 2320 < homogeneous.pipe_reynolds_number v Dp nu) :
    homogeneous.swamee_jain_ff (homogeneous.pipe_reynolds_number v Dp nu) Dp eps
      = 1.325 / Lv (eps / (3.7 * Dp)) (5.75 * (nu / Dp) ^ (0.9:ℝ)) v ^ 2 := by
  rw [swamee_jain_canon, if_neg (not_le.2 hturb)]
  unfold Lv
  rw [reynolds_eq]
  have e := c2_as_k v Dp nu hv hD hn
  rw [e, neg_sq]


/-- on E the argument of the logarithm is below e^(−0.9) (in fact below 0.1202) -/
theorem InE.log_arg_small {vls Dp d eps nu rhol rhos Cv : ℝ} (h : InE vls Dp d eps nu rhol rhos Cv) :
    eps / (3.7 * Dp) + 5.75 * (nu / Dp) ^ (0.9:ℝ) * vls ^ (-(0.9:ℝ)) ≤ Real.exp (-0.9) := by
  have t1 : 2320 < homogeneous.pipe_reynolds_number vls Dp nu := lt_of_lt_of_le (by norm_num) h.reynolds_ge
  have h48 := rpow09_gt _ t1
  rw [reynolds_eq] at h48
  rw [← c2_as_k vls Dp nu h.vls_pos h.Dp_pos h.nu_pos]
  have hc2 : 5.75 / (vls * Dp / nu) ^ (0.9:ℝ) < 0.12 := by rw [div_lt_iff₀ (by linarith)]; nlinarith
  have := exp_neg09_gt
  have hc1' : eps / (3.7 * Dp) ≤ 0.0002 := by
    rw [h.eps_eq, div_le_iff₀ (by have := h.Dp_pos; positivity)]; have := h.Dp_lo; nlinarith
  linarith

/-- the carrier-liquid gradient falls strictly with pipe diameter on E: the friction factor falls (both terms of the logarithm's argument shrink)
and so does 1/Dp -/
theorem il_strictAnti_Dp {vls D1 D2 d eps nu rhol rhos Cv : ℝ} (h1 : InE vls D1 d eps nu rhol rhos Cv) (h2 : InE vls D2 d eps nu rhol rhos Cv)
    (h12 : D1 < D2) :
    homogeneous.fluid_head_loss vls D2 eps nu rhol < homogeneous.fluid_head_loss vls D1 eps nu rhol := by
  have hn := h1.nu_pos; have hv := h1.vls_pos
  have hD1 := h1.Dp_pos; have hD2 := h2.Dp_pos
  have t1 : 2320 < homogeneous.pipe_reynolds_number vls D1 nu := lt_of_lt_of_le (by norm_num) h1.reynolds_ge
  have t2 : 2320 < homogeneous.pipe_reynolds_number vls D2 nu := lt_of_lt_of_le (by norm_num) h2.reynolds_ge
  rw [fluid_head_loss_canon, fluid_head_loss_canon]
  rw [swamee_jain_as_Lv vls D1 eps nu hv hD1 hn t1, swamee_jain_as_Lv vls D2 eps nu hv hD2 hn t2]
  have he := h1.eps_pos
  have hs := Real.rpow_pos_of_pos hv (-(0.9:ℝ))
  -- the argument of the logarithm shrinks
  have hc : eps / (3.7 * D2) < eps / (3.7 * D1) := div_lt_div_of_pos_left he (by positivity) (by linarith)
  have hk : 5.75 * (nu / D2) ^ (0.9:ℝ) < 5.75 * (nu / D1) ^ (0.9:ℝ) := by
    have : nu / D2 < nu / D1 := div_lt_div_of_pos_left hn hD1 h12
    have := Real.rpow_lt_rpow (by positivity) this (by norm_num : (0:ℝ) < 0.9)
    linarith
  have hx2 : 0 < eps / (3.7 * D2) + 5.75 * (nu / D2) ^ (0.9:ℝ) * vls ^ (-(0.9:ℝ)) := by
    have := Real.rpow_pos_of_pos (div_pos hn hD2) (0.9:ℝ); positivity
  have hlt : eps / (3.7 * D2) + 5.75 * (nu / D2) ^ (0.9:ℝ) * vls ^ (-(0.9:ℝ)) < eps / (3.7 * D1) + 5.75 * (nu / D1) ^ (0.9:ℝ) * vls ^ (-(0.9:ℝ)) := by
    have := mul_lt_mul_of_pos_right hk hs
    linarith
  have hL : Lv (eps / (3.7 * D1)) (5.75 * (nu / D1) ^ (0.9:ℝ)) vls < Lv (eps / (3.7 * D2)) (5.75 * (nu / D2) ^ (0.9:ℝ)) vls := by
    unfold Lv
    have := Real.log_lt_log hx2 hlt
    linarith
  have hx1 : 0 < eps / (3.7 * D1) + 5.75 * (nu / D1) ^ (0.9:ℝ) * vls ^ (-(0.9:ℝ)) := lt_trans hx2 hlt
  have hL1 : 0 < Lv (eps / (3.7 * D1)) (5.75 * (nu / D1) ^ (0.9:ℝ)) vls := by
    have := Lv_pos _ _ vls hx1 h1.log_arg_small; linarith
  set L1 := Lv (eps / (3.7 * D1)) (5.75 * (nu / D1) ^ (0.9:ℝ)) vls
  set L2 := Lv (eps / (3.7 * D2)) (5.75 * (nu / D2) ^ (0.9:ℝ)) vls
  have hL2 : 0 < L2 := lt_trans hL1 hL
  have hg : (0:ℝ) < Cst.gravity := by unfold Cst.gravity; norm_num
  rw [div_lt_div_iff₀ (by positivity) (by positivity)]
  have hsq : L1 ^ 2 < L2 ^ 2 := by nlinarith
  have hv2 : 0 < vls ^ 2 := by positivity
  have e1 : 1.325 / L2 ^ 2 * vls ^ 2 * (2 * (Cst.gravity : ℝ) * D1) = (1.325 * vls ^ 2 * 2 * (Cst.gravity : ℝ)) * (D1 / L2 ^ 2) := by field_simp
  have e2 : 1.325 / L1 ^ 2 * vls ^ 2 * (2 * (Cst.gravity : ℝ) * D2) = (1.325 * vls ^ 2 * 2 * (Cst.gravity : ℝ)) * (D2 / L1 ^ 2) := by field_simp
  rw [e1, e2]
  apply mul_lt_mul_of_pos_left _ (by positivity)
  rw [div_lt_div_iff₀ (by positivity) (by positivity)]
  nlinarith
