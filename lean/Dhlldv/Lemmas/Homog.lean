import Dhlldv.Lemmas.LambdaBound
import Mathlib.Tactic.SplitIfs

/-! Bounds of the homogeneous excess gradient on E: 0 ≤ Ho ≤ il below the sliding-flow onset (or with the correction off);
with the sliding-flow blend the value is non-negative. -/

open Real

/-- core inequality: with e^y = 1 + R, 0 ≤ a ≤ 1/2, 0 < δ ≤ 1 the Talmon form stays within [0, il] -/
theorem homog_core (il R y a δ : ℝ) (hil : 0 ≤ il) (hR : 0 < R) (hy : 0 ≤ y) (hexp : Real.exp y = 1 + R) (ha0 : 0 ≤ a) (ha : a ≤ 1 / 2)
    (hδ0 : 0 < δ) (hδ1 : δ ≤ 1) :
    let sb := (a * y + 1) ^ 2
    0 ≤ il * (1 - (1 - ((1 + R) - sb) / (R * sb)) * (1 - δ)) ∧ il * (1 - (1 - ((1 + R) - sb) / (R * sb)) * (1 - δ)) ≤ il := by
  intro sb
  have hay : 0 ≤ a * y := mul_nonneg ha0 hy
  have hsb1 : 1 ≤ sb := by
    show 1 ≤ (a * y + 1) ^ 2
    nlinarith
  have hsbR : sb ≤ 1 + R := by
    have h1 : a * y + 1 ≤ y / 2 + 1 := by nlinarith
    have h2 : y / 2 + 1 ≤ Real.exp (y / 2) := Real.add_one_le_exp _
    have h3 : Real.exp (y / 2) ^ 2 = Real.exp y := by rw [← Real.exp_nat_mul]; congr 1; ring
    have h4 : 0 ≤ a * y + 1 := by linarith
    calc sb = (a * y + 1) ^ 2 := rfl
      _ ≤ (Real.exp (y / 2)) ^ 2 := pow_le_pow_left₀ h4 (le_trans h1 h2) 2
      _ = 1 + R := by rw [h3, hexp]
  have hbot : 0 < R * sb := by positivity
  have hq0 : 0 ≤ ((1 + R) - sb) / (R * sb) := div_nonneg (by linarith) hbot.le
  have hq1 : ((1 + R) - sb) / (R * sb) ≤ 1 := by
    rw [div_le_one hbot]; nlinarith
  have hA0 : 0 ≤ 1 - ((1 + R) - sb) / (R * sb) := by linarith
  have hA1 : 1 - ((1 + R) - sb) / (R * sb) ≤ 1 := by linarith
  have hd0 : 0 ≤ 1 - δ := by linarith
  have hd1 : 1 - δ < 1 := by linarith
  have hp0 : 0 ≤ (1 - ((1 + R) - sb) / (R * sb)) * (1 - δ) := mul_nonneg hA0 hd0
  have hp1 : (1 - ((1 + R) - sb) / (R * sb)) * (1 - δ) ≤ 1 := by nlinarith
  constructor
  · exact mul_nonneg hil (by linarith)
  · nlinarith

theorem sqrt_lambda_le {lam : ℝ} (h0 : 0 < lam) (h : lam ≤ 8 / 225) : (lam / 8) ^ (0.5:ℝ) ≤ 1 / 15 := by
  have h05 : (0.5:ℝ) = 1 / 2 := by norm_num
  rw [h05, ← Real.sqrt_eq_rpow]
  rw [show (1:ℝ) / 15 = Real.sqrt ((1 / 15) ^ 2) from (Real.sqrt_sq (by norm_num)).symm]
  apply Real.sqrt_le_sqrt
  norm_num
  linarith

/-- the Talmon-corrected homogeneous form (the expression both branches of the generated function share; `talmon` of `Lemmas/Canon`) -/
noncomputable def hoBase (vls Dp d eps nu rhol rhos Cvs : ℝ) : ℝ := talmon vls Dp d eps nu rhol rhos Cvs

theorem InE.hoBase_bounds {vls Dp d eps nu rhol rhos Cvs : ℝ} (h : InE vls Dp d eps nu rhol rhos Cvs) :
    0 ≤ hoBase vls Dp d eps nu rhol rhos Cvs ∧ hoBase vls Dp d eps nu rhol rhos Cvs ≤ homogeneous.fluid_head_loss vls Dp eps nu rhol := by
  unfold hoBase talmon
  simp only [pyMin_eq_min]
  have hlam := swamee_jain_pos (homogeneous.pipe_reynolds_number vls Dp nu) Dp eps
    (reynolds_pos vls Dp nu h.vls_pos h.Dp_pos h.nu_pos) h.Dp_pos h.eps_pos.le h.rough_le
  have hlam8 := h.lambda_le
  set lam := homogeneous.swamee_jain_ff (homogeneous.pipe_reynolds_number vls Dp nu) Dp eps
  have hs : (lam / 8) ^ (0.5:ℝ) ≤ 1 / 15 := sqrt_lambda_le hlam hlam8
  have hs0 : 0 < (lam / 8) ^ (0.5:ℝ) := Real.rpow_pos_of_pos (by positivity) _
  have hR : 0 < (rhos - rhol) / rhol * Cvs := mul_pos h.Rsd_pos h.Cv_pos
  have hratio : (rhol + Cvs * (rhos - rhol)) / rhol = 1 + (rhos - rhol) / rhol * Cvs := by
    have := h.rhol_pos; field_simp
  have hy : 0 ≤ Real.log ((rhol + Cvs * (rhos - rhol)) / rhol) := by
    rw [hratio]; exact Real.log_nonneg (by linarith)
  have hexp : Real.exp (Real.log ((rhol + Cvs * (rhos - rhol)) / rhol)) = 1 + (rhos - rhol) / rhol * Cvs := by
    rw [hratio, Real.exp_log (by linarith)]
  have hAk : (Cst.homogeneous_Acv : ℝ) / (Cst.homogeneous_kvK : ℝ) = 7.5 := by
    unfold Cst.homogeneous_Acv Cst.homogeneous_kvK; norm_num
  have hδ0 : 0 < min (11.6 * nu / ((lam / 8) ^ (0.5:ℝ) * vls * d)) 1 := by
    have := h.nu_pos; have := h.vls_pos; have := h.d_pos
    exact lt_min (by positivity) (by norm_num)
  have hcore := homog_core (homogeneous.fluid_head_loss vls Dp eps nu rhol) ((rhos - rhol) / rhol * Cvs)
    (Real.log ((rhol + Cvs * (rhos - rhol)) / rhol)) (7.5 * (lam / 8) ^ (0.5:ℝ))
    (min (11.6 * nu / ((lam / 8) ^ (0.5:ℝ) * vls * d)) 1) h.il_pos.le hR hy hexp (by positivity) (by nlinarith) hδ0 (min_le_right _ _)
  simp only at hcore
  have e : (Cst.homogeneous_Acv : ℝ) / (Cst.homogeneous_kvK : ℝ) * Real.log ((rhol + Cvs * (rhos - rhol)) / rhol) * (lam / 8) ^ (0.5:ℝ) + 1
      = 7.5 * (lam / 8) ^ (0.5:ℝ) * Real.log ((rhol + Cvs * (rhos - rhol)) / rhol) + 1 := by rw [hAk]; ring
  rw [e]
  exact hcore

/-- the homogeneous excess gradient, as reported (sliding-flow correction on): between 0 and il below the onset d < 0.015 Dp;
non-negative above it (the blend (Ho + (f−1) μsf)/f with f ≥ 1) -/
theorem InE.ho_bounds {vls Dp d eps nu rhol rhos Cvs : ℝ} (h : InE vls Dp d eps nu rhol rhos Cvs) (sf : Bool) :
    0 ≤ homogeneous.Erhg vls Dp d eps nu rhol rhos Cvs sf ∧
    ((sf = false ∨ d / ((Cst.particle_ratio : ℝ) * Dp) < 1) →
      homogeneous.Erhg vls Dp d eps nu rhol rhos Cvs sf ≤ homogeneous.fluid_head_loss vls Dp eps nu rhol) := by
  have hb := h.hoBase_bounds
  unfold hoBase at hb
  rw [homo_Erhg_canon]
  by_cases hc : ((!sf) || decide (d / ((Cst.particle_ratio : ℝ) * Dp) < 1)) = true
  · rw [if_pos hc]
    exact ⟨hb.1, fun _ => hb.2⟩
  · rw [if_neg hc]
    have hc' : sf = true ∧ ¬ d / ((Cst.particle_ratio : ℝ) * Dp) < 1 := by
      cases sf <;> simp_all
    have hf1 : 1 ≤ d / ((Cst.particle_ratio : ℝ) * Dp) := not_lt.1 hc'.2
    have hm : (0:ℝ) < Cst.musf := by unfold Cst.musf; norm_num
    constructor
    · apply div_nonneg _ (by linarith)
      have : 0 ≤ (d / ((Cst.particle_ratio : ℝ) * Dp) - 1) * (Cst.musf : ℝ) := mul_nonneg (by linarith) hm.le
      linarith [hb.1]
    · intro h'
      rcases h' with h' | h'
      · rw [hc'.1] at h'; exact absurd h' (by simp)
      · exact absurd h' hc'.2
