import Dhlldv.Props.C19
import Dhlldv.Lemmas.Envelope
import Mathlib.Analysis.Calculus.Deriv.MeanValue

/-! Domain facts for the fixed-bed force balance (`stratified.fb_pressure_loss`) on E: the bed half-angle lies strictly between 0 and 2.5 rad,
so the free area, both perimeters above the bed, the hydraulic diameter, the velocity above the bed and its Reynolds number are positive and
both logarithm arguments of the bed-friction formulas lie strictly between 0 and 1. -/

open Real SegArea

/-- the segment area fraction is non-decreasing in the half-angle -/
theorem segF_mono : Monotone segF := by
  apply monotone_of_deriv_nonneg
  · exact fun b => (hasDeriv_segF b).differentiableAt
  · intro b
    rw [(hasDeriv_segF b).deriv]
    have h1 := sin_sq_add_cos_sq b
    have hp := pi_pos
    have : (1 - (cos b * cos b + sin b * -sin b)) / π = 2 * sin b ^ 2 / π := by
      field_simp; nlinarith
    rw [this]; positivity

theorem sin_five_neg : sin 5 < 0 := by
  have h1 := pi_gt_d2
  have h2 := pi_lt_d2
  have : sin 5 = sin (5 - 2 * π) := by rw [sin_sub_two_pi]
  rw [this]
  exact sin_neg_of_neg_of_neg_pi_lt (by linarith) (by linarith)

theorem segF_25 : 0.79 < segF 2.5 := by
  unfold segF
  have h1 := pi_lt_d2
  have hp := pi_pos
  have hs : sin 2.5 * cos 2.5 = sin 5 / 2 := by
    have := sin_two_mul (2.5:ℝ)
    rw [show (2:ℝ) * 2.5 = 5 by norm_num] at this
    linarith
  rw [hs, lt_div_iff₀ hp]
  have := sin_five_neg
  nlinarith

/-- on E (in-situ concentration at most 0.45 of a bed packed at 0.6) the half-angle the code uses is strictly between 0 and 2.5 rad -/
theorem beta_range_on_E (c : ℝ) (h0 : 0 < c) (h1 : c ≤ 0.45) : 0 < stratified.beta c ∧ stratified.beta c < 2.5 := by
  have hm := C19_beta_strictMono 0 c (le_refl _) h0 (by linarith)
  refine ⟨by linarith [hm.1, hm.2.1], ?_⟩
  by_contra hge
  push Not at hge
  have hr := C19_beta_reproduces_area c h0.le (by linarith)
  have hb : (Cst.Cvb : ℝ) = 0.6 := rfl
  rw [hb] at hr
  have hs : 0.79 < segF (stratified.beta c) := lt_of_lt_of_le segF_25 (segF_mono hge)
  have hx : c / 0.6 ≤ 0.75 := by rw [div_le_iff₀ (by norm_num)]; linarith
  have := (abs_lt.mp hr).1
  unfold segF at hs
  linarith

section
variable {vls Dp d eps nu rhol rhos Cvs : ℝ}

/-- Re^0.9 ≥ 36 once Re ≥ 1296 -/
theorem rpow09_ge36 (Re : ℝ) (h : 1296 ≤ Re) : 36 ≤ Re ^ (0.9:ℝ) := by
  have h1 : (1:ℝ) ≤ Re := by linarith
  have a : Re ^ (0.5:ℝ) ≤ Re ^ (0.9:ℝ) := Real.rpow_le_rpow_of_exponent_le h1 (by norm_num)
  have b : (1296:ℝ) ^ (0.5:ℝ) ≤ Re ^ (0.5:ℝ) := Real.rpow_le_rpow (by norm_num) h (by norm_num)
  have c : (1296:ℝ) ^ (0.5:ℝ) = 36 := by
    rw [show (1296:ℝ) = 36 ^ (2:ℝ) by norm_num, ← Real.rpow_mul (by norm_num)]; norm_num
  linarith

/-- geometry above a fixed bed on E -/
structure FBGeom (Dp Cvs : ℝ) : Prop where
  Ap_pos : 0 < (stratified.areas Dp Cvs).1
  A1_pos : 0 < (stratified.areas Dp Cvs).2.1
  A1_ge : 0.25 * (stratified.areas Dp Cvs).1 ≤ (stratified.areas Dp Cvs).2.1
  A1_le : (stratified.areas Dp Cvs).2.1 ≤ (stratified.areas Dp Cvs).1
  O1_pos : 0 < (stratified.perimeters Dp Cvs).2.1
  O12_pos : 0 < (stratified.perimeters Dp Cvs).2.2.1
  O_le : (stratified.perimeters Dp Cvs).2.1 + (stratified.perimeters Dp Cvs).2.2.1 ≤ (π + 1) * Dp
  DH1_ge : 0.189 * Dp ≤ 4 * (stratified.areas Dp Cvs).2.1 / ((stratified.perimeters Dp Cvs).2.1 + (stratified.perimeters Dp Cvs).2.2.1)

theorem fb_geom (h : InE vls Dp d eps nu rhol rhos Cvs) : FBGeom Dp Cvs := by
  have hD := h.Dp_pos
  have hp := pi_pos
  have hp3 := pi_gt_d2
  have hp4 := pi_lt_d2
  obtain ⟨hb0, hb1⟩ := beta_range_on_E Cvs h.Cv_pos h.Cv_hi
  have hb : (Cst.Cvb : ℝ) = 0.6 := rfl
  have hx0 : 0 ≤ Cvs / (Cst.Cvb : ℝ) := by rw [hb]; have := h.Cv_pos; positivity
  have hx1 : Cvs / (Cst.Cvb : ℝ) ≤ 0.75 := by rw [hb, div_le_iff₀ (by norm_num)]; have := h.Cv_hi; linarith
  have hAp : 0 < π * (Dp / 2) ^ 2 := by positivity
  have hsin : 0 < sin (stratified.beta Cvs) := sin_pos_of_pos_of_lt_pi hb0 (by linarith)
  have hsin1 : sin (stratified.beta Cvs) ≤ 1 := sin_le_one _
  have e2 : (2.0:ℝ) = 2 := by norm_num
  have eA : (stratified.areas Dp Cvs) = (π * (Dp / 2) ^ 2, π * (Dp / 2) ^ 2 - π * (Dp / 2) ^ 2 * (Cvs / (Cst.Cvb : ℝ)), π * (Dp / 2) ^ 2 * (Cvs / (Cst.Cvb : ℝ))) := by
    have h := C19_areas Dp Cvs
    refine Prod.ext h.2.2 (Prod.ext ?_ ?_)
    · show (stratified.areas Dp Cvs).2.1 = _
      have := h.1; rw [h.2.1, h.2.2] at this; linarith
    · show (stratified.areas Dp Cvs).2.2 = _
      rw [h.2.1, h.2.2]
  have eP : (stratified.perimeters Dp Cvs).2.1 = (π - stratified.beta Cvs) * Dp ∧ (stratified.perimeters Dp Cvs).2.2.1 = Dp * sin (stratified.beta Cvs) := by
    have h := C19_perimeters Dp Cvs
    exact ⟨h.2.2.2.1, h.2.2.1⟩
  have hA1 : 0.25 * (π * (Dp / 2) ^ 2) ≤ π * (Dp / 2) ^ 2 - π * (Dp / 2) ^ 2 * (Cvs / (Cst.Cvb : ℝ)) := by nlinarith
  have hA1' : π * (Dp / 2) ^ 2 - π * (Dp / 2) ^ 2 * (Cvs / (Cst.Cvb : ℝ)) ≤ π * (Dp / 2) ^ 2 := by nlinarith
  have hO1 : 0 < (π - stratified.beta Cvs) * Dp := by have : 0 < π - stratified.beta Cvs := by linarith
                                                      positivity
  have hO12 : 0 < Dp * sin (stratified.beta Cvs) := by positivity
  have hOle : (π - stratified.beta Cvs) * Dp + Dp * sin (stratified.beta Cvs) ≤ (π + 1) * Dp := by nlinarith
  refine ⟨by rw [eA]; exact hAp, by rw [eA]; linarith, by rw [eA]; exact hA1, by rw [eA]; exact hA1', by rw [eP.1]; exact hO1,
    by rw [eP.2]; exact hO12, by rw [eP.1, eP.2]; exact hOle, ?_⟩
  rw [eA, eP.1, eP.2]
  simp only
  rw [le_div_iff₀ (by linarith)]
  -- 0.189 Dp (O1+O12) ≤ 0.189 (π+1) Dp² ≤ π Dp²/4 ≤ 4 A1
  have hDD : 0 < Dp * Dp := by positivity
  nlinarith [mul_le_mul_of_nonneg_left hOle (by positivity : (0:ℝ) ≤ 0.189 * Dp)]

end

section
variable {vls Dp d eps nu rhol rhos Cvs : ℝ}

/-- 1.325·k / (log x)² is positive for 0 < x < 1 -/
theorem inv_log_sq_pos (x k : ℝ) (hk : 0 < k) (h0 : 0 < x) (h1 : x < 1) : 0 < k / Real.log x ^ 2 := by
  have hl : Real.log x < 0 := Real.log_neg h0 h1
  have : 0 < Real.log x ^ 2 := by nlinarith
  positivity

/-- hydraulic diameter and velocity above the bed, Reynolds number, and the arguments of the two logarithms -/
structure FBFlow (vls Dp d eps nu Cvs : ℝ) : Prop where
  DH1_pos : 0 < 4 * (stratified.areas Dp Cvs).2.1 / ((stratified.perimeters Dp Cvs).2.1 + (stratified.perimeters Dp Cvs).2.2.1)
  v1_ge : vls ≤ vls * (stratified.areas Dp Cvs).1 / (stratified.areas Dp Cvs).2.1
  Re_ge : 1296 ≤ vls * (stratified.areas Dp Cvs).1 / (stratified.areas Dp Cvs).2.1 *
      (4 * (stratified.areas Dp Cvs).2.1 / ((stratified.perimeters Dp Cvs).2.1 + (stratified.perimeters Dp Cvs).2.2.1)) / nu
  c1_wall : 0 ≤ 0.27 * eps / (4 * (stratified.areas Dp Cvs).2.1 / ((stratified.perimeters Dp Cvs).2.1 + (stratified.perimeters Dp Cvs).2.2.1)) ∧
      0.27 * eps / (4 * (stratified.areas Dp Cvs).2.1 / ((stratified.perimeters Dp Cvs).2.1 + (stratified.perimeters Dp Cvs).2.2.1)) ≤ 0.001
  c1_bed : 0 ≤ 0.27 * d / (4 * (stratified.areas Dp Cvs).2.1 / ((stratified.perimeters Dp Cvs).2.1 + (stratified.perimeters Dp Cvs).2.2.1)) ∧
      0.27 * d / (4 * (stratified.areas Dp Cvs).2.1 / ((stratified.perimeters Dp Cvs).2.1 + (stratified.perimeters Dp Cvs).2.2.1)) ≤ 0.36

theorem fb_flow (h : InE vls Dp d eps nu rhol rhos Cvs) : FBFlow vls Dp d eps nu Cvs := by
  have g := fb_geom h
  have hD := h.Dp_pos; have hn := h.nu_pos; have hv := h.vls_pos
  set Ap := (stratified.areas Dp Cvs).1
  set A1 := (stratified.areas Dp Cvs).2.1
  set DH1 := 4 * A1 / ((stratified.perimeters Dp Cvs).2.1 + (stratified.perimeters Dp Cvs).2.2.1) with hDH
  have hA1 := g.A1_pos
  have hDH1 : 0.189 * Dp ≤ DH1 := g.DH1_ge
  have hDHpos : 0 < DH1 := by nlinarith
  have hv1 : vls ≤ vls * Ap / A1 := by
    rw [le_div_iff₀ hA1]; exact mul_le_mul_of_nonneg_left g.A1_le hv.le
  have hRe : 1296 ≤ vls * Ap / A1 * DH1 / nu := by
    rw [le_div_iff₀ hn]
    have a1 : 0.1 * (0.189 * 0.1) ≤ vls * Ap / A1 * DH1 := by
      have : 0.1 ≤ vls * Ap / A1 := le_trans h.vls_lo hv1
      have : 0.189 * 0.1 ≤ DH1 := by nlinarith [h.Dp_lo]
      nlinarith
    nlinarith [h.nu_hi]
  refine ⟨hDHpos, hv1, hRe, ⟨by have := h.eps_pos; positivity, ?_⟩, ⟨by have := h.d_pos; positivity, ?_⟩⟩
  · rw [div_le_iff₀ hDHpos, h.eps_eq]; nlinarith [h.Dp_lo]
  · rw [div_le_iff₀ hDHpos]; nlinarith [h.d_hi]

end

section
variable {vls Dp d eps nu rhol rhos Cvs : ℝ}

theorem log_arg_ok (c1 Re : ℝ) (h0 : 0 ≤ c1) (h1 : c1 ≤ 0.36) (hRe : 1296 ≤ Re) :
    0 < c1 + 5.75 / Re ^ (0.9:ℝ) ∧ c1 + 5.75 / Re ^ (0.9:ℝ) < 1 := by
  have h36 := rpow09_ge36 Re hRe
  have hp : 0 < Re ^ (0.9:ℝ) := by linarith
  have hc2 : 0 < 5.75 / Re ^ (0.9:ℝ) := by positivity
  have hc2' : 5.75 / Re ^ (0.9:ℝ) ≤ 0.16 := by rw [div_le_iff₀ hp]; nlinarith
  exact ⟨by linarith, by linarith⟩

/-- wall friction factor above the bed: logarithm argument in (0,1), result positive -/
theorem lambda1_pos (DH v eps nu : ℝ) (hc : 0 ≤ 0.27 * eps / DH ∧ 0.27 * eps / DH ≤ 0.001) (hRe : 1296 ≤ v * DH / nu) :
    0 < stratified.lambda1 DH v eps nu := by
  unfold stratified.lambda1
  simp only [Transc.rpow, Transc.npow, Transc.log]
  obtain ⟨a, b⟩ := log_arg_ok (0.27 * eps / DH) (v * DH / nu) hc.1 (by linarith [hc.2]) hRe
  exact inv_log_sq_pos _ _ (by norm_num) a b

/-- bed friction factor (no sheet flow), bed at rest -/
theorem lambda12_pos (DH d v nu : ℝ) (hc : 0 ≤ 0.27 * d / DH ∧ 0.27 * d / DH ≤ 0.36) (hRe : 1296 ≤ v * DH / nu) :
    0 < stratified.lambda12 DH d v 0.0 nu := by
  unfold stratified.lambda12
  simp only [Transc.rpow, Transc.npow, Transc.log]
  have e : (v - 0.0) * DH / nu = v * DH / nu := by norm_num
  rw [e]
  obtain ⟨a, b⟩ := log_arg_ok (0.27 * d / DH) (v * DH / nu) hc.1 hc.2 hRe
  have : (0:ℝ) < 1.325 * (Cst.alpha_tel : ℝ) := by unfold Cst.alpha_tel; norm_num
  exact inv_log_sq_pos _ _ this a b

/-- bed friction factor with sheet flow, bed at rest: both power bases positive -/
theorem lambda12_sf_pos (DH d v eps nu rhol rhos : ℝ) (hDH : 0 < DH) (hd : 0 < d) (hv : 0 < v) (hl : 0 < rhol) (hs : rhol < rhos)
    (hc : 0 ≤ 0.27 * eps / DH ∧ 0.27 * eps / DH ≤ 0.001) (hRe : 1296 ≤ v * DH / nu) :
    0 < 2.0 * (Cst.gravity : ℝ) * DH * ((rhos - rhol) / rhol) ∧ 0 < rhos * (π / 6.0) * d ^ 3 / rhol ∧
    0 < stratified.lambda12_sf DH d v 0.0 eps nu rhol rhos := by
  have hg : (0:ℝ) < Cst.gravity := by unfold Cst.gravity; norm_num
  have hR : 0 < (rhos - rhol) / rhol := div_pos (sub_pos.2 hs) hl
  have hp := pi_pos
  have hrs : 0 < rhos := lt_trans hl hs
  have b1 : 0 < 2.0 * (Cst.gravity : ℝ) * DH * ((rhos - rhol) / rhol) := by positivity
  have b2 : 0 < rhos * (π / 6.0) * d ^ 3 / rhol := by positivity
  refine ⟨b1, b2, ?_⟩
  unfold stratified.lambda12_sf
  simp only [Transc.rpow, Transc.npow, Transc.pi]
  have hl1 := lambda1_pos DH v eps nu hc hRe
  have r1 := Real.rpow_pos_of_pos b1 (0.5:ℝ)
  have e : v - 0.0 = v := by norm_num
  rw [e]
  have r2 := Real.rpow_pos_of_pos (div_pos hv r1) (2.73:ℝ)
  have r3 := Real.rpow_pos_of_pos b2 (0.094:ℝ)
  positivity

/-- the fixed-bed pressure loss is positive on E -/
theorem fb_pressure_loss_pos (h : InE vls Dp d eps nu rhol rhos Cvs) :
    0 < stratified.fb_pressure_loss vls Dp d eps nu rhol rhos Cvs := by
  have g := fb_geom h
  have f := fb_flow h
  have hv1 : 0 < vls * (stratified.areas Dp Cvs).1 / (stratified.areas Dp Cvs).2.1 := lt_of_lt_of_le h.vls_pos f.v1_ge
  have l1 := lambda1_pos _ _ eps nu f.c1_wall f.Re_ge
  have l12 := lambda12_pos _ d _ nu f.c1_bed f.Re_ge
  have hl := h.rhol_pos
  unfold stratified.fb_pressure_loss
  simp only [Transc.npow, pyMax_eq_max]
  have hmax := lt_of_lt_of_le l12 (le_max_left _ (stratified.lambda12_sf
    (4.0 * (stratified.areas Dp Cvs).2.1 / ((stratified.perimeters Dp Cvs).2.1 + (stratified.perimeters Dp Cvs).2.2.1)) d
    (vls * (stratified.areas Dp Cvs).1 / (stratified.areas Dp Cvs).2.1) 0.0 eps nu rhol rhos))
  have e4 : (4.0:ℝ) = 4 := by norm_num
  rw [e4] at hmax ⊢
  have hO1 := g.O1_pos; have hO12 := g.O12_pos; have hA1 := g.A1_pos
  positivity

end
