import Dhlldv.Lemmas.FracsCount

/-! Facts about the grading produced after the skip, proved on one scaffold: ordering of the diameters, the start node, the given nodes, the count. -/

namespace Spec.Fracs

/-- strict version of `SegOK`: the limit lies strictly below the upper diameter of the first remaining segment, the remaining points increase
strictly in fraction and in diameter, and the given fractions stay below 0.999 -/
structure StrictSeg (dlim : ℝ) (lo nx : ℝ × ℝ) (rest : List (ℝ × ℝ)) (B : ℝ) : Prop where
  f0 : 0 ≤ lo.1
  f1 : lo.1 < nx.1
  d0 : 0 < lo.2
  d1 : lo.2 < nx.2
  lim0 : 0 < dlim
  lim1 : dlim < nx.2
  chain : List.IsChain (fun p q : ℝ × ℝ => p.1 < q.1 ∧ p.2 < q.2) (nx :: rest)
  le : ∀ p ∈ nx :: rest, p.1 ≤ B
  B999 : B < 0.999

theorem StrictSeg.toSegOK {dlim : ℝ} {lo nx : ℝ × ℝ} {rest : List (ℝ × ℝ)} {B : ℝ} (h : StrictSeg dlim lo nx rest B) : SegOK dlim lo nx rest B :=
  { f0 := h.f0, f1 := h.f1, d0 := h.d0, d1 := h.d1, lim0 := h.lim0, lim1 := h.lim1.le,
    chain := List.IsChain.imp (fun _ _ hab => hab.1.le) h.chain, le := h.le }

theorem X_lt_fnext {dlim : ℝ} {lo nx : ℝ × ℝ} {rest : List (ℝ × ℝ)} {B : ℝ} (h : StrictSeg dlim lo nx rest B) :
    nx.1 - (Transc.log10 nx.2 - Transc.log10 dlim) * (nx.1 - lo.1) / (Transc.log10 nx.2 - Transc.log10 lo.2) < nx.1 := by
  have h1 : 0 < Transc.log10 nx.2 - Transc.log10 dlim := sub_pos.2 (log10_lt h.lim0 h.lim1)
  have h2 : 0 < Transc.log10 nx.2 - Transc.log10 lo.2 := sub_pos.2 (log10_lt h.d0 h.d1)
  have h3 : 0 < nx.1 - lo.1 := sub_pos.2 h.f1
  have : 0 < (Transc.log10 nx.2 - Transc.log10 dlim) * (nx.1 - lo.1) / (Transc.log10 nx.2 - Transc.log10 lo.2) :=
    div_pos (mul_pos h1 h3) h2
  linarith

/-- the diameter extrapolated to fraction 0 along the first segment lies below the segment's upper diameter -/
theorem dmin_lt {dlim : ℝ} {lo nx : ℝ × ℝ} {rest : List (ℝ × ℝ)} {B : ℝ} (h : StrictSeg dlim lo nx rest B) :
    pow10 (Transc.log10 nx.2 - (Transc.log10 nx.2 - Transc.log10 lo.2) * (nx.1 - (0.0:ℝ)) / (nx.1 - lo.1)) < nx.2 := by
  have h2 : 0 < Transc.log10 nx.2 - Transc.log10 lo.2 := sub_pos.2 (log10_lt h.d0 h.d1)
  have h3 : 0 < nx.1 - lo.1 := sub_pos.2 h.f1
  have h4 : 0 < nx.1 - (0.0:ℝ) := by rw [sci_zero]; linarith [h.f0, h.f1]
  have : 0 < (Transc.log10 nx.2 - Transc.log10 lo.2) * (nx.1 - (0.0:ℝ)) / (nx.1 - lo.1) := div_pos (mul_pos h2 h4) h3
  have hlt : Transc.log10 nx.2 - (Transc.log10 nx.2 - Transc.log10 lo.2) * (nx.1 - (0.0:ℝ)) / (nx.1 - lo.1) < Transc.log10 nx.2 := by linarith
  have := pow10_strictMono hlt
  rwa [pow10_log10 nx.2 (lt_trans h.d0 h.d1)] at this

/-- after the skip: (1) the diameters of the discretised grading increase strictly with the fraction; (2) no node lies left of the start fraction
or below the start diameter (start = (X, dlim) if the first segment reaches the limit at a positive fraction X, else (0, the diameter extrapolated to
fraction 0)); (3) in the first case the start node (X, dlim) is a node of the grading; (4) every remaining given point is a node of the grading; (5) the grading has at least the requested number of nodes -/
theorem afterSkip_facts (dlim : ℝ) (lo nx : ℝ × ℝ) (rest : List (ℝ × ℝ)) (pl n : Nat) (B : ℝ) (h : StrictSeg dlim lo nx rest B) :
    Mono (afterSkip (fun k : Nat => (k : ℝ)) dlim lo nx rest pl n).gsd ∧
    Above (afterSkip (fun k : Nat => (k : ℝ)) dlim lo nx rest pl n).gsd
      (if decide (nx.1 - (Transc.log10 nx.2 - Transc.log10 dlim) * (nx.1 - lo.1) / (Transc.log10 nx.2 - Transc.log10 lo.2) > (0.0:ℝ)) = true
        then nx.1 - (Transc.log10 nx.2 - Transc.log10 dlim) * (nx.1 - lo.1) / (Transc.log10 nx.2 - Transc.log10 lo.2) else (0.0:ℝ))
      (if decide (nx.1 - (Transc.log10 nx.2 - Transc.log10 dlim) * (nx.1 - lo.1) / (Transc.log10 nx.2 - Transc.log10 lo.2) > (0.0:ℝ)) = true
        then dlim else pow10 (Transc.log10 nx.2 - (Transc.log10 nx.2 - Transc.log10 lo.2) * (nx.1 - (0.0:ℝ)) / (nx.1 - lo.1))) ∧
    (decide (nx.1 - (Transc.log10 nx.2 - Transc.log10 dlim) * (nx.1 - lo.1) / (Transc.log10 nx.2 - Transc.log10 lo.2) > (0.0:ℝ)) = true →
      (nx.1 - (Transc.log10 nx.2 - Transc.log10 dlim) * (nx.1 - lo.1) / (Transc.log10 nx.2 - Transc.log10 lo.2), dlim) ∈
        (afterSkip (fun k : Nat => (k : ℝ)) dlim lo nx rest pl n).gsd) ∧
    (∀ q ∈ nx :: rest, q ∈ (afterSkip (fun k : Nat => (k : ℝ)) dlim lo nx rest pl n).gsd) ∧
    (pl = rest.length + 1 → 3 ≤ n → n ≤ (afterSkip (fun k : Nat => (k : ℝ)) dlim lo nx rest pl n).gsd.length) := by
  have hXlt := X_lt_fnext h
  have hdmin := dmin_lt h
  unfold afterSkip
  simp only
  set X := nx.1 - (Transc.log10 nx.2 - Transc.log10 dlim) * (nx.1 - lo.1) / (Transc.log10 nx.2 - Transc.log10 lo.2) with hX
  set dmin := pow10 (Transc.log10 nx.2 - (Transc.log10 nx.2 - Transc.log10 lo.2) * (nx.1 - (0.0:ℝ)) / (nx.1 - lo.1)) with hdm
  have hnx0 : 0 < nx.1 := by linarith [h.f0, h.f1]
  have hstart : ∀ (b : Bool), (b = true → 0 < X) →
      Mono (if b = true then [(X, dlim)] else []) ∧
      Below (if b = true then [(X, dlim)] else []) (if b = true then X else (0.0:ℝ)) (if b = true then dlim else dmin) ∧
      StrictOK (if b = true then X else (0.0:ℝ)) (if b = true then dlim else dmin) nx rest ∧
      Pos (if b = true then [(X, dlim)] else []) ∧ KeysNodup (if b = true then [(X, dlim)] else []) ∧
      KeysIn (if b = true then [(X, dlim)] else []) 0 B ∧ 0 ≤ (if b = true then X else (0.0:ℝ)) ∧
      Above (if b = true then [(X, dlim)] else []) (if b = true then X else (0.0:ℝ)) (if b = true then dlim else dmin) := by
    intro b hb
    cases b with
    | false =>
      refine ⟨?_, ?_, ?_, ?_, ?_, ?_, ?_, ?_⟩
      · intro p hp; simp at hp
      · intro p hp; simp at hp
      · simp only [Bool.false_eq_true, if_false]
        exact ⟨by rw [sci_zero]; exact hnx0, hdmin, pow10_pos _, h.chain⟩
      · intro p hp; simp at hp
      · simp [KeysNodup]
      · simp [keysIn_nil]
      · simp
      · intro p hp; simp at hp
    | true =>
      have hx := hb rfl
      simp only [if_true]
      refine ⟨?_, ?_, ⟨hXlt, h.lim1, h.lim0, h.chain⟩, ?_, by simp [KeysNodup], ?_, hx.le, ?_⟩
      · intro p hp q hq hpq
        simp only [List.mem_singleton] at hp hq
        rw [hp, hq] at hpq; exact absurd hpq (lt_irrefl _)
      · intro p hp
        simp only [List.mem_singleton] at hp
        rw [hp]; exact ⟨le_refl _, le_refl _⟩
      · intro p hp
        simp only [List.mem_singleton] at hp
        rw [hp]; exact h.lim0
      · intro p hp
        simp only [List.mem_singleton] at hp
        rw [hp]; exact ⟨hx.le, le_trans hXlt.le (h.le nx List.mem_cons_self)⟩
      · intro p hp
        simp only [List.mem_singleton] at hp
        rw [hp]; exact ⟨le_refl _, le_refl _⟩
  have hdec : decide (X > (0.0:ℝ)) = true → 0 < X := by
    intro hd; simpa [sci_zero] using hd
  obtain ⟨hm0, hb0, hok0, hp0, hnd0, hk0, hf0, ha0⟩ := hstart (decide (X > (0.0:ℝ))) hdec
  have hfrok : FracsOK (if decide (X > (0.0:ℝ)) = true then X else (0.0:ℝ)) nx rest B :=
    ⟨hok0.1.le, List.IsChain.imp (fun _ _ hab => hab.1.le) h.chain, h.le⟩
  set fl0 := (if decide (X > (0.0:ℝ)) = true then X else (0.0:ℝ)) with hfl0
  set dl0 := (if decide (X > (0.0:ℝ)) = true then dlim else dmin) with hdl0
  set dd0 : FDict ℝ := (if decide (X > (0.0:ℝ)) = true then [(X, dlim)] else []) with hdd0
  have hM := segments_mono ((n - pl - 1 + pl - 1) / pl) (rest.length + 1) fl0 dl0 nx rest dd0 (0.0:ℝ) hm0 hb0 hok0
  have hP := segments_pos_fs ((n - pl - 1 + pl - 1) / pl) (rest.length + 1) fl0 dl0 nx rest dd0 (0.0:ℝ) hp0 hok0
  have hN := segments_nodup ((n - pl - 1 + pl - 1) / pl) (fun k : Nat => (k : ℝ)) (rest.length + 1) fl0 dl0 nx rest dd0 (0.0:ℝ) hnd0
  have hK := segments_keysIn ((n - pl - 1 + pl - 1) / pl) (rest.length + 1) fl0 dl0 nx rest dd0 (0.0:ℝ) 0 B hk0 hf0 (by norm_num) hfrok
  have hA := segments_above ((n - pl - 1 + pl - 1) / pl) fl0 dl0 (rest.length + 1) fl0 dl0 nx rest dd0 (0.0:ℝ) ha0 (le_refl _) (le_refl _) hok0
  have hNodes := segments_nodes ((n - pl - 1 + pl - 1) / pl) (rest.length + 1) fl0 dl0 nx rest dd0 (0.0:ℝ) (Nat.lt_succ_self _) hf0 hok0
  have hLen := segments_len ((n - pl - 1 + pl - 1) / pl) (rest.length + 1) fl0 dl0 nx rest dd0 (0.0:ℝ) (Nat.lt_succ_self _) hf0 hm0 hb0 hok0
  have hMem : decide (X > (0.0:ℝ)) = true →
      (X, dlim) ∈ (segments ((n - pl - 1 + pl - 1) / pl) (fun k : Nat => (k : ℝ)) (rest.length + 1) fl0 dl0 nx rest dd0 (0.0 : ℝ)).1 ∧ fl0 = X := by
    intro hb
    have e1 : fl0 = X := by rw [hfl0, if_pos hb]
    have e3 : (X, dlim) ∈ dd0 := by rw [hdd0, if_pos hb]; exact List.mem_singleton.2 rfl
    exact ⟨(segments_keeps_above ((n - pl - 1 + pl - 1) / pl) fl0 dl0 (X, dlim) (rest.length + 1) fl0 dl0 nx rest dd0 (0.0:ℝ) ha0 (le_refl _) (le_refl _)
      ⟨e3, by rw [e1]⟩ hok0).2, e1⟩
  generalize hseg : segments ((n - pl - 1 + pl - 1) / pl) (fun k : Nat => (k : ℝ)) (rest.length + 1) fl0 dl0 nx rest dd0 (0.0 : ℝ) = sg
  rw [hseg] at hM hP hN hK hA hMem hNodes hLen
  obtain ⟨d, fs⟩ := sg
  simp only at hM hP hN hK hA hMem hNodes hLen ⊢
  have hcount : pl = rest.length + 1 → 3 ≤ n → n - 1 ≤ d.length := by
    intro hpl hn3
    have hce := ceil_enough n pl (by omega)
    have e : (rest.length + 1) * ((n - pl - 1 + pl - 1) / pl + 1) = pl * ((n - pl - 1 + pl - 1) / pl + 1) := by rw [hpl]
    rw [hLen, e]
    omega
  have hfs : 0 < fs := hP.2 (Nat.succ_pos _)
  cases hr : (sortF d).reverse with
  | nil =>
    simp only
    refine ⟨mono_sortF d hN hM, fun p hp => hA p (mem_sortF d hN p hp), fun hb => mem_sortF_of_mem d _ (hMem hb).1,
        fun q hq => mem_sortF_of_mem d q (hNodes q hq), fun hpl hn3 => ?_⟩
    have hl : (sortF d).reverse.length = d.length := by rw [List.length_reverse, sortF_length]
    rw [hr] at hl
    have := hcount hpl hn3
    simp only [List.length_nil] at hl
    omega
  | cons top tl =>
    cases tl with
    | nil =>
      simp only
      refine ⟨mono_sortF d hN hM, fun p hp => hA p (mem_sortF d hN p hp), fun hb => mem_sortF_of_mem d _ (hMem hb).1,
        fun q hq => mem_sortF_of_mem d q (hNodes q hq), fun hpl hn3 => ?_⟩
      have hl : (sortF d).reverse.length = d.length := by rw [List.length_reverse, sortF_length]
      rw [hr] at hl
      have := hcount hpl hn3
      simp only [List.length_cons, List.length_nil] at hl
      omega
    | cons below tl' =>
      simp only
      have hs := sortF_strict d hN
      have htop : top ∈ d := by
        apply mem_sortF d hN
        have : top ∈ (sortF d).reverse := by rw [hr]; exact List.mem_cons_self
        exact List.mem_reverse.1 this
      have hbel : below ∈ d := by
        apply mem_sortF d hN
        have : below ∈ (sortF d).reverse := by rw [hr]; exact List.mem_cons_of_mem _ List.mem_cons_self
        exact List.mem_reverse.1 this
      have hbt : below.1 < top.1 := rev_tail_lt (sortF d) top (below :: tl') hs hr below List.mem_cons_self
      have hbt2 : below.2 < top.2 := hM below hbel top htop hbt
      have hbelow : Below d top.1 top.2 := by
        intro p hp
        rcases last_is_max (sortF d) top (below :: tl') hs hr p (mem_sortF_of_mem d p hp) with e | e
        · rw [e]; exact ⟨le_refl _, le_refl _⟩
        · exact ⟨e.le, (hM p hp top htop e).le⟩
      have htopB : top.1 ≤ B := (hK.1 top htop).2
      have hkey : top.1 < pyMin (top.1 + fs) (0.999 : ℝ) := by
        rw [pyMin_eq_min]
        exact lt_min (by linarith) (by linarith [h.B999])
      have hg := seg_strictMono below.1 below.2 top.1 top.2 hbt (hP.1 below hbel) hbt2
      have hval : top.2 < pow10 (logInterp below.1 below.2 top.1 top.2 (pyMin (top.1 + fs) (0.999 : ℝ))) := by
        have := hg hkey
        rwa [seg_right below.1 below.2 top.1 top.2 (hP.1 top htop)] at this
      have hfin := setF_mono_below d _ _ top.1 top.2 hM hbelow hkey hval
      have hAt := hA top htop
      have hAfin := setF_above d (pyMin (top.1 + fs) (0.999 : ℝ)) (pow10 (logInterp below.1 below.2 top.1 top.2 (pyMin (top.1 + fs) (0.999 : ℝ))))
        fl0 dl0 hA (by linarith [hAt.1]) (by linarith [hAt.2])
      refine ⟨mono_sortF _ (setF_nodup _ _ _ hN) hfin.1, fun p hp => hAfin p (mem_sortF _ (setF_nodup _ _ _ hN) p hp), fun hb => ?_, fun q hq => ?_, fun hpl hn3 => ?_⟩
      · apply mem_sortF_of_mem
        apply setF_keeps d _ _ _ (hMem hb).1
        have : X ≤ top.1 := by rw [← (hMem hb).2]; exact hAt.1
        simp only
        linarith
      · apply mem_sortF_of_mem
        apply setF_keeps d _ _ q (hNodes q hq)
        have := (hbelow q (hNodes q hq)).1
        linarith
      · rw [sortF_length, setF_length_new d _ _ top.1 top.2 hbelow hkey]
        have := hcount hpl hn3
        omega

/-- the diameters of the grading produced after the skip increase strictly with the fraction -/
theorem afterSkip_mono (dlim : ℝ) (lo nx : ℝ × ℝ) (rest : List (ℝ × ℝ)) (pl n : Nat) (B : ℝ) (h : StrictSeg dlim lo nx rest B) :
    Mono (afterSkip (fun k : Nat => (k : ℝ)) dlim lo nx rest pl n).gsd := (afterSkip_facts dlim lo nx rest pl n B h).1

/-- if the first segment reaches the limit only at a fraction ≤ 0, the diameter extrapolated to fraction 0 is not below the limit -/
theorem dmin_ge_dlim {dlim : ℝ} {lo nx : ℝ × ℝ} {rest : List (ℝ × ℝ)} {B : ℝ} (h : StrictSeg dlim lo nx rest B)
    (hX : nx.1 - (Transc.log10 nx.2 - Transc.log10 dlim) * (nx.1 - lo.1) / (Transc.log10 nx.2 - Transc.log10 lo.2) ≤ 0) :
    dlim ≤ pow10 (Transc.log10 nx.2 - (Transc.log10 nx.2 - Transc.log10 lo.2) * (nx.1 - (0.0:ℝ)) / (nx.1 - lo.1)) := by
  have h2 : 0 < Transc.log10 nx.2 - Transc.log10 lo.2 := sub_pos.2 (log10_lt h.d0 h.d1)
  have h3 : 0 < nx.1 - lo.1 := sub_pos.2 h.f1
  set ld := Transc.log10 nx.2
  set ll := Transc.log10 lo.2
  set lm := Transc.log10 dlim
  have hfn : nx.1 ≤ (ld - lm) * (nx.1 - lo.1) / (ld - ll) := by linarith
  rw [le_div_iff₀ h2] at hfn
  have hle : lm ≤ ld - (ld - ll) * (nx.1 - (0.0:ℝ)) / (nx.1 - lo.1) := by
    rw [sci_zero, sub_zero]
    have : (ld - ll) * nx.1 / (nx.1 - lo.1) ≤ ld - lm := by
      rw [div_le_iff₀ h3]; nlinarith
    linarith
  have := pow10_strictMono.monotone hle
  rwa [pow10_log10 dlim h.lim0] at this

/-- discarding the points at or below the limit leaves a first segment that satisfies `StrictSeg` when the LAST given diameter lies strictly above the limit -/
theorem skipBelow_strict (dlim B : ℝ) (hB : B < 0.999) : ∀ (fuel : Nat) (lo nx : ℝ × ℝ) (rest : List (ℝ × ℝ)) (pl : Nat),
    InputOK dlim lo nx rest B → dlim < ((nx :: rest).getLast (List.cons_ne_nil _ _)).2 → rest.length < fuel →
    StrictSeg dlim (skipBelow dlim fuel lo nx rest pl).1 (skipBelow dlim fuel lo nx rest pl).2.1 (skipBelow dlim fuel lo nx rest pl).2.2.1 B := by
  intro fuel
  induction fuel with
  | zero => intro lo nx rest pl _ _ hl; exact absurd hl (Nat.not_lt_zero _)
  | succ k ih =>
    intro lo nx rest pl h hne hl
    obtain ⟨hc, hf0, hd0, hle, hlim0, hlast⟩ := h
    have hc' := List.isChain_cons_cons.1 hc
    unfold skipBelow
    by_cases hgt : nx.2 ≤ dlim * ((1.0 : ℝ) + (1e-12 : ℝ))
    · rw [if_pos hgt]
      cases rest with
      | nil =>
        simp only [List.getLast_singleton] at hlast
        simp only [List.getLast_singleton] at hne
        exact
          { f0 := hf0, f1 := hc'.1.1, d0 := hd0, d1 := hc'.1.2, lim0 := hlim0, lim1 := hne,
            chain := hc'.2, le := hle, B999 := hB }
      | cons t rest' =>
        simp only
        have hc'' := List.isChain_cons_cons.1 hc'.2
        have ht0 : ¬ feq t.1 (0.0 : ℝ) = true := by
          rw [feq_iff_eq]
          intro e
          have : 0 < t.1 := by linarith [hc'.1.1, hc''.1.1]
          rw [e] at this; norm_num at this
        rw [if_neg ht0]
        apply ih nx t rest' (pl - 1)
        · refine ⟨hc'.2, by linarith [hc'.1.1], by linarith [hc'.1.2], fun p hp => hle p (List.mem_cons_of_mem _ hp), hlim0, ?_⟩
          rw [List.getLast_cons (List.cons_ne_nil _ _)] at hlast
          exact hlast
        · rw [List.getLast_cons (List.cons_ne_nil _ _)] at hne; exact hne
        · simp only [List.length_cons] at hl; omega
    · rw [if_neg hgt]
      exact
        { f0 := hf0, f1 := hc'.1.1, d0 := hd0, d1 := hc'.1.2, lim0 := hlim0,
          lim1 := (by have := not_le.1 hgt; nlinarith),
          chain := hc'.2, le := hle, B999 := hB }

/-- the skip keeps `points_left` = number of remaining points after the first -/
theorem skipBelow_pl (dlim : ℝ) : ∀ (fuel : Nat) (lo nx : ℝ × ℝ) (rest : List (ℝ × ℝ)) (pl : Nat),
    pl = rest.length + 1 → (∀ t ∈ rest, ¬ feq t.1 (0.0 : ℝ) = true) →
    (skipBelow dlim fuel lo nx rest pl).2.2.2 = (skipBelow dlim fuel lo nx rest pl).2.2.1.length + 1 := by
  intro fuel
  induction fuel with
  | zero => intro lo nx rest pl h _; exact h
  | succ k ih =>
    intro lo nx rest pl h hz
    unfold skipBelow
    by_cases hgt : nx.2 ≤ dlim * ((1.0 : ℝ) + (1e-12 : ℝ))
    · rw [if_pos hgt]
      cases rest with
      | nil => exact h
      | cons t rest' =>
        simp only
        rw [if_neg (hz t List.mem_cons_self)]
        apply ih
        · simp only [List.length_cons] at h; omega
        · exact fun u hu => hz u (List.mem_cons_of_mem _ hu)
    · rw [if_neg hgt]; exact h

/-- ordered by fraction and monotone ⇒ the diameters are strictly increasing along the sorted grading -/
theorem pairwise_diam (l : FDict ℝ) (hs : StrictKeys l) (hm : Mono l) : l.Pairwise (fun p q => p.2 < q.2) :=
  List.Pairwise.imp_of_mem (fun {a b} ha hb hab => hm a ha b hb hab) hs

end Spec.Fracs
