import Dhlldv.Lemmas.WilsonMono

/-! Strict positivity of the Wilson stratified deposit velocity and excess gradient (so that the gradient exceeds the water gradient on E
without a positivity hypothesis). -/

open Real

/-- the concentration factor of the nomograph fit is strictly positive for a relative concentration strictly between 0 and 1 -/
theorem wsPhi_pos (Dp d rhol rhos Cv Cvb : ℝ) (hc0 : 0 < Cv / Cvb) (hc1 : Cv / Cvb < 1) : 0 < wsPhi Dp d rhol rhos Cv Cvb := by
  unfold wsPhi
  simp only
  have hr : 0.05 ≤ wilson_stratified.Cvr_max Dp d rhol rhos ∧ wilson_stratified.Cvr_max Dp d rhol rhos ≤ 0.66 := by
    unfold wilson_stratified.Cvr_max
    simp only [pyMin_eq_min, pyMax_eq_max]
    exact ⟨le_min (by norm_num) (le_max_left _ _), min_le_left _ _⟩
  split_ifs with h
  · have ha : 0 < Real.log 0.333 / Real.log (wilson_stratified.Cvr_max Dp d rhol rhos) :=
      div_pos_of_neg_of_neg (Real.log_neg (by norm_num) (by norm_num)) (Real.log_neg (by linarith [hr.1]) (by linarith))
    have h1 := Real.rpow_pos_of_pos hc0 (Real.log 0.333 / Real.log (wilson_stratified.Cvr_max Dp d rhol rhos))
    have h2 := Real.rpow_lt_one hc0.le hc1 ha
    have h3 : 0 < 1 - (Cv / Cvb) ^ (Real.log 0.333 / Real.log (wilson_stratified.Cvr_max Dp d rhol rhos)) := by linarith
    positivity
  · have hx0 : 0 < 1 - Cv / Cvb := by linarith
    have hx1 : 1 - Cv / Cvb < 1 := by linarith
    have hb : 0 < Real.log 0.666 / Real.log (1 - wilson_stratified.Cvr_max Dp d rhol rhos) :=
      div_pos_of_neg_of_neg (Real.log_neg (by norm_num) (by norm_num)) (Real.log_neg (by linarith [hr.2]) (by linarith [hr.1]))
    have h1 := Real.rpow_pos_of_pos hx0 (2 * (Real.log 0.666 / Real.log (1 - wilson_stratified.Cvr_max Dp d rhol rhos)))
    have h2 := Real.rpow_lt_one hx0.le hx1 hb
    have h3 : 0 < 1 - (1 - Cv / Cvb) ^ (Real.log 0.666 / Real.log (1 - wilson_stratified.Cvr_max Dp d rhol rhos)) := by linarith
    positivity

/-- the nomograph value of the maximum deposit velocity (no friction factor given) is strictly positive -/
theorem Vsm_max0_pos (Dp d rhol rhos musf : ℝ) (hDp : 0 < Dp) (hd : 0 < d) (hl : 0 < rhol) (hs : rhol < rhos) (hm : 0 < musf) :
    0 < wilson_stratified.Vsm_max Dp d rhol rhos musf 0 := by
  have hdm : 0 < d * (1000.0:ℝ) := by positivity
  have hR : 0 < (rhos - rhol) / rhol := div_pos (sub_pos.2 hs) hl
  unfold wilson_stratified.Vsm_max
  have h0 : feq (0:ℝ) (0.0:ℝ) = true := (feq_iff_eq _ _).2 (by norm_num)
  simp only [h0, Bool.not_true, Bool.false_eq_true, if_false, Transc.rpow, Transc.npow]
  have a1 := Real.rpow_pos_of_pos (by positivity : 0 < musf * ((rhos - rhol) / rhol) / 0.66) (0.55:ℝ)
  have a2 := Real.rpow_pos_of_pos hDp (0.7:ℝ)
  have a3 := Real.rpow_pos_of_pos hdm (1.75:ℝ)
  positivity

/-- with a positive friction factor the maximum deposit velocity is strictly positive -/
theorem Vsm_max_pos (Dp d rhol rhos musf f : ℝ) (hDp : 0 < Dp) (hd : 0 < d) (hl : 0 < rhol) (hs : rhol < rhos) (hm : 0 < musf) (hf : 0 < f) :
    0 < wilson_stratified.Vsm_max Dp d rhol rhos musf f := by
  rw [Vsm_max_eq Dp d rhol rhos musf f hf]
  apply lt_min _ (Vsm_max0_pos Dp d rhol rhos musf hDp hd hl hs hm)
  have hg : (0:ℝ) < Cst.gravity := by unfold Cst.gravity; norm_num
  have := sub_pos.2 hs
  have b1 := Real.rpow_pos_of_pos (by positivity : 0 < 0.018 / f) (0.13:ℝ)
  have b2 := Real.rpow_pos_of_pos (by positivity : 0 < 2 * (Cst.gravity : ℝ) * Dp * (rhos - rhol)) (0.5:ℝ)
  positivity

/-- the deposit velocity is strictly positive: physical inputs, positive friction factor, relative concentration strictly between 0 and 1 -/
theorem Vsm_pos (Dp d rhol rhos musf Cv Cvb f : ℝ) (hDp : 0 < Dp) (hd : 0 < d) (hl : 0 < rhol) (hs : rhol < rhos) (hm : 0 < musf) (hf : 0 < f)
    (hc0 : 0 < Cv / Cvb) (hc1 : Cv / Cvb < 1) : 0 < wilson_stratified.Vsm Dp d rhol rhos musf Cv Cvb f := by
  rw [Vsm_eq]
  have hmx := Vsm_max_pos Dp d rhol rhos musf f hDp hd hl hs hm hf
  exact lt_min (mul_pos hmx (wsPhi_pos Dp d rhol rhos Cv Cvb hc0 hc1)) hmx

/-- on E the friction factor handed to the deposit velocity is strictly positive -/
theorem swamee_jain_pos_on_E {v Dp d eps nu rhol rhos Cv : ℝ} (h : InE v Dp d eps nu rhol rhos Cv) :
    0 < homogeneous.swamee_jain_ff (homogeneous.pipe_reynolds_number v Dp nu) Dp eps := by
  have hD := h.Dp_pos; have hn := h.nu_pos
  have t1 : 2320 < homogeneous.pipe_reynolds_number v Dp nu := lt_of_lt_of_le (by norm_num) h.reynolds_ge
  rw [swamee_jain_as_Lv v Dp eps nu h.vls_pos hD hn t1]
  set c1 := eps / (3.7 * Dp)
  set k := 5.75 * (nu / Dp) ^ (0.9:ℝ)
  have hk : 0 < k := by have := Real.rpow_pos_of_pos (div_pos hn hD) (0.9:ℝ); positivity
  have hc1 : 0 ≤ c1 := by have := h.eps_pos; positivity
  have hs1 : c1 + k * v ^ (-(0.9:ℝ)) ≤ Real.exp (-0.9) := h.log_arg_small
  have hx1 : 0 < c1 + k * v ^ (-(0.9:ℝ)) := by have := Real.rpow_pos_of_pos h.vls_pos (-(0.9:ℝ)); positivity
  have hL1 : 0 < Lv c1 k v := by have := Lv_pos c1 k v hx1 hs1; linarith
  positivity

/-- the Wilson stratified excess gradient is strictly positive on E -/
theorem wilson_stratified_Erhg_pos {v Dp d eps nu rhol rhos Cv : ℝ} (musf Cvb : ℝ)
    (h : InE v Dp d eps nu rhol rhos Cv) (hm : 0 < musf) :
    0 < wilson_stratified.Erhg v Dp d eps nu rhol rhos musf Cv Cvb := by
  unfold wilson_stratified.Erhg
  simp only [Transc.rpow]
  have hf := swamee_jain_pos_on_E h
  have hc0 : 0 < Cv / (0.6:ℝ) := by have := h.Cv_pos; positivity
  have hc1 : Cv / (0.6:ℝ) < 1 := by rw [div_lt_one (by norm_num)]; have := h.Cv_hi; linarith
  have hV := Vsm_pos Dp d rhol rhos musf Cv 0.6 _ h.Dp_pos h.d_pos h.rhol_pos h.rhos_gt hm hf hc0 hc1
  have hv := h.vls_pos
  have := Real.rpow_pos_of_pos (by positivity :
    0 < 0.55 * wilson_stratified.Vsm Dp d rhol rhos musf Cv 0.6 (homogeneous.swamee_jain_ff (homogeneous.pipe_reynolds_number v Dp nu) Dp eps) / v) (0.25:ℝ)
  positivity
