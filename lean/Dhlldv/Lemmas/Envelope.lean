import Dhlldv.Lemmas.Basic
import Dhlldv.Lemmas.Canon
import Dhlldv.Gen.Framework
import Mathlib.Analysis.SpecialFunctions.Pow.Real
import Mathlib.Analysis.SpecialFunctions.Log.Basic
import Mathlib.Tactic.Positivity
import Mathlib.Tactic.Linarith
import Mathlib.Tactic.NormNum

/-! The engineering envelope E (DESIGN.md §2) and the basic analytic facts about the generated closed-form models on it. -/

/-- carrier water, pipe, solids, grain, concentration and line speed inside the engineering envelope (steel roughness) -/
structure InE (vls Dp d eps nu rhol rhos Cv : ℝ) : Prop where
  nu_lo : 0.8e-6 ≤ nu
  nu_hi : nu ≤ 1.4e-6
  rhol_lo : 0.99 ≤ rhol
  rhol_hi : rhol ≤ 1.03
  Dp_lo : 0.1 ≤ Dp
  Dp_hi : Dp ≤ 1.2
  rhos_lo : 2 ≤ rhos
  rhos_hi : rhos ≤ 4
  d_lo : 5e-5 ≤ d
  d_hi : d ≤ 0.25 * Dp
  Cv_lo : 0.02 ≤ Cv
  Cv_hi : Cv ≤ 0.45
  vls_lo : 0.1 ≤ vls
  vls_hi : vls ≤ 10
  eps_eq : eps = 4.5e-5

namespace InE
variable {vls Dp d eps nu rhol rhos Cv : ℝ} (h : InE vls Dp d eps nu rhol rhos Cv)
include h

theorem nu_pos : 0 < nu := by have := h.nu_lo; linarith
theorem rhol_pos : 0 < rhol := by have := h.rhol_lo; linarith
theorem Dp_pos : 0 < Dp := by have := h.Dp_lo; linarith
theorem d_pos : 0 < d := by have := h.d_lo; linarith
theorem Cv_pos : 0 < Cv := by have := h.Cv_lo; linarith
theorem vls_pos : 0 < vls := by have := h.vls_lo; linarith
theorem eps_pos : 0 < eps := by rw [h.eps_eq]; norm_num
theorem rhos_gt : rhol < rhos := by have := h.rhol_hi; have := h.rhos_lo; linarith

/-- relative submerged density in E lies in (0.94, 3.05) -/
theorem Rsd_pos : 0 < (rhos - rhol) / rhol := div_pos (sub_pos.2 h.rhos_gt) h.rhol_pos

theorem Rsd_bounds : 0.94 ≤ (rhos - rhol) / rhol ∧ (rhos - rhol) / rhol ≤ 3.05 := by
  have hl := h.rhol_pos
  constructor
  · rw [le_div_iff₀ hl]; have := h.rhol_hi; have := h.rhos_lo; nlinarith
  · rw [div_le_iff₀ hl]; have := h.rhol_lo; have := h.rhos_hi; nlinarith

end InE

/-! ### Reynolds number and the Swamee–Jain friction factor -/


theorem reynolds_pos (vls Dp nu : ℝ) (hv : 0 < vls) (hD : 0 < Dp) (hn : 0 < nu) :
    0 < homogeneous.pipe_reynolds_number vls Dp nu := by
  rw [reynolds_eq]; positivity

/-- in E the flow is turbulent: Re ≥ 7142 > 2320 -/
theorem InE.reynolds_ge {vls Dp d eps nu rhol rhos Cv : ℝ} (h : InE vls Dp d eps nu rhol rhos Cv) :
    7142 ≤ homogeneous.pipe_reynolds_number vls Dp nu := by
  rw [reynolds_eq, le_div_iff₀ h.nu_pos]
  have := h.vls_lo; have := h.Dp_lo; have := h.nu_hi
  nlinarith

/-- for Re > 2320 (turbulent branch): Re^0.9 > 48, hence 0 < c1 + c2 < 1 whenever 0 ≤ c1 ≤ 0.8 -/
theorem rpow09_gt (Re : ℝ) (hRe : 2320 < Re) : 48 < Re ^ (0.9 : ℝ) := by
  have h0 : (0:ℝ) < 2320 := by norm_num
  have h1 : (2320:ℝ) ^ (0.9:ℝ) < Re ^ (0.9:ℝ) := Real.rpow_lt_rpow h0.le hRe (by norm_num)
  have h2 : (2320:ℝ) ^ (0.5:ℝ) ≤ (2320:ℝ) ^ (0.9:ℝ) := Real.rpow_le_rpow_of_exponent_le (by norm_num) (by norm_num)
  have h3 : (48:ℝ) < (2320:ℝ) ^ (0.5:ℝ) := by
    have : (48:ℝ) = ((48:ℝ)^2) ^ (0.5:ℝ) := by
      rw [← Real.rpow_natCast, ← Real.rpow_mul (by norm_num)]; norm_num
    rw [this]
    exact Real.rpow_lt_rpow (by norm_num) (by norm_num) (by norm_num)
  linarith

/-- the friction factor is positive for every positive Reynolds number, positive diameter and a relative roughness term below 0.8 -/
theorem swamee_jain_pos (Re Dp eps : ℝ) (hRe : 0 < Re) (hD : 0 < Dp) (he : 0 ≤ eps) (hc : eps / (3.7 * Dp) ≤ 0.8) :
    0 < homogeneous.swamee_jain_ff Re Dp eps := by
  rw [swamee_jain_canon]
  split_ifs with hl
  · positivity
  · have hRe2 : 2320 < Re := not_le.1 hl
    have h48 := rpow09_gt Re hRe2
    have hc1 : 0 ≤ eps / (3.7 * Dp) := by positivity
    have hc2 : 0 < 5.75 / Re ^ (0.9:ℝ) := by positivity
    have hc2' : 5.75 / Re ^ (0.9:ℝ) < 0.12 := by
      rw [div_lt_iff₀ (by linarith)]; nlinarith
    have hs : 0 < eps / (3.7 * Dp) + 5.75 / Re ^ (0.9:ℝ) := by linarith
    have hs1 : eps / (3.7 * Dp) + 5.75 / Re ^ (0.9:ℝ) < 1 := by linarith
    have hlog : Real.log (eps / (3.7 * Dp) + 5.75 / Re ^ (0.9:ℝ)) < 0 := Real.log_neg hs hs1
    have : 0 < Real.log (eps / (3.7 * Dp) + 5.75 / Re ^ (0.9:ℝ)) ^ 2 := by
      have := sq_pos_of_neg hlog; simpa using this
    positivity

theorem InE.rough_le {vls Dp d eps nu rhol rhos Cv : ℝ} (h : InE vls Dp d eps nu rhol rhos Cv) : eps / (3.7 * Dp) ≤ 0.8 := by
  rw [h.eps_eq, div_le_iff₀ (by have := h.Dp_pos; positivity)]
  have := h.Dp_lo; nlinarith

/-- the carrier-liquid gradient is positive in E (Darcy–Weisbach with a positive friction factor) -/
theorem InE.il_pos {vls Dp d eps nu rhol rhos Cv : ℝ} (h : InE vls Dp d eps nu rhol rhos Cv) :
    0 < homogeneous.fluid_head_loss vls Dp eps nu rhol := by
  rw [fluid_head_loss_canon]
  have hl := swamee_jain_pos (homogeneous.pipe_reynolds_number vls Dp nu) Dp eps
    (reynolds_pos vls Dp nu h.vls_pos h.Dp_pos h.nu_pos) h.Dp_pos h.eps_pos.le h.rough_le
  have hg : (0:ℝ) < Cst.gravity := by unfold Cst.gravity; norm_num
  have := h.vls_pos; have := h.Dp_pos
  positivity

/-! ### Settling velocity -/

/-- Ruby & Zanke terminal settling velocity is positive for positive grain size, relative density and viscosity -/
theorem vt_ruby_pos (d Rsd nu K : ℝ) (hd : 0 < d) (hR : 0 < Rsd) (hn : 0 < nu) : 0 < heterogeneous.vt_ruby d Rsd nu K := by
  rw [vt_ruby_canon]
  have hg : (0:ℝ) < Cst.gravity := by unfold Cst.gravity; norm_num
  have hx : 0 < Rsd * Cst.gravity * d ^ 3 / (100 * nu ^ 2) := by positivity
  have h1 : (1:ℝ) < (1 + Rsd * Cst.gravity * d ^ 3 / (100 * nu ^ 2)) ^ (0.5:ℝ) := by
    apply Real.one_lt_rpow _ (by norm_num)
    linarith
  have : 0 < (1 + Rsd * Cst.gravity * d ^ 3 / (100 * nu ^ 2)) ^ (0.5:ℝ) - 1 := by linarith
  positivity
