import Dhlldv.Lemmas.Friction
import Dhlldv.Lemmas.Settling
import Mathlib.Tactic.SplitIfs

/-! The heterogeneous excess gradient falls strictly with line speed on E:
Shr = A / v with A ≥ 0, Srs = K · L(v)² / v² with K > 0 and L(v)/v strictly decreasing (friction lemma);
the sliding-flow blend (E + (f−1) μsf)/f is an increasing function of E. -/

open Real

theorem sqrtcx_pos (vt d : ℝ) (hvt : 0 < vt) (hd : 0 < d) : 0 < heterogeneous.sqrtcx vt d := by
  unfold heterogeneous.sqrtcx
  simp only [Transc.rpow, gt_iff_lt, decide_eq_true_eq, sci_one]
  have hg : (0:ℝ) < Cst.gravity := by unfold Cst.gravity; norm_num
  have h1 : 0 < ((Cst.gravity : ℝ) * d) ^ (0.5:ℝ) := Real.rpow_pos_of_pos (by positivity) _
  have hfr : 0 < vt / ((Cst.gravity : ℝ) * d) ^ (0.5:ℝ) := by positivity
  have hG : 0 < 1 / (vt / ((Cst.gravity : ℝ) * d) ^ (0.5:ℝ)) ^ ((10.0:ℝ) / 9.0) := by
    have := Real.rpow_pos_of_pos hfr ((10.0:ℝ) / 9.0); positivity
  have hW : 0 < 0.226 * ((Cst.gravity : ℝ) / d) ^ (0.1667:ℝ) := by
    have := Real.rpow_pos_of_pos (div_pos hg hd) (0.1667:ℝ); positivity
  split_ifs with a b c
  · have := Real.rpow_pos_of_pos (div_pos hG (by norm_num : (0:ℝ) < 1.8)) (0.75:ℝ); positivity
  · have := Real.rpow_pos_of_pos (div_pos hG (by norm_num : (0:ℝ) < 1.8)) (0.75:ℝ); positivity
  · positivity
  · exact hG

/-- L(v)²/v² strictly decreasing -/
theorem Lsq_div_sq_strictAnti (c1 k v1 v2 : ℝ) (hc : 0 ≤ c1) (hk : 0 < k) (h1 : 0 < v1) (h12 : v1 < v2)
    (hs1 : c1 + k * v1 ^ (-(0.9:ℝ)) ≤ Real.exp (-0.9)) :
    Lv c1 k v2 ^ 2 / v2 ^ 2 < Lv c1 k v1 ^ 2 / v1 ^ 2 := by
  have h2 : 0 < v2 := lt_trans h1 h12
  have hx1 : 0 < c1 + k * v1 ^ (-(0.9:ℝ)) := by have := Real.rpow_pos_of_pos h1 (-(0.9:ℝ)); positivity
  have hx2 : 0 < c1 + k * v2 ^ (-(0.9:ℝ)) := by have := Real.rpow_pos_of_pos h2 (-(0.9:ℝ)); positivity
  have hmono : c1 + k * v2 ^ (-(0.9:ℝ)) ≤ c1 + k * v1 ^ (-(0.9:ℝ)) := by
    have := (Real.rpow_lt_rpow_of_neg h1 h12 (by norm_num : (-(0.9:ℝ)) < 0)).le
    nlinarith
  have hL1 : 0 < Lv c1 k v1 := by have := Lv_pos c1 k v1 hx1 hs1; linarith
  have hL2 : 0 < Lv c1 k v2 := by have := Lv_pos c1 k v2 hx2 (le_trans hmono hs1); linarith
  have key := Lv_key c1 k v1 v2 hc hk h1 h12 hs1
  rw [div_lt_div_iff₀ (by positivity) (by positivity)]
  have hp : 0 < v1 * Lv c1 k v2 := by positivity
  have := mul_lt_mul'' key key hp.le hp.le
  nlinarith

theorem heterogeneous_Erhg_strictAnti {v1 v2 Dp d eps nu rhol rhos Cvs : ℝ} (sf sq : Bool)
    (h1 : InE v1 Dp d eps nu rhol rhos Cvs) (h2 : InE v2 Dp d eps nu rhol rhos Cvs) (h12 : v1 < v2) :
    heterogeneous.Erhg v2 Dp d eps nu rhol rhos Cvs sf sq < heterogeneous.Erhg v1 Dp d eps nu rhol rhos Cvs sf sq := by
  have hD := h1.Dp_pos; have hn := h1.nu_pos; have hd := h1.d_pos
  have hg : (0:ℝ) < Cst.gravity := by unfold Cst.gravity; norm_num
  have hvt := vt_ruby_pos d ((rhos - rhol) / rhol) nu 0.26 hd h1.Rsd_pos hn
  have t1 : 2320 < homogeneous.pipe_reynolds_number v1 Dp nu := lt_of_lt_of_le (by norm_num) h1.reynolds_ge
  have t2 : 2320 < homogeneous.pipe_reynolds_number v2 Dp nu := lt_of_lt_of_le (by norm_num) h2.reynolds_ge
  -- potential-energy term: A / v with A ≥ 0
  have hShr : heterogeneous.Shr v2 Dp d eps nu rhol rhos Cvs ≤ heterogeneous.Shr v1 Dp d eps nu rhol rhos Cvs := by
    rw [Shr_canon, Shr_canon]
    simp only [pyMax_eq_max]
    apply div_le_div_of_nonneg_left _ h1.vls_pos h12.le
    exact mul_nonneg hvt.le (Real.rpow_nonneg (le_max_of_le_right (le_refl 0)) _)
  -- kinetic term: K · (1/λ) · (m/v)², strictly decreasing
  have hSrs : heterogeneous.Srs v2 Dp d eps nu rhol rhos sq < heterogeneous.Srs v1 Dp d eps nu rhol rhos sq := by
    rw [Srs_canon, Srs_canon]
    rw [swamee_jain_as_Lv v1 Dp eps nu h1.vls_pos hD hn t1, swamee_jain_as_Lv v2 Dp eps nu h2.vls_pos hD hn t2]
    set c1 := eps / (3.7 * Dp)
    set k := 5.75 * (nu / Dp) ^ (0.9:ℝ)
    have hc1 : 0 ≤ c1 := by have := h1.eps_pos; positivity
    have hk : 0 < k := by have := Real.rpow_pos_of_pos (div_pos hn hD) (0.9:ℝ); positivity
    have hanti := Lsq_div_sq_strictAnti c1 k v1 v2 hc1 hk h1.vls_pos h12 h1.log_arg_small
    have hm : 0 < (nu * (Cst.gravity : ℝ)) ^ ((1:ℝ) / 3) := Real.rpow_pos_of_pos (by positivity) _
    have e : ∀ (X L v : ℝ), (8.5:ℝ) ^ 2 / (1.325 / L ^ 2) * X * ((nu * (Cst.gravity : ℝ)) ^ ((1:ℝ) / 3) / v) ^ 2
        = ((8.5:ℝ) ^ 2 / 1.325 * X * ((nu * (Cst.gravity : ℝ)) ^ ((1:ℝ) / 3)) ^ 2) * (L ^ 2 / v ^ 2) := by
      intro X L v; field_simp
    rw [e, e]
    have hX : 0 < (if (!sq) = true then (heterogeneous.vt_ruby d ((rhos - rhol) / rhol) nu 0.26 / ((Cst.gravity : ℝ) * d) ^ (0.5:ℝ)) ^ ((10:ℝ) / 3)
         else (1 / heterogeneous.sqrtcx (heterogeneous.vt_ruby d ((rhos - rhol) / rhol) nu 0.26) d) ^ (3:ℝ)) := by
      split_ifs
      · exact Real.rpow_pos_of_pos (div_pos hvt (Real.rpow_pos_of_pos (by positivity) _)) _
      · have hs := sqrtcx_pos _ d hvt hd
        exact Real.rpow_pos_of_pos (by positivity) _
    exact mul_lt_mul_of_pos_left hanti (by positivity)
  rw [het_Erhg_canon, het_Erhg_canon]
  have hsum : heterogeneous.Shr v2 Dp d eps nu rhol rhos Cvs + heterogeneous.Srs v2 Dp d eps nu rhol rhos sq <
      heterogeneous.Shr v1 Dp d eps nu rhol rhos Cvs + heterogeneous.Srs v1 Dp d eps nu rhol rhos sq := by linarith
  split_ifs with hb
  · exact hsum
  · have hf : 0 < d / ((Cst.particle_ratio : ℝ) * Dp) := by
      have : (0:ℝ) < Cst.particle_ratio := by unfold Cst.particle_ratio; norm_num
      positivity
    exact div_lt_div_of_pos_right (by linarith) hf
