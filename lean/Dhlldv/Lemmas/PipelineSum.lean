import Dhlldv.Lemmas.Basic
import Dhlldv.Spec.Pipeline
import Mathlib.Tactic.Ring
import Mathlib.Algebra.BigOperators.Group.List.Basic
import Mathlib.Data.List.Perm.Basic

/-! Closed form of the accumulation loop of `calc_system_head` (Spec.Pipe.sysHead at ℝ). -/

namespace Spec.Pipe

variable (g rhom rhol Q : ℝ)

noncomputable def tFitM : Sec ℝ → ℝ
  | .pipe D _ K _ _ _ => K * velHead g D Q * rhom
  | .pump _ _ => 0
noncomputable def tFitL : Sec ℝ → ℝ
  | .pipe D _ K _ _ _ => K * velHead g D Q * rhol
  | .pump _ _ => 0
noncomputable def tFricM : Sec ℝ → ℝ
  | .pipe _ L _ _ imv _ => if L > 0 then imv * L else 0
  | .pump _ _ => 0
noncomputable def tFricL : Sec ℝ → ℝ
  | .pipe _ L _ _ _ ilv => if L > 0 then ilv * L else 0
  | .pump _ _ => 0
noncomputable def tZM : Sec ℝ → ℝ
  | .pipe _ L _ dz _ _ => if L > 0 then dz * rhom else 0
  | .pump _ _ => 0
noncomputable def tZL : Sec ℝ → ℝ
  | .pipe _ L _ dz _ _ => if L > 0 then dz * rhol else 0
  | .pump _ _ => 0
def tPL : Sec ℝ → ℝ
  | .pipe .. => 0
  | .pump hL _ => hL
def tPM : Sec ℝ → ℝ
  | .pipe .. => 0
  | .pump _ hM => hM

/-- velocity head of the last pipe section visited (`d` if there is none) -/
noncomputable def lastHv : List (Sec ℝ) → ℝ → ℝ
  | [], d => d
  | .pipe D _ _ _ _ _ :: rest, _ => lastHv rest (velHead g D Q)
  | .pump _ _ :: rest, d => lastHv rest d

theorem foldl_closed (secs : List (Sec ℝ)) : ∀ (a : Acc ℝ),
    let r := secs.foldl (stepSec g rhom rhol Q) a
    r.fitM = a.fitM + (secs.map (tFitM g rhom Q)).sum ∧ r.fitL = a.fitL + (secs.map (tFitL g rhol Q)).sum ∧
    r.fricM = a.fricM + (secs.map tFricM).sum ∧ r.fricL = a.fricL + (secs.map tFricL).sum ∧
    r.zM = a.zM + (secs.map (tZM rhom)).sum ∧ r.zL = a.zL + (secs.map (tZL rhol)).sum ∧
    r.pM = a.pM + (secs.map tPM).sum ∧ r.pL = a.pL + (secs.map tPL).sum ∧
    r.hv = lastHv g Q secs a.hv := by
  induction secs with
  | nil => intro a; simp [lastHv]
  | cons s rest ih =>
    intro a
    simp only [List.foldl_cons, List.map_cons, List.sum_cons]
    have h := ih (stepSec g rhom rhol Q a s)
    simp only at h
    obtain ⟨h1, h2, h3, h4, h5, h6, h7, h8, h9⟩ := h
    rw [h1, h2, h3, h4, h5, h6, h7, h8, h9]
    cases s with
    | pipe D L K dz imv ilv =>
      simp only [stepSec, tFitM, tFitL, tFricM, tFricL, tZM, tZL, tPM, tPL, lastHv, sci_zero]
      split_ifs <;> simp only [] <;> refine ⟨?_, ?_, ?_, ?_, ?_, ?_, ?_, ?_, ?_⟩ <;> first | rfl | ring | (simp only [lastHv]) | skip
    | pump hL hM =>
      simp only [stepSec, tFitM, tFitL, tFricM, tFricL, tZM, tZL, tPM, tPL, lastHv]
      refine ⟨?_, ?_, ?_, ?_, ?_, ?_, ?_, ?_, ?_⟩ <;> first | rfl | ring | (simp only [lastHv]) | skip

theorem lastHv_append_pipe (l : List (Sec ℝ)) (D L K dz imv ilv d : ℝ) :
    lastHv g Q (l ++ [Sec.pipe D L K dz imv ilv]) d = velHead g D Q := by
  induction l generalizing d with
  | nil => simp [lastHv]
  | cons s rest ih => cases s <;> simp [lastHv, ih]

theorem lastHv_append (l1 l2 : List (Sec ℝ)) (d : ℝ) : lastHv g Q (l1 ++ l2) d = lastHv g Q l2 (lastHv g Q l1 d) := by
  induction l1 generalizing d with
  | nil => rfl
  | cons s rest ih => cases s <;> simp [lastHv, ih]

end Spec.Pipe
