import Dhlldv.Lemmas.Basic
import Dhlldv.Gen.Framework
import Mathlib.Tactic.Linarith

/-! Structure of the slip ratio: a convex combination of max(·, Xi_3LM) and Xi_3LM with weight f ∈ [0,1]. -/

theorem slip_mix_lower (X B f0 : ℝ) :
    B ≤ (pyMax X B) * (pyMin (pyMax f0 (0.0 : ℝ)) (1.0 : ℝ)) + B * ((1.0 : ℝ) - pyMin (pyMax f0 (0.0 : ℝ)) (1.0 : ℝ)) := by
  simp only [pyMax_eq_max, pyMin_eq_min, sci_zero, sci_one]
  have hf0 : 0 ≤ min (max f0 0) 1 := le_min (le_max_right _ _) zero_le_one
  have hXB : B ≤ max X B := le_max_right _ _
  nlinarith [mul_le_mul_of_nonneg_right hXB hf0]

theorem slip_mix_upper (X B f0 : ℝ) :
    (pyMax X B) * (pyMin (pyMax f0 (0.0 : ℝ)) (1.0 : ℝ)) + B * ((1.0 : ℝ) - pyMin (pyMax f0 (0.0 : ℝ)) (1.0 : ℝ)) ≤ pyMax X B := by
  simp only [pyMax_eq_max, pyMin_eq_min, sci_zero, sci_one]
  have hf1 : min (max f0 0) 1 ≤ 1 := min_le_right _ _
  have hXB : B ≤ max X B := le_max_right _ _
  nlinarith [mul_le_mul_of_nonneg_right hXB (sub_nonneg.2 hf1)]

/-- the slip ratio is at least the three-layer-model slip (1 − Cvr)·exp(…), hence strictly positive below the bed concentration — for ALL other arguments -/
theorem slip_ratio_pos (vls Dp d eps nu rhol rhos Cvt : ℝ) (h : Cvt / (Cst.Cvb : ℝ) < 1) :
    0 < framework.slip_ratio vls Dp d eps nu rhol rhos Cvt := by
  unfold framework.slip_ratio
  refine lt_of_lt_of_le ?_ (slip_mix_lower _ _ _)
  apply mul_pos
  · simp only [sci_one]; linarith
  · exact Real.exp_pos _
