import Dhlldv.Lemmas.Canon
import Dhlldv.Gen.Stratified

/-! Canonical closed forms of the generated cross-section geometry (`stratified.areas`, `stratified.perimeters`), proved with `canon_close` so that
a harmless rewrite of the Python expressions (re-association, `Dp**2/4` for `(Dp/2)**2`, swapped factors) leaves every downstream proof untouched. -/

theorem areas_canon (Dp Cvs : ℝ) :
    (stratified.areas Dp Cvs).1 = Real.pi * (Dp / 2) ^ 2 ∧
    (stratified.areas Dp Cvs).2.1 = Real.pi * (Dp / 2) ^ 2 - Real.pi * (Dp / 2) ^ 2 * (Cvs / (Cst.Cvb : ℝ)) ∧
    (stratified.areas Dp Cvs).2.2 = Real.pi * (Dp / 2) ^ 2 * (Cvs / (Cst.Cvb : ℝ)) := by
  refine ⟨?_, ?_, ?_⟩ <;> (simp only [stratified.areas, Transc.pi] <;> canon_close)

theorem perimeters_canon (Dp Cvs : ℝ) :
    (stratified.perimeters Dp Cvs).1 = Real.pi * Dp ∧
    (stratified.perimeters Dp Cvs).2.1 = (Real.pi - stratified.beta Cvs) * Dp ∧
    (stratified.perimeters Dp Cvs).2.2.1 = Dp * Real.sin (stratified.beta Cvs) ∧
    (stratified.perimeters Dp Cvs).2.2.2 = stratified.beta Cvs * Dp := by
  refine ⟨?_, ?_, ?_, ?_⟩ <;> (simp only [stratified.perimeters, Transc.pi, Transc.sin] <;> canon_close)
