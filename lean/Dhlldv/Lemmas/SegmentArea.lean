import Dhlldv.Lemmas.InterpMonoInc
import Dhlldv.Lemmas.SinEnclosure
import Mathlib.Analysis.Convex.Deriv
import Mathlib.Analysis.SpecialFunctions.Trigonometric.Deriv

/-! # The circular-segment area fraction and its chord error

`segF β = (β − sin β cos β)/π`. Both `segF β + β²/π` and `−segF β + β²/π` are convex on ℝ (second derivatives `2(sin β ± cos β)²/π`), so on any
interval the chord of `segF` is within `(b₁ − b₀)²/(4π)` of `segF`. With the node accuracy this bounds the error of the *interpolated* table
between nodes for every real argument, not only on a grid. -/

open Real

namespace SegArea

/-- bed area fraction of a circular segment with half-angle β -/
noncomputable def segF (b : ℝ) : ℝ := (b - sin b * cos b) / π

noncomputable def psi (s : ℝ) (b : ℝ) : ℝ := s * segF b + b ^ 2 / π

theorem hasDeriv_segF (b : ℝ) : HasDerivAt segF ((1 - (cos b * cos b + sin b * (-sin b))) / π) b := by
  unfold segF
  exact ((hasDerivAt_id b).sub ((hasDerivAt_sin b).mul (hasDerivAt_cos b))).div_const π

theorem hasDeriv_psi (s b : ℝ) : HasDerivAt (psi s) (s * ((1 - (cos b * cos b + sin b * (-sin b))) / π) + 2 * b / π) b := by
  unfold psi
  have h2 : HasDerivAt (fun b : ℝ => b ^ 2 / π) (2 * b / π) b := by
    have := ((hasDerivAt_id b).pow 2).div_const π
    simpa using this
  exact ((hasDeriv_segF b).const_mul s).add h2

theorem deriv_psi (s : ℝ) : deriv (psi s) = fun b => s * ((1 - (cos b * cos b + sin b * (-sin b))) / π) + 2 * b / π :=
  funext fun b => (hasDeriv_psi s b).deriv

theorem hasDeriv_dpsi (s b : ℝ) :
    HasDerivAt (fun b => s * ((1 - (cos b * cos b + sin b * (-sin b))) / π) + 2 * b / π) (s * (4 * sin b * cos b / π) + 2 / π) b := by
  have hc := hasDerivAt_cos b
  have hs := hasDerivAt_sin b
  have h1 : HasDerivAt (fun b => (1 - (cos b * cos b + sin b * (-sin b))) / π) (4 * sin b * cos b / π) b := by
    have := ((hasDerivAt_const b (1 : ℝ)).sub ((hc.mul hc).add (hs.mul hs.neg))).div_const π
    refine this.congr_deriv ?_
    simp only [Pi.neg_apply]
    ring
  have h2 : HasDerivAt (fun b : ℝ => 2 * b / π) (2 / π) b := by
    have := ((hasDerivAt_id b).const_mul (2 : ℝ)).div_const π
    simpa using this
  exact (h1.const_mul s).add h2

theorem psi_convex (s : ℝ) (hs : s = 1 ∨ s = -1) : ConvexOn ℝ Set.univ (psi s) := by
  apply convexOn_univ_of_deriv2_nonneg
  · exact fun b => (hasDeriv_psi s b).differentiableAt
  · rw [deriv_psi]; exact fun b => (hasDeriv_dpsi s b).differentiableAt
  · intro b
    rw [Function.iterate_succ, Function.iterate_one, Function.comp_apply, deriv_psi, (hasDeriv_dpsi s b).deriv]
    have hp := pi_pos
    have h1 := sin_sq_add_cos_sq b
    rcases hs with rfl | rfl
    · have : (1 : ℝ) * (4 * sin b * cos b / π) + 2 / π = 2 * (sin b + cos b) ^ 2 / π := by
        field_simp; nlinarith
      rw [this]; positivity
    · have : (-1 : ℝ) * (4 * sin b * cos b / π) + 2 / π = 2 * (sin b - cos b) ^ 2 / π := by
        field_simp; nlinarith
      rw [this]; positivity

/-- chord error of `segF` on `[b0, b1]` at the point dividing it in the ratio `t : 1−t` -/
theorem chord_error (b0 b1 t : ℝ) (ht0 : 0 ≤ t) (ht1 : t ≤ 1) :
    |segF ((1 - t) * b0 + t * b1) - ((1 - t) * segF b0 + t * segF b1)| ≤ (b1 - b0) ^ 2 / (4 * π) := by
  have hp := pi_pos
  have key : ∀ s : ℝ, s = 1 ∨ s = -1 →
      s * (segF ((1 - t) * b0 + t * b1) - ((1 - t) * segF b0 + t * segF b1)) ≤ (b1 - b0) ^ 2 / (4 * π) := by
    intro s hs
    have hc := (psi_convex s hs).2 (Set.mem_univ b0) (Set.mem_univ b1) (by linarith : 0 ≤ 1 - t) ht0 (by ring)
    simp only [smul_eq_mul, psi] at hc
    have hq : (1 - t) * (b0 ^ 2 / π) + t * (b1 ^ 2 / π) - ((1 - t) * b0 + t * b1) ^ 2 / π = t * (1 - t) * (b1 - b0) ^ 2 / π := by
      field_simp; ring
    have hle : t * (1 - t) * (b1 - b0) ^ 2 / π ≤ (b1 - b0) ^ 2 / (4 * π) := by
      rw [div_le_div_iff₀ hp (by positivity)]
      have : t * (1 - t) ≤ 1 / 4 := by nlinarith [sq_nonneg (t - 1 / 2)]
      have h2 := sq_nonneg (b1 - b0)
      nlinarith [mul_nonneg (mul_nonneg h2 hp.le) (sub_nonneg.2 this)]
    linarith
  rw [abs_le]
  constructor
  · have := key (-1) (Or.inr rfl); linarith
  · have := key 1 (Or.inl rfl); linarith

/-- on one table segment: if both end nodes reproduce the area fraction within `δ`, every interpolated point does within `δ + (b₁−b₀)²/(4π)` -/
theorem segment_ok (a0 b0 a1 b1 δ x : ℝ) (ha : a0 < a1) (h0 : |a0 - segF b0| ≤ δ) (h1 : |a1 - segF b1| ≤ δ)
    (hx0 : a0 ≤ x) (hx1 : x ≤ a1) :
    |x - segF (lineAt a0 b0 a1 b1 x)| ≤ δ + (b1 - b0) ^ 2 / (4 * π) := by
  have hd : 0 < a1 - a0 := sub_pos.2 ha
  set t := (x - a0) / (a1 - a0) with ht
  have ht0 : 0 ≤ t := div_nonneg (by linarith) hd.le
  have ht1 : t ≤ 1 := by rw [ht, div_le_one hd]; linarith
  have hxe : x = (1 - t) * a0 + t * a1 := by rw [ht]; field_simp; ring
  have hle : lineAt a0 b0 a1 b1 x = (1 - t) * b0 + t * b1 := by unfold lineAt; rw [ht]; field_simp; ring
  have hce := chord_error b0 b1 t ht0 ht1
  rw [hle]
  have e : x - segF ((1 - t) * b0 + t * b1)
      = (1 - t) * (a0 - segF b0) + t * (a1 - segF b1) - (segF ((1 - t) * b0 + t * b1) - ((1 - t) * segF b0 + t * segF b1)) := by
    conv_lhs => rw [hxe]
    ring
  rw [e]
  obtain ⟨p1, p2⟩ := abs_le.mp h0
  obtain ⟨q1, q2⟩ := abs_le.mp h1
  obtain ⟨r1, r2⟩ := abs_le.mp hce
  have ht' : 0 ≤ 1 - t := by linarith
  rw [abs_le]
  constructor <;> nlinarith

end SegArea

namespace Interp
open SegArea

/-- every node of `p :: l` reproduces `g` within `δ`, and neighbouring values differ by at most `w` -/
def NodesOK (g : ℝ → ℝ) (δ w : ℝ) : (ℝ × ℝ) → List (ℝ × ℝ) → Prop
  | p, [] => |p.1 - g p.2| ≤ δ
  | p, q :: rest => |p.1 - g p.2| ≤ δ ∧ q.2 - p.2 ≤ w ∧ NodesOK g δ w q rest

theorem NodesOK.head {g : ℝ → ℝ} {δ w : ℝ} {p : ℝ × ℝ} {l : List (ℝ × ℝ)} (h : NodesOK g δ w p l) : |p.1 - g p.2| ≤ δ := by
  cases l with
  | nil => exact h
  | cons q rest => exact h.1

/-- between the nodes too: the interpolated half-angle reproduces the area fraction within `δ + w²/(4π)` at EVERY real argument of the key range -/
theorem F_area (δ w : ℝ) (l : List (ℝ × ℝ)) : ∀ (p : ℝ × ℝ) (x : ℝ), Inc p l → NodesOK segF δ w p l → p.1 ≤ x → x ≤ (lastPt p l).1 →
    ∃ v, F p l x = some v ∧ |x - segF v| ≤ δ + w ^ 2 / (4 * Real.pi) := by
  induction l with
  | nil =>
    intro p x _ hn h1 h2
    simp only [lastPt] at h2
    have hx : x = p.1 := le_antisymm h2 h1
    refine ⟨p.2, by simp [F, hx], ?_⟩
    have : 0 ≤ w ^ 2 / (4 * Real.pi) := by have := Real.pi_pos; positivity
    rw [hx]; have := hn.head; linarith
  | cons q rest ih =>
    intro p x h hn h1 h2
    obtain ⟨hk, hv, hd⟩ := h
    obtain ⟨n0, nw, nq⟩ := hn
    simp only [lastPt] at h2
    by_cases hxq : x ≤ q.1
    · refine ⟨_, F_first_segment p q rest x hk h1 hxq, ?_⟩
      have := segment_ok p.1 p.2 q.1 q.2 δ x hk n0 nq.head h1 hxq
      have hw : (q.2 - p.2) ^ 2 / (4 * Real.pi) ≤ w ^ 2 / (4 * Real.pi) := by
        have hp := Real.pi_pos
        apply div_le_div_of_nonneg_right _ (by positivity)
        have : 0 ≤ q.2 - p.2 := by linarith
        nlinarith
      linarith
    · push Not at hxq
      obtain ⟨v, hF, hb⟩ := ih q x hd nq hxq.le h2
      exact ⟨v, by rw [F_tail p q rest x hk hxq.le]; exact hF, hb⟩

end Interp
