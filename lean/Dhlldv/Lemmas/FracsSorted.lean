import Dhlldv.Lemmas.Basic
import Dhlldv.Spec.Fracs
import Mathlib.Data.List.Basic

/-! The fraction keys of the discretised grading are pairwise distinct while the dict is built (a Python dict overwrites on an equal key) and
strictly increasing after `sorted(...)`. All reals, every input. -/

namespace Spec.Fracs

def KeysNodup (d : FDict ℝ) : Prop := d.Pairwise (fun p q => p.1 ≠ q.1)

def StrictKeys (d : FDict ℝ) : Prop := d.Pairwise (fun p q => p.1 < q.1)

theorem keys_setF (d : FDict ℝ) (k v : ℝ) : ∀ p ∈ setF d k v, p.1 = k ∨ ∃ q ∈ d, q.1 = p.1 := by
  induction d with
  | nil => intro p hp; simp [setF] at hp; left; rw [hp]
  | cons a rest ih =>
    intro p hp
    unfold setF at hp
    by_cases h : feq a.1 k = true
    · rw [if_pos h] at hp
      rcases List.mem_cons.1 hp with e | e
      · right; exact ⟨a, List.mem_cons_self, by rw [e]⟩
      · right; exact ⟨p, List.mem_cons_of_mem _ e, rfl⟩
    · rw [if_neg h] at hp
      rcases List.mem_cons.1 hp with e | e
      · right; exact ⟨a, List.mem_cons_self, by rw [e]⟩
      · rcases ih p e with e1 | ⟨q, hq, e2⟩
        · left; exact e1
        · right; exact ⟨q, List.mem_cons_of_mem _ hq, e2⟩

theorem setF_nodup (d : FDict ℝ) (k v : ℝ) (h : KeysNodup d) : KeysNodup (setF d k v) := by
  induction d with
  | nil => simp [setF, KeysNodup]
  | cons a rest ih =>
    unfold KeysNodup at h ⊢
    rw [List.pairwise_cons] at h
    unfold setF
    by_cases hk : feq a.1 k = true
    · rw [if_pos hk]
      rw [List.pairwise_cons]
      exact ⟨fun q hq => h.1 q hq, h.2⟩
    · rw [if_neg hk]
      rw [List.pairwise_cons]
      refine ⟨?_, ih h.2⟩
      intro q hq
      rcases keys_setF rest k v q hq with e | ⟨r, hr, e⟩
      · intro e2; apply hk; rw [feq_iff_eq, e2, e]
      · rw [← e]; exact h.1 r hr

theorem subdivide_nodup (flow dlow fnext dnext fracSize : ℝ) : ∀ (n : Nat) (fthis : ℝ) (d : FDict ℝ),
    KeysNodup d → KeysNodup (subdivide flow dlow fnext dnext fracSize n fthis d) := by
  intro n
  induction n with
  | zero => intro fthis d h; exact h
  | succ k ih => intro fthis d h; unfold subdivide; exact ih _ _ (setF_nodup _ _ _ h)

theorem segments_nodup (between : Nat) (natTo : Nat → ℝ) : ∀ (fuel : Nat) (flow dlow : ℝ) (nx : ℝ × ℝ) (rest : List (ℝ × ℝ)) (d : FDict ℝ) (fs : ℝ),
    KeysNodup d → KeysNodup (segments between natTo fuel flow dlow nx rest d fs).1 := by
  intro fuel
  induction fuel with
  | zero => intro flow dlow nx rest d fs h; exact h
  | succ k ih =>
    intro flow dlow nx rest d fs h
    unfold segments
    have h2 := setF_nodup _ nx.1 nx.2 (subdivide_nodup flow dlow nx.1 nx.2 ((nx.1 - flow) / natTo (between + 1)) between flow d h)
    cases rest with
    | nil => exact h2
    | cons t rest' =>
      simp only
      by_cases ht : feq t.1 (0.0 : ℝ) = true
      · rw [if_pos ht]; exact h2
      · rw [if_neg ht]; exact ih _ _ _ _ _ _ h2

theorem keys_insertSorted (p : ℝ × ℝ) (l : FDict ℝ) : ∀ q ∈ insertSorted p l, q = p ∨ q ∈ l := by
  induction l with
  | nil => intro q hq; simp [insertSorted] at hq; left; exact hq
  | cons a rest ih =>
    intro q hq
    unfold insertSorted at hq
    by_cases h : p.1 < a.1
    · rw [if_pos h] at hq
      rcases List.mem_cons.1 hq with e | e
      · left; exact e
      · right; exact e
    · rw [if_neg h] at hq
      rcases List.mem_cons.1 hq with e | e
      · right; rw [e]; exact List.mem_cons_self
      · rcases ih q e with e1 | e1
        · left; exact e1
        · right; exact List.mem_cons_of_mem _ e1

theorem insertSorted_strict (p : ℝ × ℝ) (l : FDict ℝ) (hl : StrictKeys l) (hp : ∀ q ∈ l, q.1 ≠ p.1) : StrictKeys (insertSorted p l) := by
  induction l with
  | nil => simp [insertSorted, StrictKeys]
  | cons a rest ih =>
    unfold StrictKeys at hl ⊢
    rw [List.pairwise_cons] at hl
    unfold insertSorted
    by_cases h : p.1 < a.1
    · rw [if_pos h, List.pairwise_cons]
      refine ⟨?_, List.pairwise_cons.2 hl⟩
      intro q hq
      rcases List.mem_cons.1 hq with e | e
      · rw [e]; exact h
      · exact lt_trans h (hl.1 q e)
    · rw [if_neg h, List.pairwise_cons]
      have hap : a.1 < p.1 := lt_of_le_of_ne (not_lt.1 h) (hp a List.mem_cons_self)
      refine ⟨?_, ih hl.2 (fun q hq => hp q (List.mem_cons_of_mem _ hq))⟩
      intro q hq
      rcases keys_insertSorted p rest q hq with e | e
      · rw [e]; exact hap
      · exact hl.1 q e

theorem foldl_insert_strict : ∀ (d acc : FDict ℝ), StrictKeys acc → KeysNodup d → (∀ p ∈ d, ∀ q ∈ acc, q.1 ≠ p.1) →
    StrictKeys (d.foldl (fun acc p => insertSorted p acc) acc) ∧
    (∀ q ∈ d.foldl (fun acc p => insertSorted p acc) acc, q ∈ acc ∨ q ∈ d) := by
  intro d
  induction d with
  | nil => intro acc h _ _; exact ⟨h, fun q hq => Or.inl hq⟩
  | cons a rest ih =>
    intro acc hacc hd hsep
    unfold KeysNodup at hd
    rw [List.pairwise_cons] at hd
    simp only [List.foldl_cons]
    have h1 : StrictKeys (insertSorted a acc) := insertSorted_strict a acc hacc (fun q hq => hsep a List.mem_cons_self q hq)
    have h3 : ∀ p ∈ rest, ∀ q ∈ insertSorted a acc, q.1 ≠ p.1 := by
      intro p hp q hq
      rcases keys_insertSorted a acc q hq with e | e
      · rw [e]; exact hd.1 p hp
      · exact hsep p (List.mem_cons_of_mem _ hp) q e
    obtain ⟨r1, r2⟩ := ih (insertSorted a acc) h1 hd.2 h3
    refine ⟨r1, ?_⟩
    intro q hq
    rcases r2 q hq with e | e
    · rcases keys_insertSorted a acc q e with e1 | e1
      · right; rw [e1]; exact List.mem_cons_self
      · left; exact e1
    · right; exact List.mem_cons_of_mem _ e

/-- Python's `sorted(d)` on a dict (pairwise distinct keys) is strictly increasing -/
theorem sortF_strict (d : FDict ℝ) (h : KeysNodup d) : StrictKeys (sortF d) := by
  unfold sortF
  exact (foldl_insert_strict d [] List.Pairwise.nil h (fun _ _ q hq => absurd hq List.not_mem_nil)).1

/-- the fractions produced after the skip are strictly increasing, whatever the remaining points are -/
theorem afterSkip_strict (natTo : Nat → ℝ) (dlim : ℝ) (lo nx : ℝ × ℝ) (rest : List (ℝ × ℝ)) (pl n : Nat) :
    StrictKeys (afterSkip natTo dlim lo nx rest pl n).gsd := by
  unfold afterSkip
  simp only
  have hd0 : ∀ (b : Bool) (X dl : ℝ), KeysNodup (if b = true then [(X, dl)] else []) := by
    intro b X dl; cases b <;> simp [KeysNodup]
  generalize hseg : segments _ natTo (rest.length + 1) _ _ nx rest _ (0.0 : ℝ) = sg
  have hsg : KeysNodup sg.1 := by
    rw [← hseg]; exact segments_nodup _ _ _ _ _ _ _ _ _ (hd0 _ _ _)
  obtain ⟨d, fs⟩ := sg
  simp only
  cases hr : (sortF d).reverse with
  | nil => simp only; exact sortF_strict d hsg
  | cons top tl =>
    cases tl with
    | nil => simp only; exact sortF_strict d hsg
    | cons below tl' => simp only; exact sortF_strict _ (setF_nodup _ _ _ hsg)

end Spec.Fracs
