import Dhlldv.Lemmas.InterpMono

/-! The mirror image of `InterpMono`: a table with strictly increasing keys and strictly increasing values has a strictly increasing interpolant
on its whole range. -/

namespace Interp

/-- keys strictly increasing and values strictly increasing along `p :: l` -/
def Inc : (ℝ × ℝ) → List (ℝ × ℝ) → Prop
  | _, [] => True
  | p, q :: rest => p.1 < q.1 ∧ p.2 < q.2 ∧ Inc q rest

theorem last_ge (l : List (ℝ × ℝ)) : ∀ p, Inc p l → p.1 ≤ (lastPt p l).1 ∧ p.2 ≤ (lastPt p l).2 := by
  induction l with
  | nil => intro p _; simp [lastPt]
  | cons q rest ih =>
    intro p h
    obtain ⟨h1, h2, h3⟩ := h
    obtain ⟨a, b⟩ := ih q h3
    simp only [lastPt]
    exact ⟨by linarith, by linarith⟩

theorem lineAt_strictMono (x1 y1 x2 y2 s t : ℝ) (hx : x1 < x2) (hy : y1 < y2) (hst : s < t) :
    lineAt x1 y1 x2 y2 s < lineAt x1 y1 x2 y2 t := by
  unfold lineAt
  have hd : 0 < x2 - x1 := sub_pos.2 hx
  have : 0 < (y2 - y1) / (x2 - x1) := div_pos (sub_pos.2 hy) hd
  nlinarith

/-- range: inside its key range the table takes values between its first and its last value -/
theorem F_range_inc (l : List (ℝ × ℝ)) : ∀ (p : ℝ × ℝ) (x : ℝ), Inc p l → p.1 ≤ x → x ≤ (lastPt p l).1 →
    ∃ v, F p l x = some v ∧ p.2 ≤ v ∧ v ≤ (lastPt p l).2 ∧ (p.1 < x → p.2 < v) := by
  induction l with
  | nil =>
    intro p x _ h1 h2
    simp only [lastPt] at h2
    have : x = p.1 := le_antisymm h2 h1
    exact ⟨p.2, by simp [F, this], le_refl _, by simp [lastPt], fun h => by linarith⟩
  | cons q rest ih =>
    intro p x h h1 h2
    obtain ⟨hk, hv, hd⟩ := h
    simp only [lastPt] at h2 ⊢
    obtain ⟨la, lb⟩ := last_ge rest q hd
    by_cases hxq : x ≤ q.1
    · refine ⟨lineAt p.1 p.2 q.1 q.2 x, F_first_segment p q rest x hk h1 hxq, ?_, ?_, ?_⟩
      · rcases eq_or_lt_of_le h1 with e | e
        · rw [← e, lineAt_left]
        · have := lineAt_strictMono p.1 p.2 q.1 q.2 p.1 x hk hv e
          rw [lineAt_left] at this; linarith
      · have : lineAt p.1 p.2 q.1 q.2 x ≤ q.2 := by
          rcases eq_or_lt_of_le hxq with e | e
          · rw [e, lineAt_right _ _ _ _ (ne_of_lt hk)]
          · have := lineAt_strictMono p.1 p.2 q.1 q.2 x q.1 hk hv e
            rw [lineAt_right _ _ _ _ (ne_of_lt hk)] at this; linarith
        linarith
      · intro e
        have := lineAt_strictMono p.1 p.2 q.1 q.2 p.1 x hk hv e
        rw [lineAt_left] at this; exact this
    · push Not at hxq
      obtain ⟨v, hF, a, b, _⟩ := ih q x hd hxq.le h2
      exact ⟨v, by rw [F_tail p q rest x hk hxq.le]; exact hF, by linarith, b, fun _ => by linarith⟩

/-- strictly increasing on the whole key range -/
theorem F_strictMono (l : List (ℝ × ℝ)) : ∀ (p : ℝ × ℝ) (x y : ℝ), Inc p l → p.1 ≤ x → x < y → y ≤ (lastPt p l).1 →
    ∃ vx vy, F p l x = some vx ∧ F p l y = some vy ∧ vx < vy := by
  induction l with
  | nil =>
    intro p x y _ h1 h2 h3
    simp only [lastPt] at h3
    linarith
  | cons q rest ih =>
    intro p x y h h1 h2 h3
    obtain ⟨hk, hv, hd⟩ := h
    simp only [lastPt] at h3
    by_cases hy : y ≤ q.1
    · exact ⟨_, _, F_first_segment p q rest x hk h1 (by linarith), F_first_segment p q rest y hk (by linarith) hy,
        lineAt_strictMono p.1 p.2 q.1 q.2 x y hk hv h2⟩
    · push Not at hy
      by_cases hx : q.1 ≤ x
      · obtain ⟨vx, vy, a, b, c⟩ := ih q x y hd hx h2 h3
        exact ⟨vx, vy, by rw [F_tail p q rest x hk hx]; exact a, by rw [F_tail p q rest y hk (by linarith)]; exact b, c⟩
      · push Not at hx
        obtain ⟨vy, hFy, _, _, hlt⟩ := F_range_inc rest q y hd hy.le h3
        refine ⟨_, vy, F_first_segment p q rest x hk h1 hx.le, by rw [F_tail p q rest y hk hy.le]; exact hFy, ?_⟩
        have h1' := lineAt_strictMono p.1 p.2 q.1 q.2 x q.1 hk hv hx
        rw [lineAt_right _ _ _ _ (ne_of_lt hk)] at h1'
        have := hlt hy
        linarith

theorem lookup_eq_F_inc (t : InterpTable ℝ) (p q : ℝ × ℝ) (rest : List (ℝ × ℝ)) (ht : t.pts = p :: q :: rest) (hd : Inc p (q :: rest))
    (x : ℝ) (h1 : p.1 ≤ x) (h2 : x ≤ (lastPt p (q :: rest)).1) : t.lookup x = F p (q :: rest) x := by
  obtain ⟨v, hF, _⟩ := F_range_inc (q :: rest) p x hd h1 h2
  unfold InterpTable.lookup
  rw [ht]
  simp only
  by_cases hx : x = p.1
  · rw [hx, feq_self]; simp [F]
  · rw [feq_false_of_ne (Ne.symm hx)]
    have hlt : ¬ x < p.1 := by push Not; exact h1
    simp only [Bool.false_eq_true, if_false, hlt]
    have hFi : lookupInner p (q :: rest) x = some v := by
      unfold F at hF; rw [if_neg hx] at hF; exact hF
    rw [hFi]; unfold F; rw [if_neg hx, hFi]

/-- lookup of an increasing table: defined on the whole key range, within the end values, strictly increasing -/
theorem lookup_strictMono (t : InterpTable ℝ) (p q : ℝ × ℝ) (rest : List (ℝ × ℝ)) (ht : t.pts = p :: q :: rest) (hd : Inc p (q :: rest))
    (x y : ℝ) (h1 : p.1 ≤ x) (h2 : x < y) (h3 : y ≤ (lastPt p (q :: rest)).1) :
    ∃ vx vy, t.lookup x = some vx ∧ t.lookup y = some vy ∧ vx < vy := by
  obtain ⟨vx, vy, a, b, c⟩ := F_strictMono (q :: rest) p x y hd h1 h2 h3
  refine ⟨vx, vy, ?_, ?_, c⟩
  · rw [lookup_eq_F_inc t p q rest ht hd x h1 (by linarith)]; exact a
  · rw [lookup_eq_F_inc t p q rest ht hd y (by linarith) h3]; exact b

theorem lookup_range_inc (t : InterpTable ℝ) (p q : ℝ × ℝ) (rest : List (ℝ × ℝ)) (ht : t.pts = p :: q :: rest) (hd : Inc p (q :: rest))
    (x : ℝ) (h1 : p.1 ≤ x) (h2 : x ≤ (lastPt p (q :: rest)).1) :
    ∃ v, t.lookup x = some v ∧ p.2 ≤ v ∧ v ≤ (lastPt p (q :: rest)).2 := by
  obtain ⟨v, hF, a, b, _⟩ := F_range_inc (q :: rest) p x hd h1 h2
  exact ⟨v, by rw [lookup_eq_F_inc t p q rest ht hd x h1 h2]; exact hF, a, b⟩

end Interp
