import Dhlldv.Real
import Mathlib.Tactic.Linarith
import Mathlib.Tactic.FieldSimp
import Mathlib.Tactic.Ring
import Mathlib.Tactic.SplitIfs
import Mathlib.Data.List.Basic

/-! Helper lemmas for C18: the executable `InterpTable.lookup` of `Prim.lean` at `α := ℝ`. -/

namespace Interp

/-- keys strictly increasing -/
def Sorted (l : List (ℝ × ℝ)) : Prop := l.Pairwise (fun p q => p.1 < q.1)

theorem feq_iff (a b : ℝ) : feq a b = true ↔ a = b := by
  unfold feq
  simp only [Bool.and_eq_true, decide_eq_true_eq]
  constructor
  · rintro ⟨h1, h2⟩; exact le_antisymm h1 h2
  · rintro rfl; exact ⟨le_refl _, le_refl _⟩

theorem feq_false_of_ne {a b : ℝ} (h : a ≠ b) : feq a b = false := by
  cases hf : feq a b
  · rfl
  · exact absurd ((feq_iff a b).1 hf) h

theorem feq_self (a : ℝ) : feq a a = true := (feq_iff a a).2 rfl

/-- all keys of `l` are below `k`  ⇒  the interior search finds nothing -/
theorem inner_none (p : ℝ × ℝ) (l : List (ℝ × ℝ)) (k : ℝ) (h : ∀ q ∈ l, q.1 < k) :
    lookupInner p l k = none := by
  induction l generalizing p with
  | nil => rfl
  | cons q rest ih =>
    have hq : q.1 < k := h q (by simp)
    unfold lookupInner
    rw [feq_false_of_ne (ne_of_lt hq)]
    simp only [Bool.false_eq_true, if_false, not_lt.mpr hq.le]
    exact ih q (fun r hr => h r (by simp [hr]))

/-- a stored key is found -/
theorem inner_hit (p : ℝ × ℝ) (l : List (ℝ × ℝ)) (k v : ℝ) (hs : Sorted (p :: l)) (hm : (k, v) ∈ l) :
    lookupInner p l k = some v := by
  induction l generalizing p with
  | nil => simp at hm
  | cons q rest ih =>
    unfold lookupInner
    rcases List.mem_cons.1 hm with h | h
    · subst h; simp [feq_self]
    · have hs' : Sorted (q :: rest) := (List.pairwise_cons.1 hs).2
      have hqk : q.1 < k := (List.pairwise_cons.1 hs').1 (k, v) h
      rw [feq_false_of_ne (ne_of_lt hqk)]
      simp only [Bool.false_eq_true, if_false, not_lt.mpr hqk.le]
      exact ih q hs' h

/-- strictly between two neighbouring keys the search returns the straight line through them -/
theorem inner_between (p : ℝ × ℝ) (l1 l2 : List (ℝ × ℝ)) (a b : ℝ × ℝ) (k : ℝ)
    (hl : p :: l = l1 ++ a :: b :: l2) (hs : Sorted (p :: l)) (ha : a.1 < k) (hb : k < b.1) :
    lookupInner p l k = some (lineAt a.1 a.2 b.1 b.2 k) := by
  induction l1 generalizing p l with
  | nil =>
    simp only [List.nil_append, List.cons.injEq] at hl
    obtain ⟨rfl, rfl⟩ := hl
    unfold lookupInner
    rw [feq_false_of_ne (ne_of_gt hb)]
    simp [hb]
  | cons c l1 ih =>
    simp only [List.cons_append, List.cons.injEq] at hl
    obtain ⟨rfl, hl⟩ := hl
    cases l with
    | nil => cases l1 <;> simp at hl
    | cons q rest =>
      have hs' : Sorted (q :: rest) := (List.pairwise_cons.1 hs).2
      have hmem : a ∈ q :: rest := by rw [hl]; simp
      have hqa : q.1 ≤ a.1 := by
        rcases List.mem_cons.1 hmem with h | h
        · rw [h]
        · exact le_of_lt ((List.pairwise_cons.1 hs').1 a h)
      have hqk : q.1 < k := lt_of_le_of_lt hqa ha
      unfold lookupInner
      rw [feq_false_of_ne (ne_of_lt hqk)]
      simp only [Bool.false_eq_true, if_false, not_lt.mpr hqk.le]
      exact ih q hl hs'

theorem lastTwo_append (l : List (ℝ × ℝ)) (a b : ℝ × ℝ) : lastTwo (l ++ [a, b]) = some (a, b) := by
  induction l with
  | nil => rfl
  | cons c l ih =>
    cases l with
    | nil => simp [lastTwo]
    | cons d l' =>
      cases l' with
      | nil => simp [lastTwo]
      | cons e l'' =>
        simp only [List.cons_append] at ih ⊢
        rw [lastTwo]
        · exact ih
        all_goals simp

/-- the value of the straight line at its right end point -/
theorem lineAt_right (x1 y1 x2 y2 : ℝ) (h : x1 ≠ x2) : lineAt x1 y1 x2 y2 x2 = y2 := by
  unfold lineAt
  have : x2 - x1 ≠ 0 := sub_ne_zero.2 (Ne.symm h)
  field_simp
  ring

theorem lineAt_left (x1 y1 x2 y2 : ℝ) : lineAt x1 y1 x2 y2 x1 = y1 := by
  unfold lineAt; simp

end Interp
