import Dhlldv.Lemmas.Friction
import Dhlldv.Gen.WilsonV50

/-! Monotonicity in line speed of the Wilson stratified excess gradient: Erhg ∝ (Vsm(f(v)) / v)^0.25 with
Vsm = min(φ,1)·min((0.018/f)^0.13·S, T) — both candidates divided by v fall with v (the first by the friction lemma). -/

open Real

/-- L^0.26 / v falls with v wherever L/v does and L rises -/
theorem rpow_div_antitone (L1 L2 v1 v2 : ℝ) (hL1 : 0 < L1) (hL2 : 0 < L2) (h1 : 0 < v1) (h12 : v1 < v2)
    (hkey : v1 * L2 < v2 * L1) : L2 ^ (0.26:ℝ) / v2 < L1 ^ (0.26:ℝ) / v1 := by
  have h2 : 0 < v2 := lt_trans h1 h12
  rw [div_lt_div_iff₀ h2 h1]
  -- L2^0.26 * v1 < L1^0.26 * v2
  by_cases hle : L2 ≤ L1
  · have : L2 ^ (0.26:ℝ) ≤ L1 ^ (0.26:ℝ) := Real.rpow_le_rpow hL2.le hle (by norm_num)
    have hp : 0 < L1 ^ (0.26:ℝ) := Real.rpow_pos_of_pos hL1 _
    nlinarith
  · have hgt : L1 < L2 := not_le.1 hle
    set x := L2 / L1 with hx
    have hx1 : 1 < x := by rw [hx, lt_div_iff₀ hL1]; linarith
    have hxr : x < v2 / v1 := by
      rw [hx, div_lt_div_iff₀ hL1 h1]; linarith
    have hpow : x ^ (0.26:ℝ) < x := by
      have := Real.rpow_lt_rpow_of_exponent_lt hx1 (by norm_num : (0.26:ℝ) < 1)
      simpa using this
    have hsplit : L2 ^ (0.26:ℝ) = L1 ^ (0.26:ℝ) * x ^ (0.26:ℝ) := by
      rw [hx, Real.div_rpow hL2.le hL1.le]
      have : L1 ^ (0.26:ℝ) ≠ 0 := (Real.rpow_pos_of_pos hL1 _).ne'
      field_simp
    rw [hsplit]
    have hp : 0 < L1 ^ (0.26:ℝ) := Real.rpow_pos_of_pos hL1 _
    have : x ^ (0.26:ℝ) * v1 < v2 := by
      have : x * v1 < v2 := by
        have := (lt_div_iff₀ h1).1 hxr; linarith
      nlinarith
    nlinarith

/-- the concentration factor of the nomograph fit (independent of the friction factor) -/
noncomputable def wsPhi (Dp d rhol rhos Cv Cvb : ℝ) : ℝ :=
  let c := wilson_stratified.Cvr_max Dp d rhol rhos
  let Cvr := Cv / Cvb
  if c ≤ 0.33 then 6.75 * Cvr ^ (Real.log 0.333 / Real.log c) * (1 - Cvr ^ (Real.log 0.333 / Real.log c)) ^ 2
  else 6.75 * (1 - Cvr) ^ (2 * (Real.log 0.666 / Real.log (1 - c))) * (1 - (1 - Cvr) ^ (Real.log 0.666 / Real.log (1 - c)))

theorem Vsm_eq (Dp d rhol rhos musf Cv Cvb f : ℝ) :
    wilson_stratified.Vsm Dp d rhol rhos musf Cv Cvb f =
      min (wilson_stratified.Vsm_max Dp d rhol rhos musf f * wsPhi Dp d rhol rhos Cv Cvb) (wilson_stratified.Vsm_max Dp d rhol rhos musf f) := by
  unfold wilson_stratified.Vsm wsPhi
  simp only [pyMin_eq_min, Transc.rpow, Transc.npow, Transc.log, sci_one, sci_two, decide_eq_true_eq]
  split_ifs <;> (congr 1; ring)

theorem wsPhi_nonneg (Dp d rhol rhos Cv Cvb : ℝ) (hc0 : 0 ≤ Cv / Cvb) (hc1 : Cv / Cvb ≤ 1) : 0 ≤ wsPhi Dp d rhol rhos Cv Cvb := by
  unfold wsPhi
  simp only
  have hr : 0.05 ≤ wilson_stratified.Cvr_max Dp d rhol rhos ∧ wilson_stratified.Cvr_max Dp d rhol rhos ≤ 0.66 := by
    unfold wilson_stratified.Cvr_max
    simp only [pyMin_eq_min, pyMax_eq_max]
    exact ⟨le_min (by norm_num) (le_max_left _ _), min_le_left _ _⟩
  split_ifs with h
  · have := Real.rpow_nonneg hc0 (Real.log 0.333 / Real.log (wilson_stratified.Cvr_max Dp d rhol rhos))
    positivity
  · have hx0 : 0 ≤ 1 - Cv / Cvb := by linarith
    have hx1 : 1 - Cv / Cvb ≤ 1 := by linarith
    have hb : 0 ≤ Real.log 0.666 / Real.log (1 - wilson_stratified.Cvr_max Dp d rhol rhos) := by
      apply div_nonneg_of_nonpos
      · exact (Real.log_neg (by norm_num) (by norm_num)).le
      · exact (Real.log_neg (by linarith [hr.2]) (by linarith [hr.1])).le
    have h1 := Real.rpow_nonneg hx0 (2 * (Real.log 0.666 / Real.log (1 - wilson_stratified.Cvr_max Dp d rhol rhos)))
    have h2 := Real.rpow_le_one hx0 hx1 hb
    have h3 : 0 ≤ 1 - (1 - Cv / Cvb) ^ (Real.log 0.666 / Real.log (1 - wilson_stratified.Cvr_max Dp d rhol rhos)) := by linarith
    positivity

/-- min(x·φ, x) = x·min(φ,1) for x ≥ 0 -/
theorem min_mul_self (x φ : ℝ) (hx : 0 ≤ x) : min (x * φ) x = x * min φ 1 := by
  rcases le_total φ 1 with h | h
  · rw [min_eq_left h, min_eq_left]; nlinarith
  · rw [min_eq_right h, min_eq_right]; · ring
    nlinarith

/-- if a/v falls (weakly) and T ≥ 0 then min(a,T)/v falls -/
theorem min_div_antitone (a1 a2 T v1 v2 : ℝ) (h1 : 0 < v1) (h12 : v1 ≤ v2) (hT : 0 ≤ T) (ha : a2 / v2 ≤ a1 / v1) :
    min a2 T / v2 ≤ min a1 T / v1 := by
  have h2 : 0 < v2 := lt_of_lt_of_le h1 h12
  have hT' : T / v2 ≤ T / v1 := div_le_div_of_nonneg_left hT h1 h12
  rw [le_div_iff₀ h1]
  rcases le_total a1 T with h | h
  · rw [min_eq_left h]
    have : min a2 T / v2 ≤ a2 / v2 := div_le_div_of_nonneg_right (min_le_left _ _) h2.le
    have := le_trans this ha
    rw [le_div_iff₀ h1] at this; exact this
  · rw [min_eq_right h]
    have : min a2 T / v2 ≤ T / v2 := div_le_div_of_nonneg_right (min_le_right _ _) h2.le
    have := le_trans this hT'
    rw [le_div_iff₀ h1] at this; exact this

/-- with a positive friction factor the maximum deposit velocity is min((0.018/f)^0.13·√(2 g Dp (ρs−ρl)), nomograph value) -/
theorem Vsm_max_eq (Dp d rhol rhos musf f : ℝ) (hf : 0 < f) :
    wilson_stratified.Vsm_max Dp d rhol rhos musf f =
      min ((0.018 / f) ^ (0.13:ℝ) * (2 * (Cst.gravity : ℝ) * Dp * (rhos - rhol)) ^ (0.5:ℝ)) (wilson_stratified.Vsm_max Dp d rhol rhos musf 0) := by
  unfold wilson_stratified.Vsm_max
  have h1 : feq f (0.0:ℝ) = false := by
    cases h : feq f (0.0:ℝ)
    · rfl
    · have := (feq_iff_eq f 0.0).1 h; norm_num at this; linarith
  have h2 : feq (0:ℝ) (0.0:ℝ) = true := (feq_iff_eq _ _).2 (by norm_num)
  simp only [h1, h2, Bool.not_false, Bool.not_true, if_true, Bool.false_eq_true, if_false, pyMin_eq_min, Transc.rpow, Transc.npow, sci_two]

open Real in
/-- the Wilson stratified excess gradient does not rise with line speed on E -/
theorem wilson_stratified_Erhg_antitone {v1 v2 Dp d eps nu rhol rhos Cv : ℝ} (musf Cvb : ℝ)
    (h1 : InE v1 Dp d eps nu rhol rhos Cv) (h2 : InE v2 Dp d eps nu rhol rhos Cv) (h12 : v1 < v2) (hm : 0 < musf) :
    wilson_stratified.Erhg v2 Dp d eps nu rhol rhos musf Cv Cvb ≤ wilson_stratified.Erhg v1 Dp d eps nu rhol rhos musf Cv Cvb := by
  have hD := h1.Dp_pos; have hn := h1.nu_pos
  have t1 : 2320 < homogeneous.pipe_reynolds_number v1 Dp nu := lt_of_lt_of_le (by norm_num) h1.reynolds_ge
  have t2 : 2320 < homogeneous.pipe_reynolds_number v2 Dp nu := lt_of_lt_of_le (by norm_num) h2.reynolds_ge
  unfold wilson_stratified.Erhg
  simp only [Transc.rpow]
  rw [swamee_jain_as_Lv v1 Dp eps nu h1.vls_pos hD hn t1, swamee_jain_as_Lv v2 Dp eps nu h2.vls_pos hD hn t2]
  set c1 := eps / (3.7 * Dp)
  set k := 5.75 * (nu / Dp) ^ (0.9:ℝ)
  have hc1 : 0 ≤ c1 := by have := h1.eps_pos; positivity
  have hk : 0 < k := by have := Real.rpow_pos_of_pos (div_pos hn hD) (0.9:ℝ); positivity
  have hs1 : c1 + k * v1 ^ (-(0.9:ℝ)) ≤ Real.exp (-0.9) := h1.log_arg_small
  have hs2 : c1 + k * v2 ^ (-(0.9:ℝ)) ≤ Real.exp (-0.9) := h2.log_arg_small
  have hx1 : 0 < c1 + k * v1 ^ (-(0.9:ℝ)) := by have := Real.rpow_pos_of_pos h1.vls_pos (-(0.9:ℝ)); positivity
  have hx2 : 0 < c1 + k * v2 ^ (-(0.9:ℝ)) := by have := Real.rpow_pos_of_pos h2.vls_pos (-(0.9:ℝ)); positivity
  have hL1 : 0 < Lv c1 k v1 := by have := Lv_pos c1 k v1 hx1 hs1; linarith
  have hL2 : 0 < Lv c1 k v2 := by have := Lv_pos c1 k v2 hx2 hs2; linarith
  have key := Lv_key c1 k v1 v2 hc1 hk h1.vls_pos h12 hs1
  set L1 := Lv c1 k v1
  set L2 := Lv c1 k v2
  have hf1 : 0 < 1.325 / L1 ^ 2 := by positivity
  have hf2 : 0 < 1.325 / L2 ^ 2 := by positivity
  -- the friction-limited candidate divided by v falls
  have hS : 0 ≤ (2 * (Cst.gravity : ℝ) * Dp * (rhos - rhol)) ^ (0.5:ℝ) := Real.rpow_nonneg (by
    have hg : (0:ℝ) < Cst.gravity := by unfold Cst.gravity; norm_num
    have := sub_pos.2 h1.rhos_gt
    positivity) _
  have halt : ∀ L : ℝ, 0 < L → (0.018 / (1.325 / L ^ 2)) ^ (0.13:ℝ) = (0.018 / 1.325) ^ (0.13:ℝ) * L ^ (0.26:ℝ) := by
    intro L hL
    have e : 0.018 / (1.325 / L ^ 2) = (0.018 / 1.325) * L ^ 2 := by field_simp
    rw [e, Real.mul_rpow (by norm_num) (by positivity), ← Real.rpow_natCast, ← Real.rpow_mul hL.le]
    norm_num
  have hcand : (0.018 / (1.325 / L2 ^ 2)) ^ (0.13:ℝ) * (2 * (Cst.gravity : ℝ) * Dp * (rhos - rhol)) ^ (0.5:ℝ) / v2
      ≤ (0.018 / (1.325 / L1 ^ 2)) ^ (0.13:ℝ) * (2 * (Cst.gravity : ℝ) * Dp * (rhos - rhol)) ^ (0.5:ℝ) / v1 := by
    rw [halt L1 hL1, halt L2 hL2]
    have hr := (rpow_div_antitone L1 L2 v1 v2 hL1 hL2 h1.vls_pos h12 key).le
    have hc : 0 ≤ (0.018 / 1.325 : ℝ) ^ (0.13:ℝ) := Real.rpow_nonneg (by norm_num) _
    have e : ∀ (L v : ℝ), (0.018 / 1.325 : ℝ) ^ (0.13:ℝ) * L ^ (0.26:ℝ) * (2 * (Cst.gravity : ℝ) * Dp * (rhos - rhol)) ^ (0.5:ℝ) / v
        = ((0.018 / 1.325 : ℝ) ^ (0.13:ℝ) * (2 * (Cst.gravity : ℝ) * Dp * (rhos - rhol)) ^ (0.5:ℝ)) * (L ^ (0.26:ℝ) / v) := by
      intro L v; ring
    rw [e, e]
    exact mul_le_mul_of_nonneg_left hr (by positivity)
  -- the nomograph value does not depend on v and is non-negative
  have hT : 0 ≤ wilson_stratified.Vsm_max Dp d rhol rhos musf 0 := by
    have hdm : 0 < d * (1000.0:ℝ) := by have := h1.d_pos; positivity
    unfold wilson_stratified.Vsm_max
    have h0 : feq (0:ℝ) (0.0:ℝ) = true := (feq_iff_eq _ _).2 (by norm_num)
    simp only [h0, Bool.not_true, Bool.false_eq_true, if_false, Transc.rpow, Transc.npow]
    have a1 := Real.rpow_nonneg (le_of_lt (by have := h1.Rsd_pos; positivity : 0 < musf * ((rhos - rhol) / rhol) / 0.66)) (0.55:ℝ)
    have a2 := Real.rpow_nonneg hD.le (0.7:ℝ)
    have a3 := Real.rpow_nonneg hdm.le (1.75:ℝ)
    positivity
  have hmx := min_div_antitone _ _ (wilson_stratified.Vsm_max Dp d rhol rhos musf 0) v1 v2 h1.vls_pos h12.le hT hcand
  rw [← Vsm_max_eq Dp d rhol rhos musf _ hf2, ← Vsm_max_eq Dp d rhol rhos musf _ hf1] at hmx
  -- Vsm = Vsm_max · min(φ, 1)
  have hc0 : 0 ≤ Cv / (0.6:ℝ) := by have := h1.Cv_pos; positivity
  have hc1' : Cv / (0.6:ℝ) ≤ 1 := by rw [div_le_one (by norm_num)]; have := h1.Cv_hi; linarith
  have hphi := wsPhi_nonneg Dp d rhol rhos Cv 0.6 hc0 hc1'
  have hmx1 : 0 ≤ wilson_stratified.Vsm_max Dp d rhol rhos musf (1.325 / L1 ^ 2) := by
    rw [Vsm_max_eq Dp d rhol rhos musf _ hf1]
    exact le_min (mul_nonneg (Real.rpow_nonneg (by positivity) _) hS) hT
  have hmx2 : 0 ≤ wilson_stratified.Vsm_max Dp d rhol rhos musf (1.325 / L2 ^ 2) := by
    rw [Vsm_max_eq Dp d rhol rhos musf _ hf2]
    exact le_min (mul_nonneg (Real.rpow_nonneg (by positivity) _) hS) hT
  rw [Vsm_eq, Vsm_eq, min_mul_self _ _ hmx1, min_mul_self _ _ hmx2]
  have hmin : 0 ≤ min (wsPhi Dp d rhol rhos Cv 0.6) 1 := le_min hphi (by norm_num)
  have hbase : 0.55 * (wilson_stratified.Vsm_max Dp d rhol rhos musf (1.325 / L2 ^ 2) * min (wsPhi Dp d rhol rhos Cv 0.6) 1) / v2 ≤
      0.55 * (wilson_stratified.Vsm_max Dp d rhol rhos musf (1.325 / L1 ^ 2) * min (wsPhi Dp d rhol rhos Cv 0.6) 1) / v1 := by
    have e : ∀ (x v : ℝ), 0.55 * (x * min (wsPhi Dp d rhol rhos Cv 0.6) 1) / v = (0.55 * min (wsPhi Dp d rhol rhos Cv 0.6) 1) * (x / v) := by
      intro x v; ring
    rw [e, e]
    exact mul_le_mul_of_nonneg_left hmx (by positivity)
  have hb2 : 0 ≤ 0.55 * (wilson_stratified.Vsm_max Dp d rhol rhos musf (1.325 / L2 ^ 2) * min (wsPhi Dp d rhol rhos Cv 0.6) 1) / v2 := by
    have := h2.vls_pos; positivity
  have hpow := Real.rpow_le_rpow hb2 hbase (by norm_num : (0:ℝ) ≤ 0.25)
  exact mul_le_mul_of_nonneg_left hpow (by positivity)

/-! ### Wilson V50 -/

theorem w_nonneg (d nu rhol rhos : ℝ) (hd : 0 < d) (hn : 0 < nu) (hl : 0 < rhol) (hs : rhol < rhos) : 0 < wilson_v50.w d nu rhol rhos := by
  unfold wilson_v50.w
  simp only [Transc.rpow, sci_one]
  have hR : 0 < (rhos - rhol) / rhol := div_pos (sub_pos.2 hs) hl
  have hvt := vt_ruby_pos d ((rhos - rhol) / rhol) nu 0.26 hd hR hn
  have hg : (0:ℝ) < Cst.gravity := by unfold Cst.gravity; norm_num
  have := Real.rpow_pos_of_pos (by positivity : 0 < (rhos - rhol) / rhol * (Cst.gravity : ℝ) * nu) ((1:ℝ) / 3.0)
  positivity

/-- whatever the friction-factor iteration does (including exhausting the model budget), the value it returns is non-negative -/
theorem V50_loop_nonneg (fuel0 : Nat) (Dp d50 d85 epsilon nu rhol rhos w50 : ℝ) (hw : 0 ≤ w50) :
    ∀ (fuel : Nat) (Re ff_last ff_this v50_last : ℝ),
      0 ≤ wilson_v50.V50.loop1 fuel0 fuel Dp Re d50 d85 epsilon ff_last ff_this nu rhol rhos v50_last w50 := by
  intro fuel
  induction fuel with
  | zero =>
    intro Re ff_last ff_this v50_last
    unfold wilson_v50.V50.loop1
    split_ifs
    · simp [Transc.nan]
    · simp only [Transc.sqrt, Transc.cosh]
      have := Real.sqrt_nonneg ((8.0:ℝ) / ff_this)
      have := (Real.cosh_pos ((60.0:ℝ) * d50 / Dp)).le
      positivity
  | succ n ih =>
    intro Re ff_last ff_this v50_last
    unfold wilson_v50.V50.loop1
    split_ifs
    · simp only []
      exact ih _ _ _ _
    · simp only [Transc.sqrt, Transc.cosh]
      have := Real.sqrt_nonneg ((8.0:ℝ) / ff_this)
      have := (Real.cosh_pos ((60.0:ℝ) * d50 / Dp)).le
      positivity

theorem V50_nonneg (fuel0 : Nat) (Dp d50 d85 epsilon nu rhol rhos : ℝ) (hd : 0 < d50) (hn : 0 < nu) (hl : 0 < rhol) (hs : rhol < rhos) :
    0 ≤ wilson_v50.V50 fuel0 Dp d50 d85 epsilon nu rhol rhos := by
  unfold wilson_v50.V50
  simp only []
  exact V50_loop_nonneg fuel0 Dp d50 d85 epsilon nu rhol rhos _ (w_nonneg d50 nu rhol rhos hd hn hl hs).le _ _ _ _ _
