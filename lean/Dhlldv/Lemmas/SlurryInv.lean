import Dhlldv.Spec.SlurryObj
import Mathlib.Tactic.SplitIfs
import Mathlib.Logic.Basic

/-! Invariant of the slurry-object invalidation state machine (helper lemmas for C07). -/

namespace Spec.Slurry

def AgreeOn (l : List String) (f g : Vals) : Prop := ∀ p ∈ l, f p = g p

def GsdFresh (c : Cfg) (s : St) : Prop := AgreeOn c.readsGsd s.gsd.1 s.vals ∧ s.gsd.2 = s.shape

def CurvesFresh (c : Cfg) (s : St) : Prop :=
  AgreeOn c.readsCurves s.curves.1 s.vals ∧ AgreeOn c.readsGsd s.curves.2.1 s.vals ∧ s.curves.2.2 = s.shape

def Inv (c : Cfg) (s : St) : Prop :=
  (s.dG = false → GsdFresh c s) ∧ (s.dC = false → CurvesFresh c s) ∧ s.gsd.2 = s.shape

theorem agree_update_of_not_mem (l : List String) (f g : Vals) (p : String) (v : Nat) (h : AgreeOn l f g) (hp : p ∉ l) :
    AgreeOn l f (update g p v) := by
  intro q hq
  unfold update
  split_ifs with e
  · subst e; exact absurd hq hp
  · exact h q hq

structure Adeq (c : Cfg) : Prop where
  gsd : ∀ p ∈ c.readsGsd, (c.flags p).contains "gsd" = true ∧ (c.flags p).contains "curves" = true
  curves : ∀ p ∈ c.readsCurves, (c.flags p).contains "curves" = true
  grc : c.gsdRaisesCurves = true
  ccg : c.curvesChecksGsd = true

theorem adeq_of_adequate (c : Cfg) (h : Adequate c = true) : Adeq c := by
  unfold Adequate at h
  simp only [Bool.and_eq_true, List.all_eq_true] at h
  exact ⟨fun p hp => h.1.1.1 p hp, fun p hp => h.1.1.2 p hp, h.1.2, h.2⟩

theorem inv_genGsd (c : Cfg) (a : Adeq c) (s : St) (sh : Option Nat) (hi : Inv c s) : Inv c (genGsd c s sh) ∧ (genGsd c s sh).dG = false := by
  unfold genGsd
  refine ⟨⟨?_, ?_, rfl⟩, rfl⟩
  · intro _; exact ⟨fun p _ => rfl, rfl⟩
  · intro h
    simp only [a.grc, Bool.or_true] at h
    exact absurd h (by decide)

theorem inv_ensureGsd (c : Cfg) (a : Adeq c) (s : St) (hi : Inv c s) : Inv c (ensureGsd c s) ∧ (ensureGsd c s).dG = false := by
  unfold ensureGsd
  split_ifs with h
  · exact inv_genGsd c a s none hi
  · exact ⟨hi, by simpa using h⟩

theorem inv_genCurves (c : Cfg) (a : Adeq c) (s : St) (hi : Inv c s) : Inv c (genCurves c s) ∧ (genCurves c s).dC = false := by
  unfold genCurves
  simp only [a.ccg, if_true]
  obtain ⟨h1, h2⟩ := inv_ensureGsd c a s hi
  refine ⟨⟨?_, ?_, h1.2.2⟩, trivial⟩
  · intro hg; exact h1.1 hg
  · intro _
    have := h1.1 h2
    exact ⟨fun p _ => rfl, this.1, this.2⟩

theorem inv_step (c : Cfg) (a : Adeq c) (s : St) (op : Op) (hi : Inv c s) : Inv c (step c s op) := by
  cases op with
  | set p v =>
    unfold step
    refine ⟨?_, ?_, hi.2.2⟩
    · intro hd
      simp only [Bool.or_eq_false_iff] at hd
      have hp : p ∉ c.readsGsd := fun hm => by
        have := (a.gsd p hm).1; rw [hd.2] at this; exact absurd this (by decide)
      have hf := hi.1 hd.1
      exact ⟨agree_update_of_not_mem _ _ _ p v hf.1 hp, hf.2⟩
    · intro hd
      simp only [Bool.or_eq_false_iff] at hd
      have hp : p ∉ c.readsCurves := fun hm => by
        have := a.curves p hm; rw [hd.2] at this; exact absurd this (by decide)
      have hp2 : p ∉ c.readsGsd := fun hm => by
        have := (a.gsd p hm).2; rw [hd.2] at this; exact absurd this (by decide)
      have hf := hi.2.1 hd.1
      exact ⟨agree_update_of_not_mem _ _ _ p v hf.1 hp, agree_update_of_not_mem _ _ _ p v hf.2.1 hp2, hf.2.2⟩
  | genGsd sh => exact (inv_genGsd c a s sh hi).1
  | readGsd => exact (inv_ensureGsd c a s hi).1
  | readCurves =>
    unfold step
    split_ifs with h
    · exact (inv_genCurves c a s hi).1
    · exact hi

theorem inv_init (c : Cfg) (vals : Vals) (shape : Nat) : Inv c (init vals shape) :=
  ⟨fun _ => ⟨fun _ _ => rfl, rfl⟩, fun h => by simp [init] at h, rfl⟩

theorem inv_run (c : Cfg) (a : Adeq c) (ops : List Op) (s : St) (hi : Inv c s) : Inv c (run c s ops) := by
  induction ops generalizing s with
  | nil => exact hi
  | cons op ops ih => exact ih _ (inv_step c a s op hi)

end Spec.Slurry
