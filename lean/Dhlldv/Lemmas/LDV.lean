import Dhlldv.Lemmas.Envelope
import Mathlib.Tactic.SplitIfs

/-! Positivity of the generated limit-deposit-velocity routine: the result is at least the lower-limit velocity of its last loop, which is
positive whenever the friction factor is; the three earlier damped loops only have to hand over without exhausting the model's budget. -/

/-- the positive root used for the lower limit: (−B − √(B² + 4C)) / (−2) > 0 whenever C > 0 -/
theorem lowerLimit_pos (B C : ℝ) (hC : 0 < C) :
    0 < ((-(1.0:ℝ)) * B - (B ^ 2 - (4.0:ℝ) * (-(1.0:ℝ)) * C) ^ (0.5:ℝ)) / ((2.0:ℝ) * (-(1.0:ℝ))) := by
  have e : B ^ 2 - (4.0:ℝ) * (-(1.0:ℝ)) * C = B ^ 2 + 4 * C := by norm_num
  rw [e]
  have hpos : 0 ≤ B ^ 2 := sq_nonneg B
  have hs : |B| < (B ^ 2 + 4 * C) ^ (0.5:ℝ) := by
    have h1 : |B| = (B ^ 2) ^ (0.5:ℝ) := by
      have h05 : (0.5:ℝ) = 1 / 2 := by norm_num
      rw [h05, ← Real.sqrt_eq_rpow, Real.sqrt_sq_eq_abs]
    rw [h1]
    exact Real.rpow_lt_rpow hpos (by linarith) (by norm_num)
  have hB : -B ≤ |B| := neg_le_abs B
  have hnum : (-(1.0:ℝ)) * B - (B ^ 2 + 4 * C) ^ (0.5:ℝ) < 0 := by norm_num; linarith
  have hden : (2.0:ℝ) * (-(1.0:ℝ)) < 0 := by norm_num
  exact div_pos_of_neg_of_neg hnum hden

/-- the kinetic term of the lower limit is positive for a positive friction factor, settling velocity, grain size and viscosity -/
theorem lowerLimit_C_pos (lam vt d nu : ℝ) (hl : 0 < lam) (hvt : 0 < vt) (hd : 0 < d) (hn : 0 < nu) :
    0 < ((8.5:ℝ) ^ 2 / lam) * (vt / ((Cst.gravity : ℝ) * d) ^ (0.5:ℝ)) ^ ((10.0:ℝ) / 3.0) * (nu * (Cst.gravity : ℝ)) ^ ((2.0:ℝ) / 3.0) / (Cst.musf : ℝ) := by
  have hg : (0:ℝ) < Cst.gravity := by unfold Cst.gravity; norm_num
  have hm : (0:ℝ) < Cst.musf := by unfold Cst.musf; norm_num
  have h1 : 0 < ((Cst.gravity : ℝ) * d) ^ (0.5:ℝ) := Real.rpow_pos_of_pos (by positivity) _
  have h2 : 0 < (vt / ((Cst.gravity : ℝ) * d) ^ (0.5:ℝ)) ^ ((10.0:ℝ) / 3.0) := Real.rpow_pos_of_pos (by positivity) _
  have h3 : 0 < (nu * (Cst.gravity : ℝ)) ^ ((2.0:ℝ) / 3.0) := Real.rpow_pos_of_pos (by positivity) _
  positivity

section
variable (fuel0 : Nat) (Cvr_ldv Cvs Dp FL_r FL_s FL_ss FL_ul FL_vs KC Rep Rsd alphap beta bottom d d0 drough epsilon fbot max_steps nu rhol rhos top vt : ℝ)

/-- last loop: positive whatever the iterates, as long as the budget of the model covers `max_steps` -/
theorem LDV_loop4_pos (hD : 0 < Dp) (hn : 0 < nu) (he : 0 ≤ epsilon) (hr : epsilon / (3.7 * Dp) ≤ 0.8) (hvt : 0 < vt) (hd : 0 < d) (hf : 0 < fbot) :
    ∀ (fuel : Nat) (A B C Re lambdal steps vls vlsldv : ℝ), 0 < vls → 0 < vlsldv → max_steps ≤ steps + fuel →
      0 < framework.LDV.loop4 fuel0 fuel A B C Cvr_ldv Cvs Dp FL_r FL_s FL_ss FL_ul FL_vs KC Re Rep Rsd alphap beta bottom d d0 drough
            epsilon fbot lambdal max_steps nu rhol rhos steps top vls vlsldv vt := by
  intro fuel
  induction fuel with
  | zero =>
    intro A B C Re lambdal steps vls vlsldv hv hl hs
    unfold framework.LDV.loop4
    split_ifs with hc
    · exfalso
      simp only [Bool.and_eq_true, decide_eq_true_eq] at hc
      have := hc.2
      simp at hs
      linarith
    · simp only [pyMax_eq_max]
      have h1 : vlsldv / fbot ≤ max FL_ul (vlsldv / fbot) := le_max_right _ _
      have h2 : 0 < vlsldv / fbot := div_pos hl hf
      have : 0 < max FL_ul (vlsldv / fbot) := lt_of_lt_of_le h2 h1
      positivity
  | succ n ih =>
    intro A B C Re lambdal steps vls vlsldv hv hl hs
    unfold framework.LDV.loop4
    split_ifs with hc
    · simp only
      have h20 : (0:ℝ) < 2.0 := by norm_num
      have hv' : 0 < (vls + vlsldv) / 2.0 := div_pos (by linarith) h20
      have hlam := swamee_jain_pos (homogeneous.pipe_reynolds_number ((vls + vlsldv) / 2.0) Dp nu) Dp epsilon
        (reynolds_pos _ Dp nu hv' hD hn) hD he hr
      apply ih
      · exact hv'
      · simp only [Transc.rpow, Transc.npow]
        exact lowerLimit_pos _ _ (lowerLimit_C_pos _ vt d nu hlam hvt hd hn)
      · push_cast at hs ⊢
        have : (1.0:ℝ) = 1 := by norm_num
        rw [this]; linarith
    · simp only [pyMax_eq_max]
      have h1 : vlsldv / fbot ≤ max FL_ul (vlsldv / fbot) := le_max_right _ _
      have h2 : 0 < vlsldv / fbot := div_pos hl hf
      have : 0 < max FL_ul (vlsldv / fbot) := lt_of_lt_of_le h2 h1
      positivity

end

section
variable (fuel0 : Nat) (Cvs Dp FL_vs Rsd d epsilon fbot max_steps nu rhol rhos : ℝ)

/-- a loop whose condition contains `steps < max_steps` cannot exhaust a budget that covers `max_steps` -/
theorem steps_guard {cond : Bool} {steps max_steps : ℝ} (hc : (cond && decide (steps < max_steps)) = true) (hs : max_steps ≤ steps + ((0:ℕ):ℝ)) : False := by
  simp only [Bool.and_eq_true, decide_eq_true_eq] at hc
  simp at hs
  linarith [hc.2]

/-- third loop (rough-particle limit): hands over to the last loop -/
theorem LDV_loop3_pos (hD : 0 < Dp) (hn : 0 < nu) (he : 0 ≤ epsilon) (hr : epsilon / (3.7 * Dp) ≤ 0.8) (hd : 0 < d) (hf : 0 < fbot)
    (hb : max_steps ≤ (fuel0 : ℝ))
    (Cvr_ldv FL_s FL_ss KC Rep alphap beta bottom top vt : ℝ) (hvt : 0 < vt) :
    ∀ (fuel : Nat) (FL_r Re lambdal steps vls vlsldv : ℝ), max_steps ≤ steps + fuel →
      0 < framework.LDV.loop3 fuel0 fuel Cvr_ldv Cvs Dp FL_r FL_s FL_ss FL_vs KC Re Rep Rsd alphap beta bottom d epsilon fbot lambdal
            max_steps nu rhol rhos steps top vls vlsldv vt := by
  have h20 : (0:ℝ) < 2.0 := by norm_num
  have hlam := swamee_jain_pos (homogeneous.pipe_reynolds_number (2.0:ℝ) Dp nu) Dp epsilon (reynolds_pos _ Dp nu h20 hD hn) hD he hr
  have hvl := lowerLimit_pos (vt * ((1.0:ℝ) - Cvs / KC) ^ beta / (Cst.musf : ℝ)) _ (lowerLimit_C_pos _ vt d nu hlam hvt hd hn)
  have hb0 : max_steps ≤ (0.0:ℝ) + (fuel0 : ℝ) := by norm_num; exact hb
  intro fuel
  induction fuel with
  | zero =>
    intro FL_r Re lambdal steps vls vlsldv hs
    unfold framework.LDV.loop3
    split_ifs with hc
    all_goals first
      | exact (steps_guard hc (by simpa using hs)).elim
      | (simp only []
         apply LDV_loop4_pos (hD := hD) (hn := hn) (he := he) (hr := hr) (hvt := hvt) (hd := hd) (hf := hf)
         · exact h20
         · simp only [Transc.rpow, Transc.npow]; exact hvl
         · exact hb0)
  | succ n ih =>
    intro FL_r Re lambdal steps vls vlsldv hs
    unfold framework.LDV.loop3
    split_ifs with hc
    all_goals first
      | (simp only []
         apply ih
         push_cast at hs ⊢
         have h1 : (1.0:ℝ) = 1 := by norm_num
         rw [h1]; linarith)
      | (simp only []
         apply LDV_loop4_pos (hD := hD) (hn := hn) (he := he) (hr := hr) (hvt := hvt) (hd := hd) (hf := hf)
         · exact h20
         · simp only [Transc.rpow, Transc.npow]; exact hvl
         · exact hb0)

end

section
variable (fuel0 : Nat) (Cvs Dp FL_vs Rsd d epsilon fbot max_steps nu rhol rhos : ℝ)

/-- second loop (small particles): hands over to the third -/
theorem LDV_loop2_pos (hD : 0 < Dp) (hn : 0 < nu) (he : 0 ≤ epsilon) (hr : epsilon / (3.7 * Dp) ≤ 0.8) (hd : 0 < d) (hf : 0 < fbot)
    (hb : max_steps ≤ (fuel0 : ℝ)) (KC Rep alphap beta bottom top vt : ℝ) (hvt : 0 < vt) :
    ∀ (fuel : Nat) (FL_ss Re lambdal steps vls vlsldv : ℝ), max_steps ≤ steps + fuel →
      0 < framework.LDV.loop2 fuel0 fuel Cvs Dp FL_ss FL_vs KC Re Rep Rsd alphap beta bottom d epsilon fbot lambdal max_steps nu rhol rhos
            steps top vls vlsldv vt := by
  have hb0 : max_steps ≤ (0.0:ℝ) + (fuel0 : ℝ) := by norm_num; exact hb
  intro fuel
  induction fuel with
  | zero =>
    intro FL_ss Re lambdal steps vls vlsldv hs
    unfold framework.LDV.loop2
    split_ifs with hc
    all_goals first
      | exact (steps_guard hc (by simpa using hs)).elim
      | (simp only []
         apply LDV_loop3_pos (hD := hD) (hn := hn) (he := he) (hr := hr) (hvt := hvt) (hd := hd) (hf := hf) (hb := hb)
         exact hb0)
  | succ n ih =>
    intro FL_ss Re lambdal steps vls vlsldv hs
    unfold framework.LDV.loop2
    split_ifs with hc
    all_goals first
      | (simp only []
         apply ih
         push_cast at hs ⊢
         have h1 : (1.0:ℝ) = 1 := by norm_num
         rw [h1]; linarith)
      | (simp only []
         apply LDV_loop3_pos (hD := hD) (hn := hn) (he := he) (hr := hr) (hvt := hvt) (hd := hd) (hf := hf) (hb := hb)
         exact hb0)

/-- first loop (very small particles): hands over to the second; this is where the settling velocity is computed -/
theorem LDV_loop1_pos (hD : 0 < Dp) (hn : 0 < nu) (he : 0 ≤ epsilon) (hr : epsilon / (3.7 * Dp) ≤ 0.8) (hd : 0 < d) (hf : 0 < fbot)
    (hR : 0 < Rsd) (hb : max_steps ≤ (fuel0 : ℝ)) :
    ∀ (fuel : Nat) (FL_vs Re lambdal steps vls vlsldv : ℝ), max_steps ≤ steps + fuel →
      0 < framework.LDV.loop1 fuel0 fuel Cvs Dp FL_vs Re Rsd d epsilon fbot lambdal max_steps nu rhol rhos steps vls vlsldv := by
  have hb0 : max_steps ≤ (0.0:ℝ) + (fuel0 : ℝ) := by norm_num; exact hb
  have hvt := vt_ruby_pos d Rsd nu 0.26 hd hR hn
  intro fuel
  induction fuel with
  | zero =>
    intro FL_vs Re lambdal steps vls vlsldv hs
    unfold framework.LDV.loop1
    split_ifs with hc
    all_goals first
      | exact (steps_guard hc (by simpa using hs)).elim
      | (simp only []
         apply LDV_loop2_pos (hD := hD) (hn := hn) (he := he) (hr := hr) (hvt := hvt) (hd := hd) (hf := hf) (hb := hb)
         exact hb0)
  | succ n ih =>
    intro FL_vs Re lambdal steps vls vlsldv hs
    unfold framework.LDV.loop1
    split_ifs with hc
    all_goals first
      | (simp only []
         apply ih
         push_cast at hs ⊢
         have h1 : (1.0:ℝ) = 1 := by norm_num
         rw [h1]; linarith)
      | (simp only []
         apply LDV_loop2_pos (hD := hD) (hn := hn) (he := he) (hr := hr) (hvt := hvt) (hd := hd) (hf := hf) (hb := hb)
         exact hb0)

/-- the limit deposit velocity is positive for physical inputs, for every model budget that covers the code's own step budget -/
theorem LDV_pos (vls : ℝ) (hD : 0 < Dp) (hn : 0 < nu) (he : 0 ≤ epsilon) (hr : epsilon / (3.7 * Dp) ≤ 0.8) (hd : 0 < d)
    (hR : 0 < (rhos - rhol) / rhol) (hb : max_steps ≤ (fuel0 : ℝ)) :
    0 < framework.LDV fuel0 vls Dp d epsilon nu rhol rhos Cvs max_steps := by
  unfold framework.LDV
  simp only []
  have hg : (0:ℝ) < Cst.gravity := by unfold Cst.gravity; norm_num
  have hf : 0 < Transc.rpow ((2.0:ℝ) * (Cst.gravity : ℝ) * ((rhos - rhol) / rhol) * Dp) (0.5:ℝ) := by
    simp only [Transc.rpow]
    have h20 : (0:ℝ) < 2.0 := by norm_num
    exact Real.rpow_pos_of_pos (by positivity) _
  apply LDV_loop1_pos (hD := hD) (hn := hn) (he := he) (hr := hr) (hd := hd) (hf := hf) (hR := hR) (hb := hb)
  norm_num
  exact hb

end
