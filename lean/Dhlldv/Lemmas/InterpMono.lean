import Dhlldv.Lemmas.Interp
import Mathlib.Tactic.Ring
import Mathlib.Tactic.FieldSimp

/-! A table with strictly increasing keys and strictly decreasing values has a strictly decreasing interpolant on its whole range. -/

namespace Interp

/-- keys strictly increasing and values strictly decreasing along `p :: l` -/
def Dec : (ℝ × ℝ) → List (ℝ × ℝ) → Prop
  | _, [] => True
  | p, q :: rest => p.1 < q.1 ∧ q.2 < p.2 ∧ Dec q rest

def lastPt : (ℝ × ℝ) → List (ℝ × ℝ) → ℝ × ℝ
  | p, [] => p
  | _, q :: rest => lastPt q rest

/-- value of the table `p :: l` at `x ≥ p.1` as the lookup computes it -/
noncomputable def F (p : ℝ × ℝ) (l : List (ℝ × ℝ)) (x : ℝ) : Option ℝ := if x = p.1 then some p.2 else lookupInner p l x

theorem last_le (l : List (ℝ × ℝ)) : ∀ p, Dec p l → p.1 ≤ (lastPt p l).1 ∧ (lastPt p l).2 ≤ p.2 ∧ (p.1 < (lastPt p l).1 → (lastPt p l).2 < p.2) := by
  induction l with
  | nil => intro p _; simp [lastPt]
  | cons q rest ih =>
    intro p h
    obtain ⟨h1, h2, h3⟩ := h
    obtain ⟨a, b, _⟩ := ih q h3
    simp only [lastPt]
    exact ⟨by linarith, by linarith, fun _ => by linarith⟩

/-- on the first segment the table is the straight line through its end points (end points included) -/
theorem F_first_segment (p q : ℝ × ℝ) (rest : List (ℝ × ℝ)) (x : ℝ) (hpq : p.1 < q.1) (h1 : p.1 ≤ x) (h2 : x ≤ q.1) :
    F p (q :: rest) x = some (lineAt p.1 p.2 q.1 q.2 x) := by
  unfold F
  by_cases hx : x = p.1
  · rw [if_pos hx, hx, lineAt_left]
  · rw [if_neg hx]
    unfold lookupInner
    by_cases hq : x = q.1
    · rw [hq, feq_self]; simp only [if_true]; rw [lineAt_right _ _ _ _ (ne_of_lt hpq)]
    · rw [feq_false_of_ne (Ne.symm hq)]
      have : x < q.1 := lt_of_le_of_ne h2 hq
      simp [this]

/-- at and beyond the second key the table is the table of the tail -/
theorem F_tail (p q : ℝ × ℝ) (rest : List (ℝ × ℝ)) (x : ℝ) (hpq : p.1 < q.1) (h : q.1 ≤ x) :
    F p (q :: rest) x = F q rest x := by
  unfold F
  have hx : x ≠ p.1 := by intro e; rw [e] at h; linarith
  rw [if_neg hx]
  have e : lookupInner p (q :: rest) x =
      (if feq q.1 x = true then some q.2 else if x < q.1 then some (lineAt p.1 p.2 q.1 q.2 x) else lookupInner q rest x) := rfl
  rw [e]
  by_cases hq : x = q.1
  · rw [hq, feq_self]; simp
  · rw [feq_false_of_ne (Ne.symm hq), if_neg hq]
    have : ¬ x < q.1 := not_lt.2 h
    simp [this]

theorem lineAt_strictAnti (x1 y1 x2 y2 s t : ℝ) (hx : x1 < x2) (hy : y2 < y1) (hst : s < t) :
    lineAt x1 y1 x2 y2 t < lineAt x1 y1 x2 y2 s := by
  unfold lineAt
  have hd : 0 < x2 - x1 := sub_pos.2 hx
  have : (y2 - y1) / (x2 - x1) < 0 := div_neg_of_neg_of_pos (sub_neg.2 hy) hd
  nlinarith

/-- range: inside its key range the table takes values between its last and its first value -/
theorem F_range (l : List (ℝ × ℝ)) : ∀ (p : ℝ × ℝ) (x : ℝ), Dec p l → p.1 ≤ x → x ≤ (lastPt p l).1 →
    ∃ v, F p l x = some v ∧ (lastPt p l).2 ≤ v ∧ v ≤ p.2 ∧ (p.1 < x → v < p.2) := by
  induction l with
  | nil =>
    intro p x _ h1 h2
    simp only [lastPt] at h2
    have : x = p.1 := le_antisymm h2 h1
    exact ⟨p.2, by simp [F, this], by simp [lastPt], le_refl _, fun h => by linarith⟩
  | cons q rest ih =>
    intro p x h h1 h2
    obtain ⟨hk, hv, hd⟩ := h
    simp only [lastPt] at h2 ⊢
    obtain ⟨la, lb, _⟩ := last_le rest q hd
    by_cases hxq : x ≤ q.1
    · refine ⟨lineAt p.1 p.2 q.1 q.2 x, F_first_segment p q rest x hk h1 hxq, ?_, ?_, ?_⟩
      · have : q.2 ≤ lineAt p.1 p.2 q.1 q.2 x := by
          rcases eq_or_lt_of_le hxq with e | e
          · rw [e, lineAt_right _ _ _ _ (ne_of_lt hk)]
          · have := lineAt_strictAnti p.1 p.2 q.1 q.2 x q.1 hk hv e
            rw [lineAt_right _ _ _ _ (ne_of_lt hk)] at this; linarith
        linarith
      · rcases eq_or_lt_of_le h1 with e | e
        · rw [← e, lineAt_left]
        · have := lineAt_strictAnti p.1 p.2 q.1 q.2 p.1 x hk hv e
          rw [lineAt_left] at this; linarith
      · intro e
        have := lineAt_strictAnti p.1 p.2 q.1 q.2 p.1 x hk hv e
        rw [lineAt_left] at this; exact this
    · push Not at hxq
      obtain ⟨v, hF, a, b, _⟩ := ih q x hd hxq.le h2
      exact ⟨v, by rw [F_tail p q rest x hk hxq.le]; exact hF, a, by linarith, fun _ => by linarith⟩

/-- strictly decreasing on the whole key range -/
theorem F_strictAnti (l : List (ℝ × ℝ)) : ∀ (p : ℝ × ℝ) (x y : ℝ), Dec p l → p.1 ≤ x → x < y → y ≤ (lastPt p l).1 →
    ∃ vx vy, F p l x = some vx ∧ F p l y = some vy ∧ vy < vx := by
  induction l with
  | nil =>
    intro p x y _ h1 h2 h3
    simp only [lastPt] at h3
    linarith
  | cons q rest ih =>
    intro p x y h h1 h2 h3
    obtain ⟨hk, hv, hd⟩ := h
    simp only [lastPt] at h3
    by_cases hy : y ≤ q.1
    · exact ⟨_, _, F_first_segment p q rest x hk h1 (by linarith), F_first_segment p q rest y hk (by linarith) hy,
        lineAt_strictAnti p.1 p.2 q.1 q.2 x y hk hv h2⟩
    · push Not at hy
      by_cases hx : q.1 ≤ x
      · obtain ⟨vx, vy, a, b, c⟩ := ih q x y hd hx h2 h3
        exact ⟨vx, vy, by rw [F_tail p q rest x hk hx]; exact a, by rw [F_tail p q rest y hk (by linarith)]; exact b, c⟩
      · push Not at hx
        obtain ⟨vy, hFy, _, _, hlt⟩ := F_range rest q y hd hy.le h3
        refine ⟨_, vy, F_first_segment p q rest x hk h1 hx.le, by rw [F_tail p q rest y hk hy.le]; exact hFy, ?_⟩
        have h1' := lineAt_strictAnti p.1 p.2 q.1 q.2 x q.1 hk hv hx
        rw [lineAt_right _ _ _ _ (ne_of_lt hk)] at h1'
        have := hlt hy
        linarith

/-- the lookup of a table `p :: q :: rest` coincides with `F` on its key range -/
theorem lookup_eq_F (t : InterpTable ℝ) (p q : ℝ × ℝ) (rest : List (ℝ × ℝ)) (ht : t.pts = p :: q :: rest) (hd : Dec p (q :: rest))
    (x : ℝ) (h1 : p.1 ≤ x) (h2 : x ≤ (lastPt p (q :: rest)).1) : t.lookup x = F p (q :: rest) x := by
  obtain ⟨v, hF, _⟩ := F_range (q :: rest) p x hd h1 h2
  unfold InterpTable.lookup
  rw [ht]
  simp only
  by_cases hx : x = p.1
  · rw [hx, feq_self]; simp [F]
  · rw [feq_false_of_ne (Ne.symm hx)]
    have hlt : ¬ x < p.1 := by push Not; exact h1
    simp only [Bool.false_eq_true, if_false, hlt]
    have hFi : lookupInner p (q :: rest) x = some v := by
      unfold F at hF; rw [if_neg hx] at hF; exact hF
    rw [hFi]; unfold F; rw [if_neg hx, hFi]

end Interp
