import Dhlldv.Lemmas.FracsSorted
import Mathlib.Tactic.Linarith
import Mathlib.Tactic.Positivity
import Mathlib.Tactic.FieldSimp
import Mathlib.Tactic.Ring

/-! Every fraction of the discretised grading lies between its start fraction and max(last given fraction, 0.999). -/

namespace Spec.Fracs

def KeysIn (d : FDict ℝ) (a b : ℝ) : Prop := ∀ p ∈ d, a ≤ p.1 ∧ p.1 ≤ b

theorem keysIn_nil (a b : ℝ) : KeysIn [] a b := fun _ h => absurd h List.not_mem_nil

theorem keysIn_mono {d : FDict ℝ} {a b a' b' : ℝ} (h : KeysIn d a b) (ha : a' ≤ a) (hb : b ≤ b') : KeysIn d a' b' :=
  fun p hp => ⟨le_trans ha (h p hp).1, le_trans (h p hp).2 hb⟩

theorem setF_keysIn (d : FDict ℝ) (k v a b : ℝ) (h : KeysIn d a b) (hk : a ≤ k ∧ k ≤ b) : KeysIn (setF d k v) a b := by
  intro p hp
  rcases keys_setF d k v p hp with e | ⟨q, hq, e⟩
  · rw [e]; exact hk
  · rw [← e]; exact h q hq

theorem subdivide_keysIn (flow dlow fnext dnext fs : ℝ) (hfs : 0 ≤ fs) : ∀ (n : Nat) (fthis : ℝ) (d : FDict ℝ) (a b : ℝ),
    KeysIn d a b → a ≤ fthis → fthis + n * fs ≤ b → KeysIn (subdivide flow dlow fnext dnext fs n fthis d) a b := by
  intro n
  induction n with
  | zero => intro fthis d a b h _ _; exact h
  | succ k ih =>
    intro fthis d a b h ha hb
    unfold subdivide
    have hk : (0:ℝ) ≤ k * fs := mul_nonneg (Nat.cast_nonneg k) hfs
    have e : ((k + 1 : ℕ) : ℝ) * fs = k * fs + fs := by push_cast; ring
    rw [e] at hb
    apply ih
    · exact setF_keysIn _ _ _ _ _ h ⟨by linarith, by linarith⟩
    · linarith
    · linarith

/-- the remaining given fractions: not below the current one, non-decreasing, all ≤ B -/
def FracsOK (flow : ℝ) (nx : ℝ × ℝ) (rest : List (ℝ × ℝ)) (B : ℝ) : Prop :=
  flow ≤ nx.1 ∧ List.IsChain (fun p q : ℝ × ℝ => p.1 ≤ q.1) (nx :: rest) ∧ ∀ p ∈ nx :: rest, p.1 ≤ B

theorem segments_keysIn (between : Nat) : ∀ (fuel : Nat) (flow dlow : ℝ) (nx : ℝ × ℝ) (rest : List (ℝ × ℝ)) (d : FDict ℝ) (fs a B : ℝ),
    KeysIn d a B → a ≤ flow → 0 ≤ fs → FracsOK flow nx rest B →
    KeysIn (segments between (fun n : Nat => (n : ℝ)) fuel flow dlow nx rest d fs).1 a B ∧
    0 ≤ (segments between (fun n : Nat => (n : ℝ)) fuel flow dlow nx rest d fs).2 := by
  intro fuel
  induction fuel with
  | zero => intro flow dlow nx rest d fs a B h _ hfs _; exact ⟨h, hfs⟩
  | succ k ih =>
    intro flow dlow nx rest d fs a B h ha _ hok
    obtain ⟨h1, hch, hB⟩ := hok
    unfold segments
    have hb1 : (0:ℝ) < ((between + 1 : ℕ) : ℝ) := by positivity
    have hfs' : 0 ≤ (nx.1 - flow) / ((between + 1 : ℕ) : ℝ) := div_nonneg (by linarith) hb1.le
    have hnxB : nx.1 ≤ B := hB nx List.mem_cons_self
    have hsub : flow + (between : ℝ) * ((nx.1 - flow) / ((between + 1 : ℕ) : ℝ)) ≤ B := by
      have : (between : ℝ) * ((nx.1 - flow) / ((between + 1 : ℕ) : ℝ)) ≤ nx.1 - flow := by
        rw [mul_div_assoc', div_le_iff₀ hb1]
        push_cast
        nlinarith
      linarith
    have hd1 := subdivide_keysIn flow dlow nx.1 nx.2 ((nx.1 - flow) / ((between + 1 : ℕ) : ℝ)) hfs' between flow d a B h ha hsub
    have hd2 := setF_keysIn _ nx.1 nx.2 a B hd1 ⟨by linarith, hnxB⟩
    cases rest with
    | nil => exact ⟨hd2, hfs'⟩
    | cons t rest' =>
      simp only
      by_cases ht : feq t.1 (0.0 : ℝ) = true
      · rw [if_pos ht]; exact ⟨hd2, hfs'⟩
      · rw [if_neg ht]
        have hch' := List.isChain_cons_cons.1 hch
        exact ih nx.1 nx.2 t rest' _ _ a B hd2 (by linarith) hfs'
          ⟨hch'.1, hch'.2, fun p hp => hB p (List.mem_cons_of_mem _ hp)⟩

theorem mem_sortF (d : FDict ℝ) (h : KeysNodup d) : ∀ q ∈ sortF d, q ∈ d := by
  intro q hq
  unfold sortF at hq
  rcases (foldl_insert_strict d [] List.Pairwise.nil h (fun _ _ q hq => absurd hq List.not_mem_nil)).2 q hq with e | e
  · exact absurd e List.not_mem_nil
  · exact e

theorem sortF_keysIn (d : FDict ℝ) (a b : ℝ) (h : KeysNodup d) (hk : KeysIn d a b) : KeysIn (sortF d) a b :=
  fun p hp => hk p (mem_sortF d h p hp)

/-- hypotheses on the first remaining segment (lo, nx) and the remaining points: fractions 0 ≤ lo.1 < nx.1 ≤ … ≤ B, diameters 0 < lo.2 < nx.2, and the
limit 0 < dlim ≤ nx.2 (the segment reaches up to or above the limit) -/
structure SegOK (dlim : ℝ) (lo nx : ℝ × ℝ) (rest : List (ℝ × ℝ)) (B : ℝ) : Prop where
  f0 : 0 ≤ lo.1
  f1 : lo.1 < nx.1
  d0 : 0 < lo.2
  d1 : lo.2 < nx.2
  lim0 : 0 < dlim
  lim1 : dlim ≤ nx.2
  chain : List.IsChain (fun p q : ℝ × ℝ => p.1 ≤ q.1) (nx :: rest)
  le : ∀ p ∈ nx :: rest, p.1 ≤ B

/-- the fraction at which the first segment reaches the limit is not above the segment's upper fraction -/
theorem X_le_fnext {dlim : ℝ} {lo nx : ℝ × ℝ} {rest : List (ℝ × ℝ)} {B : ℝ} (h : SegOK dlim lo nx rest B) :
    nx.1 - (Transc.log10 nx.2 - Transc.log10 dlim) * (nx.1 - lo.1) / (Transc.log10 nx.2 - Transc.log10 lo.2) ≤ nx.1 := by
  have hl10 : 0 < Real.log 10 := Real.log_pos (by norm_num)
  have h1 : 0 ≤ Transc.log10 nx.2 - Transc.log10 dlim := by
    show 0 ≤ Real.log nx.2 / Real.log 10 - Real.log dlim / Real.log 10
    have := Real.log_le_log h.lim0 h.lim1
    rw [← sub_div]; exact div_nonneg (by linarith) hl10.le
  have h2 : 0 < Transc.log10 nx.2 - Transc.log10 lo.2 := by
    show 0 < Real.log nx.2 / Real.log 10 - Real.log lo.2 / Real.log 10
    have := Real.log_lt_log h.d0 h.d1
    rw [← sub_div]; exact div_pos (by linarith) hl10
  have h3 : 0 ≤ nx.1 - lo.1 := by linarith [h.f1]
  have : 0 ≤ (Transc.log10 nx.2 - Transc.log10 dlim) * (nx.1 - lo.1) / (Transc.log10 nx.2 - Transc.log10 lo.2) :=
    div_nonneg (mul_nonneg h1 h3) h2.le
  linarith

/-- every fraction of the discretised grading lies in [0, max B 0.999] (B = the largest given fraction): in particular inside [0, 1) when the
given fractions are below 1 -/
theorem afterSkip_keysIn (dlim : ℝ) (lo nx : ℝ × ℝ) (rest : List (ℝ × ℝ)) (pl n : Nat) (B : ℝ) (h : SegOK dlim lo nx rest B) :
    KeysIn (afterSkip (fun k : Nat => (k : ℝ)) dlim lo nx rest pl n).gsd 0 (max B 0.999) := by
  have hXle := X_le_fnext h
  unfold afterSkip
  simp only
  set X := nx.1 - (Transc.log10 nx.2 - Transc.log10 dlim) * (nx.1 - lo.1) / (Transc.log10 nx.2 - Transc.log10 lo.2) with hX
  have hnx0 : 0 ≤ nx.1 := by linarith [h.f0, h.f1]
  -- start state: keys of d0 within [0, start], start ≤ nx.1
  have hstart : ∀ (b : Bool), (b = true → 0 < X) →
      KeysIn (if b = true then [(X, dlim)] else []) 0 B ∧ 0 ≤ (if b = true then X else (0.0:ℝ)) ∧ (if b = true then X else (0.0:ℝ)) ≤ nx.1 ∧
      KeysNodup (if b = true then [(X, dlim)] else []) := by
    intro b hb
    cases b with
    | false => simp [keysIn_nil, KeysNodup, hnx0]
    | true =>
      have := hb rfl
      refine ⟨?_, by simpa using this.le, by simpa using hXle, by simp [KeysNodup]⟩
      intro p hp
      simp only [if_true, List.mem_singleton] at hp
      rw [hp]; exact ⟨this.le, le_trans hXle (h.le nx List.mem_cons_self)⟩
  have hdec : decide (X > (0.0:ℝ)) = true → 0 < X := by
    intro hd; simpa [sci_zero] using hd
  obtain ⟨hk0, hs0, hs1, hnd0⟩ := hstart (decide (X > (0.0:ℝ))) hdec
  generalize hseg : segments _ (fun k : Nat => (k : ℝ)) (rest.length + 1) _ _ nx rest _ (0.0 : ℝ) = sg
  have hsg := segments_keysIn ((n - pl - 1 + pl - 1) / pl) (rest.length + 1) (if decide (X > (0.0:ℝ)) = true then X else (0.0:ℝ))
    (if decide (X > (0.0:ℝ)) = true then dlim else
      pow10 (Transc.log10 nx.2 - (Transc.log10 nx.2 - Transc.log10 lo.2) * (nx.1 - (0.0:ℝ)) / (nx.1 - lo.1)))
    nx rest (if decide (X > (0.0:ℝ)) = true then [(X, dlim)] else []) (0.0:ℝ) 0 B hk0 hs0 (by norm_num) ⟨hs1, h.chain, h.le⟩
  have hnd := segments_nodup ((n - pl - 1 + pl - 1) / pl) (fun k : Nat => (k : ℝ)) (rest.length + 1) (if decide (X > (0.0:ℝ)) = true then X else (0.0:ℝ))
    (if decide (X > (0.0:ℝ)) = true then dlim else
      pow10 (Transc.log10 nx.2 - (Transc.log10 nx.2 - Transc.log10 lo.2) * (nx.1 - (0.0:ℝ)) / (nx.1 - lo.1)))
    nx rest (if decide (X > (0.0:ℝ)) = true then [(X, dlim)] else []) (0.0:ℝ) hnd0
  rw [hseg] at hsg hnd
  obtain ⟨d, fs⟩ := sg
  simp only at hsg hnd ⊢
  obtain ⟨hkd, hfs⟩ := hsg
  have hkd' : KeysIn d 0 (max B 0.999) := keysIn_mono hkd (le_refl 0) (le_max_left _ _)
  cases hr : (sortF d).reverse with
  | nil => simp only; exact sortF_keysIn d _ _ hnd hkd'
  | cons top tl =>
    cases tl with
    | nil => simp only; exact sortF_keysIn d _ _ hnd hkd'
    | cons below tl' =>
      simp only
      have htop : top ∈ d := by
        apply mem_sortF d hnd
        have : top ∈ (sortF d).reverse := by rw [hr]; exact List.mem_cons_self
        exact List.mem_reverse.1 this
      have ht0 := (hkd top htop).1
      apply sortF_keysIn _ _ _ (setF_nodup _ _ _ hnd)
      apply setF_keysIn _ _ _ _ _ hkd'
      rw [pyMin_eq_min]
      constructor
      · exact le_min (by linarith) (by norm_num)
      · exact le_trans (min_le_right _ _) (le_max_right _ _)

/-- a well-formed input: fractions and diameters strictly increasing along the points, first fraction ≥ 0, first diameter > 0, fractions ≤ B,
the LAST given diameter not below the limit -/
structure InputOK (dlim : ℝ) (lo nx : ℝ × ℝ) (rest : List (ℝ × ℝ)) (B : ℝ) : Prop where
  chain : List.IsChain (fun p q : ℝ × ℝ => p.1 < q.1 ∧ p.2 < q.2) (lo :: nx :: rest)
  f0 : 0 ≤ lo.1
  d0 : 0 < lo.2
  le : ∀ p ∈ nx :: rest, p.1 ≤ B
  lim0 : 0 < dlim
  last : dlim ≤ ((nx :: rest).getLast (List.cons_ne_nil _ _)).2

/-- discarding the points below the limit leaves a first segment that satisfies `SegOK` -/
theorem skipBelow_ok (dlim B : ℝ) : ∀ (fuel : Nat) (lo nx : ℝ × ℝ) (rest : List (ℝ × ℝ)) (pl : Nat),
    InputOK dlim lo nx rest B → rest.length < fuel →
    SegOK dlim (skipBelow dlim fuel lo nx rest pl).1 (skipBelow dlim fuel lo nx rest pl).2.1 (skipBelow dlim fuel lo nx rest pl).2.2.1 B := by
  intro fuel
  induction fuel with
  | zero => intro lo nx rest pl _ hl; exact absurd hl (Nat.not_lt_zero _)
  | succ k ih =>
    intro lo nx rest pl h hl
    obtain ⟨hc, hf0, hd0, hle, hlim0, hlast⟩ := h
    have hc' := List.isChain_cons_cons.1 hc
    unfold skipBelow
    by_cases hgt : nx.2 ≤ dlim * ((1.0 : ℝ) + (1e-12 : ℝ))
    · rw [if_pos hgt]
      cases rest with
      | nil =>
        simp only [List.getLast_singleton] at hlast
        exact
          { f0 := hf0, f1 := hc'.1.1, d0 := hd0, d1 := hc'.1.2, lim0 := hlim0, lim1 := hlast,
            chain := List.IsChain.imp (fun _ _ hab => hab.1.le) hc'.2, le := hle }
      | cons t rest' =>
        simp only
        have hc'' := List.isChain_cons_cons.1 hc'.2
        have ht0 : ¬ feq t.1 (0.0 : ℝ) = true := by
          rw [feq_iff_eq]
          intro e
          have : 0 < t.1 := by linarith [hc'.1.1, hc''.1.1]
          rw [e] at this; norm_num at this
        rw [if_neg ht0]
        apply ih nx t rest' (pl - 1)
        · refine ⟨hc'.2, by linarith [hc'.1.1], by linarith [hc'.1.2], fun p hp => hle p (List.mem_cons_of_mem _ hp), hlim0, ?_⟩
          rw [List.getLast_cons (List.cons_ne_nil _ _)] at hlast
          exact hlast
        · simp only [List.length_cons] at hl; omega
    · rw [if_neg hgt]
      exact
        { f0 := hf0, f1 := hc'.1.1, d0 := hd0, d1 := hc'.1.2, lim0 := hlim0, lim1 := (by have := not_le.1 hgt; nlinarith),
          chain := List.IsChain.imp (fun _ _ hab => hab.1.le) hc'.2, le := hle }

end Spec.Fracs
