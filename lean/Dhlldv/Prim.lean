/-
Prim.lean — primitives shared by the generated model (Gen/*) and the hand-written Specs.

No imports: everything here is core Lean so that the executable reading (α := Float) can be
run with `lake env lean --run Driver.lean` without touching Mathlib.

`Transc α` is a law-free record of the transcendental primitives the Python code uses.
Its `Float` instance below calls the same glibc functions CPython's `math` module calls;
its `ℝ` instance (Real.lean) uses Mathlib's real functions.
-/

class Transc (α : Type) where
  log   : α → α
  exp   : α → α
  log10 : α → α
  sin   : α → α
  cosh  : α → α
  sqrt  : α → α
  /-- `x ** y` with a non-literal-natural exponent (C `pow`) -/
  rpow  : α → α → α
  /-- `x ** n` with a literal natural exponent -/
  npow  : α → Nat → α
  abs   : α → α
  /-- Python `int(x)` for a float (truncation towards zero), returned as a number -/
  trunc : α → α
  pi    : α
  /-- the value standing for "the Python code raised here" (table key out of range) -/
  nan   : α

instance : Transc Float where
  log := Float.log
  exp := Float.exp
  log10 := Float.log10
  sin := Float.sin
  cosh := Float.cosh
  sqrt := Float.sqrt
  rpow := Float.pow
  npow := fun x n => Float.pow x n.toFloat
  abs := Float.abs
  trunc := fun x => if x < 0 then Float.ceil x else Float.floor x
  pi := 3.141592653589793
  nan := 0.0 / 0.0

/-! ## Python values and string-keyed dicts (what `py2lean` emits for dict-valued code) -/

inductive PyVal (α : Type) where
  | num : α → PyVal α
  | str : String → PyVal α

abbrev PyDict (α : Type) := List (String × PyVal α)

def PyDict.get {α : Type} : PyDict α → String → PyVal α
  | [], _ => .str "KeyError"
  | (k', v') :: d, k => if k' == k then v' else PyDict.get d k

/-- `d[k] = v`: replace the entry of an existing key in place, append a new key at the end (dict insertion order) -/
def PyDict.set {α : Type} : PyDict α → String → PyVal α → PyDict α
  | [], k, v => [(k, v)]
  | (k', v') :: d, k, v => if k' == k then (k, v) :: d else (k', v') :: PyDict.set d k v

def PyVal.toNum {α : Type} [Transc α] : PyVal α → α
  | .num x => x
  | .str _ => Transc.nan

def PyVal.toStr {α : Type} : PyVal α → String
  | .num _ => "TypeError"
  | .str s => s

/-- lookup in a literal `{str: str}` dict -/
def strLookup (tbl : List (String × String)) (k : String) : String :=
  match tbl.find? (fun p => p.1 == k) with
  | some p => p.2
  | none => "KeyError"

/-! ## Interpolating tables (`DHLLDV_Utils.interpDict`)

`InterpTable` is the abstract content of an `interpDict`: its items sorted by key, the two
extrapolation flags and the tolerance.  `lookup` mirrors `interpDict.__getitem__` branch by
branch; its functional correctness against the piecewise-linear specification is C18.
`none` stands for `IndexError`. -/

structure InterpTable (α : Type) where
  pts : List (α × α)          -- sorted by key, keys distinct
  exLow : Bool
  exHigh : Bool
  tol : α

section
variable {α : Type} [Add α] [Sub α] [Mul α] [Div α] [Neg α] [LT α] [LE α]
  [DecidableLT α] [DecidableLE α] [OfScientific α]

/-- CPython `min(a, b)`: `a` unless `b < a` -/
@[inline] def pyMin (a b : α) : α := if b < a then b else a
/-- CPython `max(a, b)`: `a` unless `b > a` -/
@[inline] def pyMax (a b : α) : α := if b > a then b else a

/-- straight line through `(x1,y1)`, `(x2,y2)` evaluated at `k`, in the operation order of the source -/
@[inline] def lineAt (x1 y1 x2 y2 k : α) : α := ((y2 - y1) / (x2 - x1)) * (k - x1) + y1

/-- Python float equality expressed with `≤` only (faithful for IEEE doubles incl. NaN and ±0) -/
@[inline] def feq (a b : α) : Bool := decide (a ≤ b) && decide (b ≤ a)

/-- interior search: `pts` has at least two points and `p.1 < k` for the head `p`.
Returns the interpolated value on the first segment whose right end exceeds `k`. -/
def lookupInner : (α × α) → List (α × α) → α → Option α
  | _, [], _ => none
  | p, q :: rest, k =>
    if feq q.1 k then some q.2
    else if k < q.1 then some (lineAt p.1 p.2 q.1 q.2 k)
    else lookupInner q rest k

def lastTwo : List (α × α) → Option ((α × α) × (α × α))
  | [] => none
  | [_] => none
  | [a, b] => some (a, b)
  | _ :: rest => lastTwo rest

def InterpTable.lookup (t : InterpTable α) (k : α) : Option α :=
  match t.pts with
  | [] => none
  | [p] => if feq p.1 k then some p.2 else none
  | p0 :: p1 :: rest =>
    if feq p0.1 k then some p0.2
    else if k < p0.1 then
      -- index == 0
      if t.exLow || decide (k ≥ p0.1 * ((1.0 : α) - t.tol)) then some (lineAt p0.1 p0.2 p1.1 p1.2 k) else none
    else
      match lookupInner p0 (p1 :: rest) k with
      | some v => some v
      | none =>
        -- index == len(keys)
        match lastTwo (p0 :: p1 :: rest) with
        | some (a, b) =>
          if t.exHigh || decide (k ≤ b.1 * ((1.0 : α) + t.tol)) then some (lineAt a.1 a.2 b.1 b.2 k) else none
        | none => none

/-- CPython ≥ 3.12 `sum()` over floats: Neumaier compensated summation (Python/bltinmodule.c).
State is (running sum, compensation). -/
def pySumStep [Transc α] (st : α × α) (x : α) : α × α :=
  let f := st.1
  let c := st.2
  let t := f + x
  let c := if Transc.abs f ≥ Transc.abs x then c + ((f - t) + x) else c + ((x - t) + f)
  (t, c)

def pySum [Transc α] (l : List α) : α :=
  let st := l.foldl pySumStep ((0.0 : α), (0.0 : α))
  if feq st.2 (0.0 : α) then st.1 else st.1 + st.2

/-- lookup as a number: IndexError becomes `Transc.nan` -/
def InterpTable.at [Transc α] (t : InterpTable α) (k : α) : α :=
  match t.lookup k with
  | some v => v
  | none => Transc.nan

end
