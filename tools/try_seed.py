#!/usr/bin/env python3
"""Confirm a seeded change and run checks against it.
usage: try_seed.py <dir with patch.diff demo.py meta.json> [--confirm] [--checks C01,C08] [--tier quick]
--confirm : in a scratch worktree: baseline tests with the change (122 pass), demo exit 0 without / 1 with the change.
--checks  : apply to /repo, run ./check for each, undo."""
import json, os, signal, subprocess, sys, tempfile, shutil, re


def _term(signum, frame):
    raise SystemExit(143)       # so that the `finally` blocks below put /repo back


signal.signal(signal.SIGTERM, _term)

def sh(cmd, **kw):
    r = subprocess.run(cmd, shell=True, capture_output=True, text=True, **kw)
    return r.returncode, (r.stdout + r.stderr)

def main():
    d = os.path.abspath(sys.argv[1])
    patch = os.path.join(d, 'patch.diff')
    res = {}
    if '--confirm' in sys.argv:
        wt = tempfile.mkdtemp(prefix='seedwt_', dir='/tmp')
        os.rmdir(wt)
        rc, out = sh(f'git -C /repo worktree add -q --detach {wt} HEAD')
        assert rc == 0, out
        try:
            env = f'PYTHONPATH={wt}/src:{wt}:{wt}/DHLLDV_viewer'
            rc0, o0 = sh(f'cd {wt} && {env} /venv/bin/python {d}/demo.py')
            rc, out = sh(f'git -C {wt} apply {patch}')
            assert rc == 0, 'patch does not apply: ' + out
            rct, ot = sh(f'cd {wt} && {env} /venv/bin/python -m pytest -q -p no:cacheprovider 2>&1 | tail -3')
            m = re.search(r'(\d+) failed, (\d+) passed', ot)
            rc1, o1 = sh(f'cd {wt} && {env} /venv/bin/python {d}/demo.py')
            res['confirm'] = {'demo_unchanged_exit': rc0, 'demo_changed_exit': rc1, 'tests': ot.strip().splitlines()[-1],
                              'ok': rc0 == 0 and rc1 != 0 and bool(m) and m.group(2) == '122' and m.group(1) == '7'}
            res['demo_changed_tail'] = o1.strip().splitlines()[-3:]
        finally:
            sh(f'git -C /repo worktree remove --force {wt}')
    if '--checks' in sys.argv:
        checks = sys.argv[sys.argv.index('--checks') + 1].split(',')
        tier = sys.argv[sys.argv.index('--tier') + 1] if '--tier' in sys.argv else 'quick'
        rc, out = sh(f'git -C /repo status --porcelain --untracked-files=no')
        assert out.strip() == '', '/repo not clean: ' + out
        rc, out = sh(f'git -C /repo apply {patch}')
        assert rc == 0, out
        try:
            for c in checks:
                rc, out = sh(f'cd /verif && ./check {c} --tier {tier}', timeout=7200)
                res.setdefault('checks', {})[c] = {'exit': rc, 'lines': [l for l in out.splitlines() if l.startswith(('VIOLATION', 'KNOWN', 'TOOL', c))][-4:]}
        finally:
            sh('git -C /repo checkout -- .')
            # bring the generated model back in line with the restored tree
            sh('/venv/bin/python /verif/py2lean/translate.py /repo /verif/lean/Dhlldv/Gen; /venv/bin/python /verif/py2lean/effects.py /repo /verif/lean/Dhlldv/Gen')
            # evidence written while a seed was applied is not evidence about /repo: restore the committed files
            sh('git -C /verif checkout -- evidence')
    print(json.dumps(res, indent=1))

main()
