#!/usr/bin/env python3
"""Parallel variant of seed_matrix.py that never touches /repo or /verif's own build: every lane works in its own copy of /verif (scratch) against a scratch git
worktree of /repo per property (DHLLDV_REPO), so it can run beside the checks in /verif.  Results are merged into seeded/RESULTS.json.
usage: seed_matrix_par.py <comma-separated seed names | @suffixes S,T | all> [--lanes 4] [--scratch /tmp/seedpar]"""
import json, os, shutil, subprocess, sys
from concurrent.futures import ThreadPoolExecutor

V = '/verif'
EXTRA = {'REVERT-C12c': ['C02'], 'C01-Q': ['C07'], 'C03-H': ['C05'], 'C20-H': ['C03'], 'C01-B': ['C08'], 'C03-A': ['C07'], 'C09-B': ['C07'], 'C13-B': ['C08'], 'C20-B': ['C08'],
         'C17-A': ['C07', 'C09'], 'C14-U': ['C09'], 'C15-U': ['C09']}


def sh(cmd, **kw):
    r = subprocess.run(cmd, shell=True, capture_output=True, text=True, **kw)
    return r.returncode, r.stdout + r.stderr


def prop_of(d):
    return d.split('-')[1][:3] if d.startswith('REVERT') else d.split('-')[0]


def lane_run(args):
    lane, props, seeds, scratch = args
    vdir = f'{scratch}/lane{lane}'
    sh(f'rm -rf {vdir}; mkdir -p {vdir}; rsync -a --exclude .git --exclude replays --exclude seeded {V}/ {vdir}/')
    out = {}
    for P in props:
        wt = f'{scratch}/wt/{P}'
        if not os.path.isdir(wt):
            rc, o = sh(f'git -C /repo worktree add -q --detach {wt} HEAD')
            assert rc == 0, o
        for d in [s for s in seeds if prop_of(s) == P]:
            sh(f'git -C {wt} checkout -q -- .')
            rc, o = sh(f'git -C {wt} apply {V}/seeded/{d}/patch.diff')
            if rc != 0:
                out[d] = {'error': 'patch does not apply: ' + o[-300:]}
                continue
            res = {}
            try:
                for c in [P] + EXTRA.get(d, []):
                    try:
                        rc, o = sh(f'cd {vdir} && DHLLDV_REPO={wt} ./check {c}', timeout=3600)
                    except subprocess.TimeoutExpired:
                        rc, o = 2, f'{c} timed out'
                    lines = [l for l in o.splitlines() if l.startswith(('VIOLATION', 'KNOWN', 'TOOL', c))][-4:]
                    res[c] = {'exit': rc, 'concrete_input': any(l.startswith('VIOLATION') and 'no-failing-input-found' not in l for l in lines),
                              'summary': lines[-1] if lines else ''}
            finally:
                sh(f'git -C {wt} checkout -q -- .')
            out[d] = res
            print(d, {c: (v['exit'], v['concrete_input']) for c, v in res.items()}, flush=True)
        sh(f'git -C /repo worktree remove --force {wt}')
    shutil.rmtree(vdir, ignore_errors=True)
    return out


def main():
    sel = sys.argv[1]
    lanes = int(sys.argv[sys.argv.index('--lanes') + 1]) if '--lanes' in sys.argv else 4
    scratch = sys.argv[sys.argv.index('--scratch') + 1] if '--scratch' in sys.argv else '/tmp/seedpar'
    allseeds = sorted(d for d in os.listdir(f'{V}/seeded') if os.path.exists(f'{V}/seeded/{d}/patch.diff'))
    if sel == 'all':
        seeds = allseeds
    elif sel.startswith('@'):
        suf = sel[1:].split(',')
        seeds = [d for d in allseeds if d.split('-')[-1] in suf]
    else:
        seeds = [d for d in allseeds if d in sel.split(',')]
    res_path = f'{V}/seeded/RESULTS.json'
    res = json.load(open(res_path)) if os.path.exists(res_path) else {}
    live = []
    for d in seeds:
        try:
            if 'retired' in json.load(open(f'{V}/seeded/{d}/meta.json')):
                res[d] = {'retired': True}
                continue
        except Exception:   # noqa
            pass
        live.append(d)
    props = sorted({prop_of(d) for d in live}, key=lambda P: -sum(prop_of(d) == P for d in live))
    buckets = [[] for _ in range(lanes)]
    for i, P in enumerate(props):
        buckets[i % lanes].append(P)
    os.makedirs(f'{scratch}/wt', exist_ok=True)
    with ThreadPoolExecutor(lanes) as ex:
        for out in ex.map(lane_run, [(i, b, live, scratch) for i, b in enumerate(buckets) if b]):
            res.update(out)
            json.dump(res, open(res_path, 'w'), indent=1)
    sh('git -C /repo worktree prune')
    shutil.rmtree(scratch, ignore_errors=True)
    bad = [d for d in live if not all(v.get('exit') == 1 and v.get('concrete_input') for k, v in res.get(d, {}).items() if isinstance(v, dict) and k == prop_of(d))]
    print('not reported with a concrete input by the own check:', bad)


main()
