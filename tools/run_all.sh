#!/bin/sh
# run every registered quick (or thorough) check on the current /repo, 4 at a time; usage: tools/run_all.sh [quick|thorough] [seed]
cd "$(dirname "$0")/.." || exit 2
TIER=${1:-quick}; SEED=${2:-0}
mkdir -p /tmp/w/runall
ls harness/props/c*.py | sed 's|.*/c\([0-9]*\)\.py|C\1|' | xargs -P 4 -I{} sh -c "VERIF_SEED=$SEED ./check {} --tier $TIER > /tmp/w/runall/{}.log 2>&1; echo {} \$?"
grep -h "VIOLATION\|KNOWN-FINDING\|TOOL-FAILURE" /tmp/w/runall/*.log | cut -c1-160
