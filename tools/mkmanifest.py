#!/usr/bin/env python3
"""Write MANIFEST.json from the property plug-ins that exist (harness/props/cXX.py)."""
import importlib, json, os, sys
V = os.path.dirname(os.path.dirname(os.path.abspath(__file__)))
sys.path.insert(0, os.path.join(V, 'harness'))
props = [json.loads(l) for l in open(os.path.join(V, 'properties.jsonl'))]
checks, na = [], []
PENDING = {}
for p in props:
    pid = p['id']
    f = os.path.join(V, 'harness', 'props', pid.lower() + '.py')
    if not os.path.exists(f):
        na.append({'property_id': pid, 'reason': PENDING.get(pid, 'check under construction in this session (no claim yet); the design in DESIGN.md §5 applies')})
        continue
    mod = importlib.import_module('props.' + pid.lower())
    text = ('Machine-checked Lean 4 theorems about a model tied to the source on every run. Proved for all inputs: ' + '; '.join(mod.PROVED) + '.'
            + (' Proved under named hypotheses: ' + '; '.join(mod.HYPOTHESES) + '.' if mod.HYPOTHESES else '')
            + (' Not claimed at proof level, only searched on the real code every run: ' + '; '.join(mod.MONITORED) + '.' if mod.MONITORED else ''))
    checks.append({
        'property_id': pid,
        'quick_cmd': f'./check {pid} --tier quick',
        'thorough_cmd': f'./check {pid} --tier thorough',
        'evidence_file': f'evidence/{pid}.json',
        'replay_cmd_template': f'./check {pid} --replay {{path}}',
        'engine': 'lean4-proof+correspondence',
        'level_claimed': {'category': 'proof', 'text': text, 'design_ref': f'DESIGN.md §5 {pid}'},
        'level_note': ('Trusted: Lean 4.33 kernel + propext/Classical.choice/Quot.sound; ' + getattr(mod, 'TIE', 'py2lean translator (model regenerated from /repo each run) and bit-exact Float correspondence')
                       + '. Theorems are about the real-number reading of the code; ' + '; '.join(getattr(mod, 'ASSUMPTIONS', []))),
        'technique': getattr(mod, 'TECHNIQUE', 'Lean 4 proof over a model regenerated from the source + differential correspondence'),
    })
m = {
    'version': 1,
    'setup_cmd': './check --setup',
    'hooks': {'guard': 'DHLLDV_VERIF', 'enable': 'no source hooks: all instrumentation is monkey-patching inside the harness process',
              'baseline_off_cmd': 'cd /repo && /venv/bin/python -m pytest -ra -q -p no:cacheprovider --timeout=900 --continue-on-collection-errors',
              'source_commits': [], 'add_only': True},
    'engines': [{'name': 'lean4-proof+correspondence', 'path': 'check', 'serves_properties': [c['property_id'] for c in checks],
                 'kind_free_text': 'py2lean translator -> polymorphic Lean model (R for theorems, Float for execution); lake build of Props/*.lean; #print axioms audit; line-protocol differential check against the running implementation; property oracle on the real code'}],
    'checks': checks,
    'not_applicable': na,
    'notes': 'See DESIGN.md. Genuine defects repaired by fix: commits in /repo are listed in known_findings.json (fixed entries suppress nothing).',
}
json.dump(m, open(os.path.join(V, 'MANIFEST.json'), 'w'), indent=1)
print('MANIFEST:', len(checks), 'checks,', len(na), 'not yet claimed')
