#!/usr/bin/env python3
"""Confirm every seed under /tmp/seedout/<id>/<variant> (scratch worktree: 122 tests pass with the change, demo exits
0 without / non-zero with it) and copy confirmed ones to /verif/seeded/<id>-<variant>/ with the confirmation recorded."""
import json, os, shutil, subprocess, sys
src = sys.argv[1] if len(sys.argv) > 1 else "/tmp/seedout"
only = sys.argv[2].split(',') if len(sys.argv) > 2 else None
for pid in sorted(os.listdir(src)):
    if not os.path.isdir(os.path.join(src, pid)) or (only and pid not in only):
        continue
    for var in sorted(os.listdir(os.path.join(src, pid))):
        d = os.path.join(src, pid, var)
        dst = f'/verif/seeded/{pid}-{var}'
        if not os.path.exists(os.path.join(d, 'patch.diff')) or os.path.exists(dst):
            continue
        r = subprocess.run(['/verif/tools/try_seed.py', d, '--confirm'], capture_output=True, text=True)
        try:
            res = json.loads(r.stdout)
        except Exception:
            print(pid, var, 'CONFIRM FAILED', r.stdout[-300:], r.stderr[-300:]); continue
        if not res['confirm']['ok']:
            print(pid, var, 'NOT CONFIRMED', res); continue
        os.makedirs(dst)
        for f in ('patch.diff', 'demo.py'):
            shutil.copy(os.path.join(d, f), dst)
        meta = {}
        try:
            meta = json.load(open(os.path.join(d, 'meta.json')))
        except Exception as e:
            meta = {'meta_unreadable': str(e)}
        meta['confirmed_by_verif'] = {'what_was_run': 'tools/try_seed.py --confirm: scratch git worktree of /repo HEAD; demo.py on the unchanged tree; git apply patch.diff; baseline pytest command; demo.py on the changed tree',
                                      **res['confirm'], 'repo_head': subprocess.run('git -C /repo rev-parse --short HEAD', shell=True, capture_output=True, text=True).stdout.strip()}
        json.dump(meta, open(os.path.join(dst, 'meta.json'), 'w'), indent=1)
        print(pid, var, 'ok')
