#!/usr/bin/env python3
"""Run every seeded change against the check of its own property (and any extra checks listed in EXTRA); write seeded/RESULTS.json."""
import json, os, subprocess, sys
V = '/verif'
EXTRA = {'REVERT-C12c': ['C02'], 'C01-Q': ['C07'], 'C03-H': ['C05'], 'C20-H': ['C03'], 'C01-B': ['C08'], 'C03-A': ['C07'], 'C09-B': ['C07'], 'C13-B': ['C08'], 'C20-B': ['C08'], 'C17-A': ['C07', 'C09'], 'C14-U': ['C09'], 'C15-U': ['C09']}
res = json.load(open(f'{V}/seeded/RESULTS.json')) if os.path.exists(f'{V}/seeded/RESULTS.json') and len(sys.argv) > 1 else {}
ONLY = sys.argv[1].split(',') if len(sys.argv) > 1 else None
for d in sorted(os.listdir(f'{V}/seeded')):
    p = f'{V}/seeded/{d}'
    if not os.path.isdir(p) or not os.path.exists(p + '/patch.diff'):
        continue
    if ONLY and d not in ONLY:
        continue
    try:
        if 'retired' in json.load(open(p + '/meta.json')):
            res[d] = {'retired': True}
            continue
    except Exception:
        pass
    pid = d.split('-')[1][:3] if d.startswith('REVERT') else d.split('-')[0]
    checks = [pid] + EXTRA.get(d, [])
    r = subprocess.run([f'{V}/tools/try_seed.py', p, '--checks', ','.join(checks)], capture_output=True, text=True)
    try:
        out = json.loads(r.stdout)['checks']
    except Exception:
        out = {'error': (r.stdout + r.stderr)[-500:]}
    res[d] = {c: {'exit': v['exit'], 'concrete_input': any(l.startswith('VIOLATION') and 'no-failing-input-found' not in l for l in v['lines']),
                  'summary': v['lines'][-1] if v['lines'] else ''} for c, v in out.items()} if 'error' not in out else out
    print(d, {c: (v.get('exit'), v.get('concrete_input')) for c, v in res[d].items()} if 'error' not in res[d] else res[d], flush=True)
    json.dump(res, open(f'{V}/seeded/RESULTS.json', 'w'), indent=1)
